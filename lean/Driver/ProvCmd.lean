import PytaskModel.Provisional
import Driver.Proto
import Driver.EngineCmd
/-! Line-protocol front end for M7 (directory patterns, generators). Parsing + calling the model only. -/
namespace Driver
open Pytask Pytask.Engine Pytask.Prov

structure ProvSt where
  tasks : List PTask := []                 -- statically declared tasks
  kids : List (Nat × PTask) := []          -- (generator, task it always defines)
  perFile : List (Nat × Nat) := []         -- (generator, base): one copy task `base + n` per received file `n`
  w : World := ⟨[], []⟩

/-- The generator bodies of generated projects (harness/impl/prov_api.py renders the same). -/
def provYield (st : ProvSt) : YieldFn := fun g got =>
  let fixed := (st.kids.filter (·.1 == g)).map (·.2)
  let src := match st.tasks.find? (·.id == g) with | some t => t.src | none => 0
  let per := match st.perFile.find? (·.1 == g) with
    | some (_, base) => got.flatten.map (fun n => ({ id := base + n, src := src, deps := [n], prods := [base + n] } : PTask))
    | none => []
  fixed ++ per

def pat? (s : String) : Option Pat :=
  match s.splitOn ":" with
  | [a, b, c] => do let node ← a.toNat?; let lo ← b.toNat?; let len ← c.toNat?; pure { node, lo, len }
  | _ => none

def slots? (s : String) : Option (List Slot) := (splitList s).mapM (fun x => (pat? x).map (fun p => ({ pat := p } : Slot)))

def optNat? (s : String) : Option (Option Nat) :=
  if s == "none" || s == "" then some none else s.toNat?.map some

def showLists (ls : List (List Nat)) : String := "|".intercalate (ls.map fun l => ".".intercalate (l.map toString))

def showRecv (r : Recv) : String := s!"{r.task}/{showLists r.got}/{showLists r.seen}"

def provHandle (st : ProvSt) (cmd : String) (a : Args) : ProvSt × String :=
  match cmd with
  | "prov.reset" => ({ st with tasks := [], kids := [], perFile := [] }, "ok")
  | "prov.task" =>
    match (a.get "id").toNat?, (a.get "src").toNat?, optNat? (a.get "cnt"), natList? (a.get "deps"), slots? (a.get "pdeps"),
          natList? (a.get "prods"), slots? (a.get "pprods"), natList? (a.get "after"), optNat? (a.get "parent") with
    | some id, some src, some cnt, some deps, some pdeps, some prods, some pprods, some after, some parent =>
      let t0 : PTask := { id, src, cnt, deps, pdeps, prods, pprods, after, gen := a.get "gen" == "1", fails := a.get "fails" == "1" }
      let t : PTask := { t0 with uncollectable := a.get "unc" == "1", failsLate := a.get "late" == "1" }
      match parent with
      | none => ({ st with tasks := st.tasks.filter (·.id != id) ++ [t] }, "ok")
      | some g => ({ st with kids := st.kids.filter (fun e => !(e.1 == g && e.2.id == id)) ++ [(g, t)] }, "ok")   -- keyed by (generator, name): two generators may define tasks of one name
    | _, _, _, _, _, _, _, _, _ => (st, "bad-op")
  | "prov.perfile" =>
    match (a.get "gen").toNat?, (a.get "base").toNat? with
    | some g, some b => ({ st with perFile := st.perFile.filter (·.1 != g) ++ [(g, b)] }, "ok")
    | _, _ => (st, "bad-op")
  | "prov.fs" =>
    match natPairs? (a.get "set"), natList? (a.get "del") with
    | some sets, some dels =>
      let fs := sets.foldl (fun fs (k, v) => Engine.insert fs k v) st.w.fs
      let fs := fs.filter (fun e => !dels.contains e.1)
      ({ st with w := { st.w with fs := fs } }, "ok")
    | _, _ => (st, "bad-op")
  | "prov.cleardb" => ({ st with w := { st.w with db := [] } }, "ok")
  | "prov.clearfs" => ({ st with w := { st.w with fs := [] } }, "ok")
  | "prov.world" => (st, s!"fs={showFs st.w.fs} db={showDb st.w.db}")
  | "prov.build" =>
    match natList? (a.get "picks") with
    | some picks =>
      match Prov.build (provYield st) bodyF st.tasks st.w picks with
      | .error (.notReady t) => (st, s!"illegal:not-ready:{t}")
      | .error (.unknownTask t) => (st, s!"illegal:unknown:{t}")
      | .error .leftover => (st, "illegal:leftover")
      | .ok r =>
        let reps := ",".intercalate (r.reports.map fun e => s!"{e.1}:{showOutcome e.2}")
        let recv := ";".intercalate (r.recv.map showRecv)
        ({ st with w := r.w },
         s!"ok exit={r.exit} complete={if r.complete then 1 else 0} reports={reps} log={showNats r.log} recv={recv} tasks={showNats ((r.tasks.toArray.qsort (· < ·)).toList)} fs={showFs r.w.fs}")
    | none => (st, "bad-op")
  | _ => (st, "bad-op")

end Driver
