import PytaskModel.TaskArgs
import Driver.Proto
/-!
Line-protocol front end for M5 (`PyTree.lean`, `TaskArgs.lean`). Parsing and printing only.

Trees on one line, no spaces:  `*tok` leaf · `L[t,…]` list · `U[t,…]` tuple · `D[k:t,…]` dict with
keys `i<int>` / `s<tok>` (items in the order given; the harness sends them sorted).
`tok` ranges over `[A-Za-z0-9_.-]*`. Python's `None` is the token `N` at tree level.
-/
namespace Driver
open Pytask Pytask.PyTree Pytask.TaskArgs

namespace TreeParse

def isTok (c : Char) : Bool := c.isAlphanum || c == '_' || c == '.' || c == '-'

def takeTok (cs : List Char) : String × List Char :=
  (String.ofList (cs.takeWhile isTok), cs.dropWhile isTok)

def parseKey (cs : List Char) : Option (Key × List Char) :=
  match cs with
  | 'i' :: rest =>
    let (t, r) := takeTok rest
    t.toInt?.map (fun i => (Key.int i, r))
  | 's' :: rest =>
    let (t, r) := takeTok rest
    some (Key.str t, r)
  | _ => none

mutual
def parseTree (mk : String → T String) : Nat → List Char → Option (T String × List Char)
  | 0, _ => none
  | fuel + 1, cs =>
    match cs with
    | '*' :: rest => let (t, r) := takeTok rest; some (mk t, r)
    | 'L' :: '[' :: rest => (parseSeq mk fuel rest).map (fun x => (T.list x.1, x.2))
    | 'U' :: '[' :: rest => (parseSeq mk fuel rest).map (fun x => (T.tuple x.1, x.2))
    | 'D' :: '[' :: rest => (parseItems mk fuel rest).map (fun x => (T.dict x.1, x.2))
    | _ => none
/-- after `[`: `]` or `t(,t)*]` -/
def parseSeq (mk : String → T String) : Nat → List Char → Option (List (T String) × List Char)
  | 0, _ => none
  | fuel + 1, cs =>
    match cs with
    | ']' :: rest => some ([], rest)
    | _ =>
      match parseTree mk fuel cs with
      | none => none
      | some (t, ',' :: rest) => (parseSeq mk fuel rest).map (fun x => (t :: x.1, x.2))
      | some (t, ']' :: rest) => some ([t], rest)
      | some _ => none
def parseItems (mk : String → T String) : Nat → List Char → Option (List (Key × T String) × List Char)
  | 0, _ => none
  | fuel + 1, cs =>
    match cs with
    | ']' :: rest => some ([], rest)
    | _ =>
      match parseKey cs with
      | some (k, ':' :: rest) =>
        match parseTree mk fuel rest with
        | none => none
        | some (t, ',' :: rest') => (parseItems mk fuel rest').map (fun x => ((k, t) :: x.1, x.2))
        | some (t, ']' :: rest') => some ([(k, t)], rest')
        | some _ => none
      | _ => none
end

/-- tree-level parse: the token `N` is Python's `None`. -/
def tree? (s : String) : Option (T String) :=
  let cs := s.toList
  match parseTree (fun t => if t == "N" then noneTree t else .leaf t) (cs.length + 1) cs with
  | some (t, []) => some t
  | _ => none

/-- parse without special tokens. -/
def rawTree? (s : String) : Option (T String) :=
  let cs := s.toList
  match parseTree (fun t => .leaf t) (cs.length + 1) cs with
  | some (t, []) => some t
  | _ => none

end TreeParse

namespace TreeShow

def key : Key → String
  | .int i => s!"i{i}"
  | .str s => s!"s{s}"

mutual
def tree {α : Type} (f : α → String) : T α → String
  | .leaf a => "*" ++ f a
  | .list xs => "L[" ++ ",".intercalate (treeL f xs) ++ "]"
  | .tuple xs => "U[" ++ ",".intercalate (treeL f xs) ++ "]"
  | .dict kvs => "D[" ++ ",".intercalate (treeD f kvs) ++ "]"
def treeL {α : Type} (f : α → String) : List (T α) → List String
  | [] => []
  | t :: ts => tree f t :: treeL f ts
def treeD {α : Type} (f : α → String) : List (Key × T α) → List String
  | [] => []
  | (k, t) :: kvs => (key k ++ ":" ++ tree f t) :: treeD f kvs
end

def step : Step → String
  | .idx i => s!"#{i}"
  | .key k => key k

def path (p : Path) : String := if p.isEmpty then "." else "/".intercalate (p.map step)

def optTree {α : Type} (f : α → String) : Option (T α) → String
  | some t => tree f t
  | none => "none"

def b (x : Bool) : String := if x then "1" else "0"

end TreeShow

namespace ArgsCodec
abbrev D := Decl String String
abbrev Nd := Node String String
abbrev O := Obj String String

def decl? (tok : String) : Option D :=
  match tok.toList with
  | 'v' :: r => some (.value (String.ofList r))
  | 'p' :: r => some (.path (String.ofList r))
  | 'n' :: r => some (.pyNode (String.ofList r) false)
  | 'h' :: r => some (.pyNode (String.ofList r) true)
  | 'k' :: r => some (.pickle (String.ofList r))
  | _ => none

mutual
def declTree? : T String → Option (T D)
  | .leaf a => (decl? a).map .leaf
  | .list xs => (declTreeL? xs).map .list
  | .tuple xs => (declTreeL? xs).map .tuple
  | .dict kvs => (declTreeD? kvs).map .dict
def declTreeL? : List (T String) → Option (List (T D))
  | [] => some []
  | t :: ts => match declTree? t, declTreeL? ts with
    | some t', some ts' => some (t' :: ts')
    | _, _ => none
def declTreeD? : List (Key × T String) → Option (List (Key × T D))
  | [] => some []
  | (k, t) :: kvs => match declTree? t, declTreeD? kvs with
    | some t', some kvs' => some ((k, t') :: kvs')
    | _, _ => none
end

def showDecl : D → String
  | .value v => "v" ++ v
  | .path p => "p" ++ p
  | .pyNode v false => "n" ++ v
  | .pyNode v true => "h" ++ v
  | .pickle p => "k" ++ p

def showNode : Nd → String
  | .pathNode p => "P" ++ p
  | .pickleNode p => "K" ++ p
  | .pyNode v false => "Y" ++ v
  | .pyNode v true => "H" ++ v
  | .pyTree t => "C" ++ TreeShow.tree showDecl t

def showObj : O → String
  | .val v => "v" ++ v
  | .path p => "p" ++ p
  | .rawPath p => "r" ++ p
  | .unpickled p => "u" ++ p
  | .node n => "N" ++ showNode n

/-- `-` = absent. -/
def optDeclTree? (s : String) : Option (Option (T D)) :=
  if s == "-" then some none else
  match TreeParse.rawTree? s with
  | some t => (declTree? t).map some
  | none => none

def pyVals : PyVals String := { none := "None", falsy := fun v => ["None", "0", "False", "E"].contains v }

/-- `name~default~node~product` -/
def param? (s : String) : Option (Param String String) :=
  match s.splitOn "~" with
  | [n, d, a, p] => do
    let d' ← optDeclTree? d
    let a' ← optDeclTree? a
    pure { name := n, default := d', node := a', product := p == "1" }
  | _ => none

def kwarg? (s : String) : Option (String × T D) :=
  match s.splitOn "~" with
  | [n, t] => do
    let t' ← optDeclTree? t
    match t' with
    | some t'' => pure (n, t'')
    | none => none
  | _ => none

def semis (s : String) : List String := if s == "" || s == "-" then [] else s.splitOn ";"

def func? (a : Args) : Option (Func String String) := do
  let ps ← (semis (a.get "params")).mapM param?
  let kw ← (semis (a.get "kwargs")).mapM kwarg?
  let r ← optDeclTree? (a.get "ret")
  let pr ← optDeclTree? (a.get "produces")
  pure { params := ps, retNode := r, kwargs := kw, produces := pr }

def sortDict {X : Type} (d : Dict X) : Dict X := (d.toArray.qsort (fun x y => x.1 < y.1)).toList

def showDict {X : Type} (f : X → String) (d : Dict X) : String :=
  if d.isEmpty then "-" else ";".intercalate ((sortDict d).map (fun kv => kv.1 ++ "~" ++ f kv.2))

end ArgsCodec

structure TreeSt where
  unit : Unit := ()

/--
* `tree.info t=<tree>` → `wf=… leaves=a,b struct=<tree> paths=p;q mapwp=<tree of paths> unflat=<tree|none> at=1|0`
* `tree.pair s=<tree> o=<tree> strict=0|1` → `prefix=0|1 flat=<none | t;t;…>`   (`s`, `o` arbitrary trees; their structures are compared)
* `tree.unflatten s=<tree> l=a,b,…` → `<tree>` | `none`
* `args.run params=<name~default~node~product;…> kwargs=<name~tree;…> ret=<tree|-> produces=<tree|-> [gen=1]`  (`gen=1`: task generator)
     → `collect-error` | `type-error deps=… prods=…` | `ok recv=<name~tree;…> deps=<name~nodetree;…> prods=<…>`
* `args.return ret=<tree of node tokens> out=<tree of value tokens>` → `ok|fail saved=<node~tree;…>`
     (a node token starting with `D` is provisional; one starting with `P` is a `PathNode`: saves only `s…`/`b…` leaves)
-/
def treeHandle (st : TreeSt) (cmd : String) (a : Args) : TreeSt × String :=
  let id' : String → String := fun s => s
  match cmd with
  | "tree.info" =>
    match TreeParse.tree? (a.get "t") with
    | some t =>
      let ls := leaves t
      let ps := paths t
      let atOk := (ps.zip ls).all (fun pl => match at? t pl.1 with
        | some (.leaf x) => x == pl.2
        | _ => false)
      (st, s!"wf={TreeShow.b (WF t)} leaves={",".intercalate ls} struct={TreeShow.tree (fun _ => "") (struct t)} paths={";".intercalate (ps.map TreeShow.path)} mapwp={TreeShow.tree id' (mapWithPath (fun p x => TreeShow.path p ++ "@" ++ x) t)} unflat={TreeShow.optTree id' (unflatten (struct t) ls)} at={TreeShow.b atOk}")
    | none => (st, "bad-op")
  | "tree.pair" =>
    match TreeParse.tree? (a.get "s"), TreeParse.tree? (a.get "o") with
    | some s, some o =>
      let strict := a.get "strict" == "1"
      let flat := match flattenUpTo (struct s) o with
        | some vs => if vs.isEmpty then "empty" else ";".intercalate (vs.map (TreeShow.tree id'))
        | none => "none"
      (st, s!"prefix={TreeShow.b (isPrefix strict (struct s) (struct o))} flat={flat}")
    | _, _ => (st, "bad-op")
  | "tree.unflatten" =>
    match TreeParse.tree? (a.get "s") with
    | some s => (st, TreeShow.optTree id' (unflatten s (splitList (a.get "l"))))
    | none => (st, "bad-op")
  | "args.run" =>
    match ArgsCodec.func? a with
    | some f =>
      match collectTask ArgsCodec.pyVals f with
      | .error _ => (st, "collect-error")
      | .ok t =>
        let deps := ArgsCodec.showDict (TreeShow.tree ArgsCodec.showNode) t.dependsOn
        let prods := ArgsCodec.showDict (TreeShow.tree ArgsCodec.showNode) t.produces
        match (if a.get "gen" == "1" then receivedGen f t else received f t) with
        | .error _ => (st, s!"type-error deps={deps} prods={prods}")
        | .ok r => (st, s!"ok recv={ArgsCodec.showDict (TreeShow.tree ArgsCodec.showObj) r} deps={deps} prods={prods}")
    | none => (st, "bad-op")
  | "args.return" =>
    match TreeParse.rawTree? (a.get "ret"), TreeParse.rawTree? (a.get "out") with
    | some ret, some out =>
      let isProv : String → Bool := fun n => n.startsWith "D"
      let canSave : String → T String → Bool := fun n v =>
        if n.startsWith "P" then (match v with
          | .leaf x => x.startsWith "s" || x.startsWith "b"
          | _ => false) else true
      let (s', ok) := executeReturn isProv canSave ret out (fun _ => none)
      let nodes := (leaves ret).eraseDups
      let saved := nodes.filterMap (fun n => (s' n).map (fun v => (n, v)))
      (st, s!"{if ok then "ok" else "fail"} saved={ArgsCodec.showDict (TreeShow.tree id') saved}")
    | _, _ => (st, "bad-op")
  | _ => (st, "bad-op")

end Driver
