import PytaskModel.Capture
import Driver.Proto
/-! Line-protocol front end for M10 (`PytaskModel/Capture.lean`). Parsing and printing only. -/
namespace Driver
open Pytask.Capture

structure CaptureSt where
  st : St := {}

private def dots (s : String) : Option (List Nat) :=
  if s == "" then some [] else (s.splitOn ".").mapM (·.toNat?)

private def chan? : String → Option Chan
  | "po" => some .pyOut | "pe" => some .pyErr | "f1" => some .fd1 | "f2" => some .fd2
  | "c1" => some .child1 | "c2" => some .child2 | _ => none

private def write? (s : String) : Option Write :=
  match s.splitOn ":" with
  | [c, d] => do let ch ← chan? c; let ds ← dots d; pure ⟨ch, ds⟩
  | _ => none

private def hook? : String → Option String
  | "s" => some "pytask_execute_task_setup"
  | "c" => some "pytask_execute_task"
  | "t" => some "pytask_execute_task_teardown"
  | _ => none

private def phase? (s : String) : Option (String × List Write) :=
  match s.splitOn "~" with
  | [h, ws] => do
    let hk ← hook? h
    let l ← (if ws == "" then some [] else (ws.splitOn "+").mapM write?)
    pure (hk, l)
  | _ => none

/-- `<id>/<phase>/…[/w<filters>]` -/
private def task? (s : String) : Option TaskIO :=
  match s.splitOn "/" with
  | id :: rest => do
    let i ← id.toNat?
    let fl := rest.filter (·.startsWith "w")
    let ph ← (rest.filter (fun x => !x.startsWith "w")).mapM phase?
    let f ← match fl with
      | [] => some []
      | x :: _ => dots (x.drop 1).toString
    pure { id := i, phases := ph, filt := f }
  | [] => none

private def ios? (s : String) : Option (List TaskIO) :=
  if s == "" then some [] else (s.splitOn "|").mapM task?

/-- `<id>:<decorated>:<plain>[:x]` with dot lists (`x` = the import raises) -/
private def mod? (s : String) : Option ModSpec :=
  match s.splitOn ":" with
  | [i, d, p] => do let id ← i.toNat?; let ds ← dots d; let ps ← dots p; pure ⟨id, ds, ps, false⟩
  | [i, d, p, "x"] => do let id ← i.toNat?; let ds ← dots d; let ps ← dots p; pure ⟨id, ds, ps, true⟩
  | _ => none

private def mods? (s : String) : Option (List ModSpec) :=
  if s == "" then some [] else (s.splitOn "|").mapM mod?

private def method? : String → Option Method
  | "fd" => some .fd | "sys" => some .sys | "no" => some .no | "tee-sys" => some .teeSys | _ => none

private def showData (d : Data) : String := ".".intercalate (d.map toString)

private def showStream : Stream → String
  | .orig i => s!"orig{i}"
  | .file _ _ => "file"
  | .capIO _ _ => "capio"
  | .teeIO _ _ _ => "tee"
  | .dontRead _ => "dontread"

private def showOpt : Option Nat → String
  | none => "-"
  | some f => toString f

private def showSecs (l : List Sec) : String :=
  ";".intercalate (l.map fun s => s!"{s.task}:{s.when}:{if s.err then "e" else "o"}:{showData s.text}")

/--
* `capture.reset fds=<fd>:<file>,… nfiles=<n>` → `ok`   (streams `sys.std*` are the interpreter's originals)
* `capture.build method=fd|sys|no|tee-sys mods=… ios=… cfgfail=0|1|db cfgfilters=…` → `fault=… secs=… tasks=…`
* `capture.release` → `ok`   (drop the session, `gc.collect()`)
* `capture.state` → descriptors 0-2, open count, streams, misc registries
* `capture.file f=<id>` → content
-/
def captureHandle (cs : CaptureSt) (cmd : String) (a : Args) : CaptureSt × String :=
  match cmd with
  | "capture.reset" =>
    match natIntMap? (a.get "fds"), (a.get "nfiles").toNat? with
    | some m, some n =>
      let fdt := m.foldl (fun t (e : Nat × Int) => tset t e.1 (some e.2.toNat)) []
      ({ st := { w := { os := { files := List.replicate n [], fdt := fdt } } } }, "ok")
    | _, _ => (cs, "bad-op")
  | "capture.build" =>
    match method? (a.get "method"), mods? (a.get "mods"), ios? (a.get "ios"), dots (a.get "cfgfilters") with
    | some m, some mods, some ios, some cf =>
      let cfg : Cfg := { method := m, cfgFilters := cf, configFails := a.get "cfgfail" != "" && a.get "cfgfail" != "0", failsInDatabase := a.get "cfgfail" == "db" }
      let st := runBuild cfg mods ios cs.st
      let tasks := ",".intercalate (st.tasks.map fun t => s!"{t.1}:{t.2}")
      ({ st := st }, s!"fault={if st.w.fault then 1 else 0} secs={showSecs st.secs} tasks={tasks} collectfailed={if st.collectFailed then 1 else 0}")
    | _, _, _, _ => (cs, "bad-op")
  | "capture.release" => ({ st := release {} cs.st }, "ok")
  | "capture.state" =>
    let w := cs.st.w
    (cs, s!"fd0={showOpt (w.os.fd 0)} fd1={showOpt (w.os.fd 1)} fd2={showOpt (w.os.fd 2)} count={w.os.count} "
      ++ s!"stdin={showStream w.py.stdin} stdout={showStream w.py.stdout} stderr={showStream w.py.stderr} "
      ++ s!"filters={showData w.py.filters} settrace={w.py.setTrace} pdbsaved={w.py.pdbSaved.length} "
      ++ s!"reportvars={w.py.reportVars} prov={w.py.provisional.length} collected={w.py.collected.length} fault={if w.fault then 1 else 0}")
  | "capture.file" =>
    match (a.get "f").toNat? with
    | some f => (cs, s!"data={showData (cs.st.w.os.file f)}")
    | none => (cs, "bad-op")
  | _ => (cs, "bad-op")

end Driver
