import PytaskModel.EngineCrash
import Driver.EngineCmd
/-! Line-protocol front end for the step-level engine model (C05). Parsing + calling the model only.

`crash.save` / `crash.restore`  remember / reinstate the engine world (the state before the killed build);
`crash.steps <cfg> picks=…`     the atomic updates of the build, `w<node>` = product write, `r<task>/<vertex>` = row commit;
`crash.at <cfg> picks=… k=<n>`  the engine world becomes `crashAt … k`. -/
namespace Driver
open Pytask Pytask.Engine

structure CrashSt where
  saved : World := ⟨[], []⟩

def showStep : Step → String
  | .write n _ => s!"w{n}"
  | .row t v _ => s!"r{t}/{v}"
  | .rows t rs => s!"R{t}/{rs.length}"

def crashHandle (e : EngineSt) (c : CrashSt) (cmd : String) (a : Args) : EngineSt × CrashSt × String :=
  match cmd with
  | "crash.save" => (e, { c with saved := e.w }, "ok")
  | "crash.restore" => ({ e with w := c.saved }, c, "ok")
  | "crash.steps" =>
    match parseCfg a, natList? (a.get "picks") with
    | some cfg, some picks =>
      let st := buildSteps bodyF e.P cfg e.w picks
      (e, c, s!"ok n={st.length} steps={",".intercalate (st.map showStep)}")
    | _, _ => (e, c, "bad-op")
  | "crash.at" =>
    match parseCfg a, natList? (a.get "picks"), (a.get "k").toNat? with
    | some cfg, some picks, some k =>
      let n := (buildSteps bodyF e.P cfg e.w picks).length
      let w := crashAt bodyF e.P cfg e.w picks k
      ({ e with w := w }, c, s!"ok n={n} applied={min k n} fs={showFs w.fs} db={showDb w.db}")
    | _, _, _ => (e, c, "bad-op")
  | "crash.memo" =>
    -- what `pytask_post_parse` keeps of a memo file: file=absent|garbage|good
    let parse : List UInt8 → Option Memo := fun b => if b == [1] then some [((1, 1), 1)] else none
    let file : Option (List UInt8) :=
      if a.get "file" == "absent" then none else if a.get "file" == "good" then some [1] else some [0]
    match loadMemo parse file with
    | some m => (e, c, s!"ok entries={m.length}")
    | none => (e, c, "raises")
  | _ => (e, c, "bad-op")

end Driver
