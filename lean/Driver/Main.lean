import Driver.Proto
import Driver.SorterCmd
import Driver.EngineCmd
import Driver.CaptureCmd
/-! `driver`: one request per line on stdin, one answer per line on stdout. -/
namespace Driver

structure St where
  sorter : SorterSt := {}
  engine : EngineSt := {}
  capture : CaptureSt := {}

def step (st : St) (line : String) : St × String :=
  let (cmd, args) := parseLine line
  if cmd.startsWith "sorter." || cmd.startsWith "graph." then
    let (s, out) := sorterHandle st.sorter cmd args
    ({ st with sorter := s }, out)
  else if cmd.startsWith "engine." then
    let (s, out) := engineHandle st.engine cmd args
    ({ st with engine := s }, out)
  else if cmd.startsWith "capture." then
    let (s, out) := captureHandle st.capture cmd args
    ({ st with capture := s }, out)
  else if cmd == "ping" then (st, "pong")
  else (st, "bad-op")

partial def loop (h : IO.FS.Stream) (out : IO.FS.Stream) (st : St) : IO Unit := do
  let line ← h.getLine
  if line.isEmpty then return ()
  let (st', ans) := step st line
  out.putStrLn ans
  out.flush
  loop h out st'

end Driver

def main : IO Unit := do
  Driver.loop (← IO.getStdin) (← IO.getStdout) {}
