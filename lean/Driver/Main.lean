import Driver.Proto
import Driver.SorterCmd
import Driver.EngineCmd
import Driver.TreeCmd
import Driver.ProvCmd
import Driver.HashCmd
import Driver.CollectCmd
import Driver.DryCmd
import Driver.TopCmd
import Driver.CatalogCmd
import Driver.ExprCmd
import Driver.EngineCrashCmd
import Driver.CleanCmd
import Driver.CaptureCmd
/-! `driver`: one request per line on stdin, one answer per line on stdout. -/
namespace Driver

structure St where
  sorter : SorterSt := {}
  engine : EngineSt := {}
  tree : TreeSt := {}
  prov : ProvSt := {}
  hash : HashSt := {}
  collect : CollectSt := {}
  catalog : CatalogSt := {}
  expr : ExprSt := {}
  crash : CrashSt := {}
  clean : CleanSt := {}
  capture : CaptureSt := {}

def step (st : St) (line : String) : St × String :=
  let (cmd, args) := parseLine line
  if cmd.startsWith "sorter." || cmd.startsWith "graph." then
    let (s, out) := sorterHandle st.sorter cmd args
    ({ st with sorter := s }, out)
  else if cmd == "engine.top" then
    let (s, out) := topHandle st.engine args
    ({ st with engine := s }, out)
  else if cmd.startsWith "engine." then
    let (s, out) := engineHandle st.engine cmd args
    ({ st with engine := s }, out)
  else if cmd.startsWith "tree." || cmd.startsWith "args." then
    let (s, out) := treeHandle st.tree cmd args
    ({ st with tree := s }, out)
  else if cmd.startsWith "prov." then
    let (s, out) := provHandle st.prov cmd args
    ({ st with prov := s }, out)
  else if cmd.startsWith "hash." || cmd.startsWith "path." then
    let (s, out) := hashHandle st.hash cmd args
    ({ st with hash := s }, out)
  else if cmd.startsWith "collect." then
    let (s, out) := collectHandle st.collect cmd args
    ({ st with collect := s }, out)
  else if cmd.startsWith "c10." then
    let (s, out) := dryHandle st.engine cmd args
    ({ st with engine := s }, out)
  else if cmd.startsWith "catalog." then
    let (s, out) := catalogHandle st.catalog cmd args
    ({ st with catalog := s }, out)
  else if cmd.startsWith "expr." then
    let (s, out) := exprHandle st.expr cmd args
    ({ st with expr := s }, out)
  else if cmd.startsWith "crash." then
    let (e, c, out) := crashHandle st.engine st.crash cmd args
    ({ st with engine := e, crash := c }, out)
  else if cmd.startsWith "clean." then
    let (s, out) := cleanHandle st.clean cmd args
    ({ st with clean := s }, out)
  else if cmd.startsWith "capture." then
    let (s, out) := captureHandle st.capture cmd args
    ({ st with capture := s }, out)
  else if cmd == "ping" then (st, "pong")
  else (st, "bad-op")

partial def loop (h : IO.FS.Stream) (out : IO.FS.Stream) (st : St) : IO Unit := do
  let line ← h.getLine
  if line.isEmpty then return ()
  let (st', ans) := step st line
  out.putStrLn ans
  out.flush
  loop h out st'

end Driver

def main : IO Unit := do
  Driver.loop (← IO.getStdin) (← IO.getStdout) {}
