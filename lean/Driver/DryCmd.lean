import Driver.EngineCmd
/-! Line-protocol front end for the C10 twin experiment (dry run + real build vs. real build alone) on M6.
Parsing + calling `Engine.build` only. -/
namespace Driver
open Pytask Pytask.Engine

def showIllegal : Illegal → String
  | .notReady t => s!"not-ready:{t}"
  | .unknownTask t => s!"unknown:{t}"
  | .leftover => "leftover"

def showRes (pfx : String) (r : Result) : String :=
  let reps := ",".intercalate (r.reports.map fun e => s!"{e.1}:{showOutcome e.2}")
  s!"{pfx}exit={r.exit} {pfx}complete={if r.complete then 1 else 0} {pfx}reports={reps} {pfx}log={showNats r.log} {pfx}fs={showFs r.w.fs}"

/-- `c10.twin <cfg> dpicks= apicks= bpicks=`: from the current world `w` run the dry build (`dpicks`), the real build
from the dry build's resulting world (`apicks`) and the real build from `w` (`bpicks`). `same` tells whether the dry
build returned the world it was given. The state continues with the world of the build without the dry run. -/
def dryHandle (st : EngineSt) (cmd : String) (a : Args) : EngineSt × String :=
  match cmd with
  | "c10.twin" =>
    match parseCfg a, natList? (a.get "dpicks"), natList? (a.get "apicks"), natList? (a.get "bpicks") with
    | some cfg, some dp, some ap, some bp =>
      let cfgD := { cfg with dry := true }
      let cfgR := { cfg with dry := false }
      match build bodyF st.P cfgD st.w dp with
      | .error e => (st, s!"illegal:dry:{showIllegal e}")
      | .ok d =>
        match build bodyF st.P cfgR d.w ap with
        | .error e => (st, s!"illegal:a:{showIllegal e}")
        | .ok ra =>
          match build bodyF st.P cfgR st.w bp with
          | .error e => (st, s!"illegal:b:{showIllegal e}")
          | .ok rb =>
            let same := d.w.fs == st.w.fs && d.w.db == st.w.db
            ({ st with w := rb.w },
             s!"ok same={if same then 1 else 0} {showRes "d" d} {showRes "a" ra} {showRes "b" rb} adb={showDb ra.w.db} bdb={showDb rb.w.db}")
    | _, _, _, _ => (st, "bad-op")
  | _ => (st, "bad-op")

end Driver
