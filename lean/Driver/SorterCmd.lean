import PytaskModel.Sorter
import Driver.Proto
/-! Line-protocol front end for M1/M2. -/
namespace Driver
open Pytask

structure SorterSt where
  cur : Option Sorter := none

def showErr : SortErr → String
  | .cycle => "err:cycle"
  | .badN => "err:badN"

/--
* `sorter.new nodes=… edges=a>b,… tasks=… prio=t:p,…`  → `ok nodes=… edges=…` | `err:cycle`
* `sorter.ready n=<int> got=…` → `legal` | `illegal avail=…` | `err:badN`   (and takes the batch)
* `sorter.done xs=…` → `ok`
* `sorter.recreate nodes=… edges=… tasks=… prio=…` → like `new`, keeping done/processing
* `sorter.state` → `nodes=… processing=… done=… avail=… active=0|1`
* `graph.query nodes=… edges=… v=<n>` → `anc=… desc=… cycle=0|1 kahn=0|1`
-/
def sorterHandle (st : SorterSt) (cmd : String) (a : Args) : SorterSt × String :=
  let mkG : Option G := do
    let ns ← natList? (a.get "nodes"); let es ← pairList? ">" (a.get "edges"); pure ⟨ns, es⟩
  let mkTasks : Option (Nat → Bool) := do let ts ← natList? (a.get "tasks"); pure (fun v => ts.contains v)
  let mkPrio : Option (Nat → Int) := do let m ← natIntMap? (a.get "prio"); pure (lookupD m 0)
  let srt (l : List Nat) : List Nat := (l.toArray.qsort (· < ·)).toList
  let srtP (l : List (Nat × Nat)) : List (Nat × Nat) :=
    (l.toArray.qsort (fun x y => x.1 < y.1 || (x.1 == y.1 && x.2 < y.2))).toList
  let showS (s : Sorter) : String :=
    s!"ok nodes={showNats (srt s.nodes)} edges={",".intercalate ((srtP s.edges).map fun e => s!"{e.1}>{e.2}")}"
  match cmd with
  | "sorter.new" =>
    match mkG, mkTasks, mkPrio with
    | some g, some t, some p =>
      match Sorter.fromDag g t p with
      | .ok s => ({ cur := some s }, showS s)
      | .error e => ({ cur := none }, showErr e)
    | _, _, _ => (st, "bad-op")
  | "sorter.recreate" =>
    match st.cur, mkG, mkTasks, mkPrio with
    | some old, some g, some t, some p =>
      match Sorter.fromDagAndSorter g t p old with
      | .ok s => ({ cur := some s }, showS s)
      | .error e => (st, showErr e)
    | _, _, _, _ => (st, "bad-op")
  | "sorter.ready" =>
    match st.cur, (a.get "n").toInt?, natList? (a.get "got") with
    | some s, some n, some got =>
      if n < 1 then (st, "err:badN") else
      if Sorter.legalBatchB s n.toNat got then ({ cur := some (s.take got) }, "legal")
      else (st, s!"illegal avail={showNats (srt s.avail)}")
    | _, _, _ => (st, "bad-op")
  | "sorter.done" =>
    match st.cur, natList? (a.get "xs") with
    | some s, some xs => ({ cur := some (s.finish xs) }, "ok")
    | _, _ => (st, "bad-op")
  | "sorter.state" =>
    match st.cur with
    | some s => (st, s!"nodes={showNats (srt s.nodes)} processing={showNats (srt s.processing)} done={showNats (srt s.done)} avail={showNats (srt s.avail)} active={if s.isActive then 1 else 0}")
    | none => (st, "none")
  | "graph.query" =>
    match mkG, (a.get "v").toNat? with
    | some g, some v =>
      let b (x : Bool) := if x then "1" else "0"
      (st, s!"anc={showNats (srt (g.anc v))} desc={showNats (srt (g.desc v))} cycle={b g.hasCycle} kahn={b g.hasCycleKahn}")
    | _, _ => (st, "bad-op")
  | _ => (st, "bad-op")

end Driver
