import PytaskModel.BuildTop
import Driver.Proto
import Driver.EngineCmd
/-! Line-protocol front end for `BuildTop.buildTop`: `engine.top <cfg> picks=… conf=<exc> ph=<phase>:<exc>,… unconf=<exc>`
where `<exc>` is an exception class name or `BASE!<class>`; `imp=<exc>` = raised while a task module is imported. Works on the project / world of the `engine.*` state. -/
namespace Driver
open Pytask Pytask.Engine Pytask.BuildTop

def parseExc (s : String) : Option Exc :=
  if s == "" then none
  else match s.splitOn "!" with
    | ["BASE", c] => some (.base c)      -- `BASE!SystemExit`
    | _ => some (.exn s)

def parsePhaseFaults (s : String) : String → Option Exc :=
  let l := (splitList s).filterMap (fun t => match t.splitOn ":" with
    | [p, e] => (parseExc e).map (fun x => (p, x))
    | _ => none)
  fun name => (l.find? (·.1 == name)).map (·.2)

def topHandle (st : EngineSt) (a : Args) : EngineSt × String :=
  match parseCfg a, natList? (a.get "picks") with
  | some cfg, some picks =>
    let fl : Faults := { configure := parseExc (a.get "conf"), phase := parsePhaseFaults (a.get "ph"),
                         unconfigure := parseExc (a.get "unconf"), importRaises := parseExc (a.get "imp") }
    match buildTop bodyF st.P cfg st.w picks fl with
    | .error (.notReady t) => (st, s!"illegal:not-ready:{t}")
    | .error (.unknownTask t) => (st, s!"illegal:unknown:{t}")
    | .error .leftover => (st, "illegal:leftover")
    | .ok r =>
      let reps := ",".intercalate (r.reports.map fun e => s!"{e.1}:{showOutcome e.2}")
      ({ st with w := r.w },
       s!"ok raised={if r.raised then 1 else 0} exit={r.exit} configured={if r.configured then 1 else 0} unconfigured={if r.unconfigured then 1 else 0} complete={if r.complete then 1 else 0} reports={reps} log={showNats r.log} fs={showFs r.w.fs}")
  | _, _ => (st, "bad-op")

end Driver
