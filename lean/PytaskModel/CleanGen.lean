import PytaskModel.Clean
/-!
# M8 computed from the source: interpreters of `Generated.Cln.*`

`harness/extract_cleangen.py` reads what `_RecursivePathNode.from_path`, the listing, `_yield_paths_from_task`,
`_collect_all_paths_known_to_pytask` and the loop of `clean` do *inside* into small expression trees. This file
interprets those trees (`mkNodeGen`, `listNodeGen`, `findAllUnknownGen`, `knownPathsGen`, `cleanLoopGen`, `cleanGen`)
and defines decidable checks (`checkFromPath`, `checkListing`, …) that compare the *meaning* of a tree with the
hand-written model on every assignment of its atoms. `PytaskProofs/Lemmas/CleanGenRefines.lean` proves: a spec that
passes its check makes the interpreter equal to `mkNode` / `listNode` / … for all inputs; `Properties/CleanTie.lean`
discharges the checks for the generated terms by evaluation.
-/
namespace Pytask.CleanGen
open Pytask.Clean Pytask.Generated Pytask.Generated.Cln

def allB (f : Bool → Bool) : Bool := f true && f false

/-! ## `from_path` -/

/-- An expression about a sub node, on the values of its atoms (`is_unknown`, `is_file`, `is_dir`, `bool(sub_nodes)`). -/
def evalSA (u f d h : Bool) : SExp → Bool
  | .atom .unknown => u
  | .atom .isFile => f
  | .atom .isDir => d
  | .atom .hasSubs => h
  | .tt => true
  | .ff => false
  | .not a => !evalSA u f d h a
  | .and a b => evalSA u f d h a && evalSA u f d h b
  | .or a b => evalSA u f d h a || evalSA u f d h b
  | .ite c a b => if evalSA u f d h c then evalSA u f d h a else evalSA u f d h b

def evalS (n : Node) (e : SExp) : Bool := evalSA n.isUnknown n.isFile n.isDir (!n.subNodes.isEmpty) e

structure NCtx where
  isFile : Bool
  isDir : Bool
  known : Bool
  excl : Bool

def evalN (c : NCtx) (subs : List Node) : NExp → Bool
  | .isFile => c.isFile
  | .isDir => c.isDir
  | .known => c.known
  | .excl => c.excl
  | .allSub e => subs.all (evalS · e)
  | .anySub e => subs.any (evalS · e)
  | .tt => true
  | .ff => false
  | .not a => !evalN c subs a
  | .and a b => evalN c subs a && evalN c subs b
  | .or a b => evalN c subs a || evalN c subs b
  | .ite g a b => if evalN c subs g then evalN c subs a else evalN c subs b

/-- The node `from_path` builds, given what the file system shows (`isFile`, `isDir`) and the sub nodes. -/
def nodeOf (spec : FromPath) (c : NCtx) (path : Path) (subs : List Node) : Node :=
  .mk path subs (evalN c subs spec.isDirField) (evalN c subs spec.isFileField) (evalN c subs spec.unknown)

mutual
/-- `_RecursivePathNode.from_path` run from its extracted structure. -/
def mkNodeGen (spec : FromPath) (known excl : Path → Bool) (path : Path) : FTree → Node
  | .file _ => nodeOf spec ⟨true, false, known path, excl path⟩ path []
  | .dir _ cs =>
    let c : NCtx := ⟨false, true, known path, excl path⟩
    nodeOf spec c path (if evalN c [] spec.spawn then mkNodesGen spec known excl path cs else [])
def mkNodesGen (spec : FromPath) (known excl : Path → Bool) (parent : Path) : List FTree → List Node
  | [] => []
  | c :: cs => mkNodeGen spec known excl (parent ++ [c.name]) c :: mkNodesGen spec known excl parent cs
end

def mkNodeAtGen (spec : FromPath) (fs : FTree) (known excl : Path → Bool) (path : Path) : Node :=
  match subtree fs path with
  | some t => mkNodeGen spec known excl path t
  | none => nodeOf spec ⟨false, false, known path, excl path⟩ path []

/-- `e` means "the sub node is unknown" / "the sub node is not unknown", on all 16 assignments. -/
def sIsUnknown (e : SExp) : Bool := allB fun u => allB fun f => allB fun d => allB fun h => evalSA u f d h e == u
def sIsNotUnknown (e : SExp) : Bool := allB fun u => allB fun f => allB fun d => allB fun h => evalSA u f d h e == !u

/-- Every quantifier over the sub nodes is `all(unknown)` or `any(not unknown)`. -/
def okQ : NExp → Bool
  | .allSub e => sIsUnknown e
  | .anySub e => sIsNotUnknown e
  | .not a => okQ a
  | .and a b => okQ a && okQ b
  | .or a b => okQ a && okQ b
  | .ite g a b => okQ g && okQ a && okQ b
  | _ => true

/-- Evaluation when all that matters of the sub nodes is whether all of them are unknown. -/
def evalQ (c : NCtx) (allU : Bool) : NExp → Bool
  | .isFile => c.isFile
  | .isDir => c.isDir
  | .known => c.known
  | .excl => c.excl
  | .allSub _ => allU
  | .anySub _ => !allU
  | .tt => true
  | .ff => false
  | .not a => !evalQ c allU a
  | .and a b => evalQ c allU a && evalQ c allU b
  | .or a b => evalQ c allU a || evalQ c allU b
  | .ite g a b => if evalQ c allU g then evalQ c allU a else evalQ c allU b

/-- (is_file, is_dir) of a file, a directory, a path that does not exist. -/
def kinds : List (Bool × Bool) := [(true, false), (false, true), (false, false)]

/-- The extracted `from_path` means what `mkNode` says: children exactly for non-excluded directories, the
fields `is_dir` / `is_file`, `is_unknown = file ∧ ¬(known ∨ excluded)  ∨  dir ∧ all children unknown ∧ ¬excluded`. -/
def checkFromPath (spec : FromPath) : Bool :=
  okQ spec.spawn && okQ spec.isDirField && okQ spec.isFileField && okQ spec.unknown &&
  kinds.all fun k => allB fun kn => allB fun ex => allB fun allU =>
    let c : NCtx := ⟨k.1, k.2, kn, ex⟩
    (evalQ c allU spec.spawn == (k.2 && !ex)) &&
    (evalQ c allU spec.isDirField == k.2) &&
    (evalQ c allU spec.isFileField == k.1) &&
    (evalQ c allU spec.unknown == ((k.1 && !(kn || ex)) || (k.2 && allU && !ex)))

/-! ## the listing -/

def evalL (unk isFile isDir incl : Bool) : LExp → Bool
  | .unknown => unk
  | .isFile => isFile
  | .isDir => isDir
  | .incl => incl
  | .tt => true
  | .ff => false
  | .not a => !evalL unk isFile isDir incl a
  | .and a b => evalL unk isFile isDir incl a && evalL unk isFile isDir incl b
  | .or a b => evalL unk isFile isDir incl a || evalL unk isFile isDir incl b
  | .ite g a b => if evalL unk isFile isDir incl g then evalL unk isFile isDir incl a else evalL unk isFile isDir incl b

mutual
/-- `_find_all_unknown_paths_per_recursive_node` run from its extracted structure. -/
def listNodeGen (spec : Listing) (d : Bool) : Node → List Path
  | .mk p sub isDir isFile unk =>
    (if evalL unk isFile isDir d spec.yieldSelf then [p] else []) ++
    (if evalL unk isFile isDir d spec.descend then listNodesGen spec d sub else [])
def listNodesGen (spec : Listing) (d : Bool) : List Node → List Path
  | [] => []
  | n :: ns => listNodeGen spec d n ++ listNodesGen spec d ns
end

def checkListing (spec : Listing) : Bool :=
  allB fun unk => allB fun f => allB fun dr => allB fun d =>
    (evalL unk f dr d spec.yieldSelf == (unk && (f || (dr && d)))) &&
    (evalL unk f dr d spec.descend == !(unk && (f || (dr && d))))

def checkFindAll (fa : FindAll) : Bool := fa.rootsKey == "paths" && fa.chained

/-- `_find_all_unknown_paths` run from the extracted structures; `cfgPaths` is `session.config["paths"]`. -/
def findAllUnknownGen (fp : FromPath) (ls : Listing) (fa : FindAll) (fs : FTree) (known excl : Path → Bool)
    (cfgPaths : List Path) (d : Bool) : List Path :=
  if fa.rootsKey == "paths" && fa.chained then
    cfgPaths.flatMap fun r => listNodeGen ls d (mkNodeAtGen fp fs known excl r)
  else []

/-! ## known paths -/

/-- The concrete classes a leaf of `depends_on` / `produces` can have, as far as `pytask clean` can tell them apart. -/
inductive NodeClass where
  | pathNode          -- `pytask.PathNode` (also what a plain `Path` is collected as)
  | pickleNode        -- `pytask.PickleNode`
  | customPathNode    -- a user-defined class with the attributes and methods of the `PPathNode` protocol
  | directoryNode     -- `pytask.DirectoryNode`
  | pythonNode        -- `pytask.PythonNode` (no path)
  deriving DecidableEq, Repr

def NodeClass.all : List NodeClass := [.pathNode, .pickleNode, .customPathNode, .directoryNode, .pythonNode]

def NodeClass.pyName : NodeClass → String
  | .pathNode => "PathNode"
  | .pickleNode => "PickleNode"
  | .customPathNode => ""
  | .directoryNode => "DirectoryNode"
  | .pythonNode => "PythonNode"

/-- Declared super classes, transitively (from `Generated.Cln.classBases`). -/
def supers : Nat → String → List String
  | 0, _ => []
  | fuel + 1, c =>
    let bs := (classBases.lookup c).getD []
    bs ++ bs.flatMap (supers fuel)

/-- `isinstance(node, <test>)`. The node protocols are `runtime_checkable`: a user-defined class with the right
members is an instance of `PPathNode` and `PNode` without deriving from them. -/
def isInstance (c : NodeClass) (test : String) : Bool :=
  match c with
  | .customPathNode => test == "PPathNode" || test == "PNode"
  | _ => (c.pyName :: supers 4 c.pyName).contains test

structure Leaf where
  cls : NodeClass
  path : Path               -- `node.path` (meaningless for classes without a path)
  collected : List Path     -- `node.collect()` of a provisional node
  deriving Repr

structure TaskX where
  isWithPath : Bool         -- `isinstance(task, PTaskWithPath)`
  path : Path
  dependsOn : List Leaf     -- `tree_leaves(task.depends_on)`
  produces : List Leaf
  deriving Repr

/-- A session whose tasks still carry their nodes with classes; `base` holds everything else (its `taskPaths`,
`nodePaths`, `provisionalPaths` are ignored). -/
structure SessionX where
  base : Session
  tasks : List TaskX

def implementsPPath : NodeClass → Bool
  | .pathNode | .pickleNode | .customPathNode => true
  | _ => false

def TaskX.leaves (t : TaskX) : List Leaf := t.dependsOn ++ t.produces

/-- The session of the hand-written model: paths of all leaves that implement `PPathNode`; what the directory nodes collect. -/
def SessionX.toSession (sx : SessionX) : Session :=
  { sx.base with
    taskPaths := (sx.tasks.filter (·.isWithPath)).map (·.path),
    nodePaths := (sx.tasks.flatMap TaskX.leaves).filter (fun l => implementsPPath l.cls) |>.map (·.path),
    provisionalPaths := (sx.tasks.flatMap TaskX.leaves).filter (fun l => l.cls == .directoryNode) |>.flatMap (·.collected) }

def armAction (arms : List (String × YAct)) (c : NodeClass) : Option YAct :=
  (arms.find? fun a => isInstance c a.1).map (·.2)

def yieldLeaf (arms : List (String × YAct)) (l : Leaf) : List Path :=
  match armAction arms l.cls with
  | some .path => [l.path]
  | some .collect => l.collected
  | none => []

def attrLeaves (t : TaskX) (a : String) : List Leaf :=
  if a == "depends_on" then t.dependsOn else if a == "produces" then t.produces else []

/-- `_yield_paths_from_task` run from its extracted structure. -/
def yieldTask (yp : YieldPaths) (t : TaskX) : List Path :=
  (if yp.taskTest == "PTask" || (yp.taskTest == "PTaskWithPath" && t.isWithPath) then [t.path] else []) ++
  yp.attrs.flatMap fun a => (attrLeaves t a).flatMap (yieldLeaf yp.arms)

def expectedAction (c : NodeClass) : Option YAct :=
  if implementsPPath c then some .path
  else if c == .directoryNode && cleanKnowsProvisional then some .collect
  else none

def checkYield (yp : YieldPaths) : Bool :=
  yp.taskTest == "PTaskWithPath" &&
  yp.attrs.contains "depends_on" && yp.attrs.contains "produces" &&
  yp.attrs.all (fun a => a == "depends_on" || a == "produces") &&
  NodeClass.all.all fun c => armAction yp.arms c == expectedAction c

def knownFilesGen (yp : YieldPaths) (sx : SessionX) : List Path := sx.tasks.flatMap (yieldTask yp)

/-- `_collect_all_paths_known_to_pytask` run from the extracted list of contributions. -/
def knownPathsGen (ops : List KOp) (yp : YieldPaths) (sx : SessionX) : List Path :=
  ops.flatMap fun
    | .taskPaths => knownFilesGen yp sx
    | .parentsOfFiles => (knownFilesGen yp sx).flatMap parents
    | .config _ => sx.base.config.toList
    | .root => [sx.base.root]
    | .git => gitKnown sx.base

def checkKnownOps (ops : List KOp) : Bool :=
  ops.contains .taskPaths && ops.contains .parentsOfFiles && (ops.contains (.config true) || ops.contains (.config false)) &&
  ops.contains .root && ops.contains .git

def isKnownGen (ops : List KOp) (yp : YieldPaths) (sx : SessionX) (p : Path) : Bool := (knownPathsGen ops yp sx).contains p

/-! ## the command loop -/

def evalM (confirm quiet isDir : Bool) : MExp → Bool
  | .confirm => confirm
  | .quiet => quiet
  | .isDir => isDir
  | .tt => true
  | .ff => false
  | .not a => !evalM confirm quiet isDir a
  | .and a b => evalM confirm quiet isDir a && evalM confirm quiet isDir b
  | .or a b => evalM confirm quiet isDir a || evalM confirm quiet isDir b
  | .ite g a b => if evalM confirm quiet isDir g then evalM confirm quiet isDir a else evalM confirm quiet isDir b

def modeName : Mode → String
  | .dryRun => "dry-run"
  | .force => "force"
  | .interactive => "interactive"

/-- One iteration of the loop for `p`: what is printed / asked, and the tree afterwards. -/
def stepGen (beh : ModeBeh) (quiet : Bool) (yes : Path → Bool) (p : Path) (fs : FTree) : List Event × FTree :=
  let isDir := ((subtree fs p).map FTree.isDir).getD false
  let ev := evalM (yes p) quiet isDir
  ((if ev beh.would then [Event.would p] else []) ++ (if ev beh.asks then [Event.asked p] else []) ++
    (if ev beh.printsRemove then [Event.removed p] else []),
   if ev beh.rmtree || ev beh.unlink then removeAt fs p else fs)

/-- The loop of `clean` run from the behaviour extracted for every mode. -/
def cleanLoopGen (spec : List (String × ModeBeh)) (mode : Mode) (quiet : Bool) (yes : Path → Bool) :
    List Path → FTree → List Event × FTree
  | [], fs => ([], fs)
  | p :: ps, fs =>
    match spec.lookup (modeName mode) with
    | none => ([], fs)
    | some beh =>
      let s := stepGen beh quiet yes p fs
      let r := cleanLoopGen spec mode quiet yes ps s.2
      (s.1 ++ r.1, r.2)

def behOk (mode : Mode) (beh : ModeBeh) : Bool :=
  allB fun cf => allB fun q => allB fun dr =>
    let ev := evalM cf q dr
    match mode with
    | .dryRun => ev beh.would && !ev beh.asks && !ev beh.printsRemove && !ev beh.rmtree && !ev beh.unlink
    | .force => !ev beh.would && !ev beh.asks && (ev beh.printsRemove == !q) && (ev beh.rmtree == dr) && (ev beh.unlink == !dr)
    | .interactive => !ev beh.would && ev beh.asks && (ev beh.printsRemove == (cf && !q)) && (ev beh.rmtree == (cf && dr)) &&
        (ev beh.unlink == (cf && !dr))

/-- Dry-run only prints; force removes everything, with `rmtree` for directories and `unlink` otherwise, and prints
unless `--quiet`; interactive asks for every path and removes the confirmed ones. -/
def checkModeLoop (spec : List (String × ModeBeh)) : Bool :=
  [Mode.dryRun, Mode.force, Mode.interactive].all fun m =>
    match spec.lookup (modeName m) with
    | some beh => behOk m beh
    | none => false

def checkCommandArgs (a : CommandArgs) : Bool :=
  a.known == "_collect_all_paths_known_to_pytask(session)" && a.exclude == "session.config['exclude']" &&
  a.dirs == "session.config['directories']" && a.loopOver == "_find_all_unknown_paths"

/-- The unknown paths of the command, everything computed from the extracted structures. -/
def unknownPathsGen (sx : SessionX) (fs : FTree) : List Path :=
  findAllUnknownGen fromPath listing findAll fs (isKnownGen knownOps yieldPaths sx) (isExcluded sx.base)
    sx.base.paths sx.base.directories

/-- `pytask clean` computed from the extracted structures. -/
def cleanGen (mode : Mode) (quiet : Bool) (yes : Path → Bool) (sx : SessionX) (fs : FTree) : List Event × FTree :=
  if checkCommandArgs commandArgs then cleanLoopGen modeLoop mode quiet yes (unknownPathsGen sx fs) fs else ([], fs)

end Pytask.CleanGen
