import PytaskModel.Generated
/-!
# M8 — `pytask clean` (`clean.py:64-72,176-323`, `git.py`, `config.py:80-86`)

Executable model, core Lean only.

* §1 `pmatch` — `PurePosixPath.match` of CPython 3.12 (`pathlib.py`: `_compile_pattern_lines`, `fnmatch.translate`):
  the pattern is parsed as a path, every component is translated by `fnmatch.translate`, the pieces are joined with
  the path separator playing the role of the newline of `_lines`, and the resulting regular expression is matched
  (`re.match`, absolute pattern) or searched at every line start (`re.search` with `re.MULTILINE`, relative
  pattern). Faithful to the quirks: `*` alone is `.+`, `*` inside a component is `.*`, a negated set `[!x]` also
  matches the separator, interior `STAR fixed` pairs are atomic groups `(?>.*?fixed)`.
* §2 the file tree, `_RecursivePathNode.from_path` (`mkNode`), `_find_all_unknown_paths` (`findAllUnknown`).
* §3 `_collect_all_paths_known_to_pytask` (`knownPaths`) with git as data (`Git`), `pytask_parse_config` (`configExclude`).
* §4 the command loop (`clean`).

Names are `List Char`, paths are lists of components of an absolute POSIX path (`[]` is `/`). A path may contain
`..` components: `git.get_root` returns `cwd / cdup` unresolved and pathlib compares paths component-wise.
-/
namespace Pytask.Clean

abbrev Name := List Char
abbrev Path := List Name
abbrev Pattern := List Char

/-- The path separator; in `_lines` it is swapped with the newline, so it is what `.` does not match. -/
def sep : Char := '/'

/-! ## §1 `PurePosixPath.match` -/

/-- A one-character matcher of the compiled regular expression. -/
inductive CM where
  | lit (c : Char)                                  -- `re.escape(c)`
  | dot                                             -- `.` (no DOTALL: anything but the line separator)
  | cls (neg : Bool) (ranges : List (Char × Char))  -- `[...]` / `[^...]`; a literal `c` is the range `(c, c)`
  | never                                           -- `(?!)`
  deriving Repr, DecidableEq

def CM.test : CM → Char → Bool
  | .lit c, x => x == c
  | .dot, x => x != sep
  | .cls neg rs, x =>
    -- in `_lines` the separator is the newline (code 10): ranges are compared against that code
    let n := if x == sep then 10 else x.toNat
    (rs.any fun r => r.1.toNat ≤ n && n ≤ r.2.toNat) != neg
  | .never, _ => false

/-- Split at the first `]`: `(before, after)`. -/
def splitClose : List Char → Option (List Char × List Char)
  | [] => none
  | c :: cs => if c == ']' then some ([], cs) else (splitClose cs).map fun ab => (c :: ab.1, ab.2)

/-- `fnmatch.translate`, the `[` branch: `j = i; skip '!'; skip ']'; advance to the next ']'`.
Returns `pat[i:j]` and `pat[j+1:]`, or `none` when there is no closing bracket. -/
def bracketStuff (s : List Char) : Option (List Char × List Char) :=
  let p1 := if s.head? == some '!' then (['!'], s.tail) else ([], s)
  let p2 := if p1.2.head? == some ']' then (p1.1 ++ [']'], p1.2.tail) else p1
  (splitClose p2.2).map fun ab => (p2.1 ++ ab.1, ab.2)

/-- `s.find(c, k)`. -/
def findFrom (s : List Char) (c : Char) (k : Nat) : Option Nat :=
  match (s.drop k).findIdx? (· == c) with
  | some i => some (k + i)
  | none => none

/-- The `while True: k = pat.find('-', k, j) …` loop (indices relative to `stuff`). -/
def chunkLoop (s : List Char) : Nat → Nat → Nat → List (List Char) → List (List Char) × Nat
  | 0, i, _, acc => (acc, i)
  | fuel + 1, i, k, acc =>
    match findFrom s '-' k with
    | none => (acc, i)
    | some k' => chunkLoop s fuel (k' + 1) (k' + 3) (acc ++ [(s.drop i).take (k' - i)])

def chunks (s : List Char) : List (List Char) :=
  let k0 := if s.head? == some '!' then 2 else 1
  let r := chunkLoop s (s.length + 1) 0 k0 []
  let last := s.drop r.2
  if last.isEmpty then
    match r.1.reverse with
    | [] => []
    | l :: pre => pre.reverse ++ [l ++ ['-']]
  else r.1 ++ [last]

/-- "Remove empty ranges -- invalid in RE": `for k in range(len(chunks)-1, 0, -1)`. -/
def mergeEmpty : List (List Char) → List (List Char)
  | [] => []
  | a :: rest =>
    match mergeEmpty rest with
    | [] => [a]
    | b :: rs =>
      if (a.getLast?.getD 'x').toNat > (b.head?.getD 'x').toNat then (a.dropLast ++ b.tail) :: rs
      else a :: b :: rs

/-- The text between the brackets as `re` sees it: `(c, true)` is the unescaped hyphen joining two chunks,
every other character is a (possibly escaped) literal. -/
def classTokens (stuff : List Char) : List (Char × Bool) :=
  if stuff.contains '-' then
    (mergeEmpty (chunks stuff)).map (·.map fun c => (c, false)) |>.intersperse [('-', true)] |>.flatten
  else stuff.map fun c => (c, false)

/-- `sre_parse` on the inside of a character class: `item` or `item-item`. -/
def parseSet : Nat → List (Char × Bool) → List (Char × Char)
  | 0, _ => []
  | _, [] => []
  | fuel + 1, (c, _) :: rest =>
    match rest with
    | (_, true) :: [] => [(c, c), ('-', '-')]
    | (_, true) :: (d, _) :: rest' => (c, d) :: parseSet fuel rest'
    | _ => (c, c) :: parseSet fuel rest

def classItem (stuff : List Char) : CM :=
  let toks := classTokens stuff
  match toks with
  | [] => .never
  | (c, _) :: rest =>
    if c == '!' then (if rest.isEmpty then .dot else .cls true (parseSet rest.length rest))
    else .cls false (parseSet toks.length toks)

/-- First loop of `fnmatch.translate`; `none` is `STAR`. -/
def tokenize : Nat → List Char → Bool → List (Option CM)
  | 0, _, _ => []
  | _, [], _ => []
  | fuel + 1, c :: cs, prevStar =>
    if c == '*' then (if prevStar then tokenize fuel cs true else none :: tokenize fuel cs true)
    else if c == '?' then some .dot :: tokenize fuel cs false
    else if c == '[' then
      match bracketStuff cs with
      | none => some (.lit '[') :: tokenize fuel cs false
      | some (stuff, rest) => some (classItem stuff) :: tokenize fuel rest false
    else some (.lit c) :: tokenize fuel cs false

/-- A piece of the regular expression. -/
inductive RItem where
  | one (m : CM)
  | star                       -- `.*`
  | plus                       -- `.+`  (a component that is exactly `*`)
  | atomic (fixed : List CM)   -- `(?>.*?fixed)`
  deriving Repr, DecidableEq

def takeFixed : List (Option CM) → List CM × List (Option CM)
  | some m :: rest => let r := takeFixed rest; (m :: r.1, r.2)
  | l => ([], l)

/-- "Now deal with STAR fixed STAR fixed ..." -/
def groupStars : Nat → List (Option CM) → List RItem
  | 0, _ => []
  | _, [] => []
  | fuel + 1, _ :: rest =>
    let r := takeFixed rest
    if r.2.isEmpty then .star :: r.1.map .one
    else .atomic r.1 :: groupStars fuel r.2

/-- `fnmatch.translate(part)[_FNMATCH_SLICE]`. -/
def translate (part : List Char) : List RItem :=
  let toks := tokenize (part.length + 1) part false
  let r := takeFixed toks
  r.1.map .one ++ groupStars (toks.length + 1) r.2

/-- `.*` followed by `f`: some split whose first part is free of separators. -/
def tryFrom (f : List Char → Bool) : List Char → Bool
  | [] => f []
  | c :: cs => f (c :: cs) || (c != sep && tryFrom f cs)

def matchFixed : List CM → List Char → Option (List Char)
  | [], s => some s
  | _ :: _, [] => none
  | m :: ms, c :: cs => if m.test c then matchFixed ms cs else none

/-- `(?>.*?fixed)`: the shortest separator-free prefix after which `fixed` matches; no backtracking. -/
def atomicFind (fixed : List CM) : List Char → Option (List Char)
  | [] => matchFixed fixed []
  | c :: cs =>
    match matchFixed fixed (c :: cs) with
    | some r => some r
    | none => if c != sep then atomicFind fixed cs else none

/-- Match the items and then `\Z`. -/
def matchItems : List RItem → List Char → Bool
  | [], s => s.isEmpty
  | .one m :: rest, s =>
    match s with
    | c :: cs => m.test c && matchItems rest cs
    | [] => false
  | .star :: rest, s => tryFrom (matchItems rest) s
  | .plus :: rest, s =>
    match s with
    | c :: cs => c != sep && tryFrom (matchItems rest) cs
    | [] => false
  | .atomic fixed :: rest, s =>
    match atomicFind fixed s with
    | some r => matchItems rest r
    | none => false

/-- `str.split('/')`. -/
def splitSlash : List Char → List (List Char)
  | [] => [[]]
  | c :: cs =>
    if c == sep then [] :: splitSlash cs
    else match splitSlash cs with
      | [] => [[c]]
      | h :: t => (c :: h) :: t

/-- `PurePosixPath(pattern)`: root and tail (`x and x != '.'`). The POSIX `//` root is not modelled. -/
def parsePattern (pat : Pattern) : Bool × List Name :=
  (pat.head? == some sep, (splitSlash pat).filter fun c => !c.isEmpty && c != ['.'])

/-- `_compile_pattern_lines` on the tail: every component but the last carries its line separator. -/
def compileComps : List Name → List RItem
  | [] => []
  | [c] => if c == ['*'] then [.plus] else translate c
  | c :: cs => (if c == ['*'] then [.plus, .one (.lit sep)] else translate (c ++ [sep])) ++ compileComps cs

def compile (abs : Bool) (comps : List Name) : List RItem :=
  (if abs then [.one (.lit sep)] else []) ++ compileComps comps

/-- `str(path)` of an absolute path. -/
def pathStr : Path → List Char
  | [] => [sep]
  | p => p.flatMap fun c => sep :: c

/-- `^` under `re.MULTILINE`: after every separator. -/
def searchAfterSep (items : List RItem) : List Char → Bool
  | [] => false
  | c :: cs => (c == sep && matchItems items cs) || searchAfterSep items cs

def search (items : List RItem) (s : List Char) : Bool :=
  matchItems items s || searchAfterSep items s

/-- `PurePosixPath(path).match(pat)` for an absolute normalised `path`. An empty relative pattern makes pathlib
raise `ValueError`; the model answers `false` (the command then fails without removing anything). -/
def pmatch (path : Path) (pat : Pattern) : Bool :=
  let pp := parsePattern pat
  let items := compile pp.1 pp.2
  if pp.1 then matchItems items (pathStr path)
  else if pp.2.isEmpty then false
  else search items (pathStr path)

/-- `path.as_posix()` of an absolute path. -/
def asPosix (p : Path) : Pattern := pathStr p

/-! ## §2 the file tree and `_RecursivePathNode` -/

inductive FTree where
  | file (name : Name)
  | dir (name : Name) (children : List FTree)
  deriving Repr, BEq

def FTree.name : FTree → Name
  | .file n => n
  | .dir n _ => n

def FTree.isDir : FTree → Bool
  | .file _ => false
  | .dir _ _ => true

def FTree.isFile (t : FTree) : Bool := !t.isDir

def FTree.children : FTree → List FTree
  | .file _ => []
  | .dir _ cs => cs

def findChild (n : Name) : List FTree → Option FTree
  | [] => none
  | c :: cs => if c.name = n then some c else findChild n cs

/-- The entry at relative path `rel` below `t` (`[]` is `t` itself). -/
def subtree : FTree → Path → Option FTree
  | t, [] => some t
  | t, n :: rest =>
    match findChild n t.children with
    | some c => subtree c rest
    | none => none

/-- `_RecursivePathNode`. -/
inductive Node where
  | mk (path : Path) (subNodes : List Node) (isDir isFile isUnknown : Bool)
  deriving Repr

def Node.path : Node → Path | .mk p _ _ _ _ => p
def Node.subNodes : Node → List Node | .mk _ s _ _ _ => s
def Node.isDir : Node → Bool | .mk _ _ d _ _ => d
def Node.isFile : Node → Bool | .mk _ _ _ f _ => f
def Node.isUnknown : Node → Bool | .mk _ _ _ _ u => u

mutual
/-- `_RecursivePathNode.from_path(path, known_paths, exclude)` where `t` is what the file system shows at `path`
(`known p` is `p in known_paths`, `excl p` is `any(p.match(pattern) for pattern in exclude)`). -/
def mkNode (known excl : Path → Bool) (path : Path) : FTree → Node
  | .file _ =>
    -- sub_nodes = [] (not a directory); is_unknown_file = is_file and not (known or excluded)
    .mk path [] false true (!(known path || excl path))
  | .dir _ cs =>
    let sub := if excl path then [] else mkNodes known excl path cs
    -- is_unknown_directory = is_dir and all(sub.is_unknown) and not excluded
    .mk path sub true false (sub.all Node.isUnknown && !excl path)
/-- `[from_path(p, …) for p in path.iterdir()]`. -/
def mkNodes (known excl : Path → Bool) (parent : Path) : List FTree → List Node
  | [] => []
  | c :: cs => mkNode known excl (parent ++ [c.name]) c :: mkNodes known excl parent cs
end

mutual
/-- `_find_all_unknown_paths_per_recursive_node`. -/
def listNode (d : Bool) : Node → List Path
  | .mk p sub isDir isFile unk =>
    if unk && (isFile || (isDir && d)) then [p] else listNodes d sub
def listNodes (d : Bool) : List Node → List Path
  | [] => []
  | n :: ns => listNode d n ++ listNodes d ns
end

/-- `from_path` for one of the given paths: a path that does not exist is neither a file nor a directory. -/
def mkNodeAt (fs : FTree) (known excl : Path → Bool) (path : Path) : Node :=
  match subtree fs path with
  | some t => mkNode known excl path t
  | none => .mk path [] false false false

/-- `_find_all_unknown_paths(session, known_paths, exclude, include_directories)`; `fs` is the directory `/`. -/
def findAllUnknown (fs : FTree) (known excl : Path → Bool) (roots : List Path) (d : Bool) : List Path :=
  roots.flatMap fun r => listNode d (mkNodeAt fs known excl r)

/-! ## §3 known paths, git, configuration -/

/-- Git as data: whether the executable exists, the top-level directory of the repository that contains the
project root (`none`: not inside a work tree), and the index (tracked and staged files) relative to the top. -/
structure Git where
  installed : Bool
  top : Option Path
  tracked : List Path
  deriving Repr

structure Session where
  root : Path                 -- config["root"]
  config : Option Path        -- config["config"]
  paths : List Path           -- config["paths"]
  taskPaths : List Path       -- task.path of every collected PTaskWithPath
  nodePaths : List Path       -- node.path of every PPathNode among depends_on / produces
  provisionalPaths : List Path := []   -- what the provisional nodes (DirectoryNode) among them collect
  userExclude : List Pattern  -- config["exclude"] before pytask_parse_config (CLI / configuration file)
  directories : Bool
  git : Git
  deriving Repr

/-- `path.parents`. -/
def parents : Path → List Path
  | p => (List.range p.length).map fun k => p.take k

/-- `git.get_root(cwd)`: `Path(cwd) / stdout.strip()` where stdout is `../` × depth (empty when git fails). -/
def gitRoot (g : Git) (cwd : Path) : Path :=
  match g.top with
  | none => cwd
  | some top => if Generated.gitRootResolved then top else cwd ++ List.replicate (cwd.length - top.length) "..".toList

/-- `git.get_all_files(cwd)`: `git ls-files -z [--full-name]` run in `cwd` (a directory of the work tree, given by
its real location): index entries below `cwd`, relative to `cwd` (or to the top with `--full-name`). -/
def lsFiles (g : Git) (cwd : Path) : List Path :=
  match g.top with
  | none => []
  | some top =>
    let rel := cwd.drop top.length
    let below := g.tracked.filter fun t => rel.isPrefixOf t
    if Generated.gitLsFilesFullName then below else below.map (·.drop rel.length)

/-- The git block of `_collect_all_paths_known_to_pytask` (`clean.py:196-205`). -/
def gitKnown (s : Session) : List Path :=
  if s.git.installed then
    let gr := gitRoot s.git s.root
    let lsCwd := if Generated.gitLsFilesCwd == "git_root" then (s.git.top.getD s.root) else s.root
    let base := if Generated.gitJoinBase == "root" then s.root else gr
    (lsFiles s.git lsCwd).map (base ++ ·) ++ Generated.gitKnownExtra.map fun x => gr ++ [x.toList]
  else []

/-- `_collect_all_paths_known_to_pytask(session)`. -/
def knownPaths (s : Session) : List Path :=
  let knownFiles := s.taskPaths ++ s.nodePaths ++ (if Generated.cleanKnowsProvisional then s.provisionalPaths else [])
  let knownDirs := knownFiles.flatMap parents
  knownFiles ++ knownDirs ++ s.config.toList ++ [s.root] ++ gitKnown s

def excludeSummand (root : Path) (user : List Pattern) (which : String) : List Pattern :=
  if which == "user" then user
  else if which == "default" then Generated.cleanDefaultExclude.map String.toList
  else if which == "cache" then [asPosix (root ++ Generated.cleanRootExcludeTemplate.map String.toList)]
  else []

/-- `clean.pytask_parse_config`: `to_list(exclude) + _DEFAULT_EXCLUDE + [root.joinpath(".pytask", "*").as_posix()]`. -/
def configExclude (root : Path) (user : List Pattern) : List Pattern :=
  Generated.cleanExcludeOrder.flatMap (excludeSummand root user)

def isKnown (s : Session) (p : Path) : Bool := (knownPaths s).contains p
def isExcluded (s : Session) (p : Path) : Bool := (configExclude s.root s.userExclude).any (pmatch p)

/-- The unknown paths of the command (`clean.py:123-127`). -/
def unknownPaths (s : Session) (fs : FTree) : List Path :=
  findAllUnknown fs (isKnown s) (isExcluded s) s.paths s.directories

/-! ## §3b the project root (`config_utils.find_project_root_and_config`) -/

/-- Whether the file `cfg` is a pytask configuration: among the tables it contains (`tables`: file ↦ dotted path of a
table, for every table of every pyproject.toml) there is `tool.pytask.ini_options` itself or a table below it —
`read_config` subscripts every level and a `KeyError` means "not a pytask configuration". -/
def configSectionPresent (tables : List (Path × List String)) (cfg : Path) : Bool :=
  tables.any fun t => t.1 == cfg && Generated.configSection.isPrefixOf t.2

/-- One stop rule of the upward search at directory `d`: `some (root, config)` when it fires. `hasSection cfg` says
that the file `cfg` parses and has the `tool.pytask.ini_options` section (an input of the model). -/
def stopRule (fs : FTree) (hasSection : Path → Bool) (d : Path) (rule : String × String) : Option (Path × Option Path) :=
  let entry := d ++ [rule.1.toList]
  match subtree fs entry with
  | none => none
  | some t =>
    if rule.2 == "section" then (if hasSection entry then some (d, some entry) else none)
    else if rule.2 == "exists" then some (d, none)
    else if rule.2 == "is_dir" then (if t.isDir then some (d, none) else none)
    else if rule.2 == "is_file" then (if t.isDir then none else some (d, none))
    else none

/-- The body of the loop for one directory: the rules in source order, the first that fires wins. -/
def stopAt (fs : FTree) (hasSection : Path → Bool) (d : Path) : List (String × String) → Option (Path × Option Path)
  | [] => none
  | r :: rs =>
    match stopRule fs hasSection d r with
    | some x => some x
    | none => stopAt fs hasSection d rs

def searchUp (fs : FTree) (hasSection : Path → Bool) : List Path → Option (Path × Option Path)
  | [] => none
  | d :: ds =>
    match stopAt fs hasSection d Generated.rootStopRules with
    | some x => some x
    | none => searchUp fs hasSection ds

/-- `find_project_root_and_config(paths)` where `common` is `os.path.commonpath(paths)` (the working directory when
no path is given): root and configuration file. -/
def findRoot (fs : FTree) (hasSection : Path → Bool) (common : Path) : Path × Option Path :=
  let start :=
    match subtree fs common with
    | some (.file _) => if Generated.rootStartsAtParentOfFile then common.dropLast else common
    | _ => common
  (searchUp fs hasSection (start :: (parents start).reverse)).getD (start, none)

/-! ## §4 the command -/

inductive Mode where
  | dryRun | force | interactive
  deriving Repr, DecidableEq

/-- `_CleanMode(value)`; the values come from the source. -/
def Mode.ofString (v : String) : Option Mode :=
  if !Generated.cleanModes.contains v then none
  else if v == "dry-run" then some .dryRun
  else if v == "force" then some .force
  else if v == "interactive" then some .interactive
  else none

inductive Event where
  | would (p : Path)      -- "Would remove …"
  | asked (p : Path)      -- click.confirm("Would you like to remove …?")
  | removed (p : Path)    -- "Remove …"
  deriving Repr, DecidableEq

mutual
/-- Delete the entry at `rel` below `t` (`shutil.rmtree` / `Path.unlink`); `t` itself stays. -/
def removeAt : FTree → Path → FTree
  | .file n, _ => .file n
  | .dir n cs, rel => .dir n (removeIn cs rel)
def removeIn : List FTree → Path → List FTree
  | [], _ => []
  | c :: cs, rel =>
    match rel with
    | [] => c :: cs
    | [x] => if c.name = x then removeIn cs rel else c :: removeIn cs rel
    | x :: y :: rest => (if c.name = x then removeAt c (y :: rest) else c) :: removeIn cs rel
end

/-- The loop `for path in unknown_paths` (`clean.py:137-153`). `yes p` is the answer given to the prompt for `p`. -/
def cleanLoop (mode : Mode) (quiet : Bool) (yes : Path → Bool) : List Path → FTree → List Event × FTree
  | [], fs => ([], fs)
  | p :: ps, fs =>
    match mode with
    | .dryRun =>
      let r := cleanLoop mode quiet yes ps fs
      (.would p :: r.1, r.2)
    | .force =>
      let r := cleanLoop mode quiet yes ps (removeAt fs p)
      ((if quiet then [] else [.removed p]) ++ r.1, r.2)
    | .interactive =>
      if yes p then
        let r := cleanLoop mode quiet yes ps (removeAt fs p)
        (.asked p :: (if quiet then [] else [.removed p]) ++ r.1, r.2)
      else
        let r := cleanLoop mode quiet yes ps fs
        (.asked p :: r.1, r.2)

/-- `pytask clean`: the unknown paths are computed once, before anything is removed. -/
def clean (mode : Mode) (quiet : Bool) (yes : Path → Bool) (s : Session) (fs : FTree) : List Event × FTree :=
  cleanLoop mode quiet yes (unknownPaths s fs) fs

mutual
/-- All entries below `t` as absolute paths with their kind (`true`: directory), `t` itself at `path` included. -/
def entries (path : Path) : FTree → List (Path × Bool)
  | .file _ => [(path, false)]
  | .dir _ cs => (path, true) :: entriesIn path cs
def entriesIn (parent : Path) : List FTree → List (Path × Bool)
  | [] => []
  | c :: cs => entries (parent ++ [c.name]) c ++ entriesIn parent cs
end

end Pytask.Clean
