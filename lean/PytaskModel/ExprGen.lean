import PytaskModel.Expr
/-!
# ExprGen — interpreters of the control structure extracted from `mark/expression.py` and `mark/__init__.py`

`harness/extract_expr.py` (`grammar_section`, section `extract_exprgen` of `Generated.lean`) reads, as *data*:

* `Generated.exprRules` / `exprTop` — for every recursive-descent function which sub-parser it calls first, which token
  kind continues its loop, which AST node it builds and how (left-nested `BoolOp(op, [ret, rhs])`, or appended to a flat
  `BoolOp`), the alternatives of `not_expr` in order (unary operator, parenthesised group with its — mandatory or not —
  closing token, identifier), the empty-input constant and the final `EOF` check;
* `Generated.exprLexBranches` — the `if/elif` chain of `Scanner.lex` with the keyword chain (whole-match comparison);
* `Generated.kwMatcher` / `markMatcher` — name sources, where `.lower()` is applied, and the test;
* `Generated.selKeyword` / `selMark` / `selAfter` — the shape of the `select_by_*` functions.

The functions below *run* that data (same fuel discipline as `Expr.lean`, so that the two can be proved equal for every
amount of fuel). `PytaskProofs/Properties/ExprTie.lean` proves them equal to the hand-written model for all inputs.

Encoding: a flat `BoolOp(op, [v1, …, vn])` is represented by the left-nested binary tree over `v1 … vn` (CPython
evaluates both alike); "append `rhs` to the values of `acc`" is then `op' acc rhs` where `op'` is the operator of `acc`.
The constant `True` (not produced by the current source) is represented by `not False`.
-/
namespace Pytask.SelExpr.Gen
open Pytask.Generated Pytask.Generated.Gram

/-! ## Parser -/

/-- `TokenType` member name of a token. -/
def tokKind : Tok → String
  | .lparen => "LPAREN"
  | .rparen => "RPAREN"
  | .or => "OR"
  | .and => "AND"
  | .not => "NOT"
  | .ident _ => "IDENT"

def binOf : String → Option (Ast → Ast → Ast)
  | "Or" => some .or
  | "And" => some .and
  | _ => none

def unOf : String → Option (Ast → Ast)
  | "Not" => some .not
  | _ => none

/-- Operator name when the tree is a `BoolOp`. -/
def boolOpOf : Ast → Option String
  | .or _ _ => some "Or"
  | .and _ _ => some "And"
  | _ => none

/-- The node a loop builds from the accumulated tree and the new operand. -/
def mkBin (shape op : String) (acc rhs : Ast) : Option Ast :=
  match shape with
  | "nested" => (binOf op).map (fun f => f acc rhs)
  | "flatSameOp" =>
    -- `if isinstance(acc, BoolOp) and isinstance(acc.op, <op>): acc.values.append(rhs) else: BoolOp(op, [acc, rhs])`
    if boolOpOf acc == some op then (binOf op).map (fun f => f acc rhs) else (binOf op).map (fun f => f acc rhs)
  | "flatAnyBoolOp" =>
    -- `if isinstance(acc, BoolOp): acc.values.append(rhs)`: appended to whatever operator `acc` has
    match boolOpOf acc with
    | some o => (binOf o).map (fun f => f acc rhs)
    | none => (binOf op).map (fun f => f acc rhs)
  | _ => none

def lookup (rules : List (String × Rule)) (name : String) : Option Rule :=
  (rules.find? (fun r => r.1 == name)).map (·.2)

def altTok : Alt → String
  | .unary tok _ _ => tok
  | .group o _ _ _ => o
  | .ident tok => tok

mutual
/-- One parser function, by name. An unknown name / node name is reported as `.fuel` (cannot happen with the extracted
data: `ExprTie_parse`). -/
def runRule (rules : List (String × Rule)) (bad : Bool) : Nat → String → List Tok → PRes
  | 0, _, _ => .error .fuel
  | f + 1, name, ts =>
    match lookup rules name with
    | none => .error .fuel
    | some (.loop first cont next op shape) =>
      match runRule rules bad f first ts with
      | .error e => .error e
      | .ok (ret, r) => runLoop rules bad f cont next op shape ret r
    | some (.alts alts) =>
      match ts with
      | [] => .error (.at 0)
      | t :: rest =>
        -- the alternatives are tried in order; each tests the kind of the current token only
        match alts.find? (fun a => altTok a == tokKind t) with
        | none => .error (.at ts.length)
        | some (.unary _ sub node) =>
          match advance bad rest with
          | .error e => .error e
          | .ok r =>
            match runRule rules bad f sub r with
            | .error e => .error e
            | .ok (e, r') =>
              match unOf node with
              | none => .error .fuel
              | some mk => .ok (mk e, r')
        | some (.group _ sub close closeRequired) =>
          match advance bad rest with
          | .error e => .error e
          | .ok r =>
            match runRule rules bad f sub r with
            | .error e => .error e
            | .ok (e, r') =>
              match r' with
              | t' :: rest' =>
                if tokKind t' == close then
                  match advance bad rest' with
                  | .error e => .error e
                  | .ok r'' => .ok (e, r'')
                else if closeRequired then .error (.at r'.length) else .ok (e, r')
              | [] => if closeRequired then .error (.at 0) else .ok (e, r')
        | some (.ident _) =>
          match t with
          | .ident s =>
            match advance bad rest with
            | .error e => .error e
            | .ok r => .ok (.ident s, r)
          | _ => .error (.at ts.length)
/-- `while s.accept(cont): rhs = next(s); ret = <node>`. -/
def runLoop (rules : List (String × Rule)) (bad : Bool) : Nat → String → String → String → String → Ast → List Tok → PRes
  | 0, _, _, _, _, _, _ => .error .fuel
  | f + 1, cont, next, op, shape, acc, ts =>
    match ts with
    | [] => .ok (acc, ts)
    | t :: rest =>
      if tokKind t == cont then
        match advance bad rest with
        | .error e => .error e
        | .ok r =>
          match runRule rules bad f next r with
          | .error e => .error e
          | .ok (rhs, r') =>
            match mkBin shape op acc rhs with
            | none => .error .fuel
            | some acc' => runLoop rules bad f cont next op shape acc' r'
      else .ok (acc, ts)
end

/-- `expression`, from `exprTop`. -/
def parseGen (top : Top) (rules : List (String × Rule)) (bad : Bool) (ts : List Tok) : Except PErr Ast :=
  if top.eofTok != "EOF" then .error .fuel else
  match ts with
  | [] => if bad then .error (.at 0) else .ok (if top.emptyConst then .not .false else .false)
  | _ =>
    match runRule rules bad (parseFuel ts.length) top.sub ts with
    | .error e => .error e
    | .ok (e, []) => if bad then .error (.at 0) else .ok e
    | .ok (e, r) => if top.eofRequired then .error (.at r.length) else .ok e

/-! ## Lexer -/

def inClass (isWord : Char → Bool) (extra : List Char) (word : Bool) (c : Char) : Bool :=
  (word && isWord c) || extra.contains c

def branchTest (isWord : Char → Bool) (c : Char) : LexBranch → Bool
  | .skip chars => chars.contains c
  | .single ch _ => c == ch
  | .run extra word _ _ => inClass isWord extra word c

def singleTok : String → Option Tok
  | "LPAREN" => some .lparen
  | "RPAREN" => some .rparen
  | _ => none

/-- The keyword chain: first keyword equal to the whole match, else the fallback kind (`IDENT`). -/
def classifyGen (kws : List (List Char × String)) (value : List Char) : Tok :=
  match kws.find? (fun kw => kw.1 == value) with
  | some (_, kind) => (kindTok kind).getD (.ident value)
  | none => .ident value

def lexGenGo (isWord : Char → Bool) (branches : List LexBranch) : Nat → Nat → List Char → Lexed
  | 0, pos, _ => ⟨[], .eof pos⟩
  | _ + 1, pos, [] => ⟨[], .eof pos⟩
  | fuel + 1, pos, c :: cs =>
    match branches.find? (branchTest isWord c) with
    | none => ⟨[], .bad pos⟩
    | some (.skip _) => lexGenGo isWord branches fuel (pos + 1) cs
    | some (.single _ kind) =>
      match singleTok kind with
      | some t => (lexGenGo isWord branches fuel (pos + 1) cs).push (t, pos)
      | none => ⟨[], .bad pos⟩
    | some (.run extra word kws fallback) =>
      if fallback != "IDENT" then ⟨[], .bad pos⟩ else
      let value := c :: cs.takeWhile (inClass isWord extra word)
      (lexGenGo isWord branches fuel (pos + value.length) (cs.dropWhile (inClass isWord extra word))).push
        (classifyGen kws value, pos)

def lexGen (isWord : Char → Bool) (cs : List Char) : Lexed := lexGenGo isWord exprLexBranches cs.length 0 cs

/-- `Expression.compile_` from the extracted lexer and grammar. -/
def compileGen (isWord : Char → Bool) (cs : List Char) : Except CErr Ast :=
  let l := lexGen isWord cs
  match parseGen exprTop exprRules l.stop.isBad (l.toks.map (·.1)) with
  | .ok e => .ok e
  | .error (.at k) => .error (.syntax (l.colAt k))
  | .error .fuel => .error .fuel

/-! ## Matchers and selections -/

def namesOf (sources : List String) (t : TaskInfo) : List (List Char) :=
  sources.flatMap (fun s =>
    match s with
    | "name" => [t.name]
    | "function_dict" => t.attrs
    | "markers" => t.markers
    | _ => [])

/-- `<Matcher>.from_task(task)(query)`. -/
def matchGen (m : Matcher) (lower : List Char → List Char) (t : TaskInfo) (q : List Char) : Bool :=
  let names0 := namesOf m.sources t
  let names1 := if m.lowerNamesAtCreate then names0.map lower else names0
  let q' := if m.lowerQueryAtCall then lower q else q
  let names2 := if m.lowerNamesAtCall then names1.map lower else names1
  match m.test with
  | "substring" => names2.any (fun n => isInfixB q' n)
  | "member" => names2.contains q'
  | _ => false

def matcherOf (name : String) (lower : List Char → List Char) (t : TaskInfo) : List Char → Bool :=
  match name with
  | "KeywordMatcher" => matchGen kwMatcher lower t
  | "MarkMatcher" => matchGen markMatcher lower t
  | _ => fun _ => false

/-- A `select_by_*` function on a graph without edges (`closure` is not interpreted here). -/
def selectGen (d : Select) (isWord : Char → Bool) (lower : List Char → List Char) (expr : List Char)
    (tasks : List TaskInfo) : Except CErr (Option (List Nat)) :=
  if d.noneWhenEmpty && expr.isEmpty then .ok none else
  match compileGen isWord expr with
  | .error e => .error e
  | .ok a => .ok (some (selectIdx (fun t => (!d.guardNonEmpty || !expr.isEmpty) && eval (matcherOf d.matcher lower t) a) tasks))

/-- One iteration of the string branch of `_modify_dag`'s loop, from `afterLoop`. The translator establishes
`stateless` (nothing written by an earlier iteration is read, except the dag) — otherwise it fails; with it, the loop is
the map of this step over the tasks. -/
def afterStepGen (d : AfterLoop) (isWord : Char → Bool) (lower : List Char → List Char) (tasks : List TaskInfo) (i : Nat)
    (expr : List Char) : Except CErr (List Nat) :=
  if d.selectFn != "select_by_after_keyword" || !d.viaSuccessors || !d.stateless then .error .fuel else
  match selectGen selAfter isWord lower expr tasks with
  | .error e => .error e
  | .ok none => .ok []
  | .ok (some sel) => .ok (if d.discardsSelf then sel.filter (fun j => j != i) else sel)

/-! ## `select_tasks_by_marks_and_expressions` from `deselectSteps` -/

/-- Does task `i` stay selected under one deselection step, given the selection set its function returned?
`"isNotNone"`: `None` (option not given) keeps everything, a set — the empty one included — keeps its members.
`"truthy"` (`if remaining:`): the empty set is skipped like `None`. A mark other than `skip` deselects nothing. -/
def keptByGen (d : Deselect) (r : Option (List Nat)) (i : Nat) : Bool :=
  if d.markName != "skip" then true else
  match r with
  | none => true
  | some sel =>
    match d.guard with
    | "isNotNone" => sel.contains i
    | "truthy" => sel.isEmpty || sel.contains i
    | _ => false

def selectFnGen (name : String) (isWord : Char → Bool) (lower : List Char → List Char) (kexpr mexpr : List Char)
    (tasks : List TaskInfo) : Except CErr (Option (List Nat)) :=
  match name with
  | "select_by_keyword" => selectGen selKeyword isWord lower kexpr tasks
  | "select_by_mark" => selectGen selMark isWord lower mexpr tasks
  | _ => .error .fuel

/-- All selections are evaluated first (the first malformed expression aborts). -/
def evalSelections (isWord : Char → Bool) (lower : List Char → List Char) (kexpr mexpr : List Char) (tasks : List TaskInfo) :
    List Deselect → Except CErr (List (Deselect × Option (List Nat)))
  | [] => .ok []
  | d :: ds =>
    match selectFnGen d.selectFn isWord lower kexpr mexpr tasks with
    | .error e => .error e
    | .ok r =>
      match evalSelections isWord lower kexpr mexpr tasks ds with
      | .error e => .error e
      | .ok rs => .ok ((d, r) :: rs)

/-- Indices of the tasks no step deselects. -/
def selectProjectGen (steps : List Deselect) (isWord : Char → Bool) (lower : List Char → List Char) (kexpr mexpr : List Char)
    (tasks : List TaskInfo) : Except CErr (List Nat) :=
  match evalSelections isWord lower kexpr mexpr tasks steps with
  | .error e => .error e
  | .ok rs => .ok ((List.range tasks.length).filter (fun i => rs.all (fun p => keptByGen p.1 p.2 i)))

end Pytask.SelExpr.Gen
