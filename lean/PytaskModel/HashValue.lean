import PytaskModel.Generated
/-!
# M4 — fingerprints: `hash_value`, node signatures, the `hash_path` memo  (C12)

Mirrors, statement by statement,

* `_hashlib.py:216-236`  `hash_value`
* `nodes.py:82-84, 141-144, 175-178, 248-258, 321-324, 373-376`  the `signature` properties
* `cache.py:30-95`  `Cache.memoize`, `_make_memoize_key`
* `path.py:343-360`  `hash_path`, `nodes.py:390-413`  `_get_state`

Strings are `List Char`, byte strings `List UInt8`.  `sha` stands for `hashlib.sha256(·).hexdigest()`
and `md5` for `hashlib.md5(·).hexdigest()`: both are *parameters* of the model (the theorems state
what they need of them as hypotheses; the driver instantiates them with structural stand-ins and
the harness applies the real functions to the pre-images).

The facts read from the source by `harness/extract_hash.py` are consumed here:
`Generated.hashNoneConst`, `Generated.hashSeqSep`, `Generated.sig…Fields`, `Generated.memoKeyFields`.
-/
namespace Pytask.Hash

abbrev Str := List Char
abbrev Bytes := List UInt8

/-- `str.encode()` (UTF-8). -/
def utf8 (s : Str) : Bytes := s.flatMap String.utf8EncodeChar

/-- `str(n)` for a natural number. -/
def decNat (n : Nat) : Str := Nat.toDigits 10 n

/-- `str(i)` for a Python int. -/
def decInt : Int → Str
  | .ofNat n => decNat n
  | .negSucc n => '-' :: decNat (n + 1)

/-- `_PyHASH_MODULUS` of a 64-bit CPython: the Mersenne prime 2^61 - 1. -/
def pyHashModulus : Nat := 2 ^ 61 - 1

/-- CPython's `hash(int)` (`long_hash`): sign · (|i| mod (2^61 - 1)), and -1 is replaced by -2. -/
def pyHashInt (i : Int) : Int :=
  let m : Int := ((i.natAbs % pyHashModulus : Nat) : Int)
  let h : Int := if i < 0 then -m else m
  if h = -1 then -2 else h

/-- The values `hash_value` is applied to.  `bool`/`int`/`float` are the numeric kinds that fall
through to the builtin `hash`; a float enters as its CPython hash (computed by the harness). -/
inductive PyVal where
  | none
  | bool (b : Bool)
  | int (i : Int)
  | float (h : Int)
  | str (s : Str)
  | bytes (b : Bytes)
  | path (p : Str)
  | tuple (xs : List PyVal)
  | list (xs : List PyVal)
  deriving Repr

/-- Result of `hash_value`: an `int` (None constant, builtin hash) or a hex digest. -/
inductive HV where
  | int (i : Int)
  | hex (d : Str)
  deriving DecidableEq, Repr

/-- `str(hash_value(v))`. -/
def HV.render : HV → Str
  | .int i => decInt i
  | .hex d => d

/-- `sep.join(parts)`. -/
def joinSep (sep : Str) : List Str → Str
  | [] => []
  | [x] => x
  | x :: y :: r => x ++ sep ++ joinSep sep (y :: r)

/-- Builtin `hash` of the numeric leaves. -/
def boolHash (b : Bool) : Int := if b then 1 else 0

section
variable (sha : Bytes → Str)

mutual
/-- `hash_value` (`_hashlib.py:216-236`). The if-cascade: `None` ↦ constant; tuple/list ↦ the joined
`str(hash_value(i))` of the elements, which then runs through the `str` ↦ `encode` ↦ sha256 branches;
`Path` ↦ `str(path)`; `str` ↦ utf-8; `bytes` ↦ sha256 hexdigest; anything else ↦ builtin `hash`. -/
def hashValue : PyVal → HV
  | .none => .int Generated.hashNoneConst
  | .bool b => .int (boolHash b)
  | .int i => .int (pyHashInt i)
  | .float h => .int h
  | .str s => .hex (sha (utf8 s))
  | .bytes b => .hex (sha b)
  | .path p => .hex (sha (utf8 p))
  | .tuple xs => .hex (sha (utf8 (joinSep Generated.hashSeqSep (hashRenders xs))))
  | .list xs => .hex (sha (utf8 (joinSep Generated.hashSeqSep (hashRenders xs))))
/-- `[str(hash_value(i)) for i in value]`. -/
def hashRenders : List PyVal → List Str
  | [] => []
  | x :: xs => (hashValue x).render :: hashRenders xs
end

/-- `"".join(str(hash_value(f)) for f in fields)` — the raw key of signatures and of the memo. -/
def rawKey (fields : List String) (env : String → PyVal) : Str :=
  (fields.map (fun f => (hashValue sha (env f)).render)).flatten

/-- `hashlib.sha256(raw_key.encode()).hexdigest()`. -/
def sigOf (fields : List String) (env : String → PyVal) : Str :=
  sha (utf8 (rawKey sha fields env))

/-! ### attribute environments of the node classes (`nodes.py`) -/

/-- `Task`: `base_name`, `path`; `name` is derived in `__attrs_post_init__` (`nodes.py:136-138`). -/
def envTask (base path : Str) (f : String) : PyVal :=
  if f = "base_name" then .str base
  else if f = "path" then .path path
  else if f = "name" then .str (path ++ "::".toList ++ base)
  else .none

def envTaskWithoutPath (name : Str) (f : String) : PyVal :=
  if f = "name" then .str name else .none

/-- `PathNode` / `PickleNode`. -/
def envPathNode (name path : Str) (f : String) : PyVal :=
  if f = "path" then .path path
  else if f = "name" then .str name
  else .none

/-- an attribute of type `Path | None`. -/
def optPath : Option Str → PyVal
  | some p => .path p
  | none => .none

/-- `DirectoryNode`: `root_dir : Path | None`, `pattern : str`. -/
def envDirNode (name : Str) (root : Option Str) (pattern : Str) (f : String) : PyVal :=
  if f = "root_dir" then optPath root
  else if f = "pattern" then .str pattern
  else if f = "name" then .str name
  else .none

/-- `NodeInfo` (`models.py`): the position of a value inside a task's arguments. -/
structure NodeInfo where
  argName : Str
  treePath : List PyVal          -- tuple of str | int
  taskName : Str
  taskPath : Option Str

def envNodeInfo (ni : NodeInfo) (f : String) : PyVal :=
  if f = "arg_name" then .str ni.argName
  else if f = "path" then .tuple ni.treePath
  else if f = "task_name" then .str ni.taskName
  else if f = "task_path" then optPath ni.taskPath
  else .none

/-- Where an argument of a task function sits: the module (`None` for tasks defined outside a file), its directory, the
task's name, the parameter and the position inside the parameter's value. -/
structure ArgSite where
  modulePath : Option Str
  moduleDir : Str
  taskName : Str
  param : Str
  treePath : List PyVal

/-- The `NodeInfo` pytask attaches to the node collected at that site, for dependencies and products alike
(`collect.py:355-360` → `collect_utils.py:84-92, 228-250, 253-276`): the task is identified by its *module path*. -/
def nodeInfoOfArg (s : ArgSite) : NodeInfo := ⟨s.param, s.treePath, s.taskName, s.modulePath⟩

/-- The `NodeInfo` of the single PythonNode that replaces a *container* of unhashed python values given for one parameter
(`collect_utils.py:94-116`): the parameter as a whole (empty tree path) of that task.  (Before 91d0d18 the node got no
`NodeInfo` at all — F41.) -/
def nodeInfoOfMerged (s : ArgSite) : Option NodeInfo := some ⟨s.param, [], s.taskName, s.modulePath⟩

def sigTask (base path : Str) : Str := sigOf sha Generated.sigTaskFields (envTask base path)
def sigTaskWithoutPath (name : Str) : Str :=
  sigOf sha Generated.sigTaskWithoutPathFields (envTaskWithoutPath name)
def sigPathNode (name path : Str) : Str := sigOf sha Generated.sigPathNodeFields (envPathNode name path)
def sigPickleNode (name path : Str) : Str := sigOf sha Generated.sigPickleNodeFields (envPathNode name path)
def sigDirNode (name : Str) (root : Option Str) (pattern : Str) : Str :=
  sigOf sha Generated.sigDirNodeFields (envDirNode name root pattern)
/-- `PythonNode.signature` (`nodes.py:248-258`): the node-info fields, or `str(hash_value(None))`
when there is no node info.  The value is not part of the signature. -/
def sigPythonNode : Option NodeInfo → Str
  | some ni => sigOf sha Generated.sigPythonNodeFields (envNodeInfo ni)
  | none => sha (utf8 (hashValue sha .none).render)

/-- `PythonNode(hash=True).state()` = `str(hash_value(value))` (`nodes.py:290-300`). -/
def statePythonNode (v : PyVal) : Str := (hashValue sha v).render

/-- The `hash` attribute of a `PythonNode`: `False`, `True`, or a callable (`custom f`: `f v = str(self.hash(v))`). -/
inductive HashOpt where
  | off
  | on
  | custom (f : PyVal → Str)

/-- `PythonNode.state()` (`nodes.py:272-300`) for a node that holds a plain value; `value = none`: `no_default`.
`None` for an unset value; `"0"` without hashing; `str(self.hash(value))` for a callable; else `str(hash_value(value))`. -/
def statePythonNodeOpt (h : HashOpt) (value : Option PyVal) : Option Str :=
  match value with
  | none => none
  | some v =>
    match h with
    | .off => some ['0']
    | .on => some (hashValue sha v).render
    | .custom f => some (f v)

/-- The attrs fields of a `PythonNode` that matter for its state. -/
structure PNode where
  hash : HashOpt
  value : Option PyVal

/-- `PythonNode.save` -/
def PNode.save (n : PNode) (v : PyVal) : PNode := { n with value := some v }

/-- The wrapper `collect_utils.collect_dependency` builds around a PythonNode whose value is still unset (the node is the
product of another task): `attrs.evolve(node, value=node)` — a copy whose `value` is the node itself; every other
field, `hash` included, is kept.  `inner` is a reference: the producer's `save` is seen through it. -/
structure PWrapper where
  hash : HashOpt
  inner : PNode

def wrapDependency (n : PNode) : PWrapper := ⟨n.hash, n⟩

/-- `state()` of the wrapper: its own value is a node (never `no_default`); `load()` looks through it
(`nodes.py:262-267`).  An inner value that is still unset is outside the model (`none`) unless hashing is off. -/
def stateWrapper (w : PWrapper) : Option Str :=
  match w.hash with
  | .off => some ['0']
  | .on => w.inner.value.map fun v => (hashValue sha v).render
  | .custom f => w.inner.value.map f

/-! ### the `hash_path` memo -/

variable (md5 : Bytes → Str)

/-- The memo `HashPathCache._cache`: key ↦ digest, newest first. -/
structure Memo where
  entries : List (Str × Str) := []
  deriving Repr

def Memo.get (m : Memo) (k : Str) : Option Str :=
  match m.entries.find? (fun e => e.1 == k) with
  | some e => some e.2
  | none => none

def Memo.insert (m : Memo) (k v : Str) : Memo := ⟨(k, v) :: m.entries⟩

def envMemo (path : Str) (mtimeHash : Int) (f : String) : PyVal :=
  if f = "path" then .path path
  else if f = "mtime" then .float mtimeHash
  else .none

/-- `_make_memoize_key((path, modification_time), {})` without the constant prefix
`"_pytask.path.hash_path:"` (`cache.py:58-95`): md5 of the joined `str(hash_value(arg))`. -/
def memoKey (path : Str) (mtimeHash : Int) : Str :=
  md5 (utf8 (rawKey sha Generated.memoKeyFields (envMemo path mtimeHash)))

/-- `_get_state(path)` (`nodes.py:390-413`) through `hash_path` (`path.py:346-360`) and
`Cache.memoize` (`cache.py:30-50`).  `file = none`: `stat()` raises `FileNotFoundError`;
`file = some (h, c)`: the file holds the bytes `c` and `hash(st_mtime) = h`. -/
def stateOfFile (memo : Memo) (path : Str) (file : Option (Int × Bytes)) : Memo × Option Str :=
  match file with
  | none => (memo, none)
  | some (mh, content) =>
    let key := memoKey sha md5 path mh
    match memo.get key with
    | some v => (memo, some v)
    | none =>
      let v := sha content
      (memo.insert key v, some v)

end

end Pytask.Hash
