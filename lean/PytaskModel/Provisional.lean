import PytaskModel.Engine
/-!
# M7 — directory patterns (`DirectoryNode`) and task generators

A self-contained extension of M6 (`Engine.lean`, imported, not modified). Mirrors, statement by statement:
* `nodes.py` `DirectoryNode.collect` (`root_dir.glob(pattern)`), `DirectoryNode.signature` (one graph node per
  `(root_dir, pattern)`);
* `provisional.py` `pytask_execute_task_setup` (tryfirst), `pytask_execute_task` (generators),
  `pytask_execute_task_process_report`;
* `provisional_utils.py` `collect_provisional_nodes`, `collect_provisional_products`, `recreate_dag`
  (`create_dag_from_session` + `TopologicalSorter.from_dag_and_sorter`), `TASKS_WITH_PROVISIONAL_NODES`;
* `execute.py` `pytask_execute_build`, the protocol, `pytask_execute_task_setup` (incl. "skip provisional nodes that
  are products"), `pytask_execute_task`, `pytask_execute_task_teardown`, `pytask_execute_task_process_report`;
* `skipping.py` (`skip_ancestor_failed` only); hook call orders and `firstresult` flags from `Generated`.

Feature scope of this model (the rest is M6's business): no `skip`/`skipif`/`persist` marks, no `force`, `dry_run`,
`-k`/`-m`, `max_failures`, priorities. Consequently `_skip_descendants_of_skipped_tasks` (called by `recreate_dag` since
0574d89: it renews `skip` marks below tasks whose outcome is SKIP) has no effect here; the teardown check for a
predecessor that vanished while the task ran (ed849b4) is not modelled either (bodies do not remove their inputs).

Abstractions. Files are node ids (`Nat`), contents are `Nat` (as in M6). A directory pattern is an interval of node
ids `[lo, lo+len)`: the files that the glob *could* match; it matches those that currently exist. Overlapping
patterns = overlapping intervals. `node` is the id of the `DirectoryNode` itself in the graph (its signature).
A generator's body is a function `Y gen received` returning the task specs it defines with `@task`; generator bodies
write no files. The body of a task with a directory-pattern product writes the first `N` files of the interval and
removes the others, `N = content of cnt mod (len+1)`.
-/
namespace Pytask
namespace Prov
open Engine

structure Pat where
  node : Nat
  lo : Nat
  len : Nat
deriving Repr, DecidableEq, Inhabited

/-- `DirectoryNode.collect()` = `list(root_dir.glob(pattern))` (as a set; canonical ascending order). -/
def Pat.glob (π : Pat) (fs : FS) : List Nat :=
  (List.range' π.lo π.len).filter (fun n => (lookup fs n).isSome)

/-- One argument holding a `DirectoryNode`; `res = some l` after `collect_provisional_nodes` replaced it by the
collected path nodes `l`. -/
structure Slot where
  pat : Pat
  res : Option (List Nat) := none
deriving Repr, DecidableEq, Inhabited

structure PTask where
  id : Nat
  src : Nat
  cnt : Option Nat := none      -- a path dependency whose content decides how many files a pattern product gets
  deps : List Nat := []
  pdeps : List Slot := []       -- directory-pattern dependencies
  prods : List Nat := []
  pprods : List Slot := []      -- directory-pattern products
  after : List Nat := []
  gen : Bool := false           -- `@task(is_generator=True)`
  fails : Bool := false         -- the body raises before writing anything
  failsLate : Bool := false     -- the body writes all its products, then raises
  uncollectable : Bool := false -- as a task defined by a generator: `pytask_collect_task_protocol` reports FAIL for it
deriving Repr, DecidableEq, Inhabited

/-- What a generator's body defines, given its id and the file lists it received for its pattern dependencies. -/
abbrev YieldFn := Nat → List (List Nat) → List PTask

/-- One body invocation: the file lists received as arguments and what the body's own glob sees. -/
structure Recv where
  task : Nat
  got : List (List Nat)
  seen : List (List Nat)
deriving Repr, DecidableEq, Inhabited

def findTask (ts : List PTask) (t : Nat) : Option PTask := ts.find? (fun u => u.id == t)
def setTask (ts : List PTask) (t' : PTask) : List PTask := ts.map (fun u => if u.id == t'.id then t' else u)

/-- Graph nodes of an argument: the collected path nodes, or the `DirectoryNode` itself while unresolved. -/
def Slot.nodes (sl : Slot) : List Nat := match sl.res with | some l => l | none => [sl.pat.node]
/-- `collect_provisional_nodes` on one leaf. -/
def Slot.resolve (fs : FS) (sl : Slot) : Slot :=
  match sl.res with | some _ => sl | none => { sl with res := some (sl.pat.glob fs) }
def unresolved (sls : List Slot) : Bool := sls.any (fun sl => sl.res.isNone)

def PTask.allDeps (t : PTask) : List Nat := t.cnt.toList ++ t.deps ++ t.pdeps.flatMap Slot.nodes
def PTask.allProds (t : PTask) : List Nat := t.prods ++ t.pprods.flatMap Slot.nodes
/-- The product leaves that are no `PProvisionalNode` (any more). -/
def PTask.ordinaryProds (t : PTask) : List Nat := t.prods ++ t.pprods.flatMap (fun sl => sl.res.getD [])
def toSpec (t : PTask) : TaskSpec :=
  { id := t.id, src := t.src, deps := t.allDeps, prods := t.allProds, after := t.after }
def toProject (ts : List PTask) : Project := ⟨ts.map toSpec⟩

/-- Node ids that are (still) `PProvisionalNode` objects in the graph. -/
def provNodes (ts : List PTask) : List Nat :=
  ts.flatMap (fun t => ((t.pdeps ++ t.pprods).filter (fun sl => sl.res.isNone)).map (fun sl => sl.pat.node))

structure Sess where
  tasks : List PTask              -- `session.tasks` (mutated by resolution, extended by generators)
  g : G                           -- `session.dag`
  so : Sorter                     -- `session.scheduler`
  twp : List Nat := []            -- `TASKS_WITH_PROVISIONAL_NODES`
  w : World
  failMarks : List Nat := []      -- `skip_ancestor_failed`, attached when a task fails (to its descendants in the DAG of that moment)
  renewed : List Nat := []        -- `skip_ancestor_failed`, attached by `recreate_dag` to tasks below an already failed task (ee6b73e)
  stop : Bool := false            -- `session.should_stop`
  crashed : Bool := false         -- an exception escaped the protocol
  reports : List (Nat × Outcome) := []
  log : List Nat := []            -- body invocations
  recv : List Recv := []

def prio0 : Nat → Int := fun _ => 0

/-- Does the task carry a `skip_ancestor_failed` mark? -/
def failMarked (s : Sess) (t : Nat) : Bool := s.failMarks.contains t || s.renewed.contains t

/-- `_skip_descendants_of_failed_tasks`: every task below a task whose report has one of the outcomes `roots` in the (new) DAG
gets the mark unless it has one. -/
def renewMarks (roots : List Outcome) (g : G) (s : Sess) : List Nat :=
  s.renewed ++ ((s.reports.filter (fun r => roots.contains r.2)).flatMap (fun r => taskDesc g r.1)).filter
    (fun d => !(s.failMarks.contains d || s.renewed.contains d))

/-- The roots are the tasks reported FAIL (ee6b73e) and the tasks skipped because an ancestor failed (501f7e1: their pattern
dependencies are resolved all the same, so the new DAG no longer connects what lies below them to the failed task). -/
def renewFailMarks (g : G) (s : Sess) : List Nat := renewMarks [Outcome.fail, Outcome.skipPrevFailed] g s

/-- `recreate_dag`: on any exception a FAIL report for the task is appended and `should_stop` is set. -/
def recreate (s : Sess) (t : Nat) : Sess :=
  match createDag (toProject s.tasks) {} with
  | .error _ => { s with reports := s.reports ++ [(t, Outcome.fail)], stop := true }
  | .ok (g, _) =>
    -- the marks are renewed after the new DAG is stored and before the scheduler is rebuilt
    match Sorter.fromDagAndSorter g isTaskV prio0 s.so with
    | .error _ => { s with g := g, renewed := renewFailMarks g s, reports := s.reports ++ [(t, Outcome.fail)], stop := true }
    | .ok so => { s with g := g, so := so, renewed := renewFailMarks g s }

def addTwp (twp : List Nat) (t : Nat) : List Nat := if twp.contains t then twp else twp ++ [t]

/-- `provisional.pytask_execute_task_setup`. -/
def setupProvisional (s : Sess) (t : Nat) : Sess :=
  match findTask s.tasks t with
  | none => s
  | some tk =>
    let s1 := if unresolved tk.pdeps then
        { s with tasks := setTask s.tasks { tk with pdeps := tk.pdeps.map (Slot.resolve s.w.fs) }, twp := addTwp s.twp t }
      else s
    if s1.twp.contains t then recreate s1 t else s1

/-- `collect_provisional_products`. -/
def collectProducts (s : Sess) (t : Nat) : Sess :=
  match findTask s.tasks t with
  | none => s
  | some tk =>
    if tk.gen then s else
    let s1 := if unresolved tk.pprods then
        { s with tasks := setTask s.tasks { tk with pprods := tk.pprods.map (Slot.resolve s.w.fs) }, twp := addTwp s.twp t }
      else s
    if s1.twp.contains t then recreate s1 t else s1

def isProv (pn : List Nat) (v : Nat) : Bool := !isTaskV v && pn.contains (v / 2)

/-- The loop of `execute.pytask_execute_task_setup` (without `force`), including
`if node_signature not in predecessors and isinstance(node, PProvisionalNode): continue`. -/
def scanP (P : Project) (g : G) (w : World) (pn : List Nat) (t : Nat) (needs : Bool) : List Nat → Scan
  | [] => if needs then .changed else .unchanged
  | v :: vs =>
    let isPredOrSelf := (g.preds (tv t)).contains v || v == tv t
    if needs && !isPredOrSelf then .changed
    else if !isPredOrSelf && isProv pn v then scanP P g w pn t needs vs
    else
      let st := stateOf P w v
      if isPredOrSelf && st.isNone then .missing
      else if needs then scanP P g w pn t true vs
      else scanP P g w pn t (hasChanged w t v st) vs

/-- `execute.pytask_execute_task_setup` (trylast). -/
def setupExecute (s : Sess) (t : Nat) : Sess × Raised :=
  match findTask s.tasks t with
  | none => (s, .error)
  | some tk =>
    if tk.gen then (s, .none) else
    match scanP (toProject s.tasks) s.g s.w (provNodes s.tasks) t false (neighbours s.g t) with
    | .missing => (s, .error)
    | .changed => (s, .none)
    | .unchanged => (collectProducts s t, .skippedUnchanged)

def setupImpl (s : Sess) (t : Nat) (name : String) : Sess × Raised :=
  if name == "provisional" then (setupProvisional s t, .none)
  else if name == "skipping" then (s, if failMarked s t then .ancestorFailed else .none)
  else if name == "execute" then setupExecute s t
  else (s, .none)

def setupChain (t : Nat) : List String → Sess → Sess × Raised
  | [], s => (s, .none)
  | n :: ns, s =>
    match setupImpl s t n with
    | (s', .none) => setupChain t ns s'
    | r => r

def received (tk : PTask) : List (List Nat) := tk.pdeps.map (fun sl => sl.res.getD [])
def seenBy (tk : PTask) (fs : FS) : List (List Nat) := tk.pdeps.map (fun sl => sl.pat.glob fs)

/-- The task function is called. -/
def invoke (s : Sess) (tk : PTask) : Sess :=
  { s with log := s.log ++ [tk.id], recv := s.recv ++ [⟨tk.id, received tk, seenBy tk s.w.fs⟩] }

/-- Files written for a directory-pattern product: exactly the first `n` files of the interval exist afterwards. -/
def writeDir (F : BodyFn) (t : Nat) (j : Nat) (src : Option Nat) (ds : List (Option Nat)) (π : Pat) (n : Nat) (fs : FS) : FS :=
  let fs := fs.filter (fun e => !(decide (π.lo + n ≤ e.1) && decide (e.1 < π.lo + π.len)))
  (List.range n).foldl (fun fs k => insert fs (π.lo + k) (F t (1000 * (j + 1) + k) src ds)) fs

/-- Effect of a (non-generator) body: reads every dependency, writes every product. -/
def runBody (F : BodyFn) (t : PTask) (fs : FS) : FS × Bool :=
  let src := lookup fs t.src
  let ds := (t.deps ++ (received t).flatten).map (lookup fs)
  let c := t.cnt.map (lookup fs)
  if ds.any (·.isNone) || c == some none || t.fails then (fs, true) else
  let fs1 := (t.prods.zipIdx).foldl (fun fs (p, i) => insert fs p (F t.id i src ds)) fs
  let fs2 := (t.pprods.zipIdx).foldl (fun fs (sl, j) =>
      let n := (match c with | some (some x) => x | _ => sl.pat.len) % (sl.pat.len + 1)
      writeDir F t.id j src ds sl.pat n fs) fs1
  (fs2, t.failsLate)

/-- A task defined by a generator has the signature of a task of the session, or two defined tasks share one. -/
def nameClash (ts : List PTask) (kids : List PTask) : Bool :=
  kids.any (fun k => (findTask ts k.id).isSome) || !Sorter.nodupB (kids.map (·.id))

/-- `provisional.pytask_execute_task` for a generator: call it, collect what it defined, re-create the DAG.
`RuntimeError` when it defined nothing. Returns (session, raised). -/
def genExecute (Y : YieldFn) (s : Sess) (tk : PTask) : Sess × Bool :=
  let s1 := invoke s tk
  if tk.fails then (s1, true) else
  let kids := Y tk.id (received tk)
  if kids.isEmpty then (s1, true) else
  -- f1fcb9a: the first collection error of a defined task is raised inside the generator; nothing is added
  if kids.any (·.uncollectable) then (s1, true) else
  -- 6571c4f: a defined task with the name (signature) of a task of the session or of another defined task: ValueError
  if nameClash s1.tasks kids then (s1, true) else
  (recreate { s1 with tasks := s1.tasks ++ kids } tk.id, false)

/-- One implementation of `pytask_execute_task`: (session, raised, returned a non-`None` result). -/
def execImpl (Y : YieldFn) (F : BodyFn) (s : Sess) (t : Nat) (name : String) : Sess × Bool × Bool :=
  match findTask s.tasks t with
  | none => (s, true, false)
  | some tk =>
    if name == "provisional" then
      if tk.gen then
        let r := genExecute Y s tk
        (r.1, r.2, Generated.provisionalGeneratorResult)
      else (s, false, false)
    else if name == "execute" then
      if tk.gen then ((invoke s tk), tk.fails, true)      -- default implementation: what it defines is never collected
      else
        let r := runBody F tk s.w.fs
        ({ invoke s tk with w := { s.w with fs := r.1 } }, r.2, true)
    else (s, false, false)

/-- The `pytask_execute_task` chain (pluggy: stop at the first non-`None` result iff `firstresult`). -/
def execChain (Y : YieldFn) (F : BodyFn) (t : Nat) : List String → Sess → Sess × Bool
  | [], s => (s, false)
  | n :: ns, s =>
    match execImpl Y F s t n with
    | (s', true, _) => (s', true)
    | (s', false, res) => if res && Generated.executeOrderFirstResult then (s', false) else execChain Y F t ns s'

/-- `execute.pytask_execute_task_teardown`. -/
def teardown (s : Sess) (t : Nat) : Sess × Raised :=
  match findTask s.tasks t with
  | none => (s, .none)
  | some tk =>
    if tk.gen then (s, .none) else
    -- 9523bbe: ordinary products are checked before the provisional products are resolved (and the DAG re-created)
    if tk.ordinaryProds.any (fun p => (lookup s.w.fs p).isNone) then (s, .error) else
    let s' := collectProducts s t
    match findTask s'.tasks t with
    | none => (s', .none)
    | some tk' => if tk'.allProds.any (fun p => (lookup s'.w.fs p).isNone) then (s', .error) else (s', .none)

def runPhases (Y : YieldFn) (F : BodyFn) (s : Sess) (t : Nat) : Sess × Raised :=
  match setupChain t Generated.setupOrder s with
  | (s1, .none) =>
    match execChain Y F t Generated.executeOrder s1 with
    | (s2, true) => (s2, .error)
    | (s2, false) => teardown s2 t
  | r => r

def addReport (s : Sess) (t : Nat) (o : Outcome) : Sess := { s with reports := s.reports ++ [(t, o)] }

def isGen (ts : List PTask) (t : Nat) : Bool := match findTask ts t with | some tk => tk.gen | none => false

/-- One implementation of `pytask_execute_task_process_report` (`none` = returned `None`). -/
def reportImpl (s : Sess) (t : Nat) (r : Raised) (name : String) : Option Sess :=
  if name == "skipping" then
    match r with
    | .skippedUnchanged => some (addReport s t .skipUnchanged)
    | .ancestorFailed => some (addReport s t .skipPrevFailed)
    | _ => none
  else if name == "provisional" then
    if r == .none && isGen s.tasks t && Generated.provisionalReportKeepsStates then some (addReport s t .success) else none
  else if name == "execute" then
    match r with
    | .none =>
      let u := updateStates (toProject s.tasks) s.g s.w t (neighbours s.g t)
      -- one transaction (637627e): if a neighbour has no state nothing is recorded and the exception escapes the protocol
      if u.2 then some (addReport { s with w := u.1 } t .success) else some { s with crashed := true }
    | _ => some { addReport s t .fail with failMarks := s.failMarks ++ taskDesc s.g t }
  else none

def reportChain (t : Nat) (r : Raised) : List String → Sess → Sess
  | [], s => addReport s t (if r == .none then .success else .fail)
  | n :: ns, s =>
    match reportImpl s t r n with
    | some s' => if Generated.processReportOrderFirstResult then s' else reportChain t r ns s'
    | none => reportChain t r ns s

/-- `pytask_execute_task_protocol`. -/
def protocol (Y : YieldFn) (F : BodyFn) (s : Sess) (t : Nat) : Sess :=
  let rs := runPhases Y F s t
  reportChain t rs.2 Generated.processReportOrder rs.1

/-- `pytask_execute_build` with the observed pick order as input. -/
def loop (Y : YieldFn) (F : BodyFn) : Sess → List Nat → Except Illegal Sess
  | s, [] => .ok s
  | s, t :: ts =>
    if s.stop || s.crashed || !s.so.isActive then .error .leftover else
    if !Sorter.legalBatchB s.so 1 [tv t] then .error (.notReady t) else
    match findTask s.tasks t with
    | none => .error (.unknownTask t)
    | some _ =>
      let s1 := protocol Y F { s with so := s.so.take [tv t] } t
      loop Y F { s1 with so := s1.so.finish [tv t] } ts

structure Result where
  exit : Nat
  reports : List (Nat × Outcome)
  log : List Nat
  recv : List Recv
  w : World
  tasks : List Nat
  complete : Bool
deriving Repr, Inhabited

/-- Session at the start of `pytask_execute` for collected tasks `ts` (if the DAG can be created). -/
def initSess (ts : List PTask) (w : World) : Option Sess :=
  match createDag (toProject ts) {} with
  | .error _ => none
  | .ok (g, _) =>
    match Sorter.fromDag g isTaskV prio0 with
    | .error _ => none
    | .ok so => some { tasks := ts, g := g, so := so, w := w }

def build (Y : YieldFn) (F : BodyFn) (ts : List PTask) (w : World) (picks : List Nat) : Except Illegal Result :=
  match initSess ts w with
  | none => .ok { exit := ladderCode "ResolvingDependenciesError", reports := [], log := [], recv := [], w := w,
                  tasks := ts.map (·.id), complete := picks.isEmpty }
  | some s0 =>
    match loop Y F s0 picks with
    | .error e => .error e
    | .ok s =>
      let failed := s.reports.any (fun r => r.2 == .fail)
      .ok { exit := if s.crashed then ladderCode "Exception"
                    else if failed then ladderCode "ExecutionError" else exitCode "OK",
            reports := s.reports, log := s.log, recv := s.recv, w := s.w, tasks := s.tasks.map (·.id),
            complete := s.stop || s.crashed || !s.so.isActive }

end Prov
end Pytask
