import PytaskModel.Graph
import PytaskModel.Sorter
import PytaskModel.Generated
/-!
# M6 — the build engine for statically declared projects

Mirrors, statement by statement:
* `dag.py`  `create_dag_from_session` (`_create_dag_from_tasks`, cycle check, product check, `_modify_dag`,
  `select_tasks_by_marks_and_expressions`) — step order taken from `Generated.dagPipeline`;
* `execute.py` `pytask_execute_build`, `pytask_execute_task_protocol`, setup / execute / teardown / process_report;
* `skipping.py`, `persist.py` setup and process_report implementations — call order taken from
  `Generated.setupOrder` / `Generated.processReportOrder`;
* `database_utils.py` `has_node_changed`, `update_states_in_database`;
* `build.py` exit-code ladder (`Generated.buildLadder`).

Abstractions: a file's content is a `Nat` and its *state* (sha256 of the bytes) is that same `Nat`
(collision freedom of sha256 is the trusted `sha_inj`); a task's own state is the content of its
module file `src`; the body of task `t` writes `F t i srcContent depContents` into its `i`-th product.
Vertices of the bipartite graph: task `t` ↦ `2t`, node `n` ↦ `2n+1`.
-/
namespace Pytask

inductive Outcome | success | persistence | skipUnchanged | skip | skipPrevFailed | fail | wouldBeExecuted
deriving Repr, DecidableEq, Inhabited

/-- What the task body does when it is invoked. -/
inductive Beh
  | ok                 -- writes every product
  | raisesEarly        -- raises before writing anything
  | raisesLate         -- writes every product, then raises
  | omits (k : Nat)    -- writes every product except the k-th, returns normally
  | loadFails          -- a dependency node's `load` raises (`NodeLoadError`): the function is never invoked
  | saveFails          -- the function runs to completion, then a product node's `save` raises: nothing is stored
deriving Repr, DecidableEq, Inhabited

structure TaskSpec where
  id : Nat
  src : Nat                 -- node id of the module file
  deps : List Nat
  prods : List Nat
  after : List Nat          -- task ids named by `@task(after=…)` (function, list or resolved expression)
  skip : Bool := false      -- `@pytask.mark.skip`
  skipif : Bool := false    -- some `@pytask.mark.skipif(True, …)`
  persist : Bool := false
  prio : Int := 0
  beh : Beh := .ok
deriving Repr, Inhabited

structure Project where
  tasks : List TaskSpec
deriving Repr, Inhabited

abbrev FS := List (Nat × Nat)            -- node ↦ content (absent = file does not exist)
abbrev DB := List ((Nat × Nat) × Nat)    -- (task vertex, neighbour vertex) ↦ recorded state

structure World where
  fs : FS
  db : DB
deriving Repr, Inhabited

structure Cfg where
  force : Bool := false
  dry : Bool := false
  maxFail : Option Nat := none           -- `max_failures` (∞ = none); `stop_after_first_failure` = some 1
  selK : Option (List Nat) := none       -- tasks whose names match `-k` (none = option not given)
  selM : Option (List Nat) := none       -- tasks whose own markers match `-m`
deriving Repr, Inhabited

/-- The body function (a parameter of every theorem; the driver instantiates it). -/
abbrev BodyFn := Nat → Nat → Option Nat → List (Option Nat) → Nat

namespace Engine

def tv (t : Nat) : Nat := 2 * t          -- task vertex
def nv (n : Nat) : Nat := 2 * n + 1      -- node vertex
def isTaskV (v : Nat) : Bool := v % 2 == 0

def lookup {κ} [BEq κ] (m : List (κ × Nat)) (k : κ) : Option Nat :=
  match m.find? (fun e => e.1 == k) with
  | some e => some e.2
  | none => none

def insert {κ} [BEq κ] (m : List (κ × Nat)) (k : κ) (v : Nat) : List (κ × Nat) :=
  (k, v) :: m.filter (fun e => !(e.1 == k))

def Project.find? (P : Project) (t : Nat) : Option TaskSpec := P.tasks.find? (fun s => s.id == t)

/-- `_create_dag_from_tasks`. -/
def baseGraph (P : Project) : G :=
  P.tasks.foldl (fun g t =>
    let g := g.addNode (tv t.id)
    let g := t.deps.foldl (fun g d => g.addEdge (nv d) (tv t.id)) g
    t.prods.foldl (fun g p => g.addEdge (tv t.id) (nv p)) g) G.empty

/-- `_modify_dag`: for every `after` target, an edge from each *successor* (product node) of the
target to the task. A target without products contributes nothing (finding F1). -/
def modifyDag (P : Project) (g : G) : G :=
  P.tasks.foldl (fun g t =>
    t.after.foldl (fun g o =>
      if o == t.id then g else
      (g.succs (tv o)).foldl (fun g s => g.addEdge s (tv t.id)) g) g) g

/-- `_check_if_tasks_have_the_same_products`: a *node* vertex with more than one predecessor. -/
def sharedProduct (g : G) : Bool :=
  g.nodes.any (fun v => !isTaskV v && (g.preds v).length > 1)

inductive DagErr | cycle | sharedProduct | sorterCycle
deriving Repr, DecidableEq

def taskAnc (g : G) (t : Nat) : List Nat := ((g.anc (tv t)).filter isTaskV).map (· / 2)
def taskDesc (g : G) (t : Nat) : List Nat := ((g.desc (tv t)).filter isTaskV).map (· / 2)

/-- `select_by_keyword` / `select_by_mark`: union of task-and-preceding-tasks over the matching tasks. -/
def selClosure (g : G) (sel : List Nat) : List Nat := sel.flatMap (fun t => t :: taskAnc g t)

/-- Tasks that receive a "Deselected" skip mark. -/
def deselected (P : Project) (g : G) (cfg : Cfg) : List Nat :=
  let all := P.tasks.map (·.id)
  let dk := match cfg.selK with
    | none => []
    | some s => all.filter (fun t => !(selClosure g s).contains t)
  let dm := match cfg.selM with
    | none => []
    | some s => all.filter (fun t => !(selClosure g s).contains t)
  dk ++ dm

/-- `create_dag_from_session`, steps in the order of `Generated.dagPipeline`. Returns the graph and
the injected "deselected" skip marks. -/
def createDag (P : Project) (cfg : Cfg) : Except DagErr (G × List Nat) :=
  let rec go (steps : List String) (g : G) (marks : List Nat) : Except DagErr (G × List Nat) :=
    match steps with
    | [] => .ok (g, marks)
    | s :: rest =>
      if s == "create" then go rest (baseGraph P) marks
      else if s == "cycles" then (if g.hasCycle then .error .cycle else go rest g marks)
      else if s == "products" then (if sharedProduct g then .error .sharedProduct else go rest g marks)
      else if s == "modify" then go rest (modifyDag P g) marks
      else if s == "select" then go rest g (marks ++ deselected P g cfg)
      else go rest g marks
  go Generated.dagPipeline G.empty []

structure Sess where
  w : World
  skipMarks : List Nat := []       -- injected `skip` marks (deselection, skipped ancestors)
  failMarks : List Nat := []       -- `skip_ancestor_failed`
  wbeMarks : List Nat := []        -- `would_be_executed`
  nFailed : Nat := 0
  stop : Bool := false
  crashed : Bool := false          -- `update_states_in_database` raised: the build loop aborted
  reports : List (Nat × Outcome) := []
  log : List Nat := []             -- task ids whose body was invoked, in order
deriving Repr, Inhabited

def stateOf (P : Project) (w : World) (v : Nat) : Option Nat :=
  if isTaskV v then
    match Project.find? P (v / 2) with
    | some t => lookup w.fs t.src
    | none => none
  else lookup w.fs (v / 2)

/-- `node_and_neighbors`: predecessors, the task, successors. -/
def neighbours (g : G) (t : Nat) : List Nat := g.preds (tv t) ++ [tv t] ++ g.succs (tv t)

/-- `has_node_changed`. -/
def hasChanged (w : World) (t : Nat) (v : Nat) (st : Option Nat) : Bool :=
  match st with
  | none => true
  | some h => match lookup w.db (tv t, v) with
    | none => true
    | some r => r != h

inductive Scan | missing | changed | unchanged
deriving Repr, DecidableEq

/-- The loop of `execute.pytask_execute_task_setup` over `node_and_neighbors`. `needs` starts as
`force`; a missing predecessor (dependency, or the task's own source) always raises; once the task
is known to run, only the remaining predecessors are still checked for existence. -/
def scan (P : Project) (g : G) (w : World) (t : Nat) (needs : Bool) : List Nat → Scan
  | [] => if needs then .changed else .unchanged
  | v :: vs =>
    let isPredOrSelf := (g.preds (tv t)).contains v || v == tv t
    if needs && !isPredOrSelf then .changed
    else
      let st := stateOf P w v
      if isPredOrSelf && st.isNone then .missing
      else if needs then scan P g w t true vs
      else scan P g w t (hasChanged w t v st) vs

/-- `update_states_in_database`: one row per neighbour; a missing node has state `None`, the
NOT NULL column then raises `IntegrityError` (→ `none`). Rows before the failing one are committed. -/
def updateStates (P : Project) (g : G) (w : World) (t : Nat) : List Nat → World × Bool
  | [] => (w, true)
  | v :: vs =>
    match stateOf P w v with
    | none => (w, false)
    | some h => updateStates P g { w with db := insert w.db (tv t, v) h } t vs

/-- `update_states_in_database` as called from the report hooks: returns at once in a dry-run. -/
def recordStates (P : Project) (g : G) (cfg : Cfg) (w : World) (t : Nat) : World × Bool :=
  if cfg.dry then (w, true) else updateStates P g w t (neighbours g t)

/-- Does `pytask_execute_task` reach the call of the task function? (`_safe_load` of every
dependency comes first.) -/
def behInvokes : Beh → Bool
  | .loadFails => false
  | _ => true

/-- Effect of invoking the body. Returns the new file system and whether the call raised. -/
def runBody (F : BodyFn) (t : TaskSpec) (fs : FS) : FS × Bool :=
  let src := lookup fs t.src
  let ds := t.deps.map (lookup fs)
  -- reading a missing dependency raises before anything is written
  if ds.any (·.isNone) then (fs, true) else
  let writeAll (skipIdx : Option Nat) : FS :=
    (t.prods.zipIdx).foldl (fun fs (p, i) => if some i == skipIdx then fs else insert fs p (F t.id i src ds)) fs
  match t.beh with
  | .ok => (writeAll none, false)
  | .raisesEarly => (fs, true)
  | .raisesLate => (writeAll none, true)
  | .omits k => (writeAll (some k), false)
  | .loadFails => (fs, true)
  | .saveFails => (fs, true)

inductive Raised
  | none | skippedUnchanged | skipped | ancestorFailed | persisted | wouldBeExecuted | error
deriving Repr, DecidableEq

/-- One hook implementation of `pytask_execute_task_setup`, by plugin name. -/
def setupImpl (P : Project) (g : G) (cfg : Cfg) (s : Sess) (t : TaskSpec) (name : String) : Raised :=
  if name == "skipping" then
    -- (`skip_unchanged` marks are never attached by the current code base)
    if t.skip || s.skipMarks.contains t.id then .skipped
    else if t.skipif then .skipped
    else if s.failMarks.contains t.id then .ancestorFailed
    else .none
  else if name == "persist" then
    -- (repair of finding F20: a task carrying the `would_be_executed` mark is not persisted)
    if t.persist && !s.wbeMarks.contains t.id then
      let ns := neighbours g t.id
      let sts := ns.map (stateOf P s.w)
      if sts.all (·.isSome) then
        if (ns.zip sts).any (fun (v, st) => hasChanged s.w t.id v st) then .persisted else .none
      else .none
    else .none
  else if name == "execute" then
    if s.wbeMarks.contains t.id then .wouldBeExecuted
    else match scan P g s.w t.id cfg.force (neighbours g t.id) with
      | .missing => .error
      | .changed => .none
      | .unchanged => .skippedUnchanged
  else .none   -- "provisional": nothing to resolve in a static project

def setupChain (P : Project) (g : G) (cfg : Cfg) (s : Sess) (t : TaskSpec) : List String → Raised
  | [] => .none
  | n :: ns => match setupImpl P g cfg s t n with
    | .none => setupChain P g cfg s t ns
    | r => r

def markAll (marks : List Nat) (xs : List Nat) : List Nat := marks ++ xs

/-- `pytask_execute_task_setup`, `pytask_execute_task`, `pytask_execute_task_teardown` for one task: what
was raised (`.none` = the `else` branch of the protocol's `try`) and the session after the body's effects. -/
def runPhases (F : BodyFn) (P : Project) (g : G) (cfg : Cfg) (s : Sess) (t : TaskSpec) : Raised × Sess :=
  match setupChain P g cfg s t Generated.setupOrder with
  | .none =>
    if cfg.dry then (.wouldBeExecuted, s)
    else
      let (fs', raised) := runBody F t s.w.fs
      let s' := { s with w := { s.w with fs := fs' }, log := if behInvokes t.beh then s.log ++ [t.id] else s.log }
      if raised then (.error, s')
      else if t.prods.any (fun p => (lookup fs' p).isNone) then (.error, s')   -- teardown
      else (.none, s')
  | r => (r, s)

/-- The `pytask_execute_task_process_report` chain (firstresult: skipping, persist, execute). -/
def processReport (P : Project) (g : G) (cfg : Cfg) (s : Sess) (t : TaskSpec) (r : Raised) : Sess :=
  let desc := taskDesc g t.id
  match r with
  | .skippedUnchanged => { s with reports := s.reports ++ [(t.id, Outcome.skipUnchanged)] }
  | .skipped => { s with reports := s.reports ++ [(t.id, Outcome.skip)], skipMarks := markAll s.skipMarks desc }
  | .ancestorFailed => { s with reports := s.reports ++ [(t.id, Outcome.skipPrevFailed)] }
  | .persisted =>
    let (w', ok) := recordStates P g cfg s.w t.id
    { s with w := w', reports := s.reports ++ [(t.id, Outcome.persistence)], crashed := !ok }
  | .none =>
    let (w', ok) := recordStates P g cfg s.w t.id
    if ok then { s with w := w', reports := s.reports ++ [(t.id, Outcome.success)] }
    else { s with w := w', crashed := true }      -- exception escapes the hook: no report is appended
  | .wouldBeExecuted =>
    { s with reports := s.reports ++ [(t.id, Outcome.wouldBeExecuted)], wbeMarks := markAll s.wbeMarks desc }
  | .error =>
    let n := s.nFailed + 1
    { s with reports := s.reports ++ [(t.id, Outcome.fail)], failMarks := markAll s.failMarks desc, nFailed := n,
             stop := s.stop || (match cfg.maxFail with | some m => decide (m ≤ n) | none => false) }

/-- `pytask_execute_task_protocol` for one task. -/
def protocol (F : BodyFn) (P : Project) (g : G) (cfg : Cfg) (s : Sess) (t : TaskSpec) : Sess :=
  let rs := runPhases F P g cfg s t
  processReport P g cfg rs.2 t rs.1

inductive Illegal | notReady (t : Nat) | unknownTask (t : Nat) | leftover
deriving Repr, DecidableEq

/-- `pytask_execute_build`: `while scheduler.is_active(): t = get_ready()[0]; protocol; done(t); if should_stop: break`.
The observed pick order is an input; each pick is checked against `legalBatchB` (n = 1). -/
def buildLoop (F : BodyFn) (P : Project) (g : G) (cfg : Cfg) :
    Sorter → Sess → List Nat → Except Illegal (Sorter × Sess)
  | so, s, [] => .ok (so, s)
  | so, s, t :: ts =>
    if s.stop || s.crashed || !so.isActive then .error .leftover else
    if !Sorter.legalBatchB so 1 [tv t] then .error (.notReady t) else
    match Project.find? P t with
    | none => .error (.unknownTask t)
    | some spec =>
      let s' := protocol F P g cfg s spec
      buildLoop F P g cfg ((so.take [tv t]).finish [tv t]) s' ts

structure Result where
  exit : Nat
  reports : List (Nat × Outcome)
  log : List Nat
  w : World
  complete : Bool       -- the pick list drove the loop to its natural end (sorter inactive, stop or crash)
deriving Repr, Inhabited

def exitCode (name : String) : Nat :=
  match Generated.exitCodes.find? (·.1 == name) with
  | some e => e.2
  | none => 99

def ladderCode (exc : String) : Nat :=
  match Generated.buildLadder.find? (fun r => r.1.contains exc) with
  | some r => exitCode r.2
  | none => exitCode "FAILED"

def prioFn (P : Project) (v : Nat) : Int :=
  match Project.find? P (v / 2) with
  | some t => t.prio
  | none => 0

/-- `build()` from `create_dag` on, for a project that configured and collected successfully. -/
def build (F : BodyFn) (P : Project) (cfg : Cfg) (w : World) (picks : List Nat) : Except Illegal Result :=
  match createDag P cfg with
  | .error _ => .ok { exit := ladderCode "ResolvingDependenciesError", reports := [], log := [], w := w, complete := picks.isEmpty }
  | .ok (g, marks) =>
    match Sorter.fromDag g isTaskV (prioFn P) with
    | .error _ =>
      -- `TopologicalSorter.check_dag` raises a plain ValueError inside `pytask_execute`
      .ok { exit := ladderCode "Exception", reports := [], log := [], w := w, complete := picks.isEmpty }
    | .ok so =>
      let s0 : Sess := { w := w, skipMarks := marks }
      match buildLoop F P g cfg so s0 picks with
      | .error e => .error e
      | .ok (so', s) =>
        let failed := s.reports.any (fun r => r.2 == .fail)
        .ok { exit := if s.crashed then ladderCode "Exception"
                      else if failed then ladderCode "ExecutionError" else exitCode "OK",
              reports := s.reports, log := s.log, w := s.w,
              complete := s.stop || s.crashed || !so'.isActive }

end Engine
end Pytask
