import PytaskModel.Generated
/-!
# M10 — capturing and process state (`capture.py`, `build.py:257-282`, the `pytask_unconfigure` impls)

Executable model, core Lean only.

* `OS`  — a file-descriptor table (`fd ↦ open file id`) over append-only files (`file id ↦ content`).
  `dup`, `dup2`, `close`, `openNew`, `write`, `snap` follow POSIX: `dup`/`open` return the lowest free
  descriptor; descriptors that were `dup`ed share one file (offset shared, so every writer appends).
* `Py`  — the interpreter state a build can touch: `sys.stdin/stdout/stderr` (stream *objects* with an
  identity), in-memory buffers of `CaptureIO`, `pdb.set_trace` and `PytaskPDB._saved`, `warnings.filters`,
  `ExecutionReport`/`Traceback` class variables, `TASKS_WITH_PROVISIONAL_NODES`, `COLLECTED_TASKS`,
  `sys.modules` (task modules only), the SQLAlchemy engine's descriptor, and the descriptors owned by
  unreachable Python file objects (closed by the garbage collector).
* `SysCap`, `FdCap`, `MC` (`MultiCapture`), `CM` (`CaptureManager`) — transcribed method by method.
* `buildOps` — what one `pytask.build()` does to that state: the `pytask_post_parse` impls in pluggy order,
  collection, the `pytask_collect_log` wrapper, per executed task and hook `task_capture`, then the
  implementations listed in `Generated.unconfigureImpls`.

Payload unit: the code point (`Nat`). Text layers are UTF-8 with `newline=""`, `write_through=True`, so a
Python-level write of `s` and a descriptor-level write of `s.encode()` put the same code points in the file.
Assertions and exceptions of the Python code that the build never survives set `fault`.
-/
namespace Pytask.Capture

abbrev Data := List Nat

/-! ## The operating system -/

structure OS where
  files : List Data := []
  fdt : List (Option Nat) := []
  deriving Repr, DecidableEq, Inhabited

/-- file-store update; the store grows when `f` is beyond its end -/
def fset (l : List Data) (f : Nat) (d : Data) : List Data :=
  if f < l.length then l.set f d else l ++ List.replicate (f - l.length) [] ++ [d]

/-- table update; the table grows when `i` is beyond its end -/
def tset (t : List (Option Nat)) (i : Nat) (v : Option Nat) : List (Option Nat) :=
  if i < t.length then t.set i v else t ++ List.replicate (i - t.length) none ++ [v]

namespace OS

/-- the open file `i` refers to (`none` = closed) -/
def fd (o : OS) (i : Nat) : Option Nat := o.fdt.getD i none
def setFd (o : OS) (i : Nat) (v : Option Nat) : OS := { o with fdt := tset o.fdt i v }
/-- the lowest closed descriptor (what `dup`/`open` return) -/
def free (o : OS) : Nat := o.fdt.findIdx (fun x => x.isNone)
/-- number of open descriptors (`len(os.listdir('/proc/self/fd'))`) -/
def count (o : OS) : Nat := o.fdt.countP (fun x => x.isSome)
def file (o : OS) (f : Nat) : Data := o.files.getD f []
def setFile (o : OS) (f : Nat) (d : Data) : OS := { o with files := fset o.files f d }

/-- `os.dup(src)` -/
def dup (o : OS) (src : Nat) : OS × Nat := let n := o.free; (o.setFd n (o.fd src), n)
/-- `os.dup2(src, dst)` (EBADF when `src` is closed: no change) -/
def dup2 (o : OS) (src dst : Nat) : OS :=
  match o.fd src with
  | none => o
  | some f => o.setFd dst (some f)
/-- `os.close(i)` -/
def close (o : OS) (i : Nat) : OS := o.setFd i none
/-- `open(...)` of a fresh file (a `TemporaryFile`, `/dev/null` opened anew, the sqlite database) -/
def openNew (o : OS) : OS × Nat :=
  let n := o.free
  ({ files := o.files ++ [[]], fdt := tset o.fdt n (some o.files.length) }, n)
/-- `os.write(i, d)`: append at the shared offset -/
def write (o : OS) (i : Nat) (d : Data) : OS :=
  match o.fd i with
  | none => o
  | some f => o.setFile f (o.file f ++ d)
/-- `seek(0); read(); seek(0); truncate()` through descriptor `i` -/
def snap (o : OS) (i : Nat) : OS × Data :=
  match o.fd i with
  | none => (o, [])
  | some f => (o.setFile f [], o.file f)

end OS

/-! ## The interpreter -/

/-- Python stream objects; `oid` is the identity of objects created during a build. -/
inductive Stream where
  | orig (fd : Nat)                                  -- the interpreter's own text stream over `fd`, write-through
  | file (oid : Nat) (pyfd : Nat)                    -- `EncodedFile(TemporaryFile())` / `open(os.devnull)` over its own descriptor
  | capIO (oid : Nat) (buf : Nat)                    -- `CaptureIO`
  | teeIO (oid : Nat) (buf : Nat) (other : Stream)   -- `TeeCaptureIO(other)`
  | dontRead (oid : Nat)                             -- `DontReadFromInput`
  deriving Repr, DecidableEq, Inhabited

structure Py where
  stdin : Stream := .orig 0
  stdout : Stream := .orig 1
  stderr : Stream := .orig 2
  bufs : List Data := []
  nextOid : Nat := 0
  filters : List Nat := []          -- `warnings.filters`
  setTrace : Nat := 0               -- `pdb.set_trace` (0 = the stdlib function, 1 = `PytaskPDB.set_trace`)
  pdbSaved : List Nat := []         -- `PytaskPDB._saved`
  reportVars : Nat := 0             -- `ExecutionReport.*`, `Traceback._show_locals` (0 = defaults)
  provisional : List Nat := []      -- `TASKS_WITH_PROVISIONAL_NODES`
  collected : List (Nat × Nat) := []  -- `COLLECTED_TASKS`: (module, function) in insertion order
  modules : List Nat := []          -- task modules cached in `sys.modules`
  dbFd : Option Nat := none         -- descriptor held by the SQLAlchemy engine bound to `DatabaseSession`
  garbage : List Nat := []          -- descriptors owned by unreachable Python file objects / engines
  deriving Repr, DecidableEq, Inhabited

structure W where
  os : OS := {}
  py : Py := {}
  fault : Bool := false
  deriving Repr, DecidableEq, Inhabited

def W.fail (w : W) : W := { w with fault := true }

/-- `getattr(sys, patchsysdict[n])` -/
def Py.getStd (p : Py) : Nat → Stream
  | 0 => p.stdin
  | 1 => p.stdout
  | _ => p.stderr
/-- `setattr(sys, patchsysdict[n], s)` -/
def Py.setStd (p : Py) (n : Nat) (s : Stream) : Py :=
  match n with
  | 0 => { p with stdin := s }
  | 1 => { p with stdout := s }
  | _ => { p with stderr := s }

def W.setStd (w : W) (n : Nat) (s : Stream) : W := { w with py := w.py.setStd n s }
def W.osWrite (w : W) (i : Nat) (d : Data) : W := { w with os := w.os.write i d }
def W.buf (w : W) (b : Nat) : Data := w.py.bufs.getD b []
def W.setBuf (w : W) (b : Nat) (d : Data) : W := { w with py := { w.py with bufs := fset w.py.bufs b d } }
def W.bufAppend (w : W) (b : Nat) (d : Data) : W := w.setBuf b (w.buf b ++ d)

/-- `stream.write(d)` (+ the flush that `write_through` implies) -/
def writePy (w : W) : Stream → Data → W
  | .orig i, d => w.osWrite i d
  | .file _ p, d => w.osWrite p d
  | .capIO _ b, d => w.bufAppend b d
  | .teeIO _ b other, d => writePy (w.bufAppend b d) other d
  | .dontRead _, _ => w

/-- `stream.close()` -/
def closeStream (w : W) : Stream → W
  | .file _ p => { w with os := w.os.close p }
  | _ => w

/-! ## Capture classes -/

inductive CapState where
  | initialized | started | suspended | done
  deriving Repr, DecidableEq, Inhabited

/-- `SysCapture` (`SysCaptureBase`, capture.py:302-417) -/
structure SysCap where
  name : Nat                 -- index into `patchsysdict`
  old : Option Stream        -- `_old` (deleted by `done`)
  tmp : Stream               -- `tmpfile`
  state : CapState
  deriving Repr, DecidableEq, Inhabited

/-- `FDCapture` (`FDCaptureBase`, capture.py:420-571) -/
structure FdCap where
  target : Nat
  save : Nat                 -- `targetfd_save`
  invalid : Option Nat       -- `targetfd_invalid`
  tmp : Stream               -- `tmpfile`
  pyfd : Nat                 -- `tmpfile.fileno()`
  sysc : Option SysCap       -- `syscapture` (`none` = `NoCapture`)
  state : CapState
  deriving Repr, DecidableEq, Inhabited

inductive Cap where
  | sys (c : SysCap)
  | fd (c : FdCap)
  deriving Repr, DecidableEq, Inhabited

def newOid (w : W) : W × Nat := ({ w with py := { w.py with nextOid := w.py.nextOid + 1 } }, w.py.nextOid)
def newBuf (w : W) : W × Nat := ({ w with py := { w.py with bufs := w.py.bufs ++ [[]] } }, w.py.bufs.length)

namespace SysCap

/-- `SysCaptureBase.__init__(fd, tmpfile=None, *, tee=False)` -/
def init (w : W) (fd : Nat) (tmpfile : Option Stream) (tee : Bool) : W × SysCap :=
  let old := w.py.getStd fd
  match tmpfile with
  | some t => (w, ⟨fd, some old, t, .initialized⟩)
  | none =>
    if fd == 0 then
      let (w, oid) := newOid w
      (w, ⟨fd, some old, .dontRead oid, .initialized⟩)
    else
      let (w, oid) := newOid w
      let (w, b) := newBuf w
      (w, ⟨fd, some old, if tee then .teeIO oid b old else .capIO oid b, .initialized⟩)

def start (w : W) (c : SysCap) : W × SysCap :=
  if c.state != .initialized then (w.fail, c) else
  (w.setStd c.name c.tmp, { c with state := .started })

def done (w : W) (c : SysCap) : W × SysCap :=
  if c.state == .done then (w, c) else
  match c.old with
  | none => (w.fail, c)
  | some o => (closeStream (w.setStd c.name o) c.tmp, { c with old := none, state := .done })

def suspend (w : W) (c : SysCap) : W × SysCap :=
  if !(c.state == .started || c.state == .suspended) then (w.fail, c) else
  match c.old with
  | none => (w.fail, c)
  | some o => (w.setStd c.name o, { c with state := .suspended })

def resume (w : W) (c : SysCap) : W × SysCap :=
  if !(c.state == .started || c.state == .suspended) then (w.fail, c) else
  if c.state == .started then (w, c) else
  (w.setStd c.name c.tmp, { c with state := .started })

/-- `SysCapture.snap`: `getvalue(); seek(0); truncate()` (asserts a `CaptureIO`) -/
def snap (w : W) (c : SysCap) : W × Data :=
  if !(c.state == .started || c.state == .suspended) then (w.fail, []) else
  match c.tmp with
  | .capIO _ b => (w.setBuf b [], w.buf b)
  | .teeIO _ b _ => (w.setBuf b [], w.buf b)
  | _ => (w.fail, [])

def writeorg (w : W) (c : SysCap) (d : Data) : W :=
  if !(c.state == .started || c.state == .suspended) then w.fail else
  match c.old with
  | none => w.fail
  | some o => writePy w o d

end SysCap

def optSys (f : W → SysCap → W × SysCap) (w : W) : Option SysCap → W × Option SysCap
  | none => (w, none)
  | some c => let r := f w c; (r.1, some r.2)

namespace FdCap

/-- `FDCaptureBase.__init__(targetfd)` -/
def init (w : W) (target : Nat) : W × FdCap :=
  let (w, invalid) : W × Option Nat :=
    match w.os.fd target with
    | some _ => (w, none)
    | none =>
      let r := w.os.openNew
      ({ w with os := r.1.dup2 r.2 target }, some r.2)
  let r := w.os.dup target
  let w := { w with os := r.1 }
  let save := r.2
  let r := w.os.openNew            -- `open(os.devnull)` resp. `TemporaryFile(buffering=0)`
  let w := { w with os := r.1 }
  let p := r.2
  let (w, oid) := newOid w
  let tmp := Stream.file oid p
  if target == 0 then
    let (w, sc) := SysCap.init w target none false
    (w, ⟨target, save, invalid, tmp, p, some sc, .initialized⟩)
  else if target == 1 || target == 2 then
    let (w, sc) := SysCap.init w target (some tmp) false
    (w, ⟨target, save, invalid, tmp, p, some sc, .initialized⟩)
  else
    (w, ⟨target, save, invalid, tmp, p, none, .initialized⟩)

def start (w : W) (c : FdCap) : W × FdCap :=
  if c.state != .initialized then (w.fail, c) else
  let w := { w with os := w.os.dup2 c.pyfd c.target }
  let (w, sc) := optSys SysCap.start w c.sysc
  (w, { c with sysc := sc, state := .started })

def done (w : W) (c : FdCap) : W × FdCap :=
  if c.state == .done then (w, c) else
  let os := (w.os.dup2 c.save c.target).close c.save
  let os := match c.invalid with
    | none => os
    | some inv => (if inv != c.target then os.close c.target else os).close inv
  let (w, sc) := optSys SysCap.done { w with os := os } c.sysc
  (closeStream w c.tmp, { c with sysc := sc, state := .done })

def suspend (w : W) (c : FdCap) : W × FdCap :=
  if !(c.state == .started || c.state == .suspended) then (w.fail, c) else
  if c.state == .suspended then (w, c) else
  let (w, sc) := optSys SysCap.suspend w c.sysc
  ({ w with os := w.os.dup2 c.save c.target }, { c with sysc := sc, state := .suspended })

def resume (w : W) (c : FdCap) : W × FdCap :=
  if !(c.state == .started || c.state == .suspended) then (w.fail, c) else
  if c.state == .started then (w, c) else
  let w := { w with os := w.os.dup2 c.pyfd c.target }      -- since 17032a6 the descriptor is redirected first
  let (w, sc) := optSys SysCap.resume w c.sysc
  (w, { c with sysc := sc, state := .started })

/-- `FDCapture.snap`: `tmpfile.seek(0); tmpfile.read(); seek(0); truncate()` -/
def snap (w : W) (c : FdCap) : W × Data :=
  if !(c.state == .started || c.state == .suspended) then (w.fail, []) else
  let r := w.os.snap c.pyfd
  ({ w with os := r.1 }, r.2)

def writeorg (w : W) (c : FdCap) (d : Data) : W :=
  if !(c.state == .started || c.state == .suspended) then w.fail else
  w.osWrite c.save d

end FdCap

namespace Cap
def start (w : W) : Cap → W × Cap
  | .sys c => let r := c.start w; (r.1, .sys r.2)
  | .fd c => let r := c.start w; (r.1, .fd r.2)
def done (w : W) : Cap → W × Cap
  | .sys c => let r := c.done w; (r.1, .sys r.2)
  | .fd c => let r := c.done w; (r.1, .fd r.2)
def suspend (w : W) : Cap → W × Cap
  | .sys c => let r := c.suspend w; (r.1, .sys r.2)
  | .fd c => let r := c.suspend w; (r.1, .fd r.2)
def resume (w : W) : Cap → W × Cap
  | .sys c => let r := c.resume w; (r.1, .sys r.2)
  | .fd c => let r := c.resume w; (r.1, .fd r.2)
def snap (w : W) : Cap → W × Data
  | .sys c => c.snap w
  | .fd c => c.snap w
def writeorg (w : W) (d : Data) : Cap → W
  | .sys c => c.writeorg w d
  | .fd c => c.writeorg w d
/-- descriptors owned by the capture's Python file objects (what a finaliser closes) -/
def owned : Cap → List Nat
  | .sys _ => []
  | .fd c => if c.state == .done then [] else [c.pyfd]
end Cap

def optCap (f : W → Cap → W × Cap) (w : W) : Option Cap → W × Option Cap
  | none => (w, none)
  | some c => let r := f w c; (r.1, some r.2)

/-! ## MultiCapture (capture.py:599-712) -/

inductive MCState where
  | unset | started | suspended | stopped
  deriving Repr, DecidableEq, Inhabited

structure MC where
  in_ : Option Cap
  out : Option Cap
  err : Option Cap
  state : MCState := .unset
  inSuspended : Bool := false
  deriving Repr, DecidableEq, Inhabited

namespace MC

def startCapturing (w : W) (m : MC) : W × MC :=
  let (w, i) := optCap Cap.start w m.in_
  let (w, o) := optCap Cap.start w m.out
  let (w, e) := optCap Cap.start w m.err
  (w, { m with in_ := i, out := o, err := e, state := .started })

def suspendCapturing (w : W) (m : MC) (in_ : Bool) : W × MC :=
  let (w, o) := optCap Cap.suspend w m.out
  let (w, e) := optCap Cap.suspend w m.err
  if in_ && m.in_.isSome then
    let (w, i) := optCap Cap.suspend w m.in_
    (w, { m with in_ := i, out := o, err := e, state := .suspended, inSuspended := true })
  else
    (w, { m with out := o, err := e, state := .suspended })

def resumeCapturing (w : W) (m : MC) : W × MC :=
  let (w, o) := optCap Cap.resume w m.out
  let (w, e) := optCap Cap.resume w m.err
  if m.inSuspended then
    match m.in_ with
    | none => (w.fail, { m with out := o, err := e, state := .started })
    | some c =>
      let r := c.resume w
      (r.1, { m with in_ := some r.2, out := o, err := e, state := .started, inSuspended := false })
  else
    (w, { m with out := o, err := e, state := .started })

def stopCapturing (w : W) (m : MC) : W × MC :=
  if m.state == .stopped then (w.fail, m) else
  let (w, o) := optCap Cap.done w m.out
  let (w, e) := optCap Cap.done w m.err
  let (w, i) := optCap Cap.done w m.in_
  (w, { m with in_ := i, out := o, err := e, state := .stopped })

def snapOpt (w : W) : Option Cap → W × Data
  | none => (w, [])
  | some c => c.snap w

def readouterr (w : W) (m : MC) : W × Data × Data :=
  let r := snapOpt w m.out
  let s := snapOpt r.1 m.err
  (s.1, r.2, s.2)

def popOuterrToOrig (w : W) (m : MC) : W :=
  let (w, out, err) := m.readouterr w
  let w := if out.isEmpty then w else match m.out with | some c => c.writeorg w out | none => w.fail
  if err.isEmpty then w else match m.err with | some c => c.writeorg w err | none => w.fail

def owned (m : MC) : List Nat :=
  (m.in_.map Cap.owned).getD [] ++ (m.out.map Cap.owned).getD [] ++ (m.err.map Cap.owned).getD []

end MC

/-! ## `_get_multicapture` — rows of `Generated.multicaptureTable` -/

inductive Method where
  | fd | sys | no | teeSys
  deriving Repr, DecidableEq, Inhabited

def Method.name : Method → String
  | .fd => "fd" | .sys => "sys" | .no => "no" | .teeSys => "tee-sys"

/-- one constructor of the table: `FDCapture(n)`, `SysCapture(n)`, `SysCapture(n, tee=True)`, `None` -/
def mkCap (w : W) (ctor : String × Nat) : W × Option Cap :=
  match ctor.1 with
  | "fd" => let r := FdCap.init w ctor.2; (r.1, some (.fd r.2))
  | "sys" => let r := SysCap.init w ctor.2 none false; (r.1, some (.sys r.2))
  | "tee" => let r := SysCap.init w ctor.2 none true; (r.1, some (.sys r.2))
  | "none" => (w, none)
  | _ => (w.fail, none)

def ctorsOf (m : Method) : List (String × Nat) := (Generated.multicaptureTable.lookup m.name).getD []

def getMulticapture (w : W) (m : Method) : W × MC :=
  match ctorsOf m with
  | [ci, co, ce] =>
    let (w, i) := mkCap w ci
    let (w, o) := mkCap w co
    let (w, e) := mkCap w ce
    (w, { in_ := i, out := o, err := e })
  | _ => (w.fail, { in_ := none, out := none, err := none })

/-! ## CaptureManager (capture.py:718-819) -/

structure CM where
  method : Method
  capturing : Option MC := none
  deriving Repr, DecidableEq, Inhabited

namespace CM

def startCapturing (w : W) (c : CM) : W × CM :=
  match c.capturing with
  | some _ => (w.fail, c)
  | none =>
    let (w, m) := getMulticapture w c.method
    let (w, m) := m.startCapturing w
    (w, { c with capturing := some m })

def stopCapturing (w : W) (c : CM) : W × CM :=
  match c.capturing with
  | none => (w, c)
  | some m =>
    let w := m.popOuterrToOrig w
    let (w, _) := m.stopCapturing w
    (w, { c with capturing := none })

def resume (w : W) (c : CM) : W × CM :=
  match c.capturing with
  | none => (w, c)
  | some m => let r := m.resumeCapturing w; (r.1, { c with capturing := some r.2 })

def suspend (w : W) (c : CM) (in_ : Bool) : W × CM :=
  match c.capturing with
  | none => (w, c)
  | some m => let r := m.suspendCapturing w in_; (r.1, { c with capturing := some r.2 })

def read (w : W) (c : CM) : W × Data × Data :=
  match c.capturing with
  | none => (w.fail, [], [])
  | some m => m.readouterr w

def owned (c : CM) : List Nat := (c.capturing.map MC.owned).getD []

end CM

/-! ## Statement sequences read from the source (`Generated.*Seq`) -/

inductive Call where
  | stop | start | suspend (in_ : Bool) | resume | yield | read | section (err : Bool) | bad
  deriving Repr, DecidableEq, Inhabited

def decodeCall : String → Call
  | "stop_capturing" => .stop
  | "start_capturing" => .start
  | "suspend" => .suspend false
  | "suspend:false" => .suspend false
  | "suspend:true" => .suspend true
  | "resume" => .resume
  | "yield" => .yield
  | "read" => .read
  | "section:stdout" => .section false
  | "section:stderr" => .section true
  | _ => .bad

def postParseCalls : List Call := Generated.capturePostParseSeq.map decodeCall
def taskCaptureCalls : List Call := Generated.taskCaptureSeq.map decodeCall
def collectLogCalls : List Call := Generated.collectLogSeq.map decodeCall

/-- `when` label of the sections a hook wrapper produces (`Generated.capturePhases`) -/
def whenOf (hook : String) : String := (Generated.capturePhases.lookup hook).getD "?"

/-! ## What a task does -/

inductive Chan where
  | pyOut | pyErr | fd1 | fd2 | child1 | child2
  deriving Repr, DecidableEq, Inhabited

structure Write where
  chan : Chan
  data : Data
  deriving Repr, DecidableEq, Inhabited

/-- which report stream a channel belongs to (`false` = stdout, `true` = stderr) -/
def Chan.isErr : Chan → Bool
  | .pyErr | .fd2 | .child2 => true
  | _ => false
/-- Python-level (`print`, `sys.stderr.write`) as opposed to descriptor-level (`os.write`, children) -/
def Chan.isPy : Chan → Bool
  | .pyOut | .pyErr => true
  | _ => false

/-- one write of a task body. A child process inherits the descriptor table, so its output goes
wherever the parent's descriptor 1 / 2 points at that moment. -/
def doWrite (w : W) (x : Write) : W :=
  match x.chan with
  | .pyOut => writePy w w.py.stdout x.data
  | .pyErr => writePy w w.py.stderr x.data
  | .fd1 | .child1 => w.osWrite 1 x.data
  | .fd2 | .child2 => w.osWrite 2 x.data

def doWrites (w : W) (ws : List Write) : W := ws.foldl doWrite w

structure Sec where
  task : Nat
  when : String
  err : Bool          -- `false` = "stdout", `true` = "stderr"
  text : Data
  deriving Repr, DecidableEq, Inhabited

/-- a module of the project: functions registered by the `@task` decorator at import time, and functions
found by the `task_` name prefix -/
structure ModSpec where
  id : Nat
  decorated : List Nat
  plain : List Nat
  /-- the module body raises after its definitions (a failing import) -/
  fails : Bool := false
  deriving Repr, DecidableEq, Inhabited

structure TaskIO where
  id : Nat
  /-- the hooks of the protocol that were entered, with the writes made inside each -/
  phases : List (String × List Write)
  /-- filters the body adds with `warnings.simplefilter` -/
  filt : List Nat := []
  deriving Repr, DecidableEq, Inhabited

structure Cfg where
  method : Method := .fd
  /-- `filterwarnings` of the configuration (applied inside every `catch_warnings` block) -/
  cfgFilters : List Nat := []
  reportVars : Nat := 1
  /-- configuration fails in `pytask_parse_config` (before any `pytask_post_parse` ran) -/
  configFails : Bool := false
  /-- (only with `configFails`) the failure is raised by `create_database` in `database.pytask_post_parse`, i.e. after the
  `pytask_post_parse` implementations that pluggy calls before it have run; no `pytask_unconfigure` follows -/
  failsInDatabase : Bool := false
  deriving Repr, DecidableEq, Inhabited

/-- process state + the plugin manager's `CaptureManager` + what the session accumulated -/
structure St where
  w : W := {}
  cm : Option CM := none
  secs : List Sec := []
  tasks : List (Nat × Nat) := []
  /-- some module could not be imported: `CollectionError`, exit code 3 -/
  collectFailed : Bool := false
  deriving Repr, DecidableEq, Inhabited

/-- local variables `out`, `err` of `task_capture` -/
structure Frame where
  st : St
  out : Data := []
  err : Data := []

def withCM (st : St) (f : W → CM → W × CM) : St :=
  match st.cm with
  | none => { st with w := st.w.fail }
  | some c => let r := f st.w c; { st with w := r.1, cm := some r.2 }

/-- one statement of `post_parse` / `task_capture` / the `collect_log` wrapper -/
def runCall (task : Nat) (when : String) (body : W → W) (fr : Frame) : Call → Frame
  | .stop => { fr with st := withCM fr.st CM.stopCapturing }
  | .start => { fr with st := withCM fr.st CM.startCapturing }
  | .suspend b => { fr with st := withCM fr.st (fun w c => c.suspend w b) }
  | .resume => { fr with st := withCM fr.st CM.resume }
  | .yield => { fr with st := { fr.st with w := body fr.st.w } }
  | .read =>
    match fr.st.cm with
    | none => { fr with st := { fr.st with w := fr.st.w.fail } }
    | some c => let r := c.read fr.st.w; { st := { fr.st with w := r.1 }, out := r.2.1, err := r.2.2 }
  | .section e =>
    let txt := if e then fr.err else fr.out
    if txt.isEmpty then fr else { fr with st := { fr.st with secs := fr.st.secs ++ [⟨task, when, e, txt⟩] } }
  | .bad => { fr with st := { fr.st with w := fr.st.w.fail } }

def runCalls (task : Nat) (when : String) (body : W → W) (st : St) (cs : List Call) : St :=
  (cs.foldl (runCall task when body) { st := st }).st

/-- `with self.task_capture(when, task): return (yield)` around `body` -/
def taskCapture (st : St) (task : Nat) (hook : String) (body : W → W) : St :=
  runCalls task (whenOf hook) body st taskCaptureCalls

/-! ## Collection as far as it touches process-global state (collect.py:213-237, task.py:30-57, path.py:129-165) -/

/-- `pytask_collect_file` for one module: `import_path` puts the module object into `sys.modules` *before*
executing its body and returns the cached object on every later call; the body (and with it the `@task`
decorators, which append to `COLLECTED_TASKS`) runs only on a cache miss. A body that raises makes this
file's collection fail. Otherwise functions are collected by name prefix from the module namespace, then the
`trylast` implementation pops `COLLECTED_TASKS[path]`. Returns the tasks and whether the import failed. -/
def collectModule (p : Py) (m : ModSpec) : Py × List (Nat × Nat) × Bool :=
  if p.modules.contains m.id then
    let popped := p.collected.filter (fun e => e.1 == m.id)
    ({ p with collected := p.collected.filter (fun e => e.1 != m.id) }, m.plain.map (fun f => (m.id, f)) ++ popped, false)
  else
    let p := { p with modules := p.modules ++ [m.id], collected := p.collected ++ m.decorated.map (fun f => (m.id, f)) }
    if m.fails then
      -- `_collect_not_collected_tasks` later pops what the decorators left behind (failed reports, no tasks)
      ({ p with collected := p.collected.filter (fun e => e.1 != m.id) }, [], true)
    else
      let popped := p.collected.filter (fun e => e.1 == m.id)
      ({ p with collected := p.collected.filter (fun e => e.1 != m.id) }, m.plain.map (fun f => (m.id, f)) ++ popped, false)

def collectAll (p : Py) : List ModSpec → Py × List (Nat × Nat) × Bool
  | [] => (p, [], false)
  | m :: ms =>
    let r := collectModule p m
    let s := collectAll r.1 ms
    (s.1, r.2.1 ++ s.2.1, r.2.2 || s.2.2)

/-! ## One build -/

inductive Op where
  | postParse (impl : String)
  | collect (mods : List ModSpec)
  | collectLog
  | phase (task : Nat) (hook : String) (ws : List Write) (filt : List Nat)
  | unconfigure (impl : String)
  | gc
  deriving Repr, DecidableEq, Inhabited

/-- body of the `pytask_execute_task` hook: `catch_warnings_for_item` (warnings_utils.py:158-192) around the
task function -/
def callBody (cfg : Cfg) (ws : List Write) (filt : List Nat) (w : W) : W :=
  let saved := w.py.filters
  let w := { w with py := { w.py with filters := cfg.cfgFilters ++ w.py.filters } }
  let w := doWrites w ws
  let w := { w with py := { w.py with filters := filt ++ w.py.filters } }
  { w with py := { w.py with filters := saved } }

def step (cfg : Cfg) (st : St) : Op → St
  | .postParse "capture" =>
    -- capman = CaptureManager(config["capture"]); register; then the calls of `Generated.capturePostParseSeq`.
    -- The previous plugin manager (and its CaptureManager) becomes unreachable in this configuration.
    let dropped := (st.cm.map CM.owned).getD []
    let st := { st with w := { st.w with py := { st.w.py with garbage := st.w.py.garbage ++ dropped } },
                        cm := some { method := cfg.method } }
    runCalls 0 "" id st postParseCalls
  | .postParse "database" =>
    -- create_database: a new engine is bound; the previous one becomes unreachable
    let r := st.w.os.openNew
    let py := st.w.py
    { st with w := { st.w with os := r.1, py := { py with garbage := py.garbage ++ py.dbFd.toList, dbFd := some r.2 } } }
  | .postParse "debugging" =>
    let py := st.w.py
    { st with w := { st.w with py := { py with pdbSaved := py.setTrace :: py.pdbSaved, setTrace := 1 } } }
  | .postParse "logging" =>
    { st with w := { st.w with py := { st.w.py with reportVars := cfg.reportVars } } }
  | .postParse _ => st
  | .collect mods =>
    let r := collectAll st.w.py mods
    { st with w := { st.w with py := r.1 }, tasks := r.2.1, collectFailed := r.2.2 }
  | .collectLog => runCalls 0 "" id st collectLogCalls
  | .phase t hook ws filt =>
    taskCapture st t hook (if hook == "pytask_execute_task" then callBody cfg ws filt else fun w => doWrites w ws)
  | .unconfigure "task" => { st with w := { st.w with py := { st.w.py with collected := [] } } }
  | .unconfigure "logging" => { st with w := { st.w with py := { st.w.py with reportVars := 0 } } }
  | .unconfigure "provisional" => { st with w := { st.w with py := { st.w.py with provisional := [] } } }
  | .unconfigure "debugging" =>
    let py := st.w.py
    match py.pdbSaved with
    | [] => { st with w := st.w.fail }
    | x :: rest => { st with w := { st.w with py := { py with setTrace := x, pdbSaved := rest } } }
  | .unconfigure "capture" => withCM st CM.stopCapturing       -- not in the current source; see fixes/F6.diff
  | .unconfigure "database" =>                                  -- not in the current source; see fixes/F6.diff
    let py := st.w.py
    match py.dbFd with
    | none => st
    | some d => { st with w := { st.w with os := st.w.os.close d, py := { py with dbFd := none } } }
  | .unconfigure "collect" =>                                   -- not in the current source; see fixes/F7.diff
    { st with w := { st.w with py := { st.w.py with modules := [] } } }
  | .unconfigure _ => st
  | .gc =>
    -- finalisers of unreachable file objects / engines close their descriptors
    let os := st.w.py.garbage.foldl (fun o i => o.close i) st.w.os
    { st with w := { st.w with os := os, py := { st.w.py with garbage := [] } } }

def phaseOps (ios : List TaskIO) : List Op :=
  ios.flatMap (fun t => t.phases.map (fun hw => Op.phase t.id hw.1 hw.2 (if hw.1 == "pytask_execute_task" then t.filt else [])))

/-- `build()` (build.py:182-282) as far as process state goes -/
def buildOps (cfg : Cfg) (mods : List ModSpec) (ios : List TaskIO) : List Op :=
  if cfg.configFails then
    (if cfg.failsInDatabase then (Generated.postParseOrder.takeWhile (fun n => n != "database")).map Op.postParse else [])
  else
  Generated.postParseOrder.map Op.postParse
    ++ [Op.collect mods, Op.collectLog]
    ++ phaseOps ios
    ++ (if Generated.unconfigureAfterLadder then Generated.unconfigureImpls.map Op.unconfigure else [])

def runOps (cfg : Cfg) (st : St) (ops : List Op) : St := ops.foldl (step cfg) st

/-- one `pytask.build(...)` call: a new session (sections and task list start empty) -/
def runBuild (cfg : Cfg) (mods : List ModSpec) (ios : List TaskIO) (st : St) : St :=
  runOps cfg { st with secs := [], tasks := [], collectFailed := false } (buildOps cfg mods ios)

/-- the caller drops the session and runs `gc.collect()` -/
def release (cfg : Cfg) (st : St) : St := step cfg st .gc

end Pytask.Capture
