import PytaskModel.Generated
/-!
# M3 — selection expressions and matchers

Executable model of `src/_pytask/mark/expression.py` (lexer `Scanner.lex`, recursive-descent parser
`expression / expr / and_expr / not_expr`, `Expression.evaluate`) and of the matchers in
`src/_pytask/mark/__init__.py` (`KeywordMatcher`, `MarkMatcher`, `select_by_keyword`, `select_by_mark`,
`select_by_after_keyword`). Core Lean only. Strings are `List Char` (code points).

Parameters that stand for library tables (trusted, supplied per run by the harness):
* `isWord : Char → Bool`  — the Unicode class behind `\w` of `re`;
* `lower : List Char → List Char` — `str.lower()`.

Facts consumed from `Generated` (read from the source on every run): the whitespace characters, the two
parenthesis characters, the literal members of the identifier class and whether `\w` belongs to it, the keyword
table, the column offset of `ParseError`.
-/
namespace Pytask.SelExpr

/-- `TokenType` without `EOF` (end of input is the end of the token list). -/
inductive Tok where
  | lparen | rparen | or | and | not
  | ident (s : List Char)
  deriving DecidableEq, Repr

/-- The Python AST built by the parser: `Constant(False)` (empty input only), `Name`, `UnaryOp(Not)`,
`BoolOp(And, [a, b])`, `BoolOp(Or, [a, b])`. Parentheses leave no node. -/
inductive Ast where
  | false
  | ident (s : List Char)
  | not (e : Ast)
  | and (a b : Ast)
  | or (a b : Ast)
  deriving DecidableEq, Repr

/-! ## Lexer (`Scanner.lex`, expression.py:87-118) -/

/-- One iteration of the identifier regex `(…)+`: the character belongs to the class. -/
def isIdentChar (isWord : Char → Bool) (c : Char) : Bool :=
  (Generated.identHasWordClass && isWord c) || Generated.identExtraChars.contains c

/-- `TokenType` member name → token. -/
def kindTok : String → Option Tok
  | "OR" => some .or
  | "AND" => some .and
  | "NOT" => some .not
  | _ => none

/-- The `if value == "or" … elif … else IDENT` chain: first keyword equal to the whole match wins. -/
def classify (value : List Char) : Tok :=
  match Generated.exprKeywords.find? (fun kw => kw.1 == value) with
  | some (_, kind) => (kindTok kind).getD (.ident value)
  | none => .ident value

/-- How lexing ended: the `EOF` token at `pos`, or `raise ParseError(pos + 1, …)` for a character outside
the alphabet. The generator is lazy, so tokens before the bad character are still delivered. -/
inductive Stop where
  | eof (pos : Nat)
  | bad (pos : Nat)
  deriving DecidableEq, Repr

def Stop.pos : Stop → Nat
  | .eof p => p
  | .bad p => p

def Stop.isBad : Stop → Bool
  | .eof _ => false
  | .bad _ => true

structure Lexed where
  toks : List (Tok × Nat)
  stop : Stop
  deriving DecidableEq, Repr

def Lexed.push (t : Tok × Nat) (l : Lexed) : Lexed := { l with toks := t :: l.toks }

/-- The `while pos < len(input_)` loop. `fuel` bounds the number of iterations (every iteration consumes at
least one character, so `cs.length` suffices: `lexGo_fuel`). `re.match(r"(class)+", input_[pos:])` is the
maximal non-empty run of class characters at the start of the rest. -/
def lexGo (isWord : Char → Bool) : Nat → Nat → List Char → Lexed
  | 0, pos, _ => ⟨[], .eof pos⟩
  | _ + 1, pos, [] => ⟨[], .eof pos⟩
  | fuel + 1, pos, c :: cs =>
    if Generated.exprWsChars.contains c then lexGo isWord fuel (pos + 1) cs
    else if c == Generated.exprLParen then (lexGo isWord fuel (pos + 1) cs).push (.lparen, pos)
    else if c == Generated.exprRParen then (lexGo isWord fuel (pos + 1) cs).push (.rparen, pos)
    else if isIdentChar isWord c then
      let value := c :: cs.takeWhile (isIdentChar isWord)
      (lexGo isWord fuel (pos + value.length) (cs.dropWhile (isIdentChar isWord))).push (classify value, pos)
    else ⟨[], .bad pos⟩

def lex (isWord : Char → Bool) (cs : List Char) : Lexed := lexGo isWord cs.length 0 cs

/-! ## Parser (expression.py:120-185)

The functions work on the list of remaining tokens; the head is `Scanner.current`, the empty list means the
current token is the final one (`EOF`, or the pending lexer error when `bad`). An error carries the number of
tokens that remain at the point of failure, from which `Lexed.colAt` recovers `current.pos + 1`. -/

inductive PErr where
  | at (remaining : Nat)
  | fuel
  deriving DecidableEq, Repr

abbrev PRes := Except PErr (Ast × List Tok)

/-- `self.current = next(self.tokens)` in `accept`: when the accepted token was the last one before a character
outside the alphabet, the lazy generator raises its `ParseError` now. -/
def advance (bad : Bool) (rest : List Tok) : Except PErr (List Tok) :=
  if rest.isEmpty && bad then .error (.at 0) else .ok rest

mutual
/-- `expr`: `ret = and_expr(s); while s.accept(OR): ret = BoolOp(Or, [ret, and_expr(s)])`. -/
def pExpr (bad : Bool) : Nat → List Tok → PRes
  | 0, _ => .error .fuel
  | f + 1, ts =>
    match pAnd bad f ts with
    | .error e => .error e
    | .ok (ret, r) => pExprLoop bad f ret r
def pExprLoop (bad : Bool) : Nat → Ast → List Tok → PRes
  | 0, _, _ => .error .fuel
  | f + 1, ret, ts =>
    match ts with
    | .or :: rest =>
      match advance bad rest with
      | .error e => .error e
      | .ok r =>
        match pAnd bad f r with
        | .error e => .error e
        | .ok (rhs, r') => pExprLoop bad f (.or ret rhs) r'
    | _ => .ok (ret, ts)
/-- `and_expr`: `ret = not_expr(s); while s.accept(AND): ret = BoolOp(And, [ret, not_expr(s)])`. -/
def pAnd (bad : Bool) : Nat → List Tok → PRes
  | 0, _ => .error .fuel
  | f + 1, ts =>
    match pNot bad f ts with
    | .error e => .error e
    | .ok (ret, r) => pAndLoop bad f ret r
def pAndLoop (bad : Bool) : Nat → Ast → List Tok → PRes
  | 0, _, _ => .error .fuel
  | f + 1, ret, ts =>
    match ts with
    | .and :: rest =>
      match advance bad rest with
      | .error e => .error e
      | .ok r =>
        match pNot bad f r with
        | .error e => .error e
        | .ok (rhs, r') => pAndLoop bad f (.and ret rhs) r'
    | _ => .ok (ret, ts)
/-- `not_expr`: `'not' not_expr | '(' expr ')' | ident`, otherwise `s.reject(…)` at the current token. -/
def pNot (bad : Bool) : Nat → List Tok → PRes
  | 0, _ => .error .fuel
  | f + 1, ts =>
    match ts with
    | .not :: rest =>
      match advance bad rest with
      | .error e => .error e
      | .ok r =>
        match pNot bad f r with
        | .error e => .error e
        | .ok (e, r') => .ok (.not e, r')
    | .lparen :: rest =>
      match advance bad rest with
      | .error e => .error e
      | .ok r =>
        match pExpr bad f r with
        | .error e => .error e
        | .ok (e, .rparen :: rest') =>
          match advance bad rest' with
          | .error e => .error e
          | .ok r'' => .ok (e, r'')
        | .ok (_, r') => .error (.at r'.length)
    | .ident s :: rest =>
      match advance bad rest with
      | .error e => .error e
      | .ok r => .ok (.ident s, r)
    | _ => .error (.at ts.length)
end

/-- Fuel that always suffices for `pExpr` on `n` tokens (`pExpr_fuel_ok`). -/
def parseFuel (n : Nat) : Nat := 3 * n + 3

/-- `expression`: `if s.accept(EOF): Constant(False) else: ret = expr(s); s.accept(EOF, reject=True)`.
With `bad`, `Scanner.__init__` already raises on an empty token list. -/
def parseToks (bad : Bool) (ts : List Tok) : Except PErr Ast :=
  match ts with
  | [] => if bad then .error (.at 0) else .ok .false
  | _ =>
    match pExpr bad (parseFuel ts.length) ts with
    | .error e => .error e
    | .ok (e, []) => if bad then .error (.at 0) else .ok e
    | .ok (_, r) => .error (.at r.length)

/-- `ParseError.column` for an error raised while `remaining` tokens were left: position of the current token
(or of the end / the bad character) plus the offset. -/
def Lexed.colAt (l : Lexed) (remaining : Nat) : Nat :=
  match l.toks.drop (l.toks.length - remaining) with
  | (_, p) :: _ => p + Generated.exprErrorColOffset
  | [] => l.stop.pos + Generated.exprErrorColOffset

inductive CErr where
  | syntax (col : Nat)    -- `ParseError(column, …)`
  | fuel                  -- never returned (`C16_parse_total`)
  deriving DecidableEq, Repr

/-- `Expression.compile_`. -/
def compile (isWord : Char → Bool) (cs : List Char) : Except CErr Ast :=
  let l := lex isWord cs
  match parseToks l.stop.isBad (l.toks.map (·.1)) with
  | .ok e => .ok e
  | .error (.at k) => .error (.syntax (l.colAt k))
  | .error .fuel => .error .fuel

/-- `Expression.evaluate`: Python evaluates the compiled `BoolOp`/`UnaryOp` tree with identifiers looked up
through the matcher. -/
def eval (m : List Char → Bool) : Ast → Bool
  | .false => false
  | .ident s => m s
  | .not e => !eval m e
  | .and a b => eval m a && eval m b
  | .or a b => eval m a || eval m b

def compileEval (isWord : Char → Bool) (m : List Char → Bool) (cs : List Char) : Except CErr Bool :=
  (compile isWord cs).map (eval m)

/-! ## Matchers (mark/__init__.py:118-206) -/

/-- Python's `a in b` for strings. -/
def isInfixB (a : List Char) : List Char → Bool
  | [] => a.isPrefixOf []
  | c :: b => a.isPrefixOf (c :: b) || isInfixB a b

/-- What the matchers read from a task: its name (id), the keys of `task.function.__dict__`, the names of its
markers. -/
structure TaskInfo where
  name : List Char
  attrs : List (List Char)
  markers : List (List Char)
  deriving DecidableEq, Repr

/-- `KeywordMatcher.from_task`: `{task.name} ∪ task.function.__dict__ ∪ {mark.name for mark in task.markers}`. -/
def kwNames (t : TaskInfo) : List (List Char) := t.name :: (t.attrs ++ t.markers)

/-- `KeywordMatcher.__call__`: `any(subname.lower() in name.lower() for name in names)`. -/
def kwMatch (lower : List Char → List Char) (names : List (List Char)) (subname : List Char) : Bool :=
  names.any (fun n => isInfixB (lower subname) (lower n))

/-- `MarkMatcher.__call__`: `name in own_mark_names`. -/
def markMatch (markNames : List (List Char)) (name : List Char) : Bool := markNames.contains name

/-- Indices of the tasks for which `pred` holds. -/
def selectIdx (pred : TaskInfo → Bool) (tasks : List TaskInfo) : List Nat :=
  ((List.range tasks.length).zip tasks).filterMap (fun p => if pred p.2 then some p.1 else none)

/-- `select_by_keyword` on a graph without edges (the closure under predecessors is engine territory, C06):
`none` when no `-k` expression is given, else the tasks whose `KeywordMatcher` satisfies it. -/
def selectByKeyword (isWord : Char → Bool) (lower : List Char → List Char) (expr : List Char)
    (tasks : List TaskInfo) : Except CErr (Option (List Nat)) :=
  if expr.isEmpty then .ok none else
  match compile isWord expr with
  | .error e => .error e
  | .ok a => .ok (some (selectIdx (fun t => eval (kwMatch lower (kwNames t)) a) tasks))

/-- `select_by_mark`. -/
def selectByMark (isWord : Char → Bool) (expr : List Char) (tasks : List TaskInfo) :
    Except CErr (Option (List Nat)) :=
  if expr.isEmpty then .ok none else
  match compile isWord expr with
  | .error e => .error e
  | .ok a => .ok (some (selectIdx (fun t => eval (markMatch t.markers) a) tasks))

/-- `select_by_after_keyword` (used by `_modify_dag` for `@task(after="<expr>")`): the expression is compiled
even when empty; `if after and …` then selects nothing for the empty string. -/
def selectByAfter (isWord : Char → Bool) (lower : List Char → List Char) (expr : List Char)
    (tasks : List TaskInfo) : Except CErr (List Nat) :=
  match compile isWord expr with
  | .error e => .error e
  | .ok a => .ok (selectIdx (fun t => !expr.isEmpty && eval (kwMatch lower (kwNames t)) a) tasks)

/-! ## `-k` / `-m` at project level (`select_tasks_by_marks_and_expressions`, mark/__init__.py:238-255) -/

/-- `if remaining is not None: _deselect_others_with_mark(session, remaining, …)`: without selection every task stays; with
a selection — the empty one included — exactly its members stay (`if task.signature not in remaining: markers.append(skip)`). -/
def keptBy : Option (List Nat) → Nat → Bool
  | none, _ => true
  | some sel, i => sel.contains i

/-- Both selections are evaluated first, then the tasks outside either are deselected: the indices of the tasks that are
not deselected (graph without edges). A malformed expression is an error. -/
def selectProject (isWord : Char → Bool) (lower : List Char → List Char) (kexpr mexpr : List Char)
    (tasks : List TaskInfo) : Except CErr (List Nat) :=
  match selectByKeyword isWord lower kexpr tasks with
  | .error e => .error e
  | .ok rk =>
    match selectByMark isWord mexpr tasks with
    | .error e => .error e
    | .ok rm => .ok ((List.range tasks.length).filter (fun i => keptBy rk i && keptBy rm i))

/-! ## `after="<expr>"` over a whole project (`_modify_dag`, dag.py:107-127, string branch) -/

/-- One iteration of the loop for task `i` carrying the string `expr`: `signatures = select_by_after_keyword(session,
after); signatures.discard(task.signature)` — the tasks this task has to follow. -/
def afterPredsOf (isWord : Char → Bool) (lower : List Char → List Char) (tasks : List TaskInfo) (i : Nat)
    (expr : List Char) : Except CErr (List Nat) :=
  (selectByAfter isWord lower expr tasks).map (fun sel => sel.filter (fun j => j != i))

/-- The body of the loop for task `i`: nothing to do without string. -/
def afterStep (isWord : Char → Bool) (lower : List Char → List Char) (tasks : List TaskInfo)
    (afters : Nat → Option (List Char)) (i : Nat) : Except CErr (List Nat) :=
  match afters i with
  | none => .ok []
  | some e => afterPredsOf isWord lower tasks i e

/-- The loop over `session.tasks` (visited in `order`): for every task its after-predecessors; the first malformed
string aborts. No iteration reads anything another iteration computed. -/
def modifyDagAfter (isWord : Char → Bool) (lower : List Char → List Char) (tasks : List TaskInfo)
    (afters : Nat → Option (List Char)) : List Nat → Except CErr (List (Nat × List Nat))
  | [] => .ok []
  | i :: rest =>
    match afterStep isWord lower tasks afters i with
    | .error e => .error e
    | .ok ps =>
      match modifyDagAfter isWord lower tasks afters rest with
      | .error e => .error e
      | .ok r => .ok ((i, ps) :: r)

end Pytask.SelExpr

namespace Pytask.SelExpr

/-- The `i`-th truth assignment over `idents`: identifier number `j` is true iff bit `j` of `i` is set;
anything else is false. -/
def assignment (idents : List (List Char)) (i : Nat) (s : List Char) : Bool :=
  match idents.idxOf? s with
  | some j => i.testBit j
  | none => false

/-- `Expression.compile_(cs)` once, then `evaluate` under every truth assignment of `idents`. -/
def truthTable (isWord : Char → Bool) (idents : List (List Char)) (cs : List Char) : Except CErr (List Bool) :=
  (compile isWord cs).map (fun a => (List.range (2 ^ idents.length)).map (fun i => eval (assignment idents i) a))

end Pytask.SelExpr
