import PytaskModel.Generated
/-!
# M9 (collection part) — how pytask turns a project tree into `session.tasks`

Mirrors, statement by statement,

* `collect.py:531-548`  `_not_ignored_paths` (seen-set walk)                      → `walkT`, `notIgnoredPaths`
* `collect.py:183-186`  `pytask_ignore_collect` + `pathlib.PurePath.match`        → `Pat.matches`, `Cfg.ignored`
* `path.py:129-165,168-218,225-248,251-320` `import_path` and helpers, `sys.modules` → `importPath`
* `task_utils.py:46-179` the `@task` decorator (import-time side effect on `COLLECTED_TASKS`) → `execStmt`
* `collect.py:213-237,293-359` the prefix hook (`pytask_collect_file` of collect.py)   → `prefixReports`
* `task.py:32-84`       the decorator hook (`pytask_collect_file` of task.py)       → `decoratorReports`
* `task_utils.py:220-378` `parse_collected_tasks_with_task_marker`, `_generate_ids_for_tasks`,
  `_arg_value_to_id_component`                                                     → `parseCollected`, `genLoop`, `argToIdComponent`
* `collect.py:64-92,94-107,157-216` `pytask_collect`, left-overs, duplicate-signature pass, exit code → `collect`
* `collect.py:551-590`  shortest unique names                                      → `shortNames`

Data read from the source by the translator (`harness/extract_collect.py`) is consumed through
`Generated.*` (hook order of `pytask_collect_file`, default ignore patterns, `task_` prefix, id format,
scalar types of ids, number of shortening rounds, exit codes).

Conventions: a path is the list of its components below `/`; a module name is the list of its
`.`-separated pieces (joining/splitting at `.` is a bijection between strings and non-empty lists of
dot-free strings, so comparing piece lists is comparing the strings `sys.modules` is keyed by).
Set iteration order (`all_names` in `parse_collected_tasks_with_task_marker`) is a parameter `enum`.
-/
namespace Pytask
namespace Collect

abbrev Path := List String

/-! ## 1. Patterns (`PurePath.match`, POSIX, Python 3.12: component-wise fnmatch, right-anchored) -/

inductive GAtom where
  | lit (c : Char)
  | one
  | star
deriving DecidableEq, Repr

abbrev Glob := List GAtom

def tails {α : Type} : List α → List (List α)
  | [] => [[]]
  | x :: xs => (x :: xs) :: tails xs

/-- fnmatch inside one path component (`*`, `?`, literals; no character classes). -/
def gmatch : Glob → List Char → Bool
  | [], cs => cs.isEmpty
  | .lit c :: ps, cs => match cs with
    | d :: ds => c == d && gmatch ps ds
    | [] => false
  | .one :: ps, cs => match cs with
    | _ :: ds => gmatch ps ds
    | [] => false
  | .star :: ps, cs => (tails cs).any (gmatch ps)

/-- split a character list at every `sep` (what `str.split(sep)` does; kernel-reducible). -/
def splitL (sep : Char) : List Char → List (List Char)
  | [] => [[]]
  | c :: cs =>
    if c == sep then [] :: splitL sep cs
    else match splitL sep cs with
      | [] => [[c]]
      | h :: t => (c :: h) :: t

def strSplit (sep : Char) (s : String) : List String := (splitL sep s.toList).map String.ofList
def strStartsWith (s p : String) : Bool := p.toList.isPrefixOf s.toList
def strEndsWith (s p : String) : Bool := p.toList.isSuffixOf s.toList

def parseGlob (s : String) : Glob :=
  s.toList.map (fun c => if c == '*' then GAtom.star else if c == '?' then GAtom.one else GAtom.lit c)

structure Pat where
  abs : Bool
  comps : List Glob

/-- `PurePath(pattern)`: empty and `.` components vanish; a leading `/` makes the pattern absolute. -/
def parsePat (s : String) : Pat :=
  { abs := strStartsWith s "/",
    comps := ((strSplit '/' s).filter (fun c => c != "" && c != ".")).map parseGlob }

def compsMatch : List Glob → List String → Bool
  | [], [] => true
  | g :: gs, c :: cs => gmatch g c.toList && compsMatch gs cs
  | _, _ => false

/-- `path.match(pattern)`; an empty pattern raises `ValueError` in Python (never generated; `false`). -/
def Pat.matches (p : Pat) (path : Path) : Bool :=
  if p.comps.isEmpty then false
  else if p.abs then compsMatch p.comps path
  else decide (p.comps.length ≤ path.length) && compsMatch p.comps (path.drop (path.length - p.comps.length))

structure Cfg where
  root : Path
  paths : List Path
  ignore : List String
  taskFiles : List String

/-- `config["ignore"] = to_list(ignore) + _IGNORED_FILES_AND_FOLDERS + IGNORED_TEMPORARY…` (`config.py:96-100`). -/
def Cfg.ignorePats (c : Cfg) : List Pat := (c.ignore ++ Generated.defaultIgnore).map parsePat
/-- `pytask_ignore_collect`. -/
def Cfg.ignored (c : Cfg) (p : Path) : Bool := c.ignorePats.any (·.matches p)
/-- the test one `pytask_collect_file` implementation applies to a pattern (read from the source: `path.match`). -/
def matchBy : Generated.Col.TFPred → Pat → Path → Bool
  | .pathMatch, pat, p => pat.matches p

/-- `any(path.match(pattern) for pattern in session.config["task_files"])` as one implementation evaluates it. -/
def Cfg.isTaskFileFor (c : Cfg) (pred : Generated.Col.TFPred) (p : Path) : Bool :=
  (c.taskFiles.map parsePat).any (fun pat => matchBy pred pat p)

/-- a path is handled as a task module when every `pytask_collect_file` implementation (collect.py imports it, task.py
picks up its `@task` functions) accepts it. -/
def Cfg.isTaskFile (c : Cfg) (p : Path) : Bool := Generated.Col.taskFilesPredicates.all (fun pred => c.isTaskFileFor pred p)

/-! ## 2. File system and the seen-set walk -/

inductive Tree where
  | file (name : String)
  | dir (name : String) (children : List Tree)

def Tree.name : Tree → String
  | .file n => n
  | .dir n _ => n

def Tree.child? (t : Tree) (n : String) : Option Tree :=
  match t with
  | .dir _ cs => cs.find? (fun c => c.name == n)
  | .file _ => none

def Tree.descend : Tree → Path → Option Tree
  | t, [] => some t
  | t, n :: ns => match t.child? n with
    | some c => c.descend ns
    | none => none

/-- The project directory `tree` lives in the directory `pre`; children are in `iterdir` order. -/
structure FS where
  pre : Path
  tree : Tree

def stripPrefix : Path → Path → Option Path
  | [], l => some l
  | _ :: _, [] => none
  | a :: as, b :: bs => if a == b then stripPrefix as bs else none

def FS.lookup (fs : FS) (p : Path) : Option Tree :=
  match stripPrefix fs.pre p with
  | some (n :: rest) => if n == fs.tree.name then fs.tree.descend rest else none
  | _ => none

def FS.isFile (fs : FS) (p : Path) : Bool :=
  match fs.lookup p with
  | some (.file _) => true
  | _ => false

def FS.isDir (fs : FS) (p : Path) : Bool :=
  match fs.lookup p with
  | some (.dir _ _) => true
  | _ => false

mutual
/-- `_not_ignored_paths([pre/t], session, seen)`; `acc` is both the files yielded so far and `seen`
(the set starts empty and receives exactly the yielded files). -/
def walkT (ign : Path → Bool) (pre : Path) : Tree → List Path → List Path
  | .file n, acc =>
    if ign (pre ++ [n]) then acc
    else if acc.contains (pre ++ [n]) then acc
    else acc ++ [pre ++ [n]]
  | .dir n cs, acc =>
    if ign (pre ++ [n]) then acc
    else walkTs ign (pre ++ [n]) cs acc
def walkTs (ign : Path → Bool) (pre : Path) : List Tree → List Path → List Path
  | [], acc => acc
  | t :: ts, acc => walkTs ign pre ts (walkT ign pre t acc)
end

def walkPath (fs : FS) (ign : Path → Bool) (acc : List Path) (p : Path) : List Path :=
  match fs.lookup p with
  | some t => walkT ign p.dropLast t acc
  | none => acc

/-- `_not_ignored_paths(session.config["paths"], session, set())`. -/
def notIgnoredPaths (fs : FS) (ign : Path → Bool) (paths : List Path) : List Path :=
  paths.foldl (walkPath fs ign) []

/-! ## 3. Python values, function objects, declaration programs -/

inductive Val where
  | bool (b : Bool)
  | int (i : Int)
  | float (repr : String)
  | str (s : String)
  | other
deriving DecidableEq, Repr

def Val.isScalar : Val → Bool
  | .bool _ => Generated.idScalarTypes.contains "bool" || Generated.idScalarTypes.contains "int"
  | .int _ => Generated.idScalarTypes.contains "int"
  | .float _ => Generated.idScalarTypes.contains "float"
  | .str _ => Generated.idScalarTypes.contains "str"
  | .other => false

/-- `str(value)` (the float case is supplied by the harness: CPython's `repr` is trusted). -/
def Val.pyStr : Val → String
  | .bool true => "True"
  | .bool false => "False"
  | .int i => toString i
  | .float r => r
  | .str s => s
  | .other => ""

/-- `_arg_value_to_id_component(arg_name, arg_value, i, None)`; `none` = `kwargs.get(p)` found nothing. -/
def argToIdComponent (argName : String) (v : Option Val) (i : Nat) : String :=
  match v with
  | some v => if v.isScalar then v.pyStr else argName ++ toString i
  | none => argName ++ toString i

structure FnObj where
  file : Path                       -- `get_file(fn)`: module file that contains the `def`
  fname : String                    -- `__name__` (of `.func` for a partial)
  params : List String              -- `inspect.signature(fn).parameters`
  defaults : List (String × Val)    -- signature defaults
  tag : Nat                         -- identity of the body (harness log tag)
  marked : Bool                     -- `has_mark(fn, "task")`
  metaName : String                 -- `pytask_meta.name`
  metaId : Option String            -- `pytask_meta.id_`
  metaKwargs : List (String × Val)  -- `pytask_meta.kwargs` as passed to `@task(kwargs=…)`
  mixedPrio : Bool := false         -- carries `try_first` and `try_last`: `pytask_collect_task` raises

inductive Stmt where
  /-- `def fname(params…=defaults…): log(tag)` (or a lambda / partial), optionally bound to `bind`. -/
  | defFn (obj : Nat) (bind : Option String) (fname : String) (params : List String)
      (defaults : List (String × Val)) (tag : Nat)
  /-- `task(name, id=…, kwargs=…)(obj)`. -/
  | wrap (obj : Nat) (name : Option String) (id : Option String) (kwargs : List (String × Val))
  /-- `bind = <not callable>`. -/
  | value (bind : String)
  /-- `pytask.mark.<m>(obj)` (any markers); `mixed` = the function now carries both `try_first` and `try_last`. -/
  | mark (obj : Nat) (mixed : Bool)

structure Prog where
  imports : List String      -- stems of helper modules in the root directory, executed first
  stmts : List Stmt

/-- Identity of a function object at run time: (execution of a module file, `obj` label of the `def`).
Executing the same file twice creates fresh objects. -/
abbrev ObjId := Nat × Nat

inductive Obj where
  | fn (id : ObjId)
  | value

abbrev Namespace := List (String × Obj)

structure Module where
  src : Option Path
  ns : Namespace

abbrev ModKey := List String

structure World where
  heap : List (ObjId × FnObj)
  registry : List (Path × List ObjId)    -- COLLECTED_TASKS
  modules : List (ModKey × Module)       -- sys.modules
  nextGen : Nat                          -- number of module executions so far

def regGet (r : List (Path × List ObjId)) (k : Path) : List ObjId := (r.lookup k).getD []

def regAppend (r : List (Path × List ObjId)) (k : Path) (o : ObjId) : List (Path × List ObjId) :=
  if r.any (fun e => e.1 == k) then r.map (fun e => if e.1 == k then (e.1, e.2 ++ [o]) else e)
  else r ++ [(k, [o])]

def regErase (r : List (Path × List ObjId)) (k : Path) : List (Path × List ObjId) :=
  r.filter (fun e => !(e.1 == k))

/-- `_parse_name`: `name` if truthy, else `__name__`. -/
def parseName (name : Option String) (fname : String) : String :=
  match name with
  | some n => if n == "" then fname else n
  | none => fname

def execStmt (file : Path) (gen : Nat) (st : World × Namespace) : Stmt → World × Namespace
  | .defFn obj bind fname params defaults tag =>
    let f : FnObj := { file := file, fname := fname, params := params, defaults := defaults, tag := tag,
                       marked := false, metaName := "", metaId := none, metaKwargs := [] }
    let w := { st.1 with heap := ((gen, obj), f) :: st.1.heap }
    match bind with
    | some b => (w, st.2 ++ [(b, Obj.fn (gen, obj))])
    | none => (w, st.2)
  | .wrap obj name id kwargs =>
    match st.1.heap.lookup (gen, obj) with
    | some f =>
      let f' := { f with marked := true, metaName := parseName name f.fname, metaId := id, metaKwargs := kwargs }
      ({ st.1 with heap := ((gen, obj), f') :: st.1.heap, registry := regAppend st.1.registry f.file (gen, obj) }, st.2)
    | none => st
  | .value b => (st.1, st.2 ++ [(b, Obj.value)])
  | .mark obj mixed =>
    match st.1.heap.lookup (gen, obj) with
    | some f => ({ st.1 with heap := ((gen, obj), { f with mixedPrio := mixed }) :: st.1.heap }, st.2)
    | none => st

def execStmts (file : Path) (gen : Nat) (st : World × Namespace) (stmts : List Stmt) : World × Namespace :=
  stmts.foldl (execStmt file gen) st

/-- One execution of the code of `file` in a fresh namespace: a new generation of objects. -/
def execModule (file : Path) (w : World) (stmts : List Stmt) : World × Namespace :=
  execStmts file w.nextGen ({ w with nextGen := w.nextGen + 1 }, []) stmts

def progOf (progs : List (Path × Prog)) (p : Path) : Prog := (progs.lookup p).getD { imports := [], stmts := [] }

def execHelper (progs : List (Path × Prog)) (root : Path) (w : World) (h : String) : World :=
  (execModule (root ++ [h ++ ".py"]) w (progOf progs (root ++ [h ++ ".py"])).stmts).1

/-- Executing the module file `p`: helper imports first, then its own statements. -/
def execFile (progs : List (Path × Prog)) (root : Path) (w : World) (p : Path) : World × Namespace :=
  execModule p ((progOf progs p).imports.foldl (execHelper progs root) w) (progOf progs p).stmts

/-- `inspect.getmembers`: one entry per name, the last binding wins (order is immaterial). -/
def nsFinal : Namespace → Namespace
  | [] => []
  | (n, o) :: rest => if rest.any (fun e => e.1 == n) then nsFinal rest else (n, o) :: nsFinal rest

/-! ## 4. `import_path` -/

def dotSplit (s : String) : List String := strSplit '.' s

/-- `x.replace(c, "_")` for every character `c` of the translator's normalisation table (today: `.`). -/
def normChar (c : Char) : Char := if Generated.moduleNameNormalised.contains c then '_' else c

def dotToUnderscore (s : String) : String := String.ofList (s.toList.map normChar)

/-- `PurePath.with_suffix("").name`: the suffix starts at the last dot unless that dot is first or last. -/
def fileStem (name : String) : String :=
  let cs := name.toList
  let r := cs.reverse
  if r.contains '.' then
    let i := cs.length - 1 - r.idxOf '.'
    if 0 < i && i < cs.length - 1 then String.ofList (cs.take i) else name
  else name

/-- `str.isidentifier()` on ASCII names. -/
def isIdent (s : String) : Bool :=
  match s.toList with
  | [] => false
  | c :: cs => (c.isAlpha || c == '_') && cs.all (fun d => d.isAlphanum || d == '_')

def parentsOf (p : Path) : List Path := (List.range p.length).reverse.map (fun k => p.take k)

/-- `_resolve_package_path`: the topmost directory of the unbroken chain of packages above the file.
Directories above the modelled tree carry no `__init__.py` (assumption of the harness). -/
def pkgScan (fs : FS) : List Path → Option Path → Option Path
  | [], r => r
  | d :: ds, r =>
    if fs.isDir d then
      if !fs.isFile (d ++ ["__init__.py"]) then r
      else if !isIdent (d.getLast?.getD "") then r
      else pkgScan fs ds (some d)
    else r

def pkgTop (fs : FS) (path : Path) : Option Path := pkgScan fs (parentsOf path) none

/-- `path.with_suffix("")`. -/
def withStem (path : Path) : Path :=
  match path.getLast? with
  | some l => path.dropLast ++ [fileStem l]
  | none => []

/-- parts of `path.with_suffix("").relative_to(base)`. -/
def relStem (base path : Path) : List String := (withStem path).drop base.length

/-- module name of `_resolve_pkg_root_and_module_name`. -/
def pkgKey (pkgRoot path : Path) : ModKey :=
  let names := relStem pkgRoot path
  (if names.getLast? == some "__init__" then names.dropLast else names).flatMap dotSplit

/-- `_module_name_from_path`. -/
def pathKey (root path : Path) : ModKey :=
  let parts := if root.isPrefixOf (withStem path) then relStem root path else withStem path
  (if decide (2 ≤ parts.length) && parts.getLast? == some "__init__" then parts.dropLast else parts).map dotToUnderscore

inductive SpecSrc where
  | file (p : Path)
  | namespace
  | notFound

/-- `PathFinder.find_spec(name, [dir])` as far as `.py` sources and directories go (FileFinder: a
package directory first, then `<tail>.py`, then a namespace directory). -/
def findSpecIn (fs : FS) (dir : Path) (tail : String) : SpecSrc :=
  if fs.isFile (dir ++ [tail, "__init__.py"]) then .file (dir ++ [tail, "__init__.py"])
  else if fs.isFile (dir ++ [tail ++ ".py"]) then .file (dir ++ [tail ++ ".py"])
  else if fs.isDir (dir ++ [tail]) then .namespace
  else .notFound

/-- a function handed over through `build(tasks=[…])`. -/
structure PTask where
  file : Path                 -- `get_file(fn)`
  name : String               -- `__name__` / the name `@task` gave it
  tag : Nat
  marked : Bool := false      -- already wrapped by `@task`
  hasMeta : Bool := false     -- carries `pytask_meta` (wrapped, or any `pytask.mark.*`)
  mixedPrio : Bool := false   -- `try_first` and `try_last`

structure Env where
  fs : FS
  cfg : Cfg
  progs : List (Path × Prog)
  preloaded : List ModKey        -- names already in `sys.modules` (interpreter, stdlib)
  /-- `build(tasks=[…])`: functions in the order given. -/
  ptasks : List PTask := []

def ptaskObj (pt : PTask) : FnObj :=
  { file := pt.file, fname := pt.name, params := [], defaults := [], tag := pt.tag, marked := true, metaName := pt.name,
    metaId := none, metaKwargs := [], mixedPrio := pt.mixedPrio }

/-- generation 0 is reserved for the function objects handed over through `build(tasks=…)`. -/
def ptaskHeap : Nat → List PTask → List (ObjId × FnObj)
  | _, [] => []
  | i, pt :: rest => ((0, i), ptaskObj pt) :: ptaskHeap (i + 1) rest

def Env.init (env : Env) : World :=
  { heap := ptaskHeap 0 env.ptasks, registry := [],
    modules := env.preloaded.map (fun k => (k, { src := none, ns := [] })), nextGen := 1 }

def loadAs (env : Env) (w : World) (key : ModKey) (src : Path) : World × Module :=
  let r := execFile env.progs env.cfg.root w src
  ({ r.1 with modules := r.1.modules ++ [(key, { src := some src, ns := r.2 })] }, { src := some src, ns := r.2 })

def properPrefixes (k : ModKey) : List ModKey := ((List.range k.length).drop 1).map (fun n => k.take n)

/-- `_insert_missing_modules`: every missing ancestor name gets a module object (without the project on
`sys.path` an empty dummy, or whatever `importlib.import_module` finds — never a project file). -/
def insertMissing (w : World) (key : ModKey) : World :=
  { w with
    modules := (properPrefixes key).foldl
                 (fun ms k => if ms.any (fun e => e.1 == k) then ms else ms ++ [(k, { src := none, ns := [] })])
                 w.modules }

/-- `spec_from_file_location` finds a loader only for source files (`.pyc` / extension modules are not generated). -/
def isPySource (path : Path) : Bool := strEndsWith (path.getLast?.getD "") ".py"

/-- second half of `import_path`: the name derived from the path relative to the root. -/
def importByPath (env : Env) (w : World) (path : Path) : World × Option Module :=
  match w.modules.lookup (pathKey env.cfg.root path) with
  | some m => (w, some m)
  | none =>
    if isPySource path then
      let r := loadAs env w (pathKey env.cfg.root path) path
      (insertMissing r.1 (pathKey env.cfg.root path), some r.2)
    else (w, none)

/-- `import_path(path, root)`; `none` = the import raised (`find_spec` found a namespace directory, or no loader). -/
def importPath (env : Env) (w : World) (path : Path) : World × Option Module :=
  match pkgTop env.fs path with
  | some pkg =>
    let key := pkgKey pkg.dropLast path
    match w.modules.lookup key with
    | some m => (w, some m)
    | none =>
      match findSpecIn env.fs pkg.dropLast (key.getLast?.getD "") with
      | .file p => let r := loadAs env w key p; (r.1, some r.2)
      | .namespace => (w, none)   -- `find_spec` itself raises (`_NamespacePath` looks up the parent package): nothing is cached
      | .notFound =>
        if isPySource path then let r := loadAs env w key path; (r.1, some r.2)
        else importByPath env w path
  | none => importByPath env w path

/-! ## 5. The two `pytask_collect_file` implementations -/

inductive Report where
  | succ (path : Path) (base : String) (obj : ObjId)
  | fail

def isMarked (w : World) (o : ObjId) : Bool :=
  match w.heap.lookup o with
  | some f => f.marked
  | none => false

def isTaskName (n : String) : Bool := strStartsWith n Generated.taskPrefix

/-- collect.py's hook: module members that are unmarked functions with the `task_` prefix. -/
def prefixMember (w : World) (path : Path) (e : String × Obj) : Option Report :=
  match e.2 with
  | .fn id => if !isMarked w id && isTaskName e.1 then some (.succ path e.1 id) else none
  | .value => none

def prefixReports (w : World) (path : Path) (m : Module) : List Report :=
  (nsFinal m.ns).filterMap (prefixMember w path)

def hasDup : List ObjId → Bool
  | [] => false
  | x :: xs => xs.contains x || hasDup xs

abbrev Dict := List (String × ObjId)

/-- `d[k] = v` on an insertion-ordered dict. -/
def dictSet (d : Dict) (k : String) (v : ObjId) : Dict :=
  if d.any (fun e => e.1 == k) then d.map (fun e => if e.1 == k then (k, v) else e) else d ++ [(k, v)]

def metaNameOf (w : World) (o : ObjId) : String :=
  match w.heap.lookup o with
  | some f => f.metaName
  | none => ""

/-- `meta.kwargs = signature_kwargs | parsed_kwargs` then `.get(p)`. -/
def kwargOf (f : FnObj) (p : String) : Option Val :=
  match f.metaKwargs.lookup p with
  | some v => some v
  | none => f.defaults.lookup p

def bracket (name inner : String) : String := name ++ Generated.idOpen ++ inner ++ Generated.idClose

/-- the id of the `i`-th function of a repeated name (`_generate_ids_for_tasks`, loop body). -/
def taskId (w : World) (params : List String) (name : String) (i : Nat) (o : ObjId) : String :=
  match w.heap.lookup o with
  | none => bracket name (toString i)
  | some f =>
    match f.metaId with
    | some s => bracket name s
    | none =>
      if params.isEmpty then bracket name (toString i)
      else bracket name (Generated.idJoin.intercalate (params.map (fun p => argToIdComponent p (kwargOf f p) i)))

def genLoop (w : World) (params : List String) : Nat → List (String × ObjId) → Dict → Option Dict
  | _, [], out => some out
  | i, (name, o) :: rest, out =>
    if out.any (fun e => e.1 == taskId w params name i o) then none
    else genLoop w params (i + 1) rest (out ++ [(taskId w params name i o, o)])

def paramsOfFirst (w : World) (sel : List (String × ObjId)) : List String :=
  match sel with
  | (_, o) :: _ => match w.heap.lookup o with
    | some f => f.params
    | none => []
  | [] => []

/-- `_generate_ids_for_tasks`; `none` = `ValueError` (duplicated id). -/
def generateIds (w : World) (sel : List (String × ObjId)) : Option Dict :=
  genLoop w (paramsOfFirst w sel) 0 sel []

def dedup : List String → List String
  | [] => []
  | x :: xs => x :: (dedup xs).filter (fun y => y != x)

/-- what one name of `all_names` contributes: generated ids for a repeated name, the name itself otherwise. -/
def contribution (w : World) (parsed : List (String × ObjId)) (name : String) : Option Dict :=
  if decide (2 ≤ (parsed.filter (fun e => e.1 == name)).length) then generateIds w (parsed.filter (fun e => e.1 == name))
  else match parsed.filter (fun e => e.1 == name) with
    | (_, o) :: _ => some [(name, o)]
    | [] => some []

/-- `collected_tasks.update(...)` / `collected_tasks[name] = ...`. -/
def dictUpdate (d : Dict) (c : Dict) : Dict := c.foldl (fun d e => dictSet d e.1 e.2) d

/-- `clashing_names = collected_tasks.keys() & names_to_functions.keys()` is non-empty (fix 2ddbdf4, F8a). -/
def clashes (d c : Dict) : Bool := c.any (fun e => d.any (fun x => x.1 == e.1))

def parseStep (w : World) (parsed : List (String × ObjId)) (acc : Option Dict) (name : String) : Option Dict :=
  match acc with
  | none => none
  | some d =>
    match contribution w parsed name with
    | none => none
    | some c => if Generated.parseClashCheck && clashes d c then none else some (dictUpdate d c)

/-- `parse_collected_tasks_with_task_marker`; `enum` is the iteration order of the set `all_names`. -/
def parseCollected (enum : List String → List String) (w : World) (tasks : List ObjId) : Option Dict :=
  let parsed := tasks.map (fun o => (metaNameOf w o, o))
  (enum (dedup (parsed.map (·.1)))).foldl (parseStep w parsed) (some [])

/-- task.py's hook; `none` = it raised. -/
def decoratorReports (enum : List String → List String) (w : World) (path : Path) : World × Option (List Report) :=
  if (regGet w.registry path).isEmpty then (w, some [])
  else
    let w1 := { w with registry := regErase w.registry path }
    if hasDup (regGet w.registry path) then (w1, none)
    else match parseCollected enum w1 (regGet w.registry path) with
      | none => (w1, none)
      | some d => (w1, some (d.map (fun e => Report.succ path e.1 e.2)))

structure FileAcc where
  w : World
  reports : List Report
  raised : Bool

def collectFileStep (env : Env) (enum : List String → List String) (path : Path) (a : FileAcc) (impl : String) : FileAcc :=
  if a.raised then a
  else if impl == "collect" then
    match importPath env a.w path with
    | (w1, some m) => { w := w1, reports := a.reports ++ prefixReports w1 path m, raised := false }
    | (w1, none) => { w := w1, reports := a.reports, raised := true }
  else if impl == "task" then
    match decoratorReports enum a.w path with
    | (w1, some rs) => { w := w1, reports := a.reports ++ rs, raised := false }
    | (w1, none) => { w := w1, reports := a.reports, raised := true }
  else a

/-- `pytask_collect_file_protocol`: the implementations in pluggy order; an exception anywhere turns
the whole file into one failed report. -/
def collectFile (env : Env) (enum : List String → List String) (w : World) (path : Path) : World × List Report :=
  if !env.cfg.isTaskFile path then (w, [])
  else
    let a := Generated.collectFileOrder.foldl (collectFileStep env enum path) { w := w, reports := [], raised := false }
    (a.w, if a.raised then [Report.fail] else a.reports)

/-! ## 6. The session -/

/-- `_collect_not_collected_tasks`: one failed report per function still registered. -/
def leftovers (w : World) : List Report := w.registry.flatMap (fun e => e.2.map (fun _ => Report.fail))

structure Task where
  path : Path
  base : String
  obj : ObjId
  tag : Nat
deriving DecidableEq, Repr

def tagOf (w : World) (o : ObjId) : Nat :=
  match w.heap.lookup o with
  | some f => f.tag
  | none => 0

def Report.task? (w : World) : Report → Option Task
  | .succ p b o => some { path := p, base := b, obj := o, tag := tagOf w o }
  | .fail => none

def Report.isFail : Report → Bool
  | .fail => true
  | .succ _ _ _ => false

def exitCode (name : String) : Nat := (Generated.exitCodes.lookup name).getD 99

structure Outcome where
  tasks : List Task
  fails : Nat
  exit : Nat

def collectStep (env : Env) (enum : List String → List String) (st : World × List Report) (p : Path) : World × List Report :=
  let r := collectFile env enum st.1 p
  (r.1, st.2 ++ r.2)

/-- `_fail_tasks_with_duplicated_signatures` (fix faa5f38, F8b): a successful report whose signature
(= path and base name) was already seen becomes a failed report. -/
def failDupsLoop : List (Path × String) → List Report → List Report
  | _, [] => []
  | seen, .fail :: rs => .fail :: failDupsLoop seen rs
  | seen, .succ p b o :: rs =>
    (if seen.contains (p, b) then Report.fail else Report.succ p b o) :: failDupsLoop ((p, b) :: seen) rs

def failDups (rs : List Report) : List Report := failDupsLoop [] rs

/-- the predicate under which `_collect_from_tasks` applies `task()` to a function (read from the source). -/
def PTask.wraps (pt : PTask) : Bool :=
  match Generated.Col.ptaskWrapWhen with
  | .noTaskMark => !pt.marked
  | .noMeta => !pt.hasMeta

/-- one iteration of `_collect_from_tasks`: a function that carries the `task` mark (before or after the wrapping) is
collected under `(get_file(fn), name)` — `pytask_collect_task` raises for mixed priorities —, its registration in
`COLLECTED_TASKS` is removed again; anything without the mark gets name `""`, path `None` and yields no report. -/
def ptaskReport (i : Nat) (pt : PTask) : Option Report :=
  if pt.marked || pt.wraps then some (if pt.mixedPrio then Report.fail else Report.succ pt.file pt.name (0, i)) else none

def ptaskReports : Nat → List PTask → List Report
  | _, [] => []
  | i, pt :: rest => (ptaskReport i pt).toList ++ ptaskReports (i + 1) rest

def isMixed (w : World) (o : ObjId) : Bool :=
  match w.heap.lookup o with
  | some f => f.mixedPrio
  | none => false

/-- `pytask_collect_task` raises `ValueError` for a function with `try_first` and `try_last`; the protocol turns that
task — and only it — into a failed report (a pure pass over the reports: it touches no state). -/
def failMixed (w : World) (rs : List Report) : List Report :=
  rs.map (fun r => match r with
    | .succ p b o => if isMixed w o then Report.fail else Report.succ p b o
    | .fail => Report.fail)

/-- `_collect_from_paths`. -/
def pathReports (env : Env) (enum : List String → List String) : World × List Report :=
  let r := (notIgnoredPaths env.fs env.cfg.ignored env.cfg.paths).foldl (collectStep env enum) (env.init, [])
  (r.1, failMixed r.1 r.2)

/-- the reports of `pytask_collect` before the duplicate-signature pass: paths, programmatic tasks, left-overs. -/
def rawReports (env : Env) (enum : List String → List String) : World × List Report :=
  ((pathReports env enum).1, (pathReports env enum).2 ++ ptaskReports 0 env.ptasks ++ leftovers (pathReports env enum).1)

def collectReports (env : Env) (enum : List String → List String) : World × List Report :=
  ((rawReports env enum).1,
   if Generated.collectDupSignaturePass then failDups (rawReports env enum).2 else (rawReports env enum).2)

/-- `pytask_collect` + the `except CollectionError` arm of `build()`. -/
def collect (env : Env) (enum : List String → List String) : Outcome :=
  let r := collectReports env enum
  let fails := (r.2.filter Report.isFail).length
  { tasks := r.2.filterMap (Report.task? r.1), fails := fails,
    exit := if fails == 0 then exitCode "OK" else exitCode "COLLECTION_FAILED" }

/-- Bodies that run when collection succeeded: the DAG is keyed by signature (= path and base name),
a later task with the same key replaces the earlier one. -/
def executed : List Task → List Task
  | [] => []
  | t :: ts => if ts.any (fun u => u.path == t.path && u.base == t.base) then executed ts else t :: executed ts

/-! ## 6b. Tasks defined by a running task generator (`provisional.py:57-118`) -/

/-- a function a task generator wrapped with `@task` while it ran; `uncollectable` = `pytask_collect_task_protocol`
returns a failed report for it (both priorities, an unparseable dependency, …). -/
structure Child where
  name : String
  tag : Nat
  uncollectable : Bool := false

def childReports (path : Path) (gen : Nat) : Nat → List Child → List Report
  | _, [] => []
  | i, c :: rest => (if c.uncollectable then Report.fail else Report.succ path c.name (gen, i)) :: childReports path gen (i + 1) rest

/-- Read from the translator fact `Generated.Prv.genSteps` (statements of the generator branch of
`provisional.pytask_execute_task`, extracted by `extract_provgen.py`): the loop that raises the first failed child
report's exception (fix f1fcb9a, F35) is present — the translator only accepts it between collecting the children and
`session.tasks.extend`. -/
def genRaisesOnFailedChild : Bool := Generated.Prv.genSteps.contains Generated.Prv.GStep.raiseOnCollectFail

/-- … and the loop that raises when a child's signature is already used (fix 6571c4f, F39) is present. -/
def genRaisesOnDuplicate : Bool := Generated.Prv.genSteps.contains Generated.Prv.GStep.raiseOnDuplicate

/-- `if i.node.signature in signatures: raise …; signatures.add(…)` over the successfully collected children, starting
from the signatures (= path and base name) of `session.tasks`. -/
def clashesExisting : List (Path × String) → List Report → Bool
  | _, [] => false
  | seen, .fail :: rs => clashesExisting seen rs
  | seen, .succ p b _ :: rs => seen.contains (p, b) || clashesExisting ((p, b) :: seen) rs

/-- the part of the generator branch after the children were collected: `none` = the generator fails (its task is
reported FAIL, the build does not end with exit code 0) — because a child could not be collected or because a child's
signature is already taken —; otherwise the successfully collected children join `session.tasks`. -/
def generatorCollect (raiseOnFail raiseOnDup : Bool) (existing : List (Path × String)) (rs : List Report) : Option (List Report) :=
  if raiseOnFail && rs.any Report.isFail then none
  else if raiseOnDup && clashesExisting existing rs then none
  else some (rs.filter (fun r => !r.isFail))

/-! ## 7. Shortest unique names (`collect.py:551-590`) -/

abbrev TKey := Path × String

def lastN {α : Type} (n : Nat) (l : List α) : List α := l.drop (l.length - n)

/-- `"/".join(task.path.parts[-n:]) + "::" + task.base_name`, kept structured. -/
def shortOf (n : Nat) (k : TKey) : TKey := (lastN n ("/" :: k.1), k.2)

def uniqueAt (n : Nat) (rem : List TKey) (k : TKey) : Bool :=
  (rem.map (shortOf n)).count (shortOf n k) == 1

def roundStep (st : List (TKey × TKey) × List TKey) (n : Nat) : List (TKey × TKey) × List TKey :=
  (st.1 ++ (st.2.filter (uniqueAt n st.2)).map (fun k => (k, shortOf n k)),
   st.2.filter (fun k => !uniqueAt n st.2 k))

def dedupK : List TKey → List TKey
  | [] => []
  | x :: xs => x :: (dedupK xs).filter (fun y => y != x)

def shortRounds : List Nat := List.range' Generated.shortNameLo (Generated.shortNameHi - Generated.shortNameLo)

/-- `_find_shortest_uniquely_identifiable_name_for_tasks` on the (deduplicated: dict keys) task names. -/
def shortNames (keys : List TKey) : List (TKey × TKey) :=
  let r := shortRounds.foldl roundStep ([], dedupK keys)
  r.1 ++ r.2.map (fun k => (k, ("/" :: k.1, k.2)))

def shortNameOf (names : List (TKey × TKey)) (k : TKey) : TKey := (names.lookup k).getD ("/" :: k.1, k.2)

/-! ## 8. Enumeration orders for the driver (`k`-th rotation/reversal of a list) -/

def enumK (k : Nat) (l : List String) : List String :=
  if k == 0 then l
  else if k == 1 then l.reverse
  else (l.drop ((k - 1) % (l.length + 1))) ++ (l.take ((k - 1) % (l.length + 1)))

end Collect
end Pytask
