import PytaskModel.Generated
/-!
# M9b — `DataCatalog` (`data_catalog.py:48-160`, `nodes.py` `PickleNode.load/save`)

Executable model, core Lean only. Strings are `List Char` (code points), paths are lists of
components below `/` (already `os.path.normpath`-normalised, which is how the harness compares
locations). The model follows the Python statement by statement:

* `_check` (the `@name.validator`): `re.<fn>(r"[class]+", value)` with the character class and the
  function (`match` / `fullmatch` / `search`) taken from `Generated` — nothing about the validator is
  written by hand here.
* `__attrs_post_init__`: `self.path = root / ".pytask" / "data_catalogs" / self.name` (components from
  `Generated.catalogDirParts`), then every `*-node.pkl` in that directory is un-pickled and stored
  under `node.name`.
* `__getitem__` / `add`: an unknown entry gets `filename = sha256(name).hexdigest()`, a node with
  path `self.path / f"{filename}.pkl"`, and the node is pickled to `self.path / f"{filename}-node.pkl"`.
* `PickleNode.save` / `load`: write / read the file at `node.path`.

`sha` (entry name ↦ hex digest) is a parameter everywhere; theorems assume `Function.Injective sha`.
The file system is typed: value pickles (`vals`) and node pickles (`nodes`) are separate maps, i.e. a
node file `<hex>-node.pkl` and a value file `<hex>.pkl` never share a path (hex digests have a fixed
length of 64, the suffixes differ in length).
-/
namespace Pytask
namespace Catalog

abbrev Str := List Char
/-- An absolute, normalised path: the components below `/`. -/
abbrev Path := List Str

/-! ## The name validator -/

/-- `c` is matched by the character class given as code-point ranges. -/
def inClass (cls : List (Nat × Nat)) (c : Char) : Bool :=
  cls.any fun r => decide (r.1 ≤ c.toNat) && decide (c.toNat ≤ r.2)

/-- Length of the greedy match of `[cls]*` at position 0. -/
def matchLen (cls : List (Nat × Nat)) (s : Str) : Nat := (s.takeWhile (inClass cls)).length

/-- `re.match(r"[cls]+", s)` is not `None`: a non-empty prefix matches. -/
def reMatch (cls : List (Nat × Nat)) (s : Str) : Bool := decide (0 < matchLen cls s)

/-- `re.fullmatch(r"[cls]+", s)` is not `None`: the greedy match is non-empty and consumes `s`
(for a single class under `+` backtracking cannot help). -/
def reFullmatch (cls : List (Nat × Nat)) (s : Str) : Bool :=
  decide (0 < matchLen cls s) && matchLen cls s == s.length

/-- `re.search(r"[cls]+", s)` is not `None`: some position starts a non-empty match. -/
def reSearch (cls : List (Nat × Nat)) (s : Str) : Bool := s.any (inClass cls)

/-- The validator for anchor kind `k` (0 = `re.match`, 1 = `re.fullmatch`, 2 = `re.search`). -/
def validNameK (k : Nat) (cls : List (Nat × Nat)) (s : Str) : Bool :=
  match k with
  | 0 => reMatch cls s
  | 1 => reFullmatch cls s
  | 2 => reSearch cls s
  | _ => false

/-- `DataCatalog(name=s)` passes `_check` — with the class and the `re` function the source has now. -/
def validName (s : Str) : Bool :=
  validNameK Generated.catalogNameAnchorKind Generated.catalogNameClass s

/-- The documented alphabet: letters, digits, hyphen, underscore (docstring of `DataCatalog`). -/
def docChar (c : Char) : Bool :=
  (decide ('a' ≤ c) && decide (c ≤ 'z')) || (decide ('A' ≤ c) && decide (c ≤ 'Z')) ||
  (decide ('0' ≤ c) && decide (c ≤ '9')) || c == '-' || c == '_'

/-- `fullyValidB s`: non-empty and only documented characters. -/
def fullyValidB (s : Str) : Bool := !s.isEmpty && s.all docChar

/-! ## Locations -/

/-- `s.split("/")`. -/
def splitSlash : Str → List Str
  | [] => [[]]
  | c :: cs =>
    if c = '/' then [] :: splitSlash cs
    else match splitSlash cs with
      | [] => [[c]]
      | h :: t => (c :: h) :: t

/-- One step of `os.path.normpath` over a reversed component stack: empty and `.` components
vanish, `..` pops (and is dropped at the root). -/
def normStep (acc : List Str) (c : Str) : List Str :=
  if c = [] ∨ c = ['.'] then acc
  else if c = ['.', '.'] then acc.tail
  else c :: acc

/-- `normpath(base / comps)` for an absolute, normalised `base`. -/
def normComps (base : Path) (cs : List Str) : Path := (cs.foldl normStep base.reverse).reverse

/-- `normpath(root / ".pytask" / "data_catalogs" / name)`. -/
def catalogDir (root : Path) (name : Str) : Path :=
  normComps (root ++ Generated.catalogDirParts) (splitSlash name)

/-- `f"{filename}.pkl"`. -/
def entryFile (sha : Str → Str) (e : Str) : Str := sha e ++ Generated.catalogEntrySuffix
/-- `f"{filename}-node.pkl"`. -/
def nodeFile (sha : Str → Str) (e : Str) : Str := sha e ++ Generated.catalogNodeSuffix

/-- Where `add` puts the value file of entry `e` of a catalog whose directory is `dir`. -/
def entryPathIn (sha : Str → Str) (dir : Path) (e : Str) : Path := dir ++ [entryFile sha e]

/-- The location of entry `e` of catalog `cat` in a project rooted at `root`. -/
def entryPath (sha : Str → Str) (root : Path) (cat e : Str) : Path :=
  entryPathIn sha (catalogDir root cat) e

/-! ## Files, catalog objects, sessions -/

/-- A pickled `PickleNode(name, path)`. -/
structure Node where
  name : Str
  path : Path
deriving DecidableEq, Repr

/-- The part of the file system below the project root that the catalog touches. -/
structure FS where
  /-- value pickles: `path ↦ value` (values are indices into the harness's value table) -/
  vals : Path → Option Nat
  /-- node pickles, one per path -/
  nodes : List (Path × Node)

def FS.empty : FS := ⟨fun _ => none, []⟩

/-- `Path.write_bytes` on a node file: replaces the file at `p`. -/
def setFile (l : List (Path × Node)) (p : Path) (n : Node) : List (Path × Node) :=
  (p, n) :: l.filter (fun x => !(x.1 == p))

/-- Function update: `open(p, "wb"); pickle.dump(v)`. -/
def writeVal (f : Path → Option Nat) (p : Path) (v : Nat) : Path → Option Nat :=
  fun q => if q = p then some v else f q

/-- `p` is a file directly inside `dir` whose name ends in `-node.pkl`. -/
def isNodeFileIn (dir : Path) (p : Path) : Bool :=
  match p.getLast? with
  | some f => p.dropLast == dir && Generated.catalogNodeSuffix.isSuffixOf f
  | none => false

/-- `[pickle.loads(p.read_bytes()) for p in dir.glob("*-node.pkl")]` (order is irrelevant: the
result is only used through lookups by name). -/
def globNodes (fs : FS) (dir : Path) : List Node :=
  (fs.nodes.filter fun x => isNodeFileIn dir x.1).map (·.2)

/-- A live `DataCatalog` object. -/
structure CatObj where
  name : Str
  dir : Path
  entries : List (Str × Node)

/-- `DataCatalog(name=name)` in a module of the project: `none` = `ValueError` from the validator. -/
def openCatalog (root : Path) (fs : FS) (name : Str) : Option CatObj :=
  if validName name then
    let dir := catalogDir root name
    some ⟨name, dir, (globNodes fs dir).map fun n => (n.name, n)⟩
  else none

/-- `DataCatalog.add(name)` with the default node. -/
def addEntry (sha : Str → Str) (fs : FS) (c : CatObj) (e : Str) : FS × CatObj × Node :=
  let node : Node := ⟨e, entryPathIn sha c.dir e⟩
  let fs' : FS := { fs with nodes := setFile fs.nodes (c.dir ++ [nodeFile sha e]) node }
  (fs', { c with entries := (e, node) :: c.entries }, node)

/-- `catalog[e]`. -/
def getItem (sha : Str → Str) (fs : FS) (c : CatObj) (e : Str) : FS × CatObj × Node :=
  match c.entries.lookup e with
  | some n => (fs, c, n)
  | none => addEntry sha fs c e

/-- A project on disk plus the catalog objects alive in the current interpreter session. -/
structure St where
  root : Path
  fs : FS
  cats : List (Str × CatObj)

def St.init (root : Path) : St := ⟨root, FS.empty, []⟩

inductive Op where
  | save (cat e : Str) (v : Nat)
  | load (cat e : Str)
  | newSession
deriving DecidableEq, Repr

inductive Ans where
  | done
  | rejected
  | loaded (v : Option Nat)
deriving DecidableEq, Repr

/-- The session's catalog object for `name` (created on first use), then `catalog[e]`.
`none` = the name is rejected. -/
def withCat (sha : Str → Str) (st : St) (name e : Str) : Option (St × Node) :=
  let oc := match st.cats.lookup name with
    | some c => some c
    | none => openCatalog st.root st.fs name
  match oc with
  | none => none
  | some c =>
    let r := getItem sha st.fs c e
    some ({ st with fs := r.1, cats := (name, r.2.1) :: st.cats }, r.2.2)

/-- One operation: `catalog[e].save(v)`, `catalog[e].load()` (`loaded none` = `FileNotFoundError`),
or the interpreter exits and a new one starts (all catalog objects are gone, the files stay). -/
def step (sha : Str → Str) (st : St) : Op → St × Ans
  | .newSession => ({ st with cats := [] }, .done)
  | .save cat e v =>
    match withCat sha st cat e with
    | none => (st, .rejected)
    | some (st', n) => ({ st' with fs := { st'.fs with vals := writeVal st'.fs.vals n.path v } }, .done)
  | .load cat e =>
    match withCat sha st cat e with
    | none => (st, .rejected)
    | some (st', n) => (st', .loaded (st'.fs.vals n.path))

/-- Run a history of operations. -/
def run (sha : Str → Str) (st : St) (ops : List Op) : St := ops.foldl (fun s o => (step sha s o).1) st

/-- The answers along a history. -/
def answers (sha : Str → Str) : St → List Op → List Ans
  | _, [] => []
  | st, o :: ops => (step sha st o).2 :: answers sha (step sha st o).1 ops

/-- Specification: the value of the last `save` through `(cat, e)` in `ops`, starting from `acc`. -/
def lastSavedFrom (cat e : Str) : Option Nat → List Op → Option Nat
  | acc, [] => acc
  | acc, .save c' e' v :: ops => lastSavedFrom cat e (if c' = cat ∧ e' = e then some v else acc) ops
  | acc, _ :: ops => lastSavedFrom cat e acc ops

def lastSaved (cat e : Str) (ops : List Op) : Option Nat := lastSavedFrom cat e none ops

/-- The catalog names a history uses. -/
def Op.cat? : Op → Option Str
  | .save c _ _ => some c
  | .load c _ => some c
  | .newSession => none

end Catalog
end Pytask
