import PytaskModel.Engine
/-!
# M2-gen — the scheduler computed from the translator's description of `TopologicalSorter`

Interpreters over `Generated.Srt.*` (harness/extract_sorter.py): `from_dag`, `from_dag_and_sorter`, the ready set, the
sorted slice and the bookkeeping of `get_ready`, `done`, `is_active`, `_extract_priorities_from_tasks`.
`PytaskProofs/Properties/SorterTie.lean` proves them equal to the hand-written definitions of `Sorter.lean`.
networkx (`nx.ancestors`, `find_cycle`, `in_degree`, `remove_nodes_from` dropping incident edges) stays trusted, as in M1/M2.
Core Lean only.
-/
namespace Pytask
namespace SorterGen
open Sorter Generated.Srt

def relOf (full : G) : Rel → Nat → List Nat
  | .ancestors => full.anc
  | .descendants => full.desc

/-- `from_dag`. -/
def fromDagGen (full : G) (isTask : Nat → Bool) (prio : Nat → Int) : Except SortErr Sorter :=
  if fromDag.checksDag && checkDagRaisesOnCycle && full.hasCycle then .error .cycle else
  let tasks := full.nodes.filter isTask
  .ok { nodes := tasks,
        edges := tasks.flatMap (fun t =>
          (if fromDag.intersectTasks then (relOf full fromDag.rel t).filter isTask else relOf full fromDag.rel t).map
            (fun a => if fromDag.reversed then (a, t) else (t, a))),
        prio := prio, processing := [], done := [] }

/-- `dag.in_degree()` of the task graph. -/
def indeg (s : Sorter) (v : Nat) : Nat := (s.edges.filter (fun e => e.2 == v)).length

def inSet (s : Sorter) : SetName → Nat → Bool
  | .processing => s.processing.contains
  | .done => s.done.contains

/-- the ready set of `get_ready`. -/
def availGen (s : Sorter) : List Nat :=
  s.nodes.filter (fun v => indeg s v == readyDegree && readyMinus.all (fun m => !inSet s m v))

/-- `sorted(enum, key=…, reverse=…)[slice]`. -/
def readyWithGen (s : Sorter) (enum : List Nat) (n : Nat) : List Nat :=
  let sorted0 := isort s.prio enum
  let sorted := if sortReversed then sorted0.reverse else sorted0
  if sliceLast then sorted.drop (sorted.length - n) else sorted.take n

def addTo (b : List Nat) (s : Sorter) : SetName → Sorter
  | .processing => { s with processing := s.processing ++ b }
  | .done => { s with done := s.done ++ b }

/-- the bookkeeping of `get_ready` after the batch is chosen. -/
def takeGen (s : Sorter) (b : List Nat) : Sorter := takeUpdates.foldl (addTo b) s

/-- `get_ready(n)` for an enumeration of the ready set: the guard on `n`, the batch, the updated sorter. -/
def getReadyGen (s : Sorter) (enum : List Nat) (n : Int) : Except SortErr (List Nat × Sorter) :=
  if n < readyMinN then .error .badN else
  let b := readyWithGen s enum n.toNat
  .ok (b, takeGen s b)

def doneStep (xs : List Nat) (s : Sorter) : DoneOp → Sorter
  | .processingMinus => { s with processing := s.processing.filter (fun v => !xs.contains v) }
  | .removeNodes => { s with nodes := s.nodes.filter (fun v => !xs.contains v),
                             edges := s.edges.filter (fun e => !xs.contains e.1 && !xs.contains e.2) }
  | .doneAdd => { s with done := s.done ++ xs }

/-- `done(*xs)`. -/
def finishGen (s : Sorter) (xs : List Nat) : Sorter := doneOps.foldl (doneStep xs) s

def isActiveGen (s : Sorter) : Bool := if isActiveByNodes then !s.nodes.isEmpty else true

def recStep (old : Sorter) (s : Sorter) : RecOp → Sorter
  | .fromDag => s
  | .doneOld => finishGen s old.done
  | .copyProcessing => { s with processing := old.processing }
  | .removeProcessingNodes =>
    { s with nodes := s.nodes.filter (fun v => !old.processing.contains v),
             edges := s.edges.filter (fun e => !old.processing.contains e.1 && !old.processing.contains e.2) }

/-- `from_dag_and_sorter`. -/
def fromDagAndSorterGen (full : G) (isTask : Nat → Bool) (prio : Nat → Int) (old : Sorter) : Except SortErr Sorter :=
  match recreateOps with
  | .fromDag :: rest =>
    match fromDagGen full isTask prio with
    | .error e => .error e
    | .ok s => .ok (rest.foldl (recStep old) s)
  | _ => .error .cycle

/-- `_extract_priorities_from_tasks` for a task whose marks are given by `has`: the lookup key is built from the dict
entries named by `prioIndex`, each filled with `has_mark(task, <mark>)`. -/
def prioOfGen (has : String → Bool) : Option Int :=
  let key := prioIndex.map (fun k => match prioMarks.find? (fun e => e.1 == k) with
    | some e => has e.2
    | none => false)
  (prioTable.find? (fun r => r.1 == key)).map (·.2)

/-- `self.priorities.get(x, default)` for the priorities the engine derives from the project. -/
def prioFnGen (P : Project) (v : Nat) : Int :=
  match Engine.Project.find? P (v / 2) with
  | some t => t.prio
  | none => prioDefault

end SorterGen
end Pytask
