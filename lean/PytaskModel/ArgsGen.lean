import PytaskModel.TaskArgs
/-!
# M5-gen — the argument level computed from the translator's description of the source

`TaskArgs.lean` writes out by hand what `collect_utils.parse_dependencies_from_task_function`,
`parse_products_from_task_function`, the collection helpers, `task_utils._parse_task`,
`execute.pytask_execute_task` and the generator block of `provisional.pytask_execute_task` do.
This file contains *interpreters* over the data `harness/extract_argsgen.py` reads from the
source (`Generated.Args.*`); `PytaskProofs/Properties/ArgsTie.lean` proves each interpreter equal to
the corresponding `TaskArgs.*` definition for all arguments, so a source change that alters an
extracted fact breaks those theorems. Core Lean only.
-/
namespace Pytask
namespace ArgsGen
open PyTree TaskArgs Generated.Args

variable {V P : Type}

def srcDict (f : Func V P) : Src → Dict (T (Decl V P))
  | .defaults => f.sigDefaults
  | .taskKwargs => f.kwargs

/-- `{**a, **b}` / `a | b`: later sources win. -/
def mergeGen (order : List Src) (f : Func V P) : Dict (T (Decl V P)) :=
  match order with
  | [a, b] => Dict.update (srcDict f a) (srcDict f b)
  | [a] => srcDict f a
  | _ => []

/-! ### collection of one declared value -/

/-- `isinstance(x, PythonNode)` / `bool(x.hash)` of a collected node. -/
def isPy : Node V P → Bool
  | .pyNode _ _ => true
  | .pyTree _ => true
  | _ => false
def hashed : Node V P → Bool
  | .pyNode _ h => h
  | _ => false

def leafOkGen (n : Node V P) : Bool := collapseLeafTable.contains (isPy n, hashed n)

/-- `_collect_nodes_and_provisional_nodes(collection_func, …, value)`: `tree_map_with_path` of a function that hands
the leaf to the `pytask_collect_node` hook and returns what the hook returns (the model's `collectLeaf`). -/
def collectTreeGen (steps : List CStep) (value : T (Decl V P)) : T (Node V P) :=
  if collectMapsLeavesWithPath && steps.contains .hook && steps.getLast? == some .returnCollected
  then mapWithPath (fun _ d => collectLeaf d) value
  else .leaf (.pyTree value)

/-- the body of the loop of `parse_dependencies_from_task_function` for one `(name, value)`. -/
def collectDepGen (value : T (Decl V P)) : T (Node V P) :=
  let nodes := collectTreeGen collectDependencySteps value
  let c1 := !collapseNeedsContainer || !isLeafTree nodes
  let c2 := (leaves nodes).all leafOkGen
  let c3 := !collapseValueNodeFree || !(leaves value).any isNodeDecl
  if c1 && c2 && c3 then .leaf (.pyTree value) else nodes

/-! ### `parse_dependencies_from_task_function` -/

def parseDepsGen (f : Func V P) : Except Err (Dict (T (Node V P))) :=
  let kwargs := depsPopped.foldl Dict.erase (mergeGen depsMerge f)
  let skip := (if depsSkipProductAnnot then f.productAnnot else []) ++ depsSkipExtra
  let nodeAnnot := f.nodeAnnot
  let build := fun (kw : Dict (T (Decl V P))) =>
    (kw.filter (fun kv => !skip.contains kv.1)).map (fun kv => (kv.1, collectDepGen kv.2))
  match depsFill with
  | .ifAbsentElseRaise =>
    if nodeAnnot.any (fun kv => Dict.contains kwargs kv.1) then .error .definedTwice
    else .ok (build (kwargs ++ nodeAnnot))
  | .ifAbsent => .ok (build (kwargs ++ nodeAnnot.filter (fun kv => !Dict.contains kwargs kv.1)))
  | .overwrite => .ok (build (Dict.update kwargs nodeAnnot))

/-! ### `parse_products_from_task_function` -/

variable (pv : PyVals V)

def productNamesGen (f : Func V P) : List String :=
  let pa0 := f.productAnnot
  let pa1 := if prodsAddProducesParam && (f.paramNames.contains "produces" && !pa0.contains "produces")
    then pa0 ++ ["produces"] else pa0
  if prodsReturnFromAnnot && Dict.contains f.nodeAnnot "return" then pa1 ++ ["return"] else pa1

def productValueGen (f : Func V P) (name : String) : T (Decl V P) :=
  let fromAnnot := match Dict.get f.nodeAnnot name with
    | some t => t
    | none => noneTree (.value pv.none)
  match Dict.get (mergeGen prodsMerge f) name with
  | some v => match prodsChoice with
    | .kwargsIfPresent => v
    | .kwargsOrTruthy => if isFalsy pv v then fromAnnot else v
  | none => fromAnnot

def parseProdsGen (f : Func V P) : Except Err (Dict (T (Node V P))) :=
  let kwargs := mergeGen prodsMerge f
  let nodeAnnot := f.nodeAnnot
  let hasReturn := prodsReturnFromAnnot && Dict.contains nodeAnnot "return"
  let names := productNamesGen f
  let visited := if prodsSkipNoValue then names.filter (fun n => Dict.contains kwargs n || Dict.contains nodeAnnot n) else names
  if prodsTwiceRaises && visited.any (fun n => Dict.contains kwargs n && Dict.contains nodeAnnot n) then .error .definedTwice else
  if visited.any (fun n => n == "return" && (leaves (productValueGen pv f n)).any isPlainValue) then .error .invalidReturn else
  let out : Dict (T (Node V P)) :=
    visited.foldl (fun acc n => Dict.set acc n (collectTreeGen collectProductSteps (productValueGen pv f n))) []
  match f.produces with
  | none => .ok out
  | some tp =>
    if isFalsy pv tp then .ok out else
    match collectProd true tp with
    | .error e => .error e
    | .ok c =>
      if prodsBothRaises && hasReturn then .error .multipleReturn
      else .ok (match prodsDecoStore with
        | .rebind => [("return", c)]
        | .setKey => Dict.set out "return" c)

/-! ### the `@task(...)` decorator -/

/-- the (parsed) keywords of one `@task(...)` application. -/
structure DecoArgs (X : Type) where
  after : X
  id : X
  isGenerator : X
  kwargs : X
  name : X
  produces : X

/-- the value a metadata field ends up with in a branch of `task()`'s wrapper: the keyword the branch assigns to it, or what
was there before (`old`: left by a mark applied earlier / the dataclass default) when the branch does not set the field. -/
def metaField {X : Type} (branch : List (String × String)) (a : DecoArgs X) (old : X) (field : String) : X :=
  match (branch.find? (fun kv => kv.1 == field)).map (·.2) with
  | some "after" => a.after
  | some "id" => a.id
  | some "is_generator" => a.isGenerator
  | some "kwargs" => a.kwargs
  | some "name" => a.name
  | some "produces" => a.produces
  | _ => old

/-- the keyword-carrying fields of `CollectionMetadata` after `@task(...)`. -/
def metaGen {X : Type} (branch : List (String × String)) (a : DecoArgs X) (old : X) : DecoArgs X :=
  { after := metaField branch a old "after", id := metaField branch a old "id_", isGenerator := metaField branch a old "is_generator",
    kwargs := metaField branch a old "kwargs", name := metaField branch a old "name", produces := metaField branch a old "produces" }

/-! ### the debugging wrappers around the task function -/

/-- What `task.function(**kwargs)` evaluates to when `task.function` is a wrapper with the extracted shape around a body that maps
the keyword arguments `kw` to `body kw` (`none` = the body raises): the wrapper hands on the arguments or calls the body with
nothing (`noArgs`), hands back the result or Python's `None` (`pyNone`), and lets an exception through or swallows it. -/
def wrapCall {K R : Type} (w : Wrap) (noArgs : K) (pyNone : R) (body : K → Option R) (kw : K) : Option R :=
  if !w.installed then body kw else
  match body (if w.passesArguments then kw else noArgs) with
  | some r => some (if w.returnsResult then r else pyNone)
  | none => if w.reraises then none else some pyNone

/-! ### keyword arguments and the return block -/

/-- the two sources of keyword arguments with their `is_product` flags and parameter guards; on a name clash the
source assigned later (or not only `setdefault`-ed) wins. -/
def kwargsGen (deps prods : KwSrc) (prodsWin : Bool) (params : List String) (dependsOn produces : Dict (T (Node V P))) :
    Dict (T (Obj V P)) :=
  let fromDeps := Dict.mapVals (bind (load deps.isProduct))
    (dependsOn.filter (fun kv => !deps.needsParam || params.contains kv.1))
  let fromProds := Dict.mapVals (bind (load prods.isProduct))
    (produces.filter (fun kv => !prods.needsParam || params.contains kv.1))
  if prodsWin then Dict.update fromDeps fromProds else Dict.update fromProds fromDeps

section
variable {N W : Type} [DecidableEq N]

/-- the return block for a given way of detecting a misfit. -/
def executeReturnWith (pt : PrefixTest) (skipsProv : Bool) (isProv : N → Bool) (canSave : N → T W → Bool)
    (ret : T N) (out : T W) (s : Store N W) : Store N W × Bool :=
  let skip : N → Bool := if skipsProv then isProv else fun _ => false
  let run : Store N W × Bool := match flattenUpTo (struct ret) out with
    | none => (s, false)
    | some values => saveAll skip canSave ((leaves ret).zip values) s
  match pt with
  | .explicit => if !isPrefix false (struct ret) (struct out) then (s, false) else run
  | .explicitStrict => if !isPrefix true (struct ret) (struct out) then (s, false) else run
  | .viaFlatten => run

def executeReturnGen (isProv : N → Bool) (canSave : N → T W → Bool) (ret : T N) (out : T W) (s : Store N W) :
    Store N W × Bool :=
  executeReturnWith retPrefix retSaveSkipsProvisional isProv canSave ret out s

end

end ArgsGen
end Pytask
