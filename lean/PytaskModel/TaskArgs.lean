import PytaskModel.PyTree
/-!
# M5, argument level — from a task function's declarations to what the function receives and
where its return value goes

Mirrors, statement by statement,
* `collect_utils.parse_dependencies_from_task_function` / `parse_products_from_task_function`
  (merging of signature defaults, `@task(kwargs=…)`, `Annotated[..., node]`, `Annotated[..., Product]`,
  the `produces` parameter, return annotations, `@task(produces=…)`; the "all leaves are un-hashed
  `PythonNode`s ⇒ one `PythonNode` holding the whole value" rule),
* `collect.pytask_collect_node` restricted to the leaf kinds of the property (Path → `PathNode`,
  nodes kept, any other value → `PythonNode(value)`; a plain value in a return declaration is an error),
* `execute.pytask_execute_task` (kwargs by `tree_map(load)`, products only if the function has the
  parameter, the call, and the handling of `return`: prefix check, `flatten_up_to`, `save` per leaf),
* `PathNode.load/PickleNode.load/PythonNode.load`.

Abstracted: path resolution (`P` is the resolved path; `rawPath` marks a `Path` object that did
not go through collection), node names / `NodeInfo` (the path given to `tree_map_with_path`'s
callback only enters names and signatures), pickling (`unpickled p` = "the object stored in file
`p`"), `PythonNode`s shared between tasks (`value=no_default`), provisional nodes in arguments.
-/
namespace Pytask
namespace TaskArgs
open PyTree

/-! ## Python dicts with string keys (insertion ordered; only ever read by key) -/

abbrev Dict (X : Type) := List (String × X)

namespace Dict
variable {X Y : Type}
def get (d : Dict X) (k : String) : Option X :=
  match d with
  | [] => none
  | (k', x) :: rest => if k' = k then some x else get rest k
def contains (d : Dict X) (k : String) : Bool := (get d k).isSome
/-- `d[k] = x` -/
def set (d : Dict X) (k : String) (x : X) : Dict X :=
  match d with
  | [] => [(k, x)]
  | (k', x') :: rest => if k' = k then (k, x) :: rest else (k', x') :: set rest k x
/-- `d.pop(k, None)` -/
def erase (d : Dict X) (k : String) : Dict X := d.filter (fun kv => kv.1 ≠ k)
/-- `{**d, **e}` -/
def update (d e : Dict X) : Dict X := e.foldl (fun acc kv => set acc kv.1 kv.2) d
def keys (d : Dict X) : List String := d.map (·.1)
def mapVals (f : X → Y) (d : Dict X) : Dict Y := d.map (fun kv => (kv.1, f kv.2))
end Dict

/-! ## declarations, nodes, received objects -/

/-- what the user writes at a leaf position of a declaration. -/
inductive Decl (V P : Type) where
  | value (v : V)                  -- any object that is neither a `Path` nor a node
  | path (p : P)                   -- `pathlib.Path`
  | pyNode (v : V) (hash : Bool)   -- `PythonNode(value=v, hash=…)`
  | pickle (p : P)                 -- `PickleNode(path=p)` / a `DataCatalog` entry stored at `p`
deriving Repr, Inhabited

/-- collected nodes. -/
inductive Node (V P : Type) where
  | pathNode (p : P)
  | pickleNode (p : P)
  | pyNode (v : V) (hash : Bool)
  | pyTree (t : T (Decl V P))      -- `PythonNode(value=<the whole declared argument>)`: the collapsed node
deriving Repr, Inhabited

/-- objects a task function can find at a leaf position of an argument. -/
inductive Obj (V P : Type) where
  | val (v : V)                    -- the Python value `v`
  | path (p : P)                   -- the resolved `Path`
  | rawPath (p : P)                -- a `Path` object exactly as written (not resolved against the task directory)
  | unpickled (p : P)              -- the object stored in pickle file `p`
  | node (n : Node V P)            -- a node object itself
deriving Repr, Inhabited

inductive Err where
  | definedTwice      -- `ValueError`: value given in `@task(kwargs=…)` / default and in the annotation
  | invalidReturn     -- `ValueError`: a plain value in the declaration of the return
  | multipleReturn    -- `NodeNotCollectedError`: return annotation and `@task(produces=…)`
  | typeError         -- the call `function(**kwargs)` raises `TypeError`
deriving Repr, DecidableEq, Inhabited

section
variable {V P : Type}

/-- `pytask_collect_node` on one leaf (`collect.py:366-492`). -/
def collectLeaf : Decl V P → Node V P
  | .value v => .pyNode v false
  | .path p => .pathNode p
  | .pyNode v h => .pyNode v h
  | .pickle p => .pickleNode p

/-- `isinstance(x, PythonNode) and not x.hash`. -/
def isUnhashedPy : Node V P → Bool
  | .pyNode _ h => !h
  | .pyTree _ => true
  | _ => false

def isLeafTree {α : Type} : T α → Bool
  | .leaf _ => true
  | _ => false

def isPlainValue : Decl V P → Bool
  | .value _ => true
  | _ => false

/-- An object of the declaration as Python sees it without collection. A `PythonNode` written by
the user is collected *in place*, so the object in the original container is the collected node. -/
def rawObj : Decl V P → Obj V P
  | .value v => .val v
  | .path p => .rawPath p
  | .pyNode v h => .node (.pyNode v h)
  | .pickle p => .node (.pickleNode p)

/-- `isinstance(x, (PNode, PProvisionalNode))` on an object of the declaration. -/
def isNodeDecl : Decl V P → Bool
  | .pyNode _ _ => true
  | .pickle _ => true
  | _ => false

/-- One argument of `parse_dependencies_from_task_function` (the body of its last loop):
`tree_map_with_path(collect_dependency, value)`, then the collapse rule: all collected leaves are
un-hashed `PythonNode`s **and** (since fix 594c921, `Generated.collapseKeepsUserNodes`) the declared
value holds no node written by the user. -/
def collectDep (value : T (Decl V P)) : T (Node V P) :=
  let nodes := mapWithPath (fun _ d => collectLeaf d) value
  if !isLeafTree nodes && (leaves nodes).all isUnhashedPy &&
      !(Generated.collapseKeepsUserNodes && (leaves value).any isNodeDecl)
  then .leaf (.pyTree value) else nodes

/-- `tree_map_with_path(_collect_product, value)`; in the declaration of the return a value that is
neither a path nor a node is rejected. -/
def collectProd (isReturn : Bool) (value : T (Decl V P)) : Except Err (T (Node V P)) :=
  if isReturn && (leaves value).any isPlainValue then .error .invalidReturn
  else .ok (mapWithPath (fun _ d => collectLeaf d) value)

/-- `node.load(is_product=…)`. -/
def load (isProduct : Bool) : Node V P → T (Obj V P)
  | .pathNode p => .leaf (.path p)
  | .pickleNode p => if isProduct then .leaf (.node (.pickleNode p)) else .leaf (.unpickled p)
  | .pyNode v h => if isProduct then .leaf (.node (.pyNode v h)) else .leaf (.val v)
  | .pyTree t => if isProduct then .leaf (.node (.pyTree t)) else map rawObj t

/-! ## the task function's declarations -/

structure Param (V P : Type) where
  name : String
  default : Option (T (Decl V P))     -- signature default
  node : Option (T (Decl V P))        -- the non-`Product` metadata of `Annotated[...]`
  product : Bool                      -- `Annotated[..., Product]`
deriving Repr, Inhabited

structure Func (V P : Type) where
  params : List (Param V P)
  retNode : Option (T (Decl V P))     -- `-> Annotated[..., <pytree of nodes>]`
  kwargs : Dict (T (Decl V P))        -- `@task(kwargs=…)`
  produces : Option (T (Decl V P))    -- `@task(produces=…)`
deriving Repr, Inhabited

/-- Python values the model has to recognise. -/
structure PyVals (V : Type) where
  none : V
  falsy : V → Bool

variable (pv : PyVals V)

/-- `not value` for a declared pytree: empty containers and falsy plain leaves. -/
def isFalsy : T (Decl V P) → Bool
  | .leaf (.value v) => pv.falsy v
  | .leaf _ => false
  | .list xs => xs.isEmpty
  | .tuple xs => xs.isEmpty
  | .dict kvs => kvs.isEmpty

def Func.paramNames (f : Func V P) : List String := f.params.map (·.name)

/-- `parse_keyword_arguments_from_signature_defaults`. -/
def Func.sigDefaults (f : Func V P) : Dict (T (Decl V P)) :=
  f.params.filterMap (fun p => p.default.map (fun d => (p.name, d)))

/-- `{**signature_defaults, **task_kwargs}`. -/
def Func.merged (f : Func V P) : Dict (T (Decl V P)) := Dict.update f.sigDefaults f.kwargs

/-- `_find_args_with_product_annotation`. -/
def Func.productAnnot (f : Func V P) : List String := (f.params.filter (·.product)).map (·.name)

/-- `_find_args_with_node_annotation` (the return annotation is in `__annotations__` too). -/
def Func.nodeAnnot (f : Func V P) : Dict (T (Decl V P)) :=
  f.params.filterMap (fun p => p.node.map (fun d => (p.name, d))) ++
    (match f.retNode with | some t => [("return", t)] | none => [])

/-- `parse_dependencies_from_task_function` (`collect_utils.py:54-115`). -/
def parseDeps (f : Func V P) : Except Err (Dict (T (Node V P))) :=
  let kwargs := Dict.erase f.merged "produces"
  let prodAnnot := f.productAnnot ++ ["return"]
  let nodeAnnot := f.nodeAnnot
  if nodeAnnot.any (fun kv => Dict.contains kwargs kv.1) then .error .definedTwice else
  let kwargs := kwargs ++ nodeAnnot
  .ok ((kwargs.filter (fun kv => !prodAnnot.contains kv.1)).map (fun kv => (kv.1, collectDep kv.2)))

/-- names visited by the product loop of `parse_products_from_task_function`. -/
def Func.productNames (f : Func V P) : List String :=
  let pa0 := f.productAnnot
  let pa1 := if f.paramNames.contains "produces" && !pa0.contains "produces" then pa0 ++ ["produces"] else pa0
  if Dict.contains f.nodeAnnot "return" then pa1 ++ ["return"] else pa1

/-- `value = kwargs[name] if name in kwargs else parameters_with_node_annot.get(name)` (fix 123c420;
before it `kwargs.get(name) or …`, i.e. a falsy declared value fell through to the annotation —
`Generated.productFalsyFallsBack`); Python's `None` is the leaf `none`. -/
def Func.productValue (f : Func V P) (name : String) : T (Decl V P) :=
  let fromAnnot := match Dict.get f.nodeAnnot name with
    | some t => t
    | none => noneTree (.value pv.none)
  match Dict.get f.merged name with
  | some v => if Generated.productFalsyFallsBack && isFalsy pv v then fromAnnot else v
  | none => fromAnnot

/-- `parse_products_from_task_function` (`collect_utils.py:160-247`). -/
def parseProds (f : Func V P) : Except Err (Dict (T (Node V P))) :=
  let kwargs := f.merged
  let nodeAnnot := f.nodeAnnot
  let hasReturn := Dict.contains nodeAnnot "return"
  let visited := f.productNames.filter (fun n => Dict.contains kwargs n || Dict.contains nodeAnnot n)
  if visited.any (fun n => Dict.contains kwargs n && Dict.contains nodeAnnot n) then .error .definedTwice else
  if visited.any (fun n => n == "return" && (leaves (f.productValue pv n)).any isPlainValue) then .error .invalidReturn else
  let out : Dict (T (Node V P)) :=
    visited.foldl (fun acc n => Dict.set acc n (mapWithPath (fun _ d => collectLeaf d) (f.productValue pv n))) []
  match f.produces with
  | none => .ok out
  | some tp =>
    if isFalsy pv tp then .ok out else
    match collectProd true tp with
    | .error e => .error e
    | .ok c =>
      if hasReturn then .error .multipleReturn
      else .ok (if Generated.taskProducesReplaces then [("return", c)] else Dict.set out "return" c)

/-! ## `pytask_execute_task`: kwargs and the call -/

/-- `execute.py:199-207`. -/
def kwargsOf (params : List String) (dependsOn produces : Dict (T (Node V P))) : Dict (T (Obj V P)) :=
  let fromDeps := Dict.mapVals (bind (load false)) dependsOn
  let fromProds := Dict.mapVals (bind (load true))
    (produces.filter (fun kv => !Generated.productsNeedParameter || params.contains kv.1))
  Dict.update fromDeps fromProds

/-- Task generators (`@task(is_generator=True)`) do not go through `execute.pytask_execute_task`:
`provisional.pytask_execute_task` has its own copy of the kwargs loops (`provisional.py:57-67`); its
`is_product` flags and parameter guard are read from the source (`Generated.generator…`). -/
def kwargsOfGen (params : List String) (dependsOn produces : Dict (T (Node V P))) : Dict (T (Obj V P)) :=
  let fromDeps := Dict.mapVals (bind (load Generated.generatorDepsAsProducts)) dependsOn
  let fromProds := Dict.mapVals (bind (load Generated.generatorProductsAsProducts))
    (produces.filter (fun kv => !Generated.generatorProductsNeedParameter || params.contains kv.1))
  Dict.update fromDeps fromProds

/-- Python's call `function(**kw)`: `TypeError` for an unexpected keyword or a missing argument. -/
def callable (f : Func V P) (kw : Dict (T (Obj V P))) : Bool :=
  kw.all (fun kv => f.paramNames.contains kv.1) &&
  f.params.all (fun p => Dict.contains kw p.name || p.default.isSome)

/-- what parameter `p` is bound to inside the body: the keyword argument, else the raw default. -/
def bound (kw : Dict (T (Obj V P))) (p : Param V P) : Option (T (Obj V P)) :=
  match Dict.get kw p.name with
  | some v => some v
  | none => p.default.map (map rawObj)

/-- A collected task: `depends_on`, `produces`. -/
structure Task (V P : Type) where
  dependsOn : Dict (T (Node V P))
  produces : Dict (T (Node V P))

/-- `pytask_collect_task`: both parsers; any exception fails the collection of the task. -/
def collectTask (f : Func V P) : Except Err (Task V P) :=
  match parseDeps f with
  | .error e => .error e
  | .ok d => match parseProds pv f with
    | .error e => .error e
    | .ok p => .ok ⟨d, p⟩

/-- what the body sees: one binding per parameter, or `TypeError`. -/
def received (f : Func V P) (t : Task V P) : Except Err (Dict (T (Obj V P))) :=
  let kw := kwargsOf f.paramNames t.dependsOn t.produces
  if callable f kw then .ok (f.params.filterMap (fun p => (bound kw p).map (fun v => (p.name, v))))
  else .error .typeError

/-- what the body of a task generator sees. -/
def receivedGen (f : Func V P) (t : Task V P) : Except Err (Dict (T (Obj V P))) :=
  let kw := kwargsOfGen f.paramNames t.dependsOn t.produces
  if callable f kw then .ok (f.params.filterMap (fun p => (bound kw p).map (fun v => (p.name, v))))
  else .error .typeError

end

/-! ## `pytask_execute_task`: the return value (`execute.py:209-226`) -/

section
variable {N W : Type} [DecidableEq N]

abbrev Store (N W : Type) := N → Option (T W)

def Store.set (s : Store N W) (n : N) (v : T W) : Store N W := fun m => if m = n then some v else s m

/-- `for node, value in zip(nodes, values): if not provisional: node.save(value)`; a `save` that raises
(`PathNode.save` on something that is neither `str` nor `bytes`) stops the loop and fails the task. -/
def saveAll (isProv : N → Bool) (canSave : N → T W → Bool) : List (N × T W) → Store N W → Store N W × Bool
  | [], s => (s, true)
  | (n, v) :: rest, s =>
    if isProv n then saveAll isProv canSave rest s
    else if canSave n v then saveAll isProv canSave rest (s.set n v)
    else (s, false)

/-- Handling of `return`: `(store afterwards, succeeded)`. -/
def executeReturn (isProv : N → Bool) (canSave : N → T W → Bool) (ret : T N) (out : T W) (s : Store N W) :
    Store N W × Bool :=
  let structureOut := struct out
  let structureReturn := struct ret
  if !isPrefix Generated.returnPrefixStrict structureReturn structureOut then (s, false) else
  let nodes := leaves ret
  match flattenUpTo structureReturn out with
  | none => (s, false)
  | some values => saveAll isProv canSave (nodes.zip values) s

end

end TaskArgs
end Pytask
