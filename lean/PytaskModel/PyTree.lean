import PytaskModel.Generated
/-!
# M5 — pytrees as pytask uses optree (`src/_pytask/tree_util.py`)

`tree_util.py` wraps `optree.tree_leaves / tree_map / tree_map_with_path / tree_structure /
tree_flatten_with_path` with `none_is_leaf=True, namespace="pytask"`; `execute.py` additionally
uses `PyTreeSpec.is_prefix(other, strict=False)` and `PyTreeSpec.flatten_up_to(tree)`.

* containers are `list`, `tuple`, `dict`; everything else (including `None`) is a leaf;
* `()`, `[]`, `{}` are internal nodes without leaves;
* a dict is visited in **sorted key order** (optree sorts the keys; when the keys are not mutually
  comparable it falls back to insertion order — such dicts are outside the model, `WF` excludes
  them). The model stores a dict as its item list in visiting order; the harness canonicalises a
  Python dict the same way, `WF` says the keys are strictly increasing.

optree itself is trusted (DESIGN §3); the functions below are held to it by the exhaustive
differential runs of `harness/props/c07.py`.
-/
namespace Pytask
namespace PyTree

/-- dict keys that the model covers: `int` and `str`. -/
inductive Key where
  | int (i : Int)
  | str (s : String)
deriving DecidableEq, Repr, Inhabited

/-- Python's `<` on keys of one type; keys of different types are not comparable (`TypeError`). -/
def Key.lt : Key → Key → Bool
  | .int a, .int b => decide (a < b)
  | .str a, .str b => decide (a < b)
  | _, _ => false

/-- one step of an optree path: a sequence index or a dict key. -/
inductive Step where
  | idx (i : Nat)
  | key (k : Key)
deriving DecidableEq, Repr, Inhabited

abbrev Path := List Step

/-- A pytree with leaves in `α`. `dict` holds the items in the order optree visits them. -/
inductive T (α : Type) where
  | leaf (a : α)
  | list (xs : List (T α))
  | tuple (xs : List (T α))
  | dict (kvs : List (Key × T α))
deriving Repr, Inhabited

variable {α β γ : Type}

/-- `None` in a tree: `tree_util.py` passes `none_is_leaf=True` to every optree function
(`Generated.treeNoneIsLeaf`, read from the source); with `False` optree would treat `None` as an
internal node without children, which has no leaves — like `()`. -/
def noneTree (none : α) : T α := if Generated.treeNoneIsLeaf then .leaf none else .tuple []

/-! ## strictly sorted keys -/

/-- strictly increasing: every key is smaller than every later key. -/
def keysSorted : List Key → Bool
  | [] => true
  | a :: rest => rest.all (fun b => a.lt b) && keysSorted rest

mutual
/-- well-formed: every dict's keys are strictly increasing (so: distinct and of one type). -/
def WF : T α → Bool
  | .leaf _ => true
  | .list xs => WFL xs
  | .tuple xs => WFL xs
  | .dict kvs => keysSorted (kvs.map (·.1)) && WFD kvs
def WFL : List (T α) → Bool
  | [] => true
  | t :: ts => WF t && WFL ts
def WFD : List (Key × T α) → Bool
  | [] => true
  | (_, t) :: kvs => WF t && WFD kvs
end

/-! ## `tree_leaves`, `tree_map`, `tree_structure` -/

mutual
/-- `tree_leaves(t)`: left-to-right, dicts in sorted key order. -/
def leaves : T α → List α
  | .leaf a => [a]
  | .list xs => leavesL xs
  | .tuple xs => leavesL xs
  | .dict kvs => leavesD kvs
def leavesL : List (T α) → List α
  | [] => []
  | t :: ts => leaves t ++ leavesL ts
def leavesD : List (Key × T α) → List α
  | [] => []
  | (_, t) :: kvs => leaves t ++ leavesD kvs
end

mutual
/-- `tree_map(f, t)` for an `f` that returns leaves. -/
def map (f : α → β) : T α → T β
  | .leaf a => .leaf (f a)
  | .list xs => .list (mapL f xs)
  | .tuple xs => .tuple (mapL f xs)
  | .dict kvs => .dict (mapD f kvs)
def mapL (f : α → β) : List (T α) → List (T β)
  | [] => []
  | t :: ts => map f t :: mapL f ts
def mapD (f : α → β) : List (Key × T α) → List (Key × T β)
  | [] => []
  | (k, t) :: kvs => (k, map f t) :: mapD f kvs
end

mutual
/-- `tree_map(f, t)` in general: the result of `f` is put in place of the leaf *as it is*, so an
`f` that returns containers grafts subtrees (`execute.py` maps `node.load` over the node tree and
a loaded value may itself be a container). -/
def bind (f : α → T β) : T α → T β
  | .leaf a => f a
  | .list xs => .list (bindL f xs)
  | .tuple xs => .tuple (bindL f xs)
  | .dict kvs => .dict (bindD f kvs)
def bindL (f : α → T β) : List (T α) → List (T β)
  | [] => []
  | t :: ts => bind f t :: bindL f ts
def bindD (f : α → T β) : List (Key × T α) → List (Key × T β)
  | [] => []
  | (k, t) :: kvs => (k, bind f t) :: bindD f kvs
end

/-- `tree_structure(t)`: the tree with every leaf replaced by `*`. -/
def struct (t : T α) : T Unit := map (fun _ => ()) t

/-! ## paths, `tree_map_with_path`, positions -/

mutual
/-- `tree_paths(t)`: the path of every leaf, in the order of `leaves`. -/
def paths : T α → List Path
  | .leaf _ => [[]]
  | .list xs => pathsL 0 xs
  | .tuple xs => pathsL 0 xs
  | .dict kvs => pathsD kvs
def pathsL (i : Nat) : List (T α) → List Path
  | [] => []
  | t :: ts => (paths t).map (Step.idx i :: ·) ++ pathsL (i + 1) ts
def pathsD : List (Key × T α) → List Path
  | [] => []
  | (k, t) :: kvs => (paths t).map (Step.key k :: ·) ++ pathsD kvs
end

mutual
/-- `tree_map_with_path(f, t)`: `f` gets the path of the leaf and the leaf. -/
def mapWithPath (f : Path → α → β) : T α → T β
  | .leaf a => .leaf (f [] a)
  | .list xs => .list (mapWithPathL f 0 xs)
  | .tuple xs => .tuple (mapWithPathL f 0 xs)
  | .dict kvs => .dict (mapWithPathD f kvs)
def mapWithPathL (f : Path → α → β) (i : Nat) : List (T α) → List (T β)
  | [] => []
  | t :: ts => mapWithPath (fun p => f (Step.idx i :: p)) t :: mapWithPathL f (i + 1) ts
def mapWithPathD (f : Path → α → β) : List (Key × T α) → List (Key × T β)
  | [] => []
  | (k, t) :: kvs => (k, mapWithPath (fun p => f (Step.key k :: p)) t) :: mapWithPathD f kvs
end

/-- first item with key `k` (Python: `d[k]`). -/
def lookupD (k : Key) : List (Key × T α) → Option (T α)
  | [] => none
  | (k', t) :: kvs => if k' = k then some t else lookupD k kvs

/-- the subtree at a position (`t[p0][p1]…`); `none` if the position does not exist or the step
kind does not fit the container. -/
def at? : T α → Path → Option (T α)
  | t, [] => some t
  | .list xs, .idx i :: p => match xs[i]? with
      | some c => at? c p
      | none => none
  | .tuple xs, .idx i :: p => match xs[i]? with
      | some c => at? c p
      | none => none
  | .dict kvs, .key k :: p => match lookupD k kvs with
      | some c => at? c p
      | none => none
  | _, _ :: _ => none

/-! ## `treespec.unflatten(leaves)` -/

mutual
/-- fill the leaves of a structure from a list, left to right; returns the unused rest. -/
def unflattenAux : T β → List α → Option (T α × List α)
  | .leaf _, l => match l with
      | [] => none
      | a :: rest => some (.leaf a, rest)
  | .list xs, l => (unflattenL xs l).map (fun r => (.list r.1, r.2))
  | .tuple xs, l => (unflattenL xs l).map (fun r => (.tuple r.1, r.2))
  | .dict kvs, l => (unflattenD kvs l).map (fun r => (.dict r.1, r.2))
def unflattenL : List (T β) → List α → Option (List (T α) × List α)
  | [], l => some ([], l)
  | t :: ts, l => match unflattenAux t l with
      | none => none
      | some (t', l') => match unflattenL ts l' with
          | none => none
          | some (ts', l'') => some (t' :: ts', l'')
def unflattenD : List (Key × T β) → List α → Option (List (Key × T α) × List α)
  | [], l => some ([], l)
  | (k, t) :: kvs, l => match unflattenAux t l with
      | none => none
      | some (t', l') => match unflattenD kvs l' with
          | none => none
          | some (kvs', l'') => some ((k, t') :: kvs', l'')
end

/-- `spec.unflatten(leaves)`: `ValueError` (here `none`) unless the number of leaves is exact. -/
def unflatten (s : T β) (l : List α) : Option (T α) :=
  match unflattenAux s l with
  | some (t, []) => some t
  | _ => none

/-! ## `spec.is_prefix(other, strict)` and `spec.flatten_up_to(tree)` -/

mutual
/-- non-strict prefix: `s` can be obtained from `o` by cutting subtrees down to leaves. A leaf of
`s` matches anything; a container matches a container of the same type and arity / key set. -/
def isPrefixNS : T α → T β → Bool
  | .leaf _, _ => true
  | .list ss, .list os => isPrefixL ss os
  | .tuple ss, .tuple os => isPrefixL ss os
  | .dict ss, .dict os => isPrefixD ss os
  | _, _ => false
def isPrefixL : List (T α) → List (T β) → Bool
  | [], [] => true
  | s :: ss, o :: os => isPrefixNS s o && isPrefixL ss os
  | _, _ => false
def isPrefixD : List (Key × T α) → List (Key × T β) → Bool
  | [], [] => true
  | (k, s) :: ss, (k', o) :: os => decide (k = k') && isPrefixNS s o && isPrefixD ss os
  | _, _ => false
end

mutual
/-- same shape (`spec == other`). -/
def sameShape : T α → T β → Bool
  | .leaf _, .leaf _ => true
  | .list ss, .list os => sameShapeL ss os
  | .tuple ss, .tuple os => sameShapeL ss os
  | .dict ss, .dict os => sameShapeD ss os
  | _, _ => false
def sameShapeL : List (T α) → List (T β) → Bool
  | [], [] => true
  | s :: ss, o :: os => sameShape s o && sameShapeL ss os
  | _, _ => false
def sameShapeD : List (Key × T α) → List (Key × T β) → Bool
  | [], [] => true
  | (k, s) :: ss, (k', o) :: os => decide (k = k') && sameShape s o && sameShapeD ss os
  | _, _ => false
end

/-- `s.is_prefix(o, strict=…)`: with `strict=True` the two must additionally differ. -/
def isPrefix (strict : Bool) (s : T α) (o : T β) : Bool :=
  isPrefixNS s o && !(strict && sameShape s o)

mutual
/-- `spec.flatten_up_to(out)`: the subtrees of `out` at the leaf positions of the spec;
`ValueError` (here `none`) when `out` does not have the containers the spec has. -/
def flattenUpTo : T α → T β → Option (List (T β))
  | .leaf _, o => some [o]
  | .list ss, .list os => flattenUpToL ss os
  | .tuple ss, .tuple os => flattenUpToL ss os
  | .dict ss, .dict os => flattenUpToD ss os
  | _, _ => none
def flattenUpToL : List (T α) → List (T β) → Option (List (T β))
  | [], [] => some []
  | s :: ss, o :: os => match flattenUpTo s o with
      | none => none
      | some vs => match flattenUpToL ss os with
          | none => none
          | some ws => some (vs ++ ws)
  | _, _ => none
def flattenUpToD : List (Key × T α) → List (Key × T β) → Option (List (T β))
  | [], [] => some []
  | (k, s) :: ss, (k', o) :: os =>
      if k = k' then
        match flattenUpTo s o with
        | none => none
        | some vs => match flattenUpToD ss os with
            | none => none
            | some ws => some (vs ++ ws)
      else none
  | _, _ => none
end

end PyTree
end Pytask
