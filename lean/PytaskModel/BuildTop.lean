import PytaskModel.Engine
import PytaskModel.Generated
/-!
# `build()` — the try/except ladder around the phases (`build.py:182-282`)

```
try:    configure (pytask_configure, Session.from_config, option parsing)
except (ConfigurationError, Exception): session = Session(exit_code=CONFIGURATION_FAILED)      # no unconfigure
else:
    try:    header; collect; create_dag; execute             -- Generated.buildPhases
    except CollectionError / ResolvingDependenciesError / ExecutionError / Exception: exit code  -- Generated.buildLadder
    session.hook.pytask_unconfigure(session)                  -- Generated.unconfigureAfterLadder
return session
```
Faults outside the engine (a module that does not import, a bad option value, an unparsable
expression, …) are *inputs*: per phase, the exception class that escapes the phase's hook before the
engine's own work. The `dag` and `execute` phases are the engine M6 (`createDag`, `fromDag`, `buildLoop`).
Facts taken from the source by the translator: `Generated.buildPhases`, `buildLadder`, `configFailCode`,
`configHandler`, `unconfigureAfterLadder`, `dagWrapsException`, `collectLogRaises`, `collectFileCatches`.
-/
namespace Pytask
namespace BuildTop
open Engine

/-- An exception: an `Exception` subclass with its class name, or (`base`) a `BaseException` subclass
that is not an `Exception` — `"SystemExit"`, `"KeyboardInterrupt"`, `"GeneratorExit"`, `"BaseException"`. -/
inductive Exc
  | exn (cls : String)
  | base (cls : String)
deriving Repr, DecidableEq, Inhabited

structure Faults where
  configure : Option Exc := none              -- raised inside the configuration `try`
  importRaises : Option Exc := none           -- raised while a task module is imported (`pytask_collect_file_protocol`)
  phase : String → Option Exc := fun _ => none  -- raised by the named phase before the engine's work
  unconfigure : Option Exc := none            -- raised by a `pytask_unconfigure` implementation

/-- `except (A, B, …)` catches the exception: class named, or the catch-all `Exception`. -/
def handles (names : List String) : Exc → Bool
  | .exn c => names.contains c || names.contains "Exception"
  | .base c => names.contains c || names.contains "BaseException"

/-- First matching handler of the inner ladder. -/
def ladderFind (ladder : List (List String × String)) (e : Exc) : Option String :=
  (ladder.find? (fun r => handles r.1 e)).map (·.2)

structure TopResult where
  raised : Bool := false          -- an exception escaped `build()`
  exit : Nat := 0                 -- `session.exit_code` (meaningful when `raised = false`)
  configured : Bool := false      -- the configuration `try` succeeded
  unconfigured : Bool := false    -- `pytask_unconfigure` was called
  reports : List (Nat × Outcome) := []
  log : List Nat := []
  w : World
  complete : Bool := true
deriving Repr, Inhabited

/-- State while the statements of the inner `try` body run. -/
structure PhaseSt where
  exc : Option Exc := none                 -- exception raised so far (the remaining statements are skipped)
  collected : Bool := false                -- `session.tasks` filled
  dag : Option (G × List Nat) := none      -- `session.dag`
  reports : List (Nat × Outcome) := []
  log : List Nat := []
  w : World
  complete : Bool := true
  illegal : Option Illegal := none         -- the observed pick list is not a run of the scheduler model

/-- What escapes `create_dag`: every `Exception` is re-raised as `ResolvingDependenciesError`
(`dag.py:40-50`, `Generated.dagWrapsException`). -/
def dagExc (e : Exc) : Exc :=
  match e with
  | .exn c => if Generated.dagWrapsException then .exn "ResolvingDependenciesError" else .exn c
  | .base c => .base c

/-- What `pytask_collect` raises when importing a task module raised `e`: if the collection protocol
catches `e` (`Generated.collectFileCatches`) the module gets a failed collection report and
`pytask_collect_log` raises `Generated.collectLogRaises`; otherwise `e` itself escapes. -/
def importExc (e : Exc) : Exc :=
  if handles Generated.collectFileCatches e then .exn Generated.collectLogRaises else e

/-- One statement of the inner `try` body. -/
def runPhase (F : BodyFn) (P : Project) (cfg : Cfg) (picks : List Nat) (fl : Faults) (st : PhaseSt) (name : String) : PhaseSt :=
  if st.exc.isSome || st.illegal.isSome then st else
  if name == "dag" then
    match fl.phase name with
    | some e => { st with exc := some (dagExc e) }
    | none =>
      -- tasks are only there after collection
      match createDag (if st.collected then P else ⟨[]⟩) cfg with
      | .error _ => { st with exc := some (dagExc (.exn "ResolvingDependenciesError")) }   -- dag.py:144,201
      | .ok d => { st with dag := some d }
  else match fl.phase name with
  | some e => { st with exc := some e }
  | none =>
    if name == "collect" then
      match fl.importRaises with
      | some e => { st with exc := some (importExc e) }
      | none => { st with collected := true }
    else if name == "execute" then
      match st.dag with
      | none => { st with exc := some (.exn "Exception") }     -- `session.dag` is None
      | some (g, marks) =>
        match Sorter.fromDag g isTaskV (prioFn P) with
        | .error _ => { st with exc := some (.exn "Exception") }   -- ValueError from `check_dag`
        | .ok so =>
          match buildLoop F P g cfg so { w := st.w, skipMarks := marks } picks with
          | .error e => { st with illegal := some e }
          | .ok (so', s) =>
            { st with reports := s.reports, log := s.log, w := s.w,
                      complete := s.stop || s.crashed || !so'.isActive,
                      exc := if s.crashed then some (.exn "Exception")          -- IntegrityError from update_states
                             else if s.reports.any (fun r => r.2 == .fail) then some (.exn "ExecutionError")  -- execute.py:353
                             else none }
    else st    -- "header" and anything else: no effect on the modelled state

/-- `build()`. -/
def buildTop (F : BodyFn) (P : Project) (cfg : Cfg) (w : World) (picks : List Nat) (fl : Faults) : Except Illegal TopResult :=
  match fl.configure with
  | some e =>
    if handles Generated.configHandler e then
      .ok { exit := exitCode Generated.configFailCode, w := w }
    else .ok { raised := true, w := w }
  | none =>
    let st := Generated.buildPhases.foldl (runPhase F P cfg picks fl) { w := w }
    match st.illegal with
    | some e => .error e
    | none =>
      let afterLadder : TopResult :=
        match st.exc with
        | none => { exit := exitCode "OK", configured := true, reports := st.reports, log := st.log, w := st.w, complete := st.complete }
        | some e =>
          match ladderFind Generated.buildLadder e with
          | some code => { exit := exitCode code, configured := true, reports := st.reports, log := st.log, w := st.w, complete := st.complete }
          | none => { raised := true, configured := true, reports := st.reports, log := st.log, w := st.w, complete := st.complete }
      if afterLadder.raised || !Generated.unconfigureAfterLadder then .ok afterLadder
      else match fl.unconfigure with
        | some _ => .ok { afterLadder with raised := true, unconfigured := true }
        | none => .ok { afterLadder with unconfigured := true }

end BuildTop
end Pytask
