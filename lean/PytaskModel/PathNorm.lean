import PytaskModel.HashValue
/-!
# M4 — lexical path normalisation (C12)

* `normpath` mirrors POSIX `os.path.normpath` (`posixpath.py`), including the rule that exactly two
  leading slashes are kept.
* `collectPath` mirrors what `pytask_collect_node` (`collect.py`) does to the path of a dependency /
  product: a plain `Path` value and a node *instance* (`PathNode`, `PickleNode`, `DirectoryNode.root_dir`)
  are made absolute and `normpath`-ed (absolute node instances since the repair of F17, c8f94b3); which
  cases are normalised is a translator fact (`Generated.collect…Norm`).
-/
namespace Pytask.PathNorm
open Pytask.Hash (Str)

/-- `s.split('/')` (never empty: the empty string gives `[""]`). -/
def splitSlash : Str → List Str
  | [] => [[]]
  | c :: cs =>
    if c = '/' then [] :: splitSlash cs
    else match splitSlash cs with
      | [] => [[c]]          -- unreachable
      | h :: t => (c :: h) :: t

/-- `'/'.join(comps)`. -/
def joinSlash : List Str → Str
  | [] => []
  | [x] => x
  | x :: y :: r => x ++ '/' :: joinSlash (y :: r)

/-- `initial_slashes`: with `n` the number of leading slashes — 0 if `n = 0`, 2 if `n = 2`
(`startswith('//') and not startswith('///')`), else 1. -/
def initialSlashes (p : Str) : Nat :=
  let n := (p.takeWhile (· = '/')).length
  if n = 0 then 0 else if n = 2 then 2 else 1

def dot : Str := ['.']
def dotdot : Str := ['.', '.']

/-- One iteration of the loop over the components; `acc` is `new_comps` reversed (top first). -/
def step (init : Nat) (acc : List Str) (comp : Str) : List Str :=
  if comp = [] ∨ comp = dot then acc
  else if comp ≠ dotdot ∨ (init = 0 ∧ acc = []) ∨ acc.head? = some dotdot then comp :: acc
  else acc.tail          -- `elif new_comps: new_comps.pop()`; popping the empty stack does nothing

/-- `new_comps` after the loop, in order. -/
def normComps (init : Nat) (comps : List Str) : List Str := (comps.foldl (step init) []).reverse

/-- POSIX `os.path.normpath`. -/
def normpath (p : Str) : Str :=
  if p = [] then dot else
  let init := initialSlashes p
  let r := List.replicate init '/' ++ joinSlash (normComps init (splitSlash p))
  if r = [] then dot else r

def isAbs (p : Str) : Bool := p.head? = some '/'

/-- `base.joinpath(p)` for a relative `p` (string level; pathlib's own tidying of `//` and `/./`
is subsumed by the `normpath` that follows). -/
def joinPath (base p : Str) : Str :=
  if base.getLast? = some '/' then base ++ p else base ++ '/' :: p

/-- Does collection run this declaration through `os.path.normpath`?  Read from the source
(`harness/extract_hash.py` probes the live `pytask_collect_node`). -/
def collectNormalises (plain abs : Bool) : Bool :=
  match plain, abs with
  | true, false => Generated.collectPlainRelNorm
  | true, true => Generated.collectPlainAbsNorm
  | false, false => Generated.collectNodeRelNorm
  | false, true => Generated.collectNodeAbsNorm

/-- Path of the collected node (`collect.py`, `pytask_collect_node`): a relative path is joined onto the
task's directory; the result is lexically normalised.
`plain = true`: the declared value is a `Path`; `false`: a `PathNode`/`PickleNode`/`DirectoryNode` instance. -/
def collectPath (plain : Bool) (base p : Str) : Str :=
  let q := if isAbs p then p else joinPath base p
  if collectNormalises plain (isAbs p) then normpath q else q

/-- `shared.parse_paths` applied to one spelling of the `paths` argument, on a file system without symbolic links
(there `Path(p).resolve()` is `normpath` of the absolute path; what `resolve` does to links is trusted and exercised by the
check).  Whether the code resolves at all is a translator fact. The module path of every collected task — and with it the
task's signature — is built from this path. -/
def parsePath (cwd p : Str) : Str :=
  let q := if isAbs p then p else joinPath cwd p
  if Generated.parsePathsResolves then normpath q else q

end Pytask.PathNorm
