import PytaskModel.HashValue
/-!
# M4 from the source: interpreters over `Generated.Hsrc`

`harness/extract_hashsrc.py` reads the fingerprint code of the tree under check with `ast`, evaluates it symbolically
and emits the resulting expressions as data (`Generated.Hsrc.*`).  The functions here *interpret* that data;
`PytaskProofs/Properties/HashTie.lean` proves them equal to the hand-written model `HashValue.lean` for all inputs.
Nothing here knows what the expressions are — only what the constructors of `HExpr` mean.
-/
namespace Pytask.Hash.Gen
open Pytask.Generated Pytask.Generated.Hsrc

/-- environment of an evaluation -/
structure Env where
  arg : PyVal := .none                       -- the function's argument
  field : String → PyVal := fun _ => .none   -- attributes of `self` / named parameters
  elem : PyVal := .none                      -- loop variable of a `join`
  elemHV : HV := .int 0                      -- `hash_value(elem)`
  argElemHVs : List HV := []                 -- `hash_value` of the elements of `arg` (computed by the caller's recursion)
  hv : PyVal → HV := fun _ => .int 0         -- `hash_value` for every other operand
  file : Bytes := []                         -- all bytes of the file a `fileBytes` refers to

/-- `hash_value`'s result as a Python value -/
def ofHV : HV → PyVal
  | .int i => .int i
  | .hex d => .str d

def toHV : PyVal → HV
  | .int i => .int i
  | .str d => .hex d
  | _ => .int 0

/-- `str(v)` for the values that occur (str, Path, int) -/
def strOfV : PyVal → Str
  | .str s => s
  | .path p => p
  | .int i => decInt i
  | _ => []

def bytesOfV : PyVal → Bytes
  | .bytes b => b
  | _ => []

/-- builtin `hash` of the numeric kinds -/
def builtinHash : PyVal → Int
  | .bool b => boolHash b
  | .int i => pyHashInt i
  | .float h => h
  | _ => 0

/-- truthiness (`None` is false; objects, non-empty containers … are true) -/
def truthy : PyVal → Bool
  | .none => false
  | .bool b => b
  | .int i => i != 0
  | .str s => !s.isEmpty
  | .bytes b => !b.isEmpty
  | .tuple xs => !xs.isEmpty
  | .list xs => !xs.isEmpty
  | _ => true

def seqElems : PyVal → List PyVal
  | .tuple xs => xs
  | .list xs => xs
  | _ => []

def isArg : HExpr → Bool
  | .arg => true
  | _ => false

def isElem : HExpr → Bool
  | .elem => true
  | _ => false

section
variable (sha md5 : Bytes → Str)

mutual
/-- value of an extracted expression -/
def eval : HExpr → Env → PyVal
  | .arg, ρ => ρ.arg
  | .elem, ρ => ρ.elem
  | .pyNone, _ => .none
  | .field n, ρ => ρ.field n
  | .int i, _ => .int i
  | .str s, _ => .str s
  | .hash e, ρ => .int (builtinHash (eval e ρ))
  | .sha e, ρ => .str (sha (bytesOfV (eval e ρ)))
  | .md5 e, ρ => .str (md5 (bytesOfV (eval e ρ)))
  | .enc e, ρ => .bytes (utf8 (strOfV (eval e ρ)))
  | .strOf e, ρ => .str (strOfV (eval e ρ))
  | .recur e, ρ => ofHV (if isElem e then ρ.elemHV else ρ.hv (eval e ρ))
  | .cat es, ρ => .str (evalCat es ρ)
  | .join sep body over, ρ =>
      let xs := seqElems (eval over ρ)
      let hs := if isArg over then ρ.argElemHVs else xs.map ρ.hv
      .str (joinSep sep ((xs.zip hs).map fun p => strOfV (eval body { ρ with elem := p.1, elemHV := p.2 })))
  | .ite c a b, ρ => if truthy (eval c ρ) then eval a ρ else eval b ρ
  | .fileBytes _, ρ => .bytes ρ.file
def evalCat : List HExpr → Env → Str
  | [], _ => []
  | e :: es, ρ => strOfV (eval e ρ) ++ evalCat es ρ
end

/-! ### `hash_value` -/

def classOf : PyVal → PyClass
  | .none => .none
  | .bool _ | .int _ | .float _ => .num
  | .str _ => .str
  | .bytes _ => .bytes
  | .path _ => .path
  | .tuple _ => .tuple
  | .list _ => .list

def rowOf (c : PyClass) : HExpr :=
  match hashValueTable.find? (fun r => r.1 == c) with
  | some r => r.2
  | none => .pyNone

mutual
/-- `hash_value` as extracted: the row of the value's class, the elements hashed by the recursion. -/
def hashValueGen : PyVal → HV
  | .tuple xs => toHV (eval sha md5 (rowOf .tuple) { arg := .tuple xs, argElemHVs := hashListGen xs })
  | .list xs => toHV (eval sha md5 (rowOf .list) { arg := .list xs, argElemHVs := hashListGen xs })
  | .none => toHV (eval sha md5 (rowOf .none) { arg := .none })
  | .bool b => toHV (eval sha md5 (rowOf .num) { arg := .bool b })
  | .int i => toHV (eval sha md5 (rowOf .num) { arg := .int i })
  | .float h => toHV (eval sha md5 (rowOf .num) { arg := .float h })
  | .str s => toHV (eval sha md5 (rowOf .str) { arg := .str s })
  | .bytes b => toHV (eval sha md5 (rowOf .bytes) { arg := .bytes b })
  | .path p => toHV (eval sha md5 (rowOf .path) { arg := .path p })
def hashListGen : List PyVal → List HV
  | [] => []
  | x :: xs => hashValueGen x :: hashListGen xs
end

/-! ### signatures -/

/-- a `signature` property: the extracted expression over the attributes of `self` -/
def sigGen (e : HExpr) (fields : String → PyVal) : Str :=
  strOfV (eval sha md5 e { field := fields, hv := hashValueGen sha md5 })

/-- attributes of a `PythonNode` as the extracted expression names them (`node_info`, `node_info.<field>`) -/
def envPythonNodeGen (ni : Option NodeInfo) (f : String) : PyVal :=
  match ni with
  | none => .none
  | some i =>
    if f = "node_info" then .bool true          -- an object: truthy
    else if f = "node_info.arg_name" then envNodeInfo i "arg_name"
    else if f = "node_info.path" then envNodeInfo i "path"
    else if f = "node_info.task_name" then envNodeInfo i "task_name"
    else if f = "node_info.task_path" then envNodeInfo i "task_path"
    else .none

def sigTaskGen (base path : Str) : Str := sigGen sha md5 Hsrc.sigTask (envTask base path)
def sigTaskWithoutPathGen (name : Str) : Str := sigGen sha md5 Hsrc.sigTaskWithoutPath (envTaskWithoutPath name)
def sigPathNodeGen (name path : Str) : Str := sigGen sha md5 Hsrc.sigPathNode (envPathNode name path)
def sigPickleNodeGen (name path : Str) : Str := sigGen sha md5 Hsrc.sigPickleNode (envPathNode name path)
def sigDirNodeGen (name : Str) (root : Option Str) (pattern : Str) : Str :=
  sigGen sha md5 Hsrc.sigDirNode (envDirNode name root pattern)
def sigPythonNodeGen (ni : Option NodeInfo) : Str := sigGen sha md5 Hsrc.sigPythonNode (envPythonNodeGen ni)

/-! ### `_get_state` / `hash_path` / `Cache.memoize` -/

/-- the memo key, without the constant prefix of the memoised function (as in the hand model) -/
def memoKeyGen (path : Str) (mtimeHash : Int) : Str :=
  strOfV (eval sha md5 memoKeyExpr
    { field := fun f => if f = "path" then .path path else if f = "mtime" then .float mtimeHash
                        else if f = "prefix" then .str [] else .none,
      hv := hashValueGen sha md5 })

/-- `hash_path` on a file with the given bytes -/
def hashPathGen (content : Bytes) : Str :=
  strOfV (eval sha md5 hashPathExpr { file := content, hv := hashValueGen sha md5 })

def stateOfFileGen (memo : Memo) (path : Str) (file : Option (Int × Bytes)) : Memo × Option Str :=
  match file with
  | none => (memo, none)                      -- the stat call raises `getStateMissingExc` ↦ `return None`
  | some (mh, content) =>
    match memoizeShape with
    | .lookupComputeStore =>
      let key := memoKeyGen sha md5 path mh
      match memo.get key with
      | some v => (memo, some v)
      | none => (memo.insert key (hashPathGen sha md5 content), some (hashPathGen sha md5 content))
    | .other => (memo, some (hashPathGen sha md5 content))

/-! ### `PythonNode.state`, the dependency wrapper -/

def pnCond (valueUnset : Bool) (h : HashOpt) : PNCond → Bool
  | .valueUnset => valueUnset
  | .hashTruthy => match h with | .off => false | _ => true
  | .hashCallable => match h with | .custom _ => true | _ => false

def pnRes (h : HashOpt) (loaded : Option PyVal) : PNRes → Option Str
  | .none => none
  | .strOfCustomHash => match h with | .custom f => loaded.map f | _ => none
  | .strOfHashValue => loaded.map fun v => (hashValueGen sha md5 v).render
  | .const s => some s

def pnTree (valueUnset : Bool) (h : HashOpt) (loaded : Option PyVal) : PNTree → Option Str
  | .ret r => pnRes sha md5 h loaded r
  | .ite c a b => if pnCond valueUnset h c then pnTree valueUnset h loaded a else pnTree valueUnset h loaded b

/-- `state()` of a node holding a plain value (`load()` returns it) -/
def statePythonNodeGen (h : HashOpt) (value : Option PyVal) : Option Str :=
  pnTree sha md5 value.isNone h value pythonNodeState

/-- does the wrapper built by `collect_dependency` carry the field over from the wrapped node? -/
def wrapperKeeps (f : String) : Bool :=
  match dependencyWrapper with
  | .evolve _ => pythonNodeFields.contains f
  | .construct kws => kws.contains f

def wrapDependencyGen (n : PNode) : PWrapper :=
  ⟨if wrapperKeeps "hash" then n.hash else (if pythonNodeHashDefault then .on else .off), n⟩

/-- `state()` of the wrapper: its own value is set (a node); `load()` looks through it iff `pythonNodeLoadUnwraps` -/
def stateWrapperGen (w : PWrapper) : Option Str :=
  pnTree sha md5 false w.hash (if pythonNodeLoadUnwraps then w.inner.value else none) pythonNodeState

end

/-! ### the `NodeInfo` of an argument -/

def niLookup (w : List (String × NISrc)) (f : String) : NISrc :=
  match w.find? (fun r => r.1 == f) with
  | some r => r.2
  | none => .other

def niStr (s : ArgSite) : NISrc → Str
  | .parameter => s.param
  | .taskName => s.taskName
  | .modulePath => s.modulePath.getD []
  | .moduleDir => s.moduleDir
  | _ => []

def niPath (s : ArgSite) : NISrc → Option Str
  | .modulePath => s.modulePath
  | .moduleDir => some s.moduleDir
  | _ => none

def niTree (s : ArgSite) : NISrc → List PyVal
  | .treePath => s.treePath
  | _ => []

/-- the `NodeInfo` as wired in the source -/
def nodeInfoGen (w : List (String × NISrc)) (s : ArgSite) : NodeInfo :=
  ⟨niStr s (niLookup w "arg_name"), niTree s (niLookup w "path"), niStr s (niLookup w "task_name"),
   niPath s (niLookup w "task_path")⟩

/-- the `NodeInfo` of the merged node for a container of unhashed values, as wired in the source (`none`: it gets none) -/
def mergedNodeInfoGen (s : ArgSite) : Option NodeInfo := mergedNodeInfo.map fun w => nodeInfoGen w s

end Pytask.Hash.Gen
