import PytaskModel.Engine
/-!
# M6, step level — the atomic world updates of a build, and crash prefixes (property C05)

`Engine.protocol` describes one task protocol as a single state transformer. A process can die in the
middle of it, so this file refines the *world* component of the protocol into the list of its atomic
updates, in the order in which the real code performs them:

* `Step.write n c` — the task body wrote product file `n` (one `Path.write_text` / one `node.save`),
  `execute.py:pytask_execute_task` → `task.execute` → body;
* `Step.rows t rs` — ALL state rows of task `t` were committed in one transaction: `update_states_in_database` opens one
  session, upserts the row of every element of `node_and_neighbors` (predecessors, the task, successors; each with the state
  the node has at that moment) and commits once (the repair of finding F50; `Generated.rowsSingleTransaction`);
* `Step.row t v h` — one state row committed on its own: the code before that repair (kept as the fine-grained refinement
  `…Each`, and used again by `rowSteps` when the translator reports one commit per row).

Nothing else of a build touches the files or the `state` table (the `runtime` row of `profile.py` is not
read by the engine; hook boundaries change nothing), so a process killed at any instant leaves the world
`crashAtEach k` for some `k` (SQLite commit atomicity is trusted).  `applySteps_*` (proved in
`PytaskProofs/Lemmas/EngineCrash.lean`) tie the step lists to `Engine.runPhases`, `processReport`, `protocol`,
`buildLoop` and `build`: applying *all* steps gives exactly the world those functions compute.

The hash memo file `.pytask/file_hashes.json` (`build.py:50-65`) is modelled at the end of the file.
-/
namespace Pytask
namespace Engine

inductive Step
  | write (n c : Nat)                     -- product file `n` now holds content `c`
  | row (t v h : Nat)                     -- row (task `t`, vertex `v`) now holds state `h` (one SQLite commit of one row)
  | rows (t : Nat) (rs : List (Nat × Nat))  -- ALL rows `(vertex, state)` of task `t`, committed in one transaction
deriving Repr, DecidableEq, Inhabited

/-- the rows of one transaction, upserted in order -/
def applyRows (db : DB) (t : Nat) (rs : List (Nat × Nat)) : DB :=
  rs.foldl (fun db r => insert db (tv t, r.1) r.2) db

def applyStep (w : World) : Step → World
  | .write n c => { w with fs := insert w.fs n c }
  | .row t v h => { w with db := insert w.db (tv t, v) h }
  | .rows t rs => { w with db := applyRows w.db t rs }

def applySteps (w : World) (st : List Step) : World := st.foldl applyStep w

/-- The writes of `runBody`'s `writeAll`: one per product, in declaration order, every content computed from the
dependency contents read before the first write. -/
def writeSteps (F : BodyFn) (t : TaskSpec) (fs : FS) (skipIdx : Option Nat) : List Step :=
  let src := lookup fs t.src
  let ds := t.deps.map (lookup fs)
  (t.prods.zipIdx).filterMap (fun (p, i) => if some i == skipIdx then none else some (.write p (F t.id i src ds)))

/-- Steps of `runBody`. -/
def bodySteps (F : BodyFn) (t : TaskSpec) (fs : FS) : List Step :=
  if (t.deps.map (lookup fs)).any (·.isNone) then [] else
  match t.beh with
  | .ok => writeSteps F t fs none
  | .raisesEarly => []
  | .raisesLate => writeSteps F t fs none
  | .omits k => writeSteps F t fs (some k)
  | .loadFails => []
  | .saveFails => []

/-- Steps of `updateStates`: one commit per neighbour, stopping where the real loop raises. -/
def rowStepsEach (P : Project) (w : World) (t : Nat) : List Nat → List Step
  | [] => []
  | v :: vs =>
    match stateOf P w v with
    | none => []
    | some h => .row t v h :: rowStepsEach P w t vs

/-- Steps of `runPhases` (setup, execute, teardown): the body's writes, if the body is reached. -/
def phaseSteps (F : BodyFn) (P : Project) (g : G) (cfg : Cfg) (s : Sess) (t : TaskSpec) : List Step :=
  match setupChain P g cfg s t Generated.setupOrder with
  | .none => if cfg.dry then [] else bodySteps F t s.w.fs
  | _ => []

/-- `node_and_neighbors`, in the order extracted from `dag_utils.py` (`Generated.neighbourOrder`). -/
def neighboursBy (order : List String) (g : G) (t : Nat) : List Nat :=
  order.flatMap (fun part =>
    if part == "preds" then g.preds (tv t) else if part == "self" then [tv t]
    else if part == "succs" then g.succs (tv t) else [])

/-- Is `update_states_in_database` reached for this protocol result? One call site per entry of
`Generated.recordOnOutcomes` (`execute.py`: the `else` branch of the protocol's `try` = SUCCESS; `persist.py`: `Persisted`). -/
def recordsOn (r : Raised) : Bool :=
  match r with
  | .none => Generated.recordOnOutcomes.contains "SUCCESS"
  | .persisted => Generated.recordOnOutcomes.contains "PERSISTENCE"
  | _ => false

/-- Steps of `processReport`: the row commits of `recordStates`. -/
def reportStepsEach (P : Project) (g : G) (cfg : Cfg) (s : Sess) (t : TaskSpec) (r : Raised) : List Step :=
  if recordsOn r && !cfg.dry then rowStepsEach P s.w t.id (neighboursBy Generated.neighbourOrder g t.id) else []

/-- Steps of one `pytask_execute_task_protocol`. -/
def protocolStepsEach (F : BodyFn) (P : Project) (g : G) (cfg : Cfg) (s : Sess) (t : TaskSpec) : List Step :=
  let rs := runPhases F P g cfg s t
  phaseSteps F P g cfg s t ++ reportStepsEach P g cfg rs.2 t rs.1

/-- Steps of `buildLoop` over the observed picks (an illegal pick ends the list, as it ends `buildLoop`). -/
def loopStepsEach (F : BodyFn) (P : Project) (g : G) (cfg : Cfg) : Sorter → Sess → List Nat → List Step
  | _, _, [] => []
  | so, s, t :: ts =>
    if s.stop || s.crashed || !so.isActive then [] else
    if !Sorter.legalBatchB so 1 [tv t] then [] else
    match Project.find? P t with
    | none => []
    | some spec =>
      protocolStepsEach F P g cfg s spec ++
        loopStepsEach F P g cfg ((so.take [tv t]).finish [tv t]) (protocol F P g cfg s spec) ts

/-- Steps of `build` (nothing is written when the DAG or the sorter cannot be created). -/
def buildStepsEach (F : BodyFn) (P : Project) (cfg : Cfg) (w : World) (picks : List Nat) : List Step :=
  match createDag P cfg with
  | .error _ => []
  | .ok (g, marks) =>
    match Sorter.fromDag g isTaskV (prioFn P) with
    | .error _ => []
    | .ok so => loopStepsEach F P g cfg so { w := w, skipMarks := marks } picks

/-- The world a process leaves when it is killed after `k` atomic updates of the build. -/
def crashAtEach (F : BodyFn) (P : Project) (cfg : Cfg) (w : World) (picks : List Nat) (k : Nat) : World :=
  applySteps w ((buildStepsEach F P cfg w picks).take k)

/-! ## One transaction per task (the code after the repair of finding F50)

`update_states_in_database` now opens ONE `DatabaseSession`, upserts the row of every element of `node_and_neighbors` and
commits once (`Generated.rowsSingleTransaction`, extracted from `database_utils.py`): the row set of a task is a single atomic
step, and a node without state (`IntegrityError` at flush) aborts the transaction — nothing is committed.  The definitions
below follow that code; when the translator reports per-row commits again (`rowsSingleTransaction = false`, e.g. the repair
reverted) they fall back to the per-row steps above — and the theorems that need atomic row sets no longer check.
The `…Each` definitions above stay as the fine-grained refinement: every world a kill can leave under the transactional
code is also a world the per-row code can leave (`Lemmas/CrashTxn.lean`), so the prefix theorems proved for them transfer. -/

/-- the `(vertex, state)` pairs `update_states_in_database` writes; `none` if some node has no state -/
def rowPairs (P : Project) (w : World) : List Nat → Option (List (Nat × Nat))
  | [] => some []
  | v :: vs =>
    match stateOf P w v with
    | none => none
    | some h => (rowPairs P w vs).map (fun rs => (v, h) :: rs)

def rowStepsTxn (P : Project) (w : World) (t : Nat) (vs : List Nat) : List Step :=
  match rowPairs P w vs with
  | some rs => [.rows t rs]
  | none => []

def rowSteps (P : Project) (w : World) (t : Nat) (vs : List Nat) : List Step :=
  if Generated.rowsSingleTransaction then rowStepsTxn P w t vs else rowStepsEach P w t vs

def reportSteps (P : Project) (g : G) (cfg : Cfg) (s : Sess) (t : TaskSpec) (r : Raised) : List Step :=
  if recordsOn r && !cfg.dry then rowSteps P s.w t.id (neighboursBy Generated.neighbourOrder g t.id) else []

def protocolSteps (F : BodyFn) (P : Project) (g : G) (cfg : Cfg) (s : Sess) (t : TaskSpec) : List Step :=
  let rs := runPhases F P g cfg s t
  phaseSteps F P g cfg s t ++ reportSteps P g cfg rs.2 t rs.1

def loopSteps (F : BodyFn) (P : Project) (g : G) (cfg : Cfg) : Sorter → Sess → List Nat → List Step
  | _, _, [] => []
  | so, s, t :: ts =>
    if s.stop || s.crashed || !so.isActive then [] else
    if !Sorter.legalBatchB so 1 [tv t] then [] else
    match Project.find? P t with
    | none => []
    | some spec =>
      protocolSteps F P g cfg s spec ++
        loopSteps F P g cfg ((so.take [tv t]).finish [tv t]) (protocol F P g cfg s spec) ts

def buildSteps (F : BodyFn) (P : Project) (cfg : Cfg) (w : World) (picks : List Nat) : List Step :=
  match createDag P cfg with
  | .error _ => []
  | .ok (g, marks) =>
    match Sorter.fromDag g isTaskV (prioFn P) with
    | .error _ => []
    | .ok so => loopSteps F P g cfg so { w := w, skipMarks := marks } picks

/-- The world a process leaves when it is killed after `k` atomic updates of the build (current code). -/
def crashAt (F : BodyFn) (P : Project) (cfg : Cfg) (w : World) (picks : List Nat) (k : Nat) : World :=
  applySteps w ((buildSteps F P cfg w picks).take k)

/-! ## Database start-up (`database_utils.create_database`, called from `pytask_post_parse` on every build)

Opening the connection creates the SQLite file (0 bytes, no table); `metadata.create_all` then issues one autocommitted
`CREATE TABLE` for every declared table that the file lacks (`checkfirst`).  A process killed during start-up therefore leaves
a file that exists and has a prefix of the missing tables; a user can leave any subset.  `Generated.createAllUnconditional`
(extracted: `create_all` is a top-level statement of `create_database`) says that start-up repeats this on every build,
whatever file it finds; `Generated.dbTables` are the declared tables (`state`, and `runtime`, which `profile.py` writes
before the state rows of a task). -/

/-- the database file: absent, or present with these tables (a 0-byte file: `some []`) -/
abbrev DbFile := Option (List String)

/-- the `CREATE TABLE` statements `create_all` issues, in order: one per declared table the file lacks -/
def startupSteps (tables have_ : List String) : List String := tables.filter (fun t => !have_.contains t)

/-- schema after a complete `create_all` -/
def createAll (tables have_ : List String) : List String := have_ ++ startupSteps tables have_

/-- schema after start-up. `uncond = false` models "tables are only created together with the file". -/
def startupWith (uncond : Bool) (tables : List String) (f : DbFile) : List String :=
  match f with
  | none => createAll tables []
  | some h => if uncond then createAll tables h else h

def startup (f : DbFile) : List String := startupWith Generated.createAllUnconditional Generated.dbTables f

/-- the file a process leaves when it is killed after the connection was opened and `k` of the `CREATE TABLE`s ran -/
def startupCrash (tables : List String) (f : DbFile) (k : Nat) : DbFile :=
  some (f.getD [] ++ (startupSteps tables (f.getD [])).take k)

def SchemaComplete (tables have_ : List String) : Prop := ∀ t ∈ tables, t ∈ have_

/-! ## The hash memo file

`path.hash_path(path, mtime)` is memoised on `(path, mtime)`; `pytask_unconfigure` dumps the memo with ONE
`path.write_text(json.dumps(cache))` and `pytask_post_parse` loads it inside `with suppress(Exception)`
(both facts are extracted from `build.py` into `Generated.memoLoadSuppressed` / `Generated.memoSingleWrite`).
A file is a list of bytes; `parse` is the (trusted) JSON reader: it yields the table only for a complete
document of the right shape.  A killed writer leaves a prefix of the new document (or the old file). -/

abbrev Memo := List ((Nat × Nat) × Nat)     -- (path, mtime) ↦ hash

/-- `pytask_post_parse`: whatever goes wrong while reading, decoding or iterating, the memo stays empty. -/
def loadMemoWith (suppressed : Bool) (parse : List UInt8 → Option Memo) (file : Option (List UInt8)) : Option Memo :=
  match file with
  | none => if suppressed then some [] else none           -- FileNotFoundError
  | some bytes =>
    match parse bytes with
    | some m => some m
    | none => if suppressed then some [] else none         -- JSONDecodeError, UnicodeDecodeError, AttributeError …

def loadMemo := loadMemoWith Generated.memoLoadSuppressed

/-- State of a file as `PathNode.state()` computes it through the memo: a hit on `(path, mtime)` returns the
stored hash, a miss hashes the content (modelled as the content itself, `sha_inj`). -/
def stateVia (m : Memo) (path mtime content : Nat) : Nat :=
  match lookup m (path, mtime) with
  | some h => h
  | none => content

/-- Every entry for a file's current mtime holds the hash of its current content. -/
def MemoCoherent (m : Memo) (mtime content : Nat → Option Nat) : Prop :=
  ∀ p t h, lookup m (p, t) = some h → mtime p = some t → content p = some h

end Engine
end Pytask
