import PytaskModel.Catalog
/-!
# M9b-gen — the data catalog computed from the translator's description of the code

`Catalog.lean` writes out by hand what `DataCatalog.__attrs_post_init__`, `__getitem__`, `add` and
`PickleNode.load` / `save` do. This file contains *interpreters* over the data that
`harness/extract_catalogsrc.py` reads from the source (`Generated.Cat.*`: the validator's pattern and `re`
function, the statements of `__attrs_post_init__`, the steps of `__getitem__`, the branches of `add` with
what is hashed / how files are named / what is pickled, the statements of `PickleNode.load` and `save`
with their open modes, what `state` / `signature` / `from_path` depend on).
`PytaskProofs/Properties/CatalogTie.lean` proves every interpreter equal to the corresponding hand-written
definition for all arguments, so a source change that alters an extracted fact breaks those theorems.

Conventions (the same abstractions as `Catalog.lean`): `sha` stands for
`hashlib.sha256(·.encode()).hexdigest()` — the interpreter only uses it if the extracted facts say exactly
that; `path` is not passed to `DataCatalog(...)` (so `if not self.path` holds); the default node class is a
path node (`isinstance(self.default_node, PPathNode)` holds for `PickleNode`, checked by the correspondence
runs); an interpreter returns `none` where the extracted data describe something outside the model.
Core Lean only.
-/
namespace Pytask
namespace CatalogGen
open Catalog Generated.Cat

/-! ### The validator: a small regex matcher over the extracted pattern -/

/-- Possible end positions of one pattern item started at position `p` of `s`. `$` (`eol`) also matches
just before one trailing newline — Python's semantics. -/
def endsOf (s : Str) : ReItem → Nat → List Nat
  | .bol, p => if p = 0 then [p] else []
  | .bos, p => if p = 0 then [p] else []
  | .eos, p => if p = s.length then [p] else []
  | .eol, p => if p = s.length ∨ (p + 1 = s.length ∧ s.getLast? = some '\n') then [p] else []
  | .plus cls, p => (List.range (matchLen cls (s.drop p))).map (p + 1 + ·)
  | .star cls, p => (List.range (matchLen cls (s.drop p) + 1)).map (p + ·)

/-- End positions of the whole item sequence from any of the start positions `ps` (all backtracking
alternatives). -/
def endsAll (s : Str) : List ReItem → List Nat → List Nat
  | [], ps => ps
  | it :: its, ps => endsAll s its (ps.flatMap (endsOf s it))

/-- `re.<validatorFn>(validatorPattern, s) is not None`. -/
def validNameGen (s : Str) : Bool :=
  match validatorFn with
  | .atStart => !(endsAll s validatorPattern [0]).isEmpty
  | .fullmatch => (endsAll s validatorPattern [0]).contains s.length
  | .search => (List.range (s.length + 1)).any fun p => !(endsAll s validatorPattern [p]).isEmpty

/-! ### `__attrs_post_init__` -/

def partComps (name : Str) : PathPart → List Str
  | .lit s => splitSlash s
  | .selfName => splitSlash name

/-- `normpath(root / part₁ / part₂ / …)`. -/
def dirGen (root : Path) (name : Str) (parts : List PathPart) : Path :=
  parts.foldl (fun acc p => normComps acc (partComps name p)) root

/-- `p` is a file directly inside `dir` whose name ends in `suffix` (`dir.glob("*" + suffix)`). -/
def isFileInWithSuffix (suffix : List Char) (dir : Path) (p : Path) : Bool :=
  match p.getLast? with
  | some f => p.dropLast == dir && suffix.isSuffixOf f
  | none => false

structure InitSt where
  root : Option Path := none
  dir : Option Path := none
  entries : List (Str × Node) := []

/-- The dictionary key a re-loaded node is stored under (`none`: a key the model has no notion of). -/
def keyOf : EntryKey → Node → Option Str
  | .nodeName, n => some n.name
  | .fileStem, _ => none
  | .fileName, _ => none

def initStep (projRoot : Path) (fs : FS) (name : Str) (s : InitSt) : InitStep → Option InitSt
  | .resolveRoot => some { s with root := some projRoot }
  | .defaultPath parts => s.root.map fun r => { s with dir := some (dirGen r name parts) }
  | .mkdir => if s.dir.isSome then some s else none
  | .loadNodes suffix key =>
    match s.dir with
    | none => none
    | some d =>
      ((fs.nodes.filter fun x => isFileInWithSuffix suffix d x.1).mapM fun x => (keyOf key x.2).map fun k => (k, x.2)).map
        fun es => { s with entries := s.entries ++ es }

def initRun (projRoot : Path) (fs : FS) (name : Str) : List InitStep → InitSt → Option InitSt
  | [], s => some s
  | st :: sts, s => (initStep projRoot fs name s st).bind (initRun projRoot fs name sts)

/-- `DataCatalog(name=name)`: the attrs validator, then `__attrs_post_init__`. Outer `none` = the extracted
statements cannot be interpreted; inner `none` = `ValueError`. -/
def openCatalogGen (projRoot : Path) (fs : FS) (name : Str) : Option (Option CatObj) :=
  if validNameGen name then
    match initRun projRoot fs name init {} with
    | some ⟨_, some d, es⟩ => some (some ⟨name, d, es⟩)
    | _ => none
  else some none

/-! ### `__getitem__` and `add` -/

def nameOf (catName e : Str) : NameSrc → Option Str
  | .entryName => some e
  | .catalogName => some catName
  | .transformed => none

def fileOf (digest : Str) (parts : List FilePart) : Str :=
  parts.flatMap fun
    | .digest => digest
    | .lit s => s

/-- The `node is None` branch of `add`. -/
def addDefaultGen (sha : Str → Str) (fs : FS) (c : CatObj) (e : Str) (d : AddDefault) : Option (FS × CatObj) :=
  if d.algo == "sha256" && d.encoded && d.hex && d.persistsEntry && defaultNode == "PickleNode" then
    match nameOf c.name e d.hashed, nameOf c.name e d.entryKey, nameOf c.name e d.nodeName with
    | some h, some key, some nm =>
      let node : Node := ⟨nm, c.dir ++ [fileOf (sha h) d.valueFile]⟩
      some ({ fs with nodes := setFile fs.nodes (c.dir ++ [fileOf (sha h) d.persistFile]) node },
            { c with entries := (key, node) :: c.entries })
    | _, _, _ => none
  else none

/-- `self.add(e)` (no node given). -/
def addGen (sha : Str → Str) (fs : FS) (c : CatObj) (e : Str) : Option (FS × CatObj) :=
  match add with
  | [.checkNameStr, .dispatch (.default d) _ _] => addDefaultGen sha fs c e d
  | _ => none

def getRun (sha : Str → Str) (e : Str) : List GetStep → FS × CatObj → Option (FS × CatObj × Node)
  | [], _ => none
  | .addIfMissing :: sts, (fs, c) =>
    match c.entries.lookup e with
    | some _ => getRun sha e sts (fs, c)
    | none => (addGen sha fs c e).bind (getRun sha e sts)
  | .addAlways :: sts, (fs, c) => (addGen sha fs c e).bind (getRun sha e sts)
  | .returnEntry :: _, (fs, c) => (c.entries.lookup e).map fun n => (fs, c, n)

/-- `catalog[e]`. -/
def getItemGen (sha : Str → Str) (fs : FS) (c : CatObj) (e : Str) : Option (FS × CatObj × Node) :=
  getRun sha e getItem (fs, c)

/-! ### `PickleNode` -/

/-- `node.save(v)` on the value files: only `open("wb")` + `pickle.dump` is a plain replacement. -/
def saveGen (vals : Path → Option Nat) (p : Path) (v : Nat) : Option (Path → Option Nat) :=
  match pickleSave with
  | [.dump mode] => if mode == "wb" then some (writeVal vals p v) else none
  | _ => none

/-- `node.load()` (as a dependency): only `open("rb")` + `pickle.load` reads what is stored now. -/
def loadGen (vals : Path → Option Nat) (p : Path) : Option (Option Nat) :=
  match pickleLoad with
  | [.productReturnsSelf, .unpickle mode] => if mode == "rb" then some (vals p) else none
  | _ => none

/-- `node.state()` for a given file-state function, `node.signature` for a given path hash. -/
def stateGen {α : Type} (fileState : Path → α) (n : Node) : Option α :=
  match pickleStateOf with
  | .path => some (fileState n.path)
  | .other => none

def signatureGen {α : Type} (hashPath : Path → α) (n : Node) : Option α :=
  match pickleSignatureOf with
  | .path => some (hashPath n.path)
  | .other => none

/-- `PickleNode.from_path(p)` for an absolute path. -/
def fromPathGen (render : Path → Str) (p : Path) : Option Node :=
  if fromPathChecksAbsolute && fromPathKeepsPath && fromPathNameIsPosix then some ⟨render p, p⟩ else none

/-! ### One operation -/

def withCatGen (sha : Str → Str) (st : St) (name e : Str) : Option (Option (St × Node)) :=
  let oc : Option (Option CatObj) := match st.cats.lookup name with
    | some c => some (some c)
    | none => openCatalogGen st.root st.fs name
  match oc with
  | none => none
  | some none => some none
  | some (some c) =>
    (getItemGen sha st.fs c e).map fun r =>
      some ({ st with fs := r.1, cats := (name, r.2.1) :: st.cats }, r.2.2)

def stepGen (sha : Str → Str) (st : St) : Op → Option (St × Ans)
  | .newSession => some ({ st with cats := [] }, .done)
  | .save cat e v =>
    match withCatGen sha st cat e with
    | none => none
    | some none => some (st, .rejected)
    | some (some (st', n)) =>
      (saveGen st'.fs.vals n.path v).map fun vals' => ({ st' with fs := { st'.fs with vals := vals' } }, .done)
  | .load cat e =>
    match withCatGen sha st cat e with
    | none => none
    | some none => some (st, .rejected)
    | some (some (st', n)) => (loadGen st'.fs.vals n.path).map fun r => (st', .loaded r)

end CatalogGen
end Pytask
