/-!
# M1 — finite digraphs over `Nat` ids

Mirrors the *use* that pytask makes of `networkx` (`dag_utils.py`, `dag.py`): predecessor /
successor lists, ancestors / descendants (transitive, excluding the start node unless it lies on a
cycle), and cycle detection.  networkx itself is trusted and cross-checked by the correspondence
runs.  Core Lean only (no Mathlib) so that the driver links as a `lean_exe`.
-/
namespace Pytask

structure G where
  nodes : List Nat
  edges : List (Nat × Nat)
deriving Repr, DecidableEq

namespace G

def empty : G := ⟨[], []⟩

def preds (g : G) (v : Nat) : List Nat := (g.edges.filter (fun e => e.2 == v)).map (·.1)
def succs (g : G) (v : Nat) : List Nat := (g.edges.filter (fun e => e.1 == v)).map (·.2)

/-- `dag.add_edge(u, v)`: networkx adds missing endpoints as nodes. -/
def addNode (g : G) (v : Nat) : G := if g.nodes.contains v then g else { g with nodes := g.nodes ++ [v] }
def addEdge (g : G) (u v : Nat) : G :=
  let g := (g.addNode u).addNode v
  if g.edges.contains (u, v) then g else { g with edges := g.edges ++ [(u, v)] }

/-- Insert without duplicates (set union on lists). -/
def union (a b : List Nat) : List Nat := b.foldl (fun acc x => if acc.contains x then acc else acc ++ [x]) a

/-- One backwards expansion: everything in `s` plus all direct predecessors. -/
def stepBack (g : G) (s : List Nat) : List Nat := union s (s.flatMap g.preds)
def stepFwd (g : G) (s : List Nat) : List Nat := union s (s.flatMap g.succs)

def iter {α} (f : α → α) : Nat → α → α
  | 0, a => a
  | n+1, a => iter f n (f a)

/-- `nx.ancestors(g, v)`: all `u` with a path of ≥ 1 edge `u ⟶* v`, minus `v` itself. -/
def ancRaw (g : G) (v : Nat) : List Nat := iter g.stepBack g.edges.length (g.preds v)
def anc (g : G) (v : Nat) : List Nat := (g.ancRaw v).filter (· != v)
def descRaw (g : G) (v : Nat) : List Nat := iter g.stepFwd g.edges.length (g.succs v)
def desc (g : G) (v : Nat) : List Nat := (g.descRaw v).filter (· != v)

/-- `find_cycle` succeeds iff some node reaches itself. -/
def hasCycle (g : G) : Bool := g.nodes.any (fun v => (g.ancRaw v).contains v)

/-- Kahn peeling: repeatedly delete nodes of in-degree 0. What is left lies on/behind a cycle. -/
def peelStep (g : G) : G :=
  let roots := g.nodes.filter (fun v => g.edges.all (fun e => e.2 != v))
  { nodes := g.nodes.filter (fun v => !roots.contains v),
    edges := g.edges.filter (fun e => !roots.contains e.1 && !roots.contains e.2) }
def peel (g : G) : G := iter peelStep g.nodes.length g
def hasCycleKahn (g : G) : Bool := !(peel g).nodes.isEmpty

end G
end Pytask
