import PytaskModel.Collect
/-!
# M9a-gen — collection computed from the translator's description of the Python functions

`Collect.lean` is the hand-written model of pytask's collection. This file contains *interpreters* over the control
structure that `harness/extract_collect.py` reads from the source into `Generated.Col.*`:

* `walkBody`, `walkDedupsPaths`  — the loop body of `_not_ignored_paths` and how `_collect_from_paths` calls it,
* `collectSteps`                 — the statements of `pytask_collect`,
* `argArms`, `idArms`, `idDupRaises`, `parseLoop` — `_arg_value_to_id_component`, `_generate_ids_for_tasks`,
  the loop of `parse_collected_tasks_with_task_marker`,
* `modNameSteps` (+ `moduleNameNormalised`) — `_module_name_from_path`,
* `importSteps`                  — the statements of `import_path`,
* `shortFilter`                  — which tasks enter `id_to_task` when short names are computed.

`PytaskProofs/Properties/CollectTie.lean` proves each interpreter equal to the corresponding `Collect.*` definition for
all arguments, so a source change that alters an extracted fact breaks those theorems. Core Lean only.
-/
namespace Pytask
namespace CollectGen
open Collect Generated.Col

/-! ### `_not_ignored_paths` -/

/-- (`seen`, paths yielded so far). -/
abbrev WState := List Path × List Path

mutual
def evalW (ign : Path → Bool) (p : Path) (isDir : Bool) (rec : WState → WState) : WStmt → WState → WState
  | .ifNotIgnored b, s => if ign p then s else evalWs ign p isDir rec b s
  | .ifDir t e, s => if isDir then evalWs ign p isDir rec t s else evalWs ign p isDir rec e s
  | .ifNotSeen b, s => if s.1.contains p then s else evalWs ign p isDir rec b s
  | .recurse, s => rec s
  | .addSeen, s => (s.1 ++ [p], s.2)
  | .yieldPath, s => (s.1, s.2 ++ [p])
def evalWs (ign : Path → Bool) (p : Path) (isDir : Bool) (rec : WState → WState) : List WStmt → WState → WState
  | [], s => s
  | x :: xs, s => evalWs ign p isDir rec xs (evalW ign p isDir rec x s)
end

mutual
/-- one iteration of the loop for the path `pre/t`; `recurse` walks the children in `iterdir` order. -/
def walkGenT (ign : Path → Bool) (pre : Path) : Tree → WState → WState
  | .file n, s => evalWs ign (pre ++ [n]) false id walkBody s
  | .dir n cs, s => evalWs ign (pre ++ [n]) true (walkGenTs ign (pre ++ [n]) cs) walkBody s
def walkGenTs (ign : Path → Bool) (pre : Path) : List Tree → WState → WState
  | [], s => s
  | t :: ts, s => walkGenTs ign pre ts (walkGenT ign pre t s)
end

def walkPathGen (fs : FS) (ign : Path → Bool) (s : WState) (p : Path) : WState :=
  match fs.lookup p with
  | some t => walkGenT ign p.dropLast t s
  | none => s

def dedupPaths : List Path → List Path
  | [] => []
  | x :: xs => x :: (dedupPaths xs).filter (fun y => y != x)

/-- `_collect_from_paths`: the walk over `config["paths"]` with `seen = set()`. -/
def notIgnoredPathsGen (fs : FS) (ign : Path → Bool) (paths : List Path) : List Path :=
  ((if walkDedupsPaths then dedupPaths paths else paths).foldl (walkPathGen fs ign) ([], [])).2

/-! ### ids -/

def argTest (v : Option Val) : ArgTest → Bool
  | .idFuncScalar => false            -- `id_func is None`: `id_component` is `None`
  | .valueScalar => match v with
    | some x => x.isScalar
    | none => false
  | .otherwise => true

def argRes (argName : String) (v : Option Val) (i : Nat) : ArgRes → String
  | .strIdFunc => "None"
  | .strValue => match v with
    | some x => x.pyStr
    | none => "None"
  | .nameIndex => argName ++ toString i

def argArmsRun (argName : String) (v : Option Val) (i : Nat) : List (ArgTest × ArgRes) → String
  | [] => "None"
  | (t, r) :: rest => if argTest v t then argRes argName v i r else argArmsRun argName v i rest

/-- `_arg_value_to_id_component(arg_name, arg_value, i, None)`. -/
def argToIdGen (argName : String) (v : Option Val) (i : Nat) : String := argArmsRun argName v i argArms

def idArmsRun (f : FnObj) (params : List String) (name : String) (i : Nat) : List IdArm → String
  | [] => bracket name (toString i)
  | .explicitId :: rest => match f.metaId with
    | some s => bracket name s
    | none => idArmsRun f params name i rest
  | .noParams :: rest => if params.isEmpty then bracket name (toString i) else idArmsRun f params name i rest
  | .fromArgs :: _ => bracket name (Generated.idJoin.intercalate (params.map (fun p => argToIdGen p (kwargOf f p) i)))

def taskIdGen (w : World) (params : List String) (name : String) (i : Nat) (o : ObjId) : String :=
  match w.heap.lookup o with
  | none => bracket name (toString i)
  | some f => idArmsRun f params name i idArms

def genLoopGen (w : World) (params : List String) : Nat → List (String × ObjId) → Dict → Option Dict
  | _, [], out => some out
  | i, (name, o) :: rest, out =>
    if idDupRaises && out.any (fun e => e.1 == taskIdGen w params name i o) then none
    else genLoopGen w params (i + 1) rest (dictSet out (taskIdGen w params name i o) o)

def generateIdsGen (w : World) (sel : List (String × ObjId)) : Option Dict := genLoopGen w (paramsOfFirst w sel) 0 sel []

structure PState where
  c : Option Dict        -- `names_to_functions`
  d : Dict               -- `collected_tasks`
  raised : Bool

def parseStepRun (w : World) (sel : List (String × ObjId)) (name : String) (st : PState) : PStep → PState
  | .ifDuplicatedGenerate =>
    if st.raised then st
    else if decide (2 ≤ sel.length) then
      match generateIdsGen w sel with
      | none => { st with raised := true }
      | some c => { st with c := some c }
    else st
  | .elseFirst =>
    if st.raised then st
    else if decide (2 ≤ sel.length) then st
    else match sel with
      | (_, o) :: _ => { st with c := some [(name, o)] }
      | [] => { st with c := some [] }
  | .clashRaise =>
    if st.raised then st
    else match st.c with
      | some c => if clashes st.d c then { st with raised := true } else st
      | none => st
  | .update =>
    if st.raised then st
    else match st.c with
      | some c => { st with d := dictUpdate st.d c }
      | none => st

/-- one iteration of the loop of `parse_collected_tasks_with_task_marker`. -/
def parseStepGen (w : World) (parsed : List (String × ObjId)) (acc : Option Dict) (name : String) : Option Dict :=
  match acc with
  | none => none
  | some d =>
    let r := parseLoop.foldl (parseStepRun w (parsed.filter (fun e => e.1 == name)) name) { c := none, d := d, raised := false }
    if r.raised then none else some r.d

def parseCollectedGen (enum : List String → List String) (w : World) (tasks : List ObjId) : Option Dict :=
  (enum (dedup ((tasks.map (fun o => (metaNameOf w o, o))).map (·.1)))).foldl
    (parseStepGen w (tasks.map (fun o => (metaNameOf w o, o)))) (some [])

/-! ### `_module_name_from_path` -/

def modStep (root : Path) (st : Path) : MStep → Path
  | .stripSuffix => withStem st
  | .relativeToRootElseDropFirst => if root.isPrefixOf st then st.drop root.length else st   -- `parts[1:]` drops "/"
  | .dropInit n => if decide (n ≤ st.length) && st.getLast? == some "__init__" then st.dropLast else st
  | .normalise => st.map dotToUnderscore
  | .joinDot => st

def pathKeyGen (root path : Path) : ModKey := modNameSteps.foldl (modStep root) path

/-! ### `import_path` -/

structure IState where
  w : World
  pkg : Option (Path × ModKey)        -- (pkg_root, module_name) when the path lies in a package
  key : ModKey                        -- `module_name`
  loaded : Option Module              -- `mod`
  hasSpec : Bool
  result : Option (World × Option Module)   -- the function has returned / raised

def importStep (env : Env) (path : Path) (st : IState) (step : IStep) : IState :=
  if st.result.isSome then st else
  match step with
  | .tryPkgName => match pkgTop env.fs path with
    | some pkg => { st with pkg := some (pkg.dropLast, pkgKey pkg.dropLast path), key := pkgKey pkg.dropLast path }
    | none => st
  | .cachePkg => match st.pkg with
    | some (_, key) => match st.w.modules.lookup key with
      | some m => { st with result := some (st.w, some m) }
      | none => st
    | none => st
  | .importUsingSpec => match st.pkg with
    | some (pkgRoot, key) => match findSpecIn env.fs pkgRoot (key.getLast?.getD "") with
      | .file p => let r := loadAs env st.w key p; { st with w := r.1, loaded := some r.2 }
      | .namespace => { st with result := some (st.w, none) }
      | .notFound =>
        if isPySource path then let r := loadAs env st.w key path; { st with w := r.1, loaded := some r.2 }
        else st
    | none => st
  | .returnIfModule => match st.pkg, st.loaded with
    | some _, some m => { st with result := some (st.w, some m) }
    | _, _ => st
  | .nameFromPath => { st with key := pathKey env.cfg.root path }
  | .cachePath => match st.w.modules.lookup st.key with
    | some m => { st with result := some (st.w, some m) }
    | none => st
  | .specFromFile => { st with hasSpec := isPySource path }
  | .raiseIfNoSpec => if st.hasSpec then st else { st with result := some (st.w, none) }
  | .execModule => let r := loadAs env st.w st.key path; { st with w := r.1, loaded := some r.2 }
  | .insertMissing => { st with w := insertMissing st.w st.key }
  | .returnModule => { st with result := some (st.w, st.loaded) }

def importPathGen (env : Env) (w : World) (path : Path) : World × Option Module :=
  ((importSteps.foldl (importStep env path)
      { w := w, pkg := none, key := [], loaded := none, hasSpec := true, result := none }).result).getD (w, none)

/-! ### `pytask_collect` -/

def collectStepRun (env : Env) (enum : List String → List String) (st : World × List Report) : CStep → World × List Report
  | .paths => let r := pathReports env enum; (r.1, st.2 ++ r.2)
  | .tasks => (st.1, st.2 ++ ptaskReports 0 env.ptasks)
  | .leftovers => (st.1, st.2 ++ leftovers st.1)
  | .dupSignatures => (st.1, failDups st.2)
  | .extendTasks => st
  | .modifyTasks => st
  | .log => st

/-- the collection reports at the moment `session.tasks` is filled: the steps before `extendTasks`. -/
def stepsBeforeExtend : List CStep → List CStep
  | [] => []
  | .extendTasks :: _ => []
  | s :: rest => s :: stepsBeforeExtend rest

def collectReportsGen (env : Env) (enum : List String → List String) : World × List Report :=
  (stepsBeforeExtend collectSteps).foldl (collectStepRun env enum) (env.init, [])

/-! ### short names: which tasks take part -/

/-- a collected task with its current name state (`fullName` = its name is still `path::base_name`). -/
def shortFilterRun (fullName : Bool) : SFilter → Bool
  | .isTask => true                    -- every task collected from a module is a `Task`
  | .hasFullName => fullName

def entersShortening (fullName : Bool) : Bool := shortFilter.all (shortFilterRun fullName)

def shortNamesGen (tasks : List (TKey × Bool)) : List (TKey × TKey) :=
  shortNames ((tasks.filter (fun t => entersShortening t.2)).map (·.1))

end CollectGen
end Pytask
