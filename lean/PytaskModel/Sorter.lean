import PytaskModel.Graph
import PytaskModel.Generated
/-!
# M2 — `TopologicalSorter` (`src/_pytask/dag_utils.py:64-176`)

`from_dag` reduces the bipartite task/node graph to a task-only graph in which every task has an
edge from **each** of its task-ancestors; `get_ready(n)` returns
`sorted(ready_set, key=priority)[-n:]` where the iteration order of `ready_set` depends on the
per-process string-hash seed, so the model is parameterised by an arbitrary enumeration of the
ready set (`readyWith`) and `LegalBatch` characterises all possible answers.
-/
namespace Pytask

structure Sorter where
  nodes : List Nat                 -- `dag.nodes`: tasks not yet done
  edges : List (Nat × Nat)         -- `(a, t)`: `a` is a task-ancestor of `t`, both not yet done
  prio  : Nat → Int                -- `priorities.get(x, 0)`
  processing : List Nat            -- `_nodes_processing`
  done : List Nat                  -- `_nodes_done`

inductive SortErr | cycle | badN
deriving Repr, DecidableEq

namespace Sorter

/-- `numeric_mapping` of `_extract_priorities_from_tasks`; both marks together is a `KeyError`
in the real code but is rejected earlier, at collection (`collect.py`), see `C19_reject`. -/
def prioOf (tryFirst tryLast : Bool) : Option Int :=
  (Generated.priorityTable.find? (fun r => r.1 == (tryFirst, tryLast))).map (·.2)

/-- `from_dag`: `check_dag`, then task → (ancestors ∩ tasks), reversed. -/
def fromDag (full : G) (isTask : Nat → Bool) (prio : Nat → Int) : Except SortErr Sorter :=
  if full.hasCycle then .error .cycle else
  let tasks := full.nodes.filter isTask
  .ok { nodes := tasks,
        edges := tasks.flatMap (fun t => ((full.anc t).filter isTask).map (fun a => (a, t))),
        prio := prio, processing := [], done := [] }

def indeg0 (s : Sorter) (v : Nat) : Bool := s.edges.all (fun e => e.2 != v)

/-- ready set of `get_ready`: in-degree 0 and not being processed. -/
def avail (s : Sorter) : List Nat := s.nodes.filter (fun v => s.indeg0 v && !s.processing.contains v)

/-- Stable insertion: `x` goes before the first element whose key is not smaller. -/
def ins (p : Nat → Int) (x : Nat) : List Nat → List Nat
  | [] => [x]
  | y :: ys => if p x ≤ p y then x :: y :: ys else y :: ins p x ys

/-- Stable sort by key (what `sorted(..., key=...)` computes; Python's sort is stable). -/
def isort (p : Nat → Int) : List Nat → List Nat
  | [] => []
  | x :: xs => ins p x (isort p xs)

/-- `sorted(enum, key=prio)[-n:]` for an enumeration `enum` of the ready set (stable sort). -/
def readyWith (s : Sorter) (enum : List Nat) (n : Nat) : List Nat :=
  let sorted0 := isort s.prio enum
  let sorted := if Generated.readySortReversed then sorted0.reverse else sorted0
  if Generated.readySliceLast then sorted.drop (sorted.length - n) else sorted.take n

/-- All answers `get_ready(n)` can give, over all set-iteration orders. -/
def LegalBatch (s : Sorter) (n : Nat) (b : List Nat) : Prop :=
  b.Nodup ∧ (∀ x ∈ b, x ∈ s.avail) ∧ b.length = min n s.avail.length ∧
  (∀ x ∈ b, ∀ y ∈ s.avail, y ∉ b → s.prio y ≤ s.prio x) ∧
  b.Pairwise (fun x y => s.prio x ≤ s.prio y)

def nodupB : List Nat → Bool
  | [] => true
  | x :: xs => !xs.contains x && nodupB xs

def sortedB (p : Nat → Int) : List Nat → Bool
  | [] => true
  | x :: xs => xs.all (fun y => decide (p x ≤ p y)) && sortedB p xs

def legalBatchB (s : Sorter) (n : Nat) (b : List Nat) : Bool :=
  nodupB b && b.all (fun x => s.avail.contains x) && (b.length == min n s.avail.length) &&
  b.all (fun x => s.avail.all (fun y => b.contains y || decide (s.prio y ≤ s.prio x))) &&
  sortedB s.prio b

/-- second half of `get_ready`: `_nodes_processing.update(batch)`. -/
def take (s : Sorter) (b : List Nat) : Sorter := { s with processing := s.processing ++ b }

/-- `done(*xs)`. -/
def finish (s : Sorter) (xs : List Nat) : Sorter :=
  { s with nodes := s.nodes.filter (fun v => !xs.contains v),
           edges := s.edges.filter (fun e => !xs.contains e.1 && !xs.contains e.2),
           processing := s.processing.filter (fun v => !xs.contains v),
           done := s.done ++ xs }

def isActive (s : Sorter) : Bool := !s.nodes.isEmpty

/-- `from_dag_and_sorter`. -/
def fromDagAndSorter (full : G) (isTask : Nat → Bool) (prio : Nat → Int) (old : Sorter) :
    Except SortErr Sorter :=
  match fromDag full isTask prio with
  | .error e => .error e
  | .ok s => .ok { (s.finish old.done) with processing := old.processing }

end Sorter
end Pytask

namespace Pytask
namespace Sorter

/-- States a driver can reach, together with the reference edge set `E` (the task-ancestor
relation of the graph the current sorter was created from) and the list `h` of all tasks handed
out so far. A driver may ask for any batch size, complete tasks in any order and re-create the
sorter from a changed graph (`from_dag_and_sorter`) at any time. -/
inductive Reach : List (Nat × Nat) → Sorter → List Nat → Prop
  | init (s : Sorter) (hd : s.done = []) (hp : s.processing = []) : Reach s.edges s []
  | ready {E s h} (n : Nat) (b : List Nat) : Reach E s h → LegalBatch s n b → Reach E (s.take b) (h ++ b)
  | done {E s h} (xs : List Nat) : Reach E s h → Reach E (s.finish xs) h
  | recreate {E s h} (full : G) (isTask : Nat → Bool) (prio : Nat → Int) (f s' : Sorter) :
      Reach E s h → fromDag full isTask prio = .ok f → fromDagAndSorter full isTask prio s = .ok s' →
      Reach f.edges s' h

end Sorter
end Pytask
