import PytaskModel.Engine
/-!
# M6-gen — the engine computed from the translator's description of the hook implementations

`Engine.lean` is the hand-written model of pytask's build engine. What happens INSIDE each hook implementation is
written out there by hand. This file contains *interpreters* over the data that `harness/extract_engine.py` reads from
the source (`Generated.Eng.*`: the arms of every `pytask_execute_task_process_report`, the guarded `raise`s and the loop of
every `pytask_execute_task_setup`, the cases of `has_node_changed`, the order of `node_and_neighbors`, the steps of
`pytask_execute_task`, the checks of the teardown, the shape of `pytask_execute_build`, the protocol's handlers).
`PytaskProofs/Properties/EngineTie.lean` proves each interpreter equal to the corresponding `Engine.*` definition for all
arguments, so a source change that alters an extracted fact breaks those theorems.

Conventions of the interpretation (the same abstractions as `Engine.lean`): a static project has no task generators
(`generator` ↦ false) and no provisional nodes; no code attaches a `skip_unchanged` mark (checked by the translator);
`skipifTrue` is `TaskSpec.skipif`; an exception that escapes a report hook aborts the build (`crashed`).
Core Lean only.
-/
namespace Pytask
namespace EngineGen
open Engine Generated.Eng

/-! ### `node_and_neighbors`, `has_node_changed`, `update_states_in_database` -/

def part (g : G) (t : Nat) : NPart → List Nat
  | .preds => g.preds (tv t)
  | .self => [tv t]
  | .succs => g.succs (tv t)

/-- `node_and_neighbors`, parts chained in the order of `Eng.neighbourOrder`. -/
def neighboursGen (g : G) (t : Nat) : List Nat := neighbourOrder.flatMap (part g t)

/-- `has_node_changed`: the cases in source order; `none` = the call raises (e.g. `None.hash_`) or returns no Boolean. -/
def hasChangedRun (w : World) (t v : Nat) (st : Option Nat) : List HCase → Option Bool
  | [] => none
  | .stateNone r :: cs => match st with
    | none => some r
    | some _ => hasChangedRun w t v st cs
  | .rowNone r :: cs => match lookup w.db (tv t, v) with
    | none => some r
    | some _ => hasChangedRun w t v st cs
  | .compareNe :: _ => match lookup w.db (tv t, v) with
    | none => none
    | some r => match st with
      | none => some true
      | some h => some (r != h)
  | .compareEq :: _ => match lookup w.db (tv t, v) with
    | none => none
    | some r => match st with
      | none => some false
      | some h => some (r == h)

def hasChangedGen (w : World) (t v : Nat) (st : Option Nat) : Option Bool := hasChangedRun w t v st hasChangedCases

/-- `_create_or_update_state`. -/
def upsertGen (db : DB) (k : Nat × Nat) (h : Nat) : DB :=
  match lookup db k with
  | none => if upsertAddsWhenAbsent then insert db k h else db
  | some _ => if upsertOverwritesWhenPresent then insert db k h else db

def rowKeyGen (t v : Nat) : Nat × Nat :=
  if updateRowKey == ["task", "node"] then (tv t, v) else (v, tv t)

/-- The row loop of `update_states_in_database` over the given neighbours, started in world `w0`. A node without state
cannot be stored (`hash_` is NOT NULL): the call raises, and — all rows being one transaction
(`Generated.rowsSingleTransaction`, section extract_crash) — nothing of it is recorded. -/
def updateRowsGen (P : Project) (w0 : World) (t : Nat) : World → List Nat → World × Bool
  | w, [] => (w, true)
  | w, v :: vs => match stateOf P w v with
    | none => (if Generated.rowsSingleTransaction then w0 else w, false)
    | some h => updateRowsGen P w0 t { w with db := upsertGen w.db (rowKeyGen t v) h } vs

def updateStatesGen (P : Project) (g : G) (w : World) (t : Nat) (vs : List Nat) : World × Bool :=
  let _ := g
  updateRowsGen P w t w vs

/-- `update_states_in_database` as called from the report hooks. -/
def recordStatesGen (P : Project) (g : G) (cfg : Cfg) (w : World) (t : Nat) : World × Bool :=
  if updateStatesSkipsDryRun && cfg.dry then (w, true) else updateStates P g w t (neighboursGen g t)

/-! ### the loop of `execute.pytask_execute_task_setup` -/

structure LCtx where
  needs : Bool
  inPreds : Bool
  hasState : Bool
  prov : Bool
  changed : Option Bool

/-- Python's short-circuit evaluation; `none` = evaluating the condition raises. -/
def evalL (c : LCtx) : LCond → Option Bool
  | .tt => some true
  | .needs => some c.needs
  | .inPreds => some c.inPreds
  | .hasState => some c.hasState
  | .provisional => some c.prov
  | .changed => c.changed
  | .not a => (evalL c a).map (!·)
  | .and a b => match evalL c a with
    | some true => evalL c b
    | r => r
  | .or a b => match evalL c a with
    | some false => evalL c b
    | r => r

/-- How the body of one `if` inside the loop ends. -/
inductive LOut
  | fall (needs : Bool)     -- control reaches the next statement of the loop body
  | cont (needs : Bool)
  | brk (needs : Bool)
  | raised
deriving Repr, DecidableEq

def runActs : Bool → List LAct → LOut
  | n, [] => .fall n
  | _, .setNeeds :: as => runActs true as
  | n, .brk :: _ => .brk n
  | n, .cont :: _ => .cont n
  | _, .raise _ :: _ => .raised

def runSteps (mk : Bool → LCtx) : Bool → List LStep → LOut
  | n, [] => .fall n
  | n, s :: ss => match evalL (mk n) s.cond with
    | none => .raised
    | some false => runSteps mk n ss
    | some true => match runActs n s.acts with
      | .fall n' => runSteps mk n' ss
      | r => r

/-- membership in the set the loop calls `predecessors` -/
def inPredSet (g : G) (t : Nat) (ps : List NPart) (v : Nat) : Bool := ps.any (fun p => (part g t p).contains v)

inductive ScanG
  | raised
  | done (needs : Bool)
deriving Repr, DecidableEq

def ScanG.toScan : ScanG → Scan
  | .raised => .missing
  | .done true => .changed
  | .done false => .unchanged

/-- The loop over `node_and_neighbors`, its body given as data. -/
def scanGen (P : Project) (g : G) (w : World) (t : Nat) (ps : List NPart) (steps : List LStep) (prov : Nat → Bool) :
    Bool → List Nat → ScanG
  | n, [] => .done n
  | n, v :: vs =>
    let st := stateOf P w v
    let mk : Bool → LCtx := fun n' =>
      { needs := n', inPreds := inPredSet g t ps v, hasState := st.isSome, prov := prov v, changed := hasChangedGen w t v st }
    match runSteps mk n steps with
    | .fall n' => scanGen P g w t ps steps prov n' vs
    | .cont n' => scanGen P g w t ps steps prov n' vs
    | .brk n' => .done n'
    | .raised => .raised

/-! ### `pytask_execute_task_setup` implementations -/

def evalMark (s : Sess) (t : TaskSpec) : MarkN → Bool
  | .skip => t.skip || s.skipMarks.contains t.id
  | .skip_unchanged => false
  | .skip_ancestor_failed => s.failMarks.contains t.id
  | .would_be_executed => s.wbeMarks.contains t.id
  | .persist => t.persist

def evalFlag (cfg : Cfg) : Flag → Bool
  | .force => cfg.force
  | .dry_run => cfg.dry

/-- `any(has_node_changed(…) for …)`: stops at the first changed node. -/
def changedAny (w : World) (t : Nat) : List (Nat × Option Nat) → Option Bool
  | [] => some false
  | (v, st) :: r => match hasChangedGen w t v st with
    | none => none
    | some true => some true
    | some false => changedAny w t r

def evalCond (P : Project) (g : G) (cfg : Cfg) (s : Sess) (t : TaskSpec) (needs : Bool) : Cond → Option Bool
  | .tt => some true
  | .mark m => some (evalMark s t m)
  | .flag f => some (evalFlag cfg f)
  | .skipifTrue => some t.skipif
  | .generator => some false
  | .needs => some needs
  | .allExist => some (((neighboursGen g t.id).map (stateOf P s.w)).all (·.isSome))
  | .anyChanged =>
    let ns := neighboursGen g t.id
    changedAny s.w t.id (ns.zip (ns.map (stateOf P s.w)))
  | .not a => (evalCond P g cfg s t needs a).map (!·)
  | .and a b => match evalCond P g cfg s t needs a with
    | some true => evalCond P g cfg s t needs b
    | r => r
  | .or a b => match evalCond P g cfg s t needs a with
    | some false => evalCond P g cfg s t needs b
    | r => r

def excToRaised : Exc → Raised
  | .SkippedUnchanged => .skippedUnchanged
  | .Skipped => .skipped
  | .SkippedAncestorFailed => .ancestorFailed
  | .Persisted => .persisted
  | .WouldBeExecuted => .wouldBeExecuted
  | .Exit => .error
  | .NodeNotFoundError => .error
  | .Other => .error

/-- The statements of one setup implementation: the first guard that holds raises. -/
def runSetupSteps (P : Project) (g : G) (cfg : Cfg) (s : Sess) (t : TaskSpec) : Bool → List SStep → Raised
  | _, [] => .none
  | n, .raiseIf c e :: ss => match evalCond P g cfg s t n c with
    | none => .error
    | some true => excToRaised e
    | some false => runSetupSteps P g cfg s t n ss
  | n, .scan init guard ps steps :: ss => match evalCond P g cfg s t n init with
    | none => .error
    | some n0 => match evalCond P g cfg s t n guard with
      | none => .error
      | some false => runSetupSteps P g cfg s t n0 ss
      | some true => match scanGen P g s.w t.id ps steps (fun _ => false) n0 (neighboursGen g t.id) with
        | .raised => .error
        | .done n' => runSetupSteps P g cfg s t n' ss

/-- One implementation of `pytask_execute_task_setup`, by module name; an implementation the translator did not
describe fails closed. -/
def setupImplGen (P : Project) (g : G) (cfg : Cfg) (s : Sess) (t : TaskSpec) (name : String) : Raised :=
  match setupImpls.find? (fun i => i.name == name) with
  | some impl => runSetupSteps P g cfg s t false impl.steps
  | none => .error

def setupChainGen (P : Project) (g : G) (cfg : Cfg) (s : Sess) (t : TaskSpec) : List String → Raised
  | [] => .none
  | n :: ns => match setupImplGen P g cfg s t n with
    | .none => setupChainGen P g cfg s t ns
    | r => r

/-! ### `pytask_execute_task`, teardown, `runPhases` -/

/-- `execute.pytask_execute_task`; loading and saving are part of `runBody` (`Beh.loadFails` / `.saveFails`). -/
def runExecSteps (F : BodyFn) (cfg : Cfg) (t : TaskSpec) : Sess → List XStep → Raised × Sess
  | s, [] => (.none, s)
  | s, .dryGuard e :: xs => if cfg.dry then (excToRaised e, s) else runExecSteps F cfg t s xs
  | s, .load :: xs => runExecSteps F cfg t s xs
  | s, .save :: xs => runExecSteps F cfg t s xs
  | s, .call :: xs =>
    let r := runBody F t s.w.fs
    let s' := { s with w := { s.w with fs := r.1 }, log := if behInvokes t.beh then s.log ++ [t.id] else s.log }
    if r.2 then (.error, s') else runExecSteps F cfg t s' xs

/-- The `pytask_execute_task` hook (firstresult) in pluggy's call order: wrappers do not change the result, an
implementation outside execute.py acts only under its extracted condition (task generators: not in a static project),
execute.py's implementation returns `True` and ends the chain. Anything else fails closed. -/
def runExecChain (F : BodyFn) (P : Project) (g : G) (cfg : Cfg) (t : TaskSpec) (s : Sess) : List String → Raised × Sess
  | [] => (.none, s)
  | n :: ns =>
    if executeWrappers.contains n then runExecChain F P g cfg t s ns
    else if n == "execute" then runExecSteps F cfg t s executeSteps
    else match executeGuards.find? (fun e => e.1 == n) with
      | none => (.error, s)
      | some e => match evalCond P g cfg s t false e.2 with
        | some false => runExecChain F P g cfg t s ns
        | _ => (.error, s)

/-- `execute.pytask_execute_task_teardown`. -/
def runTeardown (P : Project) (g : G) (t : TaskSpec) (s : Sess) : List TCheck → Raised
  | [] => .none
  | .generatorReturn :: cs => runTeardown P g t s cs      -- not a generator: the early `return` is not taken
  | .vanishedPredecessor :: cs =>
    if (g.preds (tv t.id) ++ [tv t.id]).any (fun v => (stateOf P s.w v).isNone) then .error else runTeardown P g t s cs
  | .ordinaryProducts :: cs =>
    -- products that are not provisional nodes, checked before the provisional ones are resolved (9523bbe); a static project
    -- has no provisional products: these are all its products
    if t.prods.any (fun p => (lookup s.w.fs p).isNone) then .error else runTeardown P g t s cs
  | .provisionalProducts :: cs => runTeardown P g t s cs
  | .missingProducts :: cs =>
    if t.prods.any (fun p => (lookup s.w.fs p).isNone) then .error else runTeardown P g t s cs

/-- The hook calls inside the protocol's `try`, in the order of `Eng.protocolPhases`. -/
def runPhaseList (F : BodyFn) (P : Project) (g : G) (cfg : Cfg) (t : TaskSpec) : Sess → List String → Raised × Sess
  | s, [] => (.none, s)
  | s, p :: ps =>
    if p == "setup" then
      match setupChainGen P g cfg s t Generated.setupOrder with
      | .none => runPhaseList F P g cfg t s ps
      | r => (r, s)
    else if p == "execute" then
      match (if Generated.executeOrderFirstResult then runExecChain F P g cfg t s Generated.executeOrder else (.error, s)) with
      | (.none, s') => runPhaseList F P g cfg t s' ps
      | r => r
    else if p == "teardown" then
      match runTeardown P g t s teardownChecks with
      | .none => runPhaseList F P g cfg t s ps
      | r => (r, s)
    else (.error, s)

def runPhasesGen (F : BodyFn) (P : Project) (g : G) (cfg : Cfg) (s : Sess) (t : TaskSpec) : Raised × Sess :=
  runPhaseList F P g cfg t s protocolPhases

/-! ### `pytask_execute_task_process_report` implementations -/

structure Rep where
  exc : Option Exc
  outcome : Out
deriving Repr

def raisedToExc : Raised → Option Exc
  | .none => none
  | .skippedUnchanged => some .SkippedUnchanged
  | .skipped => some .Skipped
  | .ancestorFailed => some .SkippedAncestorFailed
  | .persisted => some .Persisted
  | .wouldBeExecuted => some .WouldBeExecuted
  | .error => some .Other

def outToOutcome : Out → Outcome
  | .SUCCESS => .success
  | .PERSISTENCE => .persistence
  | .SKIP_UNCHANGED => .skipUnchanged
  | .SKIP => .skip
  | .SKIP_PREVIOUS_FAILED => .skipPrevFailed
  | .FAIL => .fail
  | .WOULD_BE_EXECUTED => .wouldBeExecuted

/-- `isinstance(x, E)` for an instance of class `x`. -/
def isInst (x e : Exc) : Bool := decide (x = e) || excSubclass.any (fun p => decide (p.1 = x) && decide (p.2 = e))

/-- `none` = evaluating the test raises (`report.exc_info[1]` on a report without exception). -/
def evalRTest (rep : Rep) : RTest → Option Bool
  | .tt => some true
  | .hasExc => some rep.exc.isSome
  | .excIs e => match rep.exc with
    | some x => some (isInst x e)
    | none => none
  | .outcomeIs o => some (decide (rep.outcome = o))
  | .generator => some false
  | .not a => (evalRTest rep a).map (!·)
  | .and a b => match evalRTest rep a with
    | some true => evalRTest rep b
    | r => r
  | .or a b => match evalRTest rep a with
    | some false => evalRTest rep b
    | r => r

def taskSet (g : G) (t : Nat) : TaskSet → List Nat
  | .descendants => taskDesc g t
  | .selfAndDescendants => t :: taskDesc g t
  | .ancestors => taskAnc g t
  | .selfAndAncestors => t :: taskAnc g t

/-- `n_tasks_failed <cmp> max_failures` (`none` = ∞). -/
def stopCmp (c : Cmp) (n : Nat) : Option Nat → Bool
  | some m => match c with
    | .ge => decide (m ≤ n)
    | .gt => decide (m < n)
    | .le => decide (n ≤ m)
    | .lt => decide (n < m)
    | .eq => n == m
    | .ne => n != m
  | none => match c with
    | .le => true
    | .lt => true
    | .ne => true
    | _ => false

structure RSt where
  s : Sess
  rep : Rep
  raised : Bool        -- an exception escaped the hook

def runRAct (P : Project) (g : G) (cfg : Cfg) (t : TaskSpec) (st : RSt) : RAct → RSt
  | .setOutcome o => { st with rep := { st.rep with outcome := o } }
  | .mark .skip on => { st with s := { st.s with skipMarks := markAll st.s.skipMarks (taskSet g t.id on) } }
  | .mark .skip_ancestor_failed on => { st with s := { st.s with failMarks := markAll st.s.failMarks (taskSet g t.id on) } }
  | .mark .would_be_executed on => { st with s := { st.s with wbeMarks := markAll st.s.wbeMarks (taskSet g t.id on) } }
  | .updateStates =>
    let r := recordStatesGen P g cfg st.s.w t.id
    { st with s := { st.s with w := r.1 }, raised := !r.2 }
  | .incFailed => { st with s := { st.s with nFailed := st.s.nFailed + 1 } }
  | .stopIf c => { st with s := { st.s with stop := st.s.stop || stopCmp c st.s.nFailed cfg.maxFail } }
  | .stopIfTest tst => match evalRTest st.rep tst with
    | none => { st with raised := true }
    | some b => { st with s := { st.s with stop := st.s.stop || b } }

def runRActs (P : Project) (g : G) (cfg : Cfg) (t : TaskSpec) : RSt → List RAct → RSt
  | st, [] => st
  | st, a :: as =>
    let st' := runRAct P g cfg t st a
    if st'.raised then st' else runRActs P g cfg t st' as

/-- One `if … elif … else` chain: the first arm whose test holds runs. -/
def runChain (P : Project) (g : G) (cfg : Cfg) (t : TaskSpec) (st : RSt) : List RArm → RSt × REnd
  | [] => (st, .fall)
  | a :: as => match evalRTest st.rep a.test with
    | none => ({ st with raised := true }, .fall)
    | some true => (runRActs P g cfg t st a.acts, a.ends)
    | some false => runChain P g cfg t st as

/-- The statements of one implementation; the Boolean says whether it returned `True`. -/
def runChains (P : Project) (g : G) (cfg : Cfg) (t : TaskSpec) : RSt → List (List RArm) → REnd → RSt × Bool
  | st, [], fin => (st, decide (fin = .retTrue))
  | st, c :: cs, fin =>
    let r := runChain P g cfg t st c
    if r.1.raised then (r.1, false) else
    match r.2 with
    | .retTrue => (r.1, true)
    | .retNone => (r.1, false)
    | .fall => runChains P g cfg t r.1 cs fin

/-- The implementations in pluggy's call order; with `firstresult` the first one that returns `True` ends the chain. -/
def runReportImpls (P : Project) (g : G) (cfg : Cfg) (t : TaskSpec) (firstResult : Bool) : RSt → List String → RSt
  | st, [] => st
  | st, n :: ns => match reportImpls.find? (fun i => i.name == n) with
    | none => { st with raised := true }
    | some impl =>
      let r := runChains P g cfg t st impl.chains impl.final
      if r.1.raised then r.1 else if r.2 && firstResult then r.1 else runReportImpls P g cfg t firstResult r.1 ns

def initRep (r : Raised) : Rep :=
  match raisedToExc r with
  | none => { exc := none, outcome := reportFromTask }
  | some e => { exc := some e, outcome := reportFromException }

/-- The `pytask_execute_task_process_report` chain followed by `session.execution_reports.append(report)`. -/
def processReportGen (P : Project) (g : G) (cfg : Cfg) (s : Sess) (t : TaskSpec) (r : Raised) : Sess :=
  let st := runReportImpls P g cfg t Generated.processReportOrderFirstResult { s := s, rep := initRep r, raised := false }
    Generated.processReportOrder
  if st.raised then { st.s with crashed := true }
  else { st.s with reports := st.s.reports ++ [(t.id, outToOutcome st.rep.outcome)] }

/-! ### `pytask_execute_task_protocol`, `pytask_execute_build` -/

/-- Does the handler catch an instance of the class? (All classes of the model derive from `Exception`;
`Other` stands for what a task body or a node raises.) -/
def catches (h : Handler) (e : Exc) : Bool :=
  (excIsException.any (fun x => decide (x = e)) || decide (e = .Other)) &&
    (h.classes.contains "Exception" || h.classes.contains "BaseException")

def protocolGen (F : BodyFn) (P : Project) (g : G) (cfg : Cfg) (s : Sess) (t : TaskSpec) : Sess :=
  let rs := runPhasesGen F P g cfg s t
  match raisedToExc rs.1 with
  | none => processReportGen P g cfg rs.2 t rs.1
  | some e => match protocolHandlers.find? (fun h => catches h e) with
    | none => { rs.2 with crashed := true }
    | some h =>
      if !h.fromException then { rs.2 with crashed := true } else
      processReportGen P g cfg (if h.setsStop then { rs.2 with stop := true } else rs.2) t rs.1

/-- One iteration of the loop of `pytask_execute_build` for the observed pick `t`. -/
def iterGen (F : BodyFn) (P : Project) (g : G) (cfg : Cfg) (t : Nat) :
    List BOp → Sorter → Sess → Option TaskSpec → Except Illegal (Sorter × Sess)
  | [], so, s, _ => .ok (so, s)
  | .whileActive :: ops, so, s, c => if !so.isActive then .error .leftover else iterGen F P g cfg t ops so s c
  | .pickFirstReady :: ops, so, s, _ =>
    if !Sorter.legalBatchB so 1 [tv t] then .error (.notReady t) else
    match Project.find? P t with
    | none => .error (.unknownTask t)
    | some spec => iterGen F P g cfg t ops (so.take [tv t]) s (some spec)
  | .protocol :: ops, so, s, c => match c with
    | none => .error (.unknownTask t)
    | some spec => iterGen F P g cfg t ops so (protocolGen F P g cfg s spec) c
  | .appendReport :: ops, so, s, c => iterGen F P g cfg t ops so s c     -- folded into `processReportGen`
  | .done :: ops, so, s, c => iterGen F P g cfg t ops (so.finish [tv t]) s c
  | .breakIfStop :: ops, so, s, c => iterGen F P g cfg t ops so s c      -- evaluated at the head of the next iteration

/-- `pytask_execute_build` along the observed picks. The loop is over (left-over picks are illegal) once an iteration
ended in `break` (`should_stop`), an exception escaped the protocol, or `is_active()` is false. -/
def buildLoopGen (F : BodyFn) (P : Project) (g : G) (cfg : Cfg) :
    Sorter → Sess → List Nat → Except Illegal (Sorter × Sess)
  | so, s, [] => .ok (so, s)
  | so, s, t :: ts =>
    if (buildLoopOps.any (fun o => decide (o = .breakIfStop)) && s.stop) || s.crashed then .error .leftover else
    match iterGen F P g cfg t buildLoopOps so s none with
    | .error e => .error e
    | .ok (so', s') => buildLoopGen F P g cfg so' s' ts

/-- `build()` from `create_dag` on (as `Engine.build`), with the loop computed from the extracted data. -/
def buildGen (F : BodyFn) (P : Project) (cfg : Cfg) (w : World) (picks : List Nat) : Except Illegal Result :=
  match createDag P cfg with
  | .error _ => .ok { exit := ladderCode "ResolvingDependenciesError", reports := [], log := [], w := w, complete := picks.isEmpty }
  | .ok (g, marks) =>
    match Sorter.fromDag g isTaskV (prioFn P) with
    | .error _ =>
      .ok { exit := ladderCode "Exception", reports := [], log := [], w := w, complete := picks.isEmpty }
    | .ok so =>
      let s0 : Sess := { w := w, skipMarks := marks }
      match buildLoopGen F P g cfg so s0 picks with
      | .error e => .error e
      | .ok (so', s) =>
        let failed := s.reports.any (fun r => r.2 == .fail)
        .ok { exit := if s.crashed then ladderCode "Exception"
                      else if failed then ladderCode "ExecutionError" else exitCode "OK",
              reports := s.reports, log := s.log, w := s.w,
              complete := s.stop || s.crashed || !so'.isActive }

end EngineGen
end Pytask
