import PytaskModel.Capture
/-!
# M10-gen — the capture objects computed from the translator's description of their methods

`Capture.lean` writes out by hand what each method of `SysCapture`, `FDCapture`, `MultiCapture` and `CaptureManager` does.
This file contains *interpreters* over the data that `harness/extract_capgen.py` reads from `_pytask/capture.py`
(`Generated.Cap.*`: the statements of each method in source order, what `snap()` does to its buffer, the flags the
temporary file of an `FDCapture` is created with, the guarded calls of the `MultiCapture` methods).
`PytaskProofs/Properties/CaptureTie.lean` proves every interpreter equal to the hand-written definition, so a source change
that alters an extracted fact breaks those theorems.

Conventions of the interpretation (the abstractions of `Capture.lean`): an exception (failed `_assert_state`, `AttributeError`
on a deleted `_old`, `ValueError` of `fileno()` on a closed file, an unknown token) sets `fault` and abandons the rest of the
method — statements already executed keep their effect, which is why the ORDER of the statements matters here;
`try/finally` is sequencing (the model has no recoverable exceptions). The three captures of a `MultiCapture` act on disjoint
state (descriptors / streams 0, 1, 2 — `Generated.multicaptureTable`), so the `MultiCapture` methods are interpreted from the
SET of their guarded calls, in the hand model's order. Core Lean only.
-/
namespace Pytask.Capture
namespace Gen
open Generated.Cap

/-! ### `SysCaptureBase` -/

def stateOf? : String → Option CapState
  | "initialized" => some .initialized
  | "started" => some .started
  | "suspended" => some .suspended
  | "done" => some .done
  | _ => none

/-- `self._assert_state(op, states)` -/
def stateIn (st : CapState) (states : List String) : Bool :=
  states.any (fun s => stateOf? s == some st)

/-- the single argument of a statement -/
def arg1 : List String → String
  | [a] => a
  | _ => ""

/-- the statements of a `SysCaptureBase` method, executed in order -/
def runSys : List (String × List String) → W → SysCap → W × SysCap
  | [], w, c => (w, c)
  | (op, args) :: rest, w, c =>
    match op with
    | "assert" => if stateIn c.state args then runSys rest w c else (w.fail, c)
    | "ret-if" => if stateOf? (arg1 args) == some c.state then (w, c) else runSys rest w c
    | "state" =>
      (match stateOf? (arg1 args) with
       | some st => runSys rest w { c with state := st }
       | none => (w.fail, c))
    | "std:=tmp" => runSys rest (w.setStd c.name c.tmp) c
    | "std:=old" =>
      (match c.old with
       | none => (w.fail, c)
       | some o => runSys rest (w.setStd c.name o) c)
    | "del-old" => runSys rest w { c with old := none }
    | "tmp.close" => runSys rest (closeStream w c.tmp) c
    | _ => (w.fail, c)

def sysStartGen (w : W) (c : SysCap) : W × SysCap := runSys sysStart w c
def sysDoneGen (w : W) (c : SysCap) : W × SysCap := runSys sysDone w c
def sysSuspendGen (w : W) (c : SysCap) : W × SysCap := runSys sysSuspend w c
def sysResumeGen (w : W) (c : SysCap) : W × SysCap := runSys sysResume w c

/-- `SysCapture.writeorg(data)` -/
def runSysWriteorg (d : Data) : List (String × List String) → W → SysCap → W
  | [], w, _ => w
  | (op, args) :: rest, w, c =>
    match op with
    | "assert" => if stateIn c.state args then runSysWriteorg d rest w c else w.fail
    | "old.write" =>
      (match c.old with
       | none => w.fail
       | some o => runSysWriteorg d rest (writePy w o d) c)
    | "old.flush" => runSysWriteorg d rest w c       -- streams are write-through in the model
    | _ => w.fail

def sysWriteorgGen (w : W) (c : SysCap) (d : Data) : W := runSysWriteorg d sysWriteorg w c

/-- `SysCapture.snap()`: the whole buffer from position 0 through `getvalue()`, buffer emptied and rewound afterwards -/
def sysSnapGen (w : W) (c : SysCap) : W × Data :=
  if !stateIn c.state sysSnapAssert then (w.fail, []) else
  if !(sysSnapHow == "getvalue" && sysSnapFromStart && sysSnapRewound && sysSnapAssertsCaptureIO) then (w.fail, []) else
  match c.tmp with
  | .capIO _ b => (if sysSnapEmptied then w.setBuf b [] else w, w.buf b)
  | .teeIO _ b _ => (if sysSnapEmptied then w.setBuf b [] else w, w.buf b)
  | _ => (w.fail, [])

/-! ### `FDCaptureBase` -/

def sysMeth (m : String) (w : W) (c : SysCap) : W × SysCap :=
  match m with
  | "start" => sysStartGen w c
  | "done" => sysDoneGen w c
  | "suspend" => sysSuspendGen w c
  | "resume" => sysResumeGen w c
  | _ => (w.fail, c)

/-- the statements of an `FDCaptureBase` method, executed in order -/
def runFd : List (String × List String) → W → FdCap → W × FdCap
  | [], w, c => (w, c)
  | (op, args) :: rest, w, c =>
    match op with
    | "assert" => if stateIn c.state args then runFd rest w c else (w.fail, c)
    | "ret-if" => if stateOf? (arg1 args) == some c.state then (w, c) else runFd rest w c
    | "state" =>
      (match stateOf? (arg1 args) with
       | some st => runFd rest w { c with state := st }
       | none => (w.fail, c))
    | "sys" =>
      (let r := optSys (sysMeth (arg1 args)) w c.sysc
       runFd rest r.1 { c with sysc := r.2 })
    | "dup2:tmp->target" =>
      -- `self.tmpfile.fileno()` raises ValueError on a closed file: the method ends here
      (match w.os.fd c.pyfd with
       | none => (w.fail, c)
       | some _ => runFd rest { w with os := w.os.dup2 c.pyfd c.target } c)
    | "dup2:save->target" => runFd rest { w with os := w.os.dup2 c.save c.target } c
    | "close:save" => runFd rest { w with os := w.os.close c.save } c
    | "invalid-cleanup" =>
      (match c.invalid with
       | none => runFd rest w c
       | some inv => runFd rest { w with os := (if inv != c.target then w.os.close c.target else w.os).close inv } c)
    | "tmp.close" => runFd rest (closeStream w c.tmp) c
    | _ => (w.fail, c)

def fdStartGen (w : W) (c : FdCap) : W × FdCap := runFd fdStart w c
def fdDoneGen (w : W) (c : FdCap) : W × FdCap := runFd fdDone w c
def fdSuspendGen (w : W) (c : FdCap) : W × FdCap := runFd fdSuspend w c
def fdResumeGen (w : W) (c : FdCap) : W × FdCap := runFd fdResume w c

/-- `FDCapture.writeorg(data)` -/
def runFdWriteorg (d : Data) : List (String × List String) → W → FdCap → W
  | [], w, _ => w
  | (op, args) :: rest, w, c =>
    match op with
    | "assert" => if stateIn c.state args then runFdWriteorg d rest w c else w.fail
    | "write:save" => if arg1 args == "utf-8" then runFdWriteorg d rest (w.osWrite c.save d) c else w.fail
    | _ => w.fail

def fdWriteorgGen (w : W) (c : FdCap) (d : Data) : W := runFdWriteorg d fdWriteorg w c

/-- `FDCapture.snap()`: the whole file from position 0 through the text layer, file emptied and rewound afterwards -/
def fdSnapGen (w : W) (c : FdCap) : W × Data :=
  if !stateIn c.state fdSnapAssert then (w.fail, []) else
  if !(fdSnapHow == "text-read" && fdSnapFromStart && fdSnapRewound) then (w.fail, []) else
  if fdSnapEmptied then
    (let r := w.os.snap c.pyfd; ({ w with os := r.1 }, r.2))
  else
    (match w.os.fd c.pyfd with
     | none => (w, [])
     | some f => (w, w.os.file f))

/-- The model's picture of the temporary file — `Stream.file`: every Python-level write is in the file at once, code point
for code point — is the picture of a text layer that is unbuffered (`buffering=0`), `write_through`, untranslated
(`newline=""`) UTF-8; and the constructor probes with `os.fstat`, saves with `os.dup`, attaches `SysCapture(targetfd)` to
stdin's `/dev/null` reader and `SysCapture(targetfd, tmpfile)` to stdout / stderr. -/
def fdInitFactsOk : Bool :=
  fdInitProbe == "fstat" && fdInitSave == "dup" && fdInitStdin == "devnull+SysCapture(targetfd)" &&
  fdInitOutputSys == "SysCapture(targetfd,tmpfile)|NoCapture" && fdInitState == "initialized" &&
  fdTmpBuffering == 0 && fdTmpEncoding == "utf-8" && fdTmpErrors == "replace" && fdTmpNewline == some "" && fdTmpWriteThrough

/-- `FDCaptureBase.__init__` -/
def fdInitGen (w : W) (target : Nat) : W × FdCap :=
  if fdInitFactsOk then FdCap.init w target else (w.fail, (FdCap.init w target).2)

/-! ### `MultiCapture` — from the set of guarded calls -/

def capMeth (m : String) (w : W) (c : Cap) : W × Cap :=
  match c with
  | .sys s => let r := sysMeth m w s; (r.1, .sys r.2)
  | .fd f =>
    let r := (match m with
      | "start" => fdStartGen w f
      | "done" => fdDoneGen w f
      | "suspend" => fdSuspendGen w f
      | "resume" => fdResumeGen w f
      | _ => (w.fail, f))
    (r.1, .fd r.2)

def mcStateOf? : String → Option MCState
  | "started" => some .started
  | "suspended" => some .suspended
  | "stopped" => some .stopped
  | _ => none

/-- the entry of capture `cap` in a method's set of guarded calls -/
def entry (ents : List (String × String × String)) (cap : String) : Option (String × String) :=
  (ents.find? (fun e => e.1 == cap)).map (fun e => e.2)

/-- one capture under guard `if self.<cap>:` (absent entry = the method does not touch it) -/
def plainStep (ents : List (String × String × String)) (cap meth : String) (w : W) (c : Option Cap) : W × Option Cap :=
  match entry ents cap with
  | none => (w, c)
  | some (g, call) =>
    if g == "if-self" && call == meth then optCap (capMeth meth) w c else (w.fail, c)

def mcStartGen (w : W) (m : MC) : W × MC :=
  let (w, i) := plainStep mcStart "in_" "start" w m.in_
  let (w, o) := plainStep mcStart "out" "start" w m.out
  let (w, e) := plainStep mcStart "err" "start" w m.err
  match mcStateOf? mcStartState with
  | some st => (if mcStartExtra.isEmpty then w else w.fail, { m with in_ := i, out := o, err := e, state := st })
  | none => (w.fail, m)

def mcSuspendGen (w : W) (m : MC) (in_ : Bool) : W × MC :=
  let (w, o) := plainStep mcSuspend "out" "suspend" w m.out
  let (w, e) := plainStep mcSuspend "err" "suspend" w m.err
  match mcStateOf? mcSuspendState with
  | none => (w.fail, m)
  | some st =>
    let w := if mcSuspendExtra.isEmpty then w else w.fail
    match entry mcSuspend "in_" with
    | none => (w, { m with out := o, err := e, state := st })
    | some (g, call) =>
      if g == "arg-and-self" && call == "suspend+in_suspended:=True" then
        (if in_ && m.in_.isSome then
          let (w, i) := optCap (capMeth "suspend") w m.in_
          (w, { m with in_ := i, out := o, err := e, state := st, inSuspended := true })
         else (w, { m with out := o, err := e, state := st }))
      else (w.fail, m)

def mcResumeGen (w : W) (m : MC) : W × MC :=
  let (w, o) := plainStep mcResume "out" "resume" w m.out
  let (w, e) := plainStep mcResume "err" "resume" w m.err
  match mcStateOf? mcResumeState with
  | none => (w.fail, m)
  | some st =>
    let w := if mcResumeExtra.isEmpty then w else w.fail
    match entry mcResume "in_" with
    | none => (w, { m with out := o, err := e, state := st })
    | some (g, call) =>
      if g == "if-in-suspended" && call == "resume+in_suspended:=False" then
        (if m.inSuspended then
          (match m.in_ with
           | none => (w.fail, { m with out := o, err := e, state := st })
           | some c =>
             let r := capMeth "resume" w c
             (r.1, { m with in_ := some r.2, out := o, err := e, state := st, inSuspended := false }))
         else (w, { m with out := o, err := e, state := st }))
      else (w.fail, m)

def mcStopGen (w : W) (m : MC) : W × MC :=
  if mcStopExtra != ["raise-if-stopped"] then (w.fail, m) else
  if m.state == .stopped then (w.fail, m) else
  let (w, o) := plainStep mcStop "out" "done" w m.out
  let (w, e) := plainStep mcStop "err" "done" w m.err
  let (w, i) := plainStep mcStop "in_" "done" w m.in_
  match mcStateOf? mcStopState with
  | some st => (w, { m with in_ := i, out := o, err := e, state := st })
  | none => (w.fail, m)

def capSnapGen (w : W) : Cap → W × Data
  | .sys c => sysSnapGen w c
  | .fd c => fdSnapGen w c

def snapOptGen (w : W) : Option Cap → W × Data
  | none => (w, [])
  | some c => capSnapGen w c

/-- `MultiCapture.readouterr` -/
def mcReadouterrGen (w : W) (m : MC) : W × Data × Data :=
  if mcReadouterr != ["out:=out.snap|''", "err:=err.snap|''", "return(out,err)"] then (w.fail, [], []) else
  let r := snapOptGen w m.out
  let s := snapOptGen r.1 m.err
  (s.1, r.2, s.2)

def capWriteorgGen (w : W) (d : Data) : Cap → W
  | .sys c => sysWriteorgGen w c d
  | .fd c => fdWriteorgGen w c d

/-- `MultiCapture.pop_outerr_to_orig` -/
def mcPopGen (w : W) (m : MC) : W :=
  if mcPop != ["out,err:=readouterr", "if-out:out.writeorg", "if-err:err.writeorg", "return(out,err)"] then w.fail else
  let (w, out, err) := mcReadouterrGen w m
  let w := if out.isEmpty then w else match m.out with | some c => capWriteorgGen w out c | none => w.fail
  if err.isEmpty then w else match m.err with | some c => capWriteorgGen w err c | none => w.fail

/-! ### `CaptureManager` -/

/-- `_get_multicapture` with the generated constructor of `FDCapture` -/
def mkCapGen (w : W) (ctor : String × Nat) : W × Option Cap :=
  match ctor.1 with
  | "fd" => let r := fdInitGen w ctor.2; (r.1, some (.fd r.2))
  | _ => mkCap w ctor

def getMulticaptureGen (w : W) (m : Method) : W × MC :=
  match ctorsOf m with
  | [ci, co, ce] =>
    let (w, i) := mkCapGen w ci
    let (w, o) := mkCapGen w co
    let (w, e) := mkCapGen w ce
    (w, { in_ := i, out := o, err := e })
  | _ => (w.fail, { in_ := none, out := none, err := none })

/-- the statements of a `CaptureManager` method; `if self._capturing is not None:` encloses the whole rest, `try/finally` is
sequencing -/
def runCm (in_ : Bool) : List String → W → CM → W × CM
  | [], w, c => (w, c)
  | s :: rest, w, c =>
    match s with
    | "if-some[" => (match c.capturing with | none => (w, c) | some _ => runCm in_ rest w c)
    | "try[" => runCm in_ rest w c
    | "]finally[" => runCm in_ rest w c
    | "]" => runCm in_ rest w c
    | "assert-none" => (match c.capturing with | some _ => (w.fail, c) | none => runCm in_ rest w c)
    | "capturing:=get_multicapture" =>
      (let r := getMulticaptureGen w c.method; runCm in_ rest r.1 { c with capturing := some r.2 })
    | "capturing:=None" => runCm in_ rest w { c with capturing := none }
    | "mc.start" =>
      (match c.capturing with
       | none => (w.fail, c)
       | some m => let r := mcStartGen w m; runCm in_ rest r.1 { c with capturing := some r.2 })
    | "mc.pop" =>
      (match c.capturing with
       | none => (w.fail, c)
       | some m => runCm in_ rest (mcPopGen w m) c)
    | "mc.stop" =>
      (match c.capturing with
       | none => (w.fail, c)
       | some m => let r := mcStopGen w m; runCm in_ rest r.1 { c with capturing := some r.2 })
    | "mc.resume" =>
      (match c.capturing with
       | none => (w.fail, c)
       | some m => let r := mcResumeGen w m; runCm in_ rest r.1 { c with capturing := some r.2 })
    | "mc.suspend(in_)" =>
      (match c.capturing with
       | none => (w.fail, c)
       | some m => let r := mcSuspendGen w m in_; runCm in_ rest r.1 { c with capturing := some r.2 })
    | _ => (w.fail, c)

def cmStartGen (w : W) (c : CM) : W × CM := runCm false cmStart w c
def cmStopGen (w : W) (c : CM) : W × CM := runCm false cmStop w c
def cmResumeGen (w : W) (c : CM) : W × CM := runCm false cmResume w c
def cmSuspendGen (w : W) (c : CM) (in_ : Bool) : W × CM := runCm in_ cmSuspend w c

/-- `CaptureManager.read` -/
def cmReadGen (w : W) (c : CM) : W × Data × Data :=
  if cmRead != ["assert-some", "return mc.readouterr"] then (w.fail, [], []) else
  match c.capturing with
  | none => (w.fail, [], [])
  | some m => mcReadouterrGen w m

/-! ### Python-level writes: `CaptureIO`, `TeeCaptureIO` -/

/-- The model's picture of a `CaptureIO` — an in-memory buffer that holds every written code point at once, unchanged — is the
picture of a write-through, untranslated (`newline=""`) UTF-8 text layer over `BytesIO` whose `getvalue()` decodes UTF-8. -/
def captureIOFactsOk : Bool :=
  captureIOEncoding == "utf-8" && captureIONewline == some "" && captureIOWriteThrough &&
  captureIOGetvalue == "buffer.getvalue().decode(utf-8)"

/-- the statements of `TeeCaptureIO.write(s)` -/
def runTeeWrite (otherWrite : W → W) (b : Nat) (d : Data) : List String → W → W
  | [], w => w
  | s :: rest, w =>
    match s with
    | "record" => runTeeWrite otherWrite b d rest (w.bufAppend b d)
    | "other.write" => runTeeWrite otherWrite b d rest (otherWrite w)
    | "return other.write" => otherWrite w
    | "return record" => w.bufAppend b d
    | _ => w.fail

/-- `stream.write(d)` -/
def writePyGen (w : W) : Stream → Data → W
  | .orig i, d => w.osWrite i d
  | .file _ p, d => w.osWrite p d
  | .capIO _ b, d => if captureIOFactsOk then w.bufAppend b d else w.fail
  | .teeIO _ b other, d =>
    if captureIOFactsOk then runTeeWrite (fun w' => writePyGen w' other d) b d teeWrite w else w.fail
  | .dontRead _, _ => w

/-! ### hooks of other modules on process-global state -/

/-- the implementations of `pytask_unconfigure` from their extracted bodies -/
def unconfigureGen (cfg : Cfg) (st : St) (impl : String) : St :=
  match impl with
  | "task" =>
    if taskUnconfigure == ["COLLECTED_TASKS.clear()"] then { st with w := { st.w with py := { st.w.py with collected := [] } } }
    else { st with w := st.w.fail }
  | "provisional" =>
    if provisionalUnconfigure == ["TASKS_WITH_PROVISIONAL_NODES.clear()"] then
      { st with w := { st.w with py := { st.w.py with provisional := [] } } }
    else { st with w := st.w.fail }
  | "logging" =>
    -- every class variable that `logging.pytask_post_parse` sets is reset to its default
    if loggingUnconfigure == ["ExecutionReport.editor_url_scheme='file'", "ExecutionReport.show_capture=ShowCapture.ALL",
                              "ExecutionReport.show_locals=False", "Traceback._show_locals=False"]
       && loggingPostParse.length == 4 then
      { st with w := { st.w with py := { st.w.py with reportVars := 0 } } }
    else { st with w := st.w.fail }
  | "debugging" =>
    if debuggingPostParse != "push;set_trace:=PytaskPDB.set_trace" then { st with w := st.w.fail } else
    (match st.w.py.pdbSaved with
     | [] => { st with w := st.w.fail }
     | x :: rest =>
       -- since 15c1e54 (F40): a live display that is still running is stopped, all three saved values are restored and the
       -- cached debugger wrapper class is dropped (live displays and the `PytaskPDB` class attributes are not part of `Py`)
       if debuggingUnconfigure == ["stop-live-if-started", "pop", "set_trace:=popped[0]", "pm:=popped[1]", "config:=popped[2]",
                                   "wrapped:=None"] then
         { st with w := { st.w with py := { st.w.py with setTrace := x, pdbSaved := rest } } }
       else if debuggingUnconfigure == ["pop"] then
         { st with w := { st.w with py := { st.w.py with pdbSaved := rest } } }
       else { st with w := st.w.fail })
  | "capture" =>
    -- `capman = pm.get_plugin("capturemanager"); if capman is not None: with suppress(ValueError): capman.stop_capturing()`
    if captureUnconfigure == ["capman = session.config['pm'].get_plugin('capturemanager')",
                              "if capman is not None:     with contextlib.suppress(ValueError):         capman.stop_capturing()"] then
      (match st.cm with
       | none => { st with w := st.w.fail }
       | some c => let r := cmStopGen st.w c; { st with w := r.1, cm := some r.2 })
    else { st with w := st.w.fail }
  | "database" =>
    if databaseUnconfigure == ["engine = DatabaseSession.kw.get('bind')", "if engine is not None:     engine.dispose()"] then
      (match st.w.py.dbFd with
       | none => st
       | some d => { st with w := { st.w with os := st.w.os.close d, py := { st.w.py with dbFd := none } } })
    else { st with w := st.w.fail }
  | other => step cfg st (.unconfigure other)

/-- what `build()` and the warnings plugin guarantee around the hooks: `pytask_unconfigure` is called unconditionally once
configuration succeeded, `catch_warnings_for_item` runs the task inside `warnings.catch_warnings()`, and
`warnings.pytask_post_parse` only registers the plugin unless `disable_warnings` (it never touches the process-wide
`warnings.filters`: the model's `step (.postParse "warnings")` is the identity), `build.pytask_post_parse` — called after
capturing has started — cannot raise (`with suppress(Exception)`) -/
def frameFactsOk : Bool :=
  warningsIsolated && warningsPostParseRegistersOnly && buildPostParseTolerant && buildUnconfigureUnconditional &&
  Generated.unconfigureAfterLadder

/-! ### from `task.report_sections` to `report.sections` (reports.py) -/

/-- The sections of the execution report, for a succeeding (`from_task`) and a failing (`from_task_and_exception`) task: the
task's `report_sections` list itself — every section, unfiltered, unmodified. Anything else the model cannot speak about. -/
def reportSectionsGen (failed : Bool) (secs : List Sec) : Option (List Sec) :=
  match reportSections with
  | [ok, fail] => if (if failed then fail else ok) == "task.report_sections" then some secs else none
  | _ => none

/-- the constructor `pytask_execute_task_protocol` uses for a task that ended the given way -/
def protocolCtor (branch : String) : Option String := (protocolReports.find? (fun e => e.1 == branch)).map (fun e => e.2)

/-- The sections of the report of a task that ended by `branch` ("else" = returned, "Exception,SystemExit", "KeyboardInterrupt"):
the protocol builds the report through `from_task` / `from_task_and_exception`, which hand over `task.report_sections`. -/
def reportSectionsFor (branch : String) (secs : List Sec) : Option (List Sec) :=
  match protocolCtor branch with
  | some "from_task" => reportSectionsGen false secs
  | some "from_task_and_exception" => reportSectionsGen true secs
  | _ => none

end Gen
end Pytask.Capture
