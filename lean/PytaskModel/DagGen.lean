import PytaskModel.Engine
/-!
# M6-gen (DAG) — `create_dag` computed from the translator's description of dag.py and the selection

Interpreters over `Generated.Dag.*` (harness/extract_dag.py): `_create_dag_from_tasks`, `_modify_dag`,
`_check_if_tasks_have_the_same_products`, the selection of mark/__init__.py and the step sequence of
`create_dag_from_session` (with the graph *variable* each step reads, and Python's aliasing of an in-place modified graph).
`PytaskProofs/Properties/DagTie.lean` proves them equal to `Engine.baseGraph` / `modifyDag` / `sharedProduct` / `deselected` /
`createDag`. networkx stays trusted. Core Lean only.
-/
namespace Pytask
namespace DagGen
open Engine Generated.Dag

/-! ### `_create_dag_from_tasks` -/

/-- One graph operation for node `d` of task `t`; `wrap d = some d'` means `d` is a PythonNode whose value is the
PythonNode `d'` (a product of another task handed over as a dependency). -/
def nodeOp (wrap : Nat → Option Nat) (t : TaskSpec) (d : Nat) (g : G) : NodeOp → G
  | .addNode => g.addNode (nv d)
  | .edgeToTask => g.addEdge (nv d) (tv t.id)
  | .edgeFromTask => g.addEdge (tv t.id) (nv d)
  | .wrapperEdge => match wrap d with
    | some d' => g.addEdge (nv d') (nv d)
    | none => g

def createStep (wrap : Nat → Option Nat) (t : TaskSpec) (g : G) : CStep → G
  | .addTask => g.addNode (tv t.id)
  | .forDeps ops => t.deps.foldl (fun g d => ops.foldl (nodeOp wrap t d) g) g
  | .forProds ops => t.prods.foldl (fun g p => ops.foldl (nodeOp wrap t p) g) g

def baseGraphGen (wrap : Nat → Option Nat) (P : Project) : G :=
  P.tasks.foldl (fun g t => createSteps.foldl (createStep wrap t) g) G.empty

/-! ### `_modify_dag` -/

def viaOf (g : G) : Via → Nat → List Nat
  | .successors => g.succs
  | .predecessors => g.preds

/-- `kindOf t` says whether task `t` declared `after` as a list of tasks or as an expression. -/
def modifyDagGen (kindOf : Nat → AKind) (P : Project) (g : G) : G :=
  P.tasks.foldl (fun g t =>
    match modifyBranches.find? (fun b => decide (b.kind = kindOf t.id)) with
    | none => g
    | some b =>
      let targets := if b.discardSelf then t.after.filter (fun o => !(o == t.id)) else t.after
      targets.foldl (fun g o => (viaOf g b.via (tv o)).foldl (fun g s => g.addEdge s (tv t.id)) g) g) g

/-! ### `_check_if_tasks_have_the_same_products` -/

def hasKey (k : String) (v : Nat) : Bool :=
  if k == "node" then !isTaskV v else if k == "task" then isTaskV v else false

def cmpNat : Cmp → Nat → Nat → Bool
  | .gt, a, b => decide (a > b)
  | .ge, a, b => decide (a ≥ b)
  | .eq, a, b => a == b

def sharedProductGen (g : G) : Bool :=
  g.nodes.any (fun v => hasKey productKey v && cmpNat productCmp (g.preds v).length productBound)

/-! ### the selection -/

def closureOf (g : G) (c : Closure) (t : Nat) : List Nat :=
  match c with
  | .selfAndAncestors => t :: taskAnc g t
  | .ancestors => taskAnc g t
  | .selfAndDescendants => t :: taskDesc g t
  | .descendants => taskDesc g t
  | .selfOnly => [t]

def selOf (cfg : Cfg) : Sel → Option (List Nat)
  | .keyword => cfg.selK
  | .mark => cfg.selM

def remaining (g : G) (arm : Sel) (s : List Nat) : List Nat :=
  match selectClosures.find? (fun e => decide (e.1 = arm)) with
  | some e => s.flatMap (closureOf g e.2)
  | none => []

/-- tasks that receive a (skip) mark, one deselection per given option in the order of `selectArms`. -/
def deselectedGen (P : Project) (g : G) (cfg : Cfg) : List Nat :=
  selectArms.flatMap (fun arm => match selOf cfg arm with
    | none => []
    | some s => (P.tasks.map (·.id)).filter (fun t => !(remaining g arm s).contains t))

/-! ### `create_dag_from_session` -/

structure DState where
  obj : Nat → Nat          -- version of the graph variable ↦ object
  heap : Nat → G           -- object ↦ graph
  next : Nat
  marks : List Nat

def upd {α} (f : Nat → α) (k : Nat) (x : α) : Nat → α := fun j => if j == k then x else f j

def getG (st : DState) (v : Nat) : G := st.heap (st.obj v)

def stepGen (kindOf : Nat → AKind) (P : Project) (cfg : Cfg) (st : DState) (f : Flow) : Except DagErr DState :=
  if f.op == "create" then
    .ok { st with obj := upd st.obj f.output st.next, heap := upd st.heap st.next (baseGraphGen (fun _ => none) P), next := st.next + 1 }
  else if f.op == "cycles" then
    if cyclesWholeGraph && (getG st f.input).hasCycle then .error .cycle else .ok st
  else if f.op == "products" then
    if sharedProductGen (getG st f.input) then .error .sharedProduct else .ok st
  else if f.op == "modify" then
    let g' := modifyDagGen kindOf P (getG st f.input)
    if modifyInPlace then
      .ok { st with heap := upd st.heap (st.obj f.input) g', obj := upd st.obj f.output (st.obj f.input) }
    else
      .ok { st with heap := upd st.heap st.next g', obj := upd st.obj f.output st.next, next := st.next + 1 }
  else if f.op == "select" then
    if selectMark == "skip" then .ok { st with marks := st.marks ++ deselectedGen P (getG st f.input) cfg }
    else .error .cycle
  else .error .cycle

def runFlow (kindOf : Nat → AKind) (P : Project) (cfg : Cfg) : DState → List Flow → Except DagErr DState
  | st, [] => .ok st
  | st, f :: fs => match stepGen kindOf P cfg st f with
    | .error e => .error e
    | .ok st' => runFlow kindOf P cfg st' fs

def createDagGen (kindOf : Nat → AKind) (P : Project) (cfg : Cfg) : Except DagErr (G × List Nat) :=
  match runFlow kindOf P cfg { obj := fun _ => 0, heap := fun _ => G.empty, next := 1, marks := [] } flow with
  | .error e => .error e
  | .ok st => .ok (getG st flowReturn, st.marks)

end DagGen
end Pytask
