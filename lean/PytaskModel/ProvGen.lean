import PytaskModel.Provisional
/-!
# M7-gen — provisional nodes and generators computed from the translator's description of the source

`Provisional.lean` writes out by hand what `provisional.py`, `provisional_utils.py` and `DirectoryNode` do. This file
contains *interpreters* over the data that `harness/extract_provgen.py` reads from the source (`Generated.Prv.*`: the
statements of `provisional.pytask_execute_task_setup`, `collect_provisional_products`, `collect_provisional_nodes`, the
generator branch of `provisional.pytask_execute_task`, the `try` and the handler of `recreate_dag`,
`DirectoryNode.collect`). `PytaskProofs/Properties/ProvTie.lean` proves each interpreter equal to the corresponding
`Prov.*` definition for all arguments, so a source change that alters an extracted fact breaks those theorems.

Conventions (the abstractions of `Provisional.lean`): a leaf that is no provisional node is a slot with `res = some _`;
`node.collect()` of a `DirectoryNode` is `Pat.glob`; kwargs loading has no effect on the session; collecting the tasks
a generator defined succeeds; `pytask_collect_modify_tasks` does nothing. Core Lean only.
-/
namespace Pytask
namespace ProvGen
open Prov Generated.Prv
open Engine (createDag isTaskV)

/-- `DirectoryNode.collect`. -/
def globGen : GlobKind → Pat → FS → List Nat
  | .rootDirGlob, π, fs => π.glob fs

/-- `collect_provisional_nodes` on one leaf: the new leaf, and whether the task was registered. -/
def slotRun (fs : FS) (sl : Slot) : List NStep → Bool → Option (List Nat) → Slot × Bool
  | [], reg, _ => (sl, reg)
  | .passNonProvisional :: r, reg, c => if sl.res.isSome then (sl, reg) else slotRun fs sl r reg c
  | .register :: r, _, c => slotRun fs sl r true c
  | .collect :: r, reg, _ => slotRun fs sl r reg (some (globGen dirCollect sl.pat fs))
  | .returnCollected :: _, reg, c => ({ sl with res := some (c.getD []) }, reg)

def slotGen (fs : FS) (sl : Slot) : Slot × Bool := slotRun fs sl nodeSteps false none

def rootOutcome : ROutcome → Outcome
  | .fail => Outcome.fail
  | .skipPrevFailed => Outcome.skipPrevFailed

/-- `recreate_dag`: the statements inside the `try`; `Except.error s` = an exception was raised in state `s`. -/
def tryRun : List TStep → Sess → Except Sess Sess
  | [], s => .ok s
  | .setDag :: r, s =>
    match createDag (toProject s.tasks) {} with
    | .error _ => .error s
    | .ok (g, _) => tryRun r { s with g := g }
  | .renewSkipMarks :: r, s => tryRun r s     -- `skip` marks below tasks with outcome SKIP: none in M7
  | .renewFailMarks roots :: r, s =>   -- `skip_ancestor_failed` below the reports with one of the extracted outcomes (ee6b73e, 501f7e1)
    tryRun r { s with renewed := renewMarks (roots.map rootOutcome) s.g s }
  | .setScheduler :: r, s =>
    match Sorter.fromDagAndSorter s.g isTaskV prio0 s.so with
    | .error _ => .error s
    | .ok so => tryRun r { s with so := so }

def handlerRun (t : Nat) : List XStep → Sess → Sess
  | [], s => s
  | .appendFailReport :: r, s => handlerRun t r { s with reports := s.reports ++ [(t, Outcome.fail)] }
  | .setShouldStop :: r, s => handlerRun t r { s with stop := true }

/-- `recreate_dag` (every exception the model can raise there derives from `Exception`). -/
def recreateGen (s : Sess) (t : Nat) : Sess :=
  match tryRun recreateTry s with
  | .ok s' => s'
  | .error s' => if recreateCatches.contains "Exception" || recreateCatches.contains "BaseException" then handlerRun t recreateHandler s'
                 else { s' with crashed := true }

def condGen (s : Sess) (t : Nat) : RCond → Bool
  | .always => true
  | .registered => s.twp.contains t
  | .notRegistered => !s.twp.contains t

/-- `task.<attr> = tree_map_with_path(collect_provisional_nodes …, task.<attr>)`: if no leaf was provisional the tree is
returned as it was. -/
def resolveGen (s : Sess) (t : Nat) (a : Attr) : Sess :=
  match findTask s.tasks t with
  | none => s
  | some tk =>
    let slots := match a with | .dependsOn => tk.pdeps | .produces => tk.pprods
    let rs := slots.map (slotGen s.w.fs)
    if rs.any (·.2) then
      let tk' : PTask := match a with
        | .dependsOn => { tk with pdeps := rs.map (·.1) }
        | .produces => { tk with pprods := rs.map (·.1) }
      { s with tasks := setTask s.tasks tk', twp := addTwp s.twp t }
    else s

/-- The statements of `provisional.pytask_execute_task_setup` / `collect_provisional_products`. -/
def hookRun (t : Nat) : List HStep → Sess → Sess
  | [], s => s
  | .resolve a :: r, s => hookRun t r (resolveGen s t a)
  | .recreate c :: r, s => hookRun t r (if condGen s t c then recreateGen s t else s)
  | .retIfGenerator :: r, s => if isGen s.tasks t then s else hookRun t r s

def setupProvisionalGen (s : Sess) (t : Nat) : Sess := hookRun t setupSteps s
def collectProductsGen (s : Sess) (t : Nat) : Sess := hookRun t productsSteps s

/-- The generator branch of `provisional.pytask_execute_task`: (session, raised, returned result). -/
def genRun (Y : YieldFn) (tk : PTask) : List GStep → Sess → List PTask → Sess × Bool × Bool
  | [], s, _ => (s, false, false)
  | .loadDeps _ :: r, s, k => genRun Y tk r s k
  | .loadProds _ _ :: r, s, k => genRun Y tk r s k
  | .call :: r, s, _ => if tk.fails then (invoke s tk, true, false) else genRun Y tk r (invoke s tk) (Y tk.id (received tk))
  | .parseDefined raises :: r, s, k => if k.isEmpty && raises then (s, true, false) else genRun Y tk r s k
  | .collectEach :: r, s, k => genRun Y tk r s k
  | .raiseOnCollectFail :: r, s, k => if k.any (·.uncollectable) then (s, true, false) else genRun Y tk r s k
  | .raiseOnDuplicate :: r, s, k => if nameClash s.tasks k then (s, true, false) else genRun Y tk r s k
  | .extendTasks :: r, s, k => genRun Y tk r { s with tasks := s.tasks ++ k } k
  | .modifyTasks :: r, s, k => genRun Y tk r s k
  | .recreate c :: r, s, k => genRun Y tk r (if condGen s tk.id c then recreateGen s tk.id else s) k
  | .ret v :: _, s, _ => (s, false, v)

/-- `provisional.pytask_execute_task`. -/
def execProvGen (Y : YieldFn) (s : Sess) (t : Nat) : Sess × Bool × Bool :=
  match findTask s.tasks t with
  | none => (s, true, false)
  | some tk => if tk.gen then genRun Y tk genSteps s [] else (s, false, genElseReturns)

end ProvGen
end Pytask

namespace Pytask
namespace ProvGen
open Prov Generated.Prv Generated.Eng

/-- A `DirectoryNode` declaration: the values of its attributes (abstractly). -/
structure DirDecl where
  name : Nat
  rootDir : Nat
  pattern : Nat

def DirDecl.field (d : DirDecl) (f : String) : Option Nat :=
  if f == "name" then some d.name else if f == "root_dir" then some d.rootDir else if f == "pattern" then some d.pattern else none

/-- `DirectoryNode.signature`: the hashed attributes, in the order of `Generated.sigDirNodeFields` (extract_hash). -/
def sigGen (d : DirDecl) : List (Option Nat) := Generated.sigDirNodeFields.map d.field

/-- Tests of a `pytask_execute_task_process_report` arm, for a report whose outcome is still the one it was created with
(SUCCESS without exception, FAIL with one); `none` = not interpretable here. -/
def rtestGen (noExc gen : Bool) : RTest → Option Bool
  | .tt => some true
  | .hasExc => some (!noExc)
  | .excIs _ => none
  | .outcomeIs .SUCCESS => some noExc
  | .outcomeIs .FAIL => some (!noExc)
  | .outcomeIs _ => some false
  | .generator => some gen
  | .not c => (rtestGen noExc gen c).map (!·)
  | .and a b => match rtestGen noExc gen a, rtestGen noExc gen b with | some x, some y => some (x && y) | _, _ => none
  | .or a b => match rtestGen noExc gen a, rtestGen noExc gen b with | some x, some y => some (x || y) | _, _ => none

def armsRun (s : Sess) (t : Nat) (r : Engine.Raised) : List RArm → Option (Option Sess)
  | [] => some none
  | a :: as =>
    match rtestGen (r == .none) (isGen s.tasks t) a.test with
    | none => none
    | some false => armsRun s t r as
    | some true =>
      match a.acts, a.ends with
      | [], .retTrue => some (some (addReport s t (if r == .none then .success else .fail)))
      | [], .retNone => some none
      | [], .fall => armsRun s t r as
      | _, _ => none

/-- `provisional.pytask_execute_task_process_report`, from `Eng.reportImpls` (extract_engine). -/
def provReportGen (s : Sess) (t : Nat) (r : Engine.Raised) : Option (Option Sess) :=
  match reportImpls.find? (fun i => i.name == "provisional") with
  | some impl => match impl.chains with
    | [c] => armsRun s t r c
    | [] => some none
    | _ => none
  | none => some none

/-! ## `skipif` marks: the condition as the re-creation of the DAG reads it, and as the regular skip logic reads it -/

/-- A `skipif` mark: the truthiness of its positional arguments and of its keyword arguments. -/
structure SMark where
  args : List Bool
  kwargs : List (String × Bool)

def kwLookup (k : String) : List (String × Bool) → Option Bool
  | [] => none
  | (k', v) :: r => if k' == k then some v else kwLookup k r

/-- What an extracted reader (`_is_condition_true`) returns; `none` = it raises. -/
def condEval : CExpr → SMark → Option Bool
  | .arg0, m => m.args.head?
  | .kw k d, m => some ((kwLookup k m.kwargs).getD d)
  | .ifArgs t e, m => if m.args.isEmpty then condEval e m else condEval t m
  | .neg e, m => (condEval e m).map (!·)
  | .lit b, _ => some b

/-- Python's binding of `skipif(*mark.args, **mark.kwargs)` for `def skipif(<p>, *, reason)`: the condition is the one positional
argument or the keyword `<p>`; `none` = TypeError (no condition, two positional arguments, or both spellings). -/
def skipifBind (p : String) (m : SMark) : Option Bool :=
  match m.args, kwLookup p m.kwargs with
  | [a], none => some a
  | [], some v => some v
  | _, _ => none

/-! ## the `root_dir` of a DirectoryNode in `pytask_collect_node` -/

inductive Comp | up | dot | name (n : Nat)
deriving DecidableEq, Repr

/-- A declared path: absolute or relative, components as spelled. -/
structure RPath where
  abs : Bool
  comps : List Comp
deriving DecidableEq, Repr

/-- `os.path.normpath` of an absolute path (`acc` = the components so far, reversed): `/..` is `/`. -/
def normAbs : List Comp → List Comp → List Comp
  | acc, [] => acc.reverse
  | acc, .dot :: r => normAbs acc r
  | acc, .up :: r => normAbs acc.tail r
  | acc, .name n :: r => normAbs (.name n :: acc) r

/-- `os.path.normpath` of a relative path: a `..` with nothing to remove stays. -/
def normRel : List Comp → List Comp → List Comp
  | acc, [] => acc.reverse
  | acc, .dot :: r => normRel acc r
  | acc, .up :: r => match acc with
    | .name _ :: a => normRel a r
    | _ => normRel (.up :: acc) r
  | acc, .name n :: r => normRel (.name n :: acc) r

def RPath.norm (p : RPath) : RPath := { p with comps := if p.abs then normAbs [] p.comps else normRel [] p.comps }

/-- One extracted step on the root_dir; `d` = the directory of the task module (absolute). -/
def rootStep (d : List Comp) : RStep → RPath → RPath
  | .joinModuleDir, p => if p.abs then p else { abs := true, comps := d ++ p.comps }
  | .normalise, p => p.norm
  | .checkCasing, p => p

def rootRun (d : List Comp) (steps : List RStep) (p : RPath) : RPath := steps.foldl (fun q st => rootStep d st q) p

/-- what `pytask_collect_node` makes of a declared root_dir, from the extracted steps -/
def rootDirGen (d : List Comp) (p : RPath) : RPath := rootRun d (if p.abs then rootDirAbsolute else rootDirRelative) p

/-- The directory a declaration denotes: the spelled path below the directory of its module, normalised. -/
def rootDirRef (d : List Comp) (p : RPath) : RPath := { abs := true, comps := normAbs [] (if p.abs then p.comps else d ++ p.comps) }

end ProvGen
end Pytask
