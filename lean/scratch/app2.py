import sys
src=open(sys.argv[1]).read(); dst=sys.argv[2]
mark="open Engine (lookup taskAnc taskDesc tv nv isTaskV hasChanged stateOf neighbours)\n"
body=src[src.index(mark)+len(mark):src.rindex("end Pytask")]
d=open(dst).read()
i=d.rindex("end Pytask")
open(dst,'w').write(d[:i]+body.strip("\n")+"\n\n"+d[i:])
