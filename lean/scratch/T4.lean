import PytaskProofs.Lemmas.Provisional
namespace Pytask
namespace Prov
open Engine Sorter

/-! ## Graph facts: what `create_dag_from_session` guarantees about the graph it returns -/

theorem mem_addNode_nodes {g : G} {v x : Nat} : x ∈ (g.addNode v).nodes ↔ x ∈ g.nodes ∨ x = v := by
  unfold G.addNode
  by_cases h : g.nodes.contains v = true
  · simp only [h, if_true]
    constructor
    · exact Or.inl
    · rintro (h' | rfl)
      · exact h'
      · simpa using h
  · have h' : v ∉ g.nodes := by simpa using h
    simp [h']

@[simp] theorem addNode_edges (g : G) (v : Nat) : (g.addNode v).edges = g.edges := by
  unfold G.addNode; split <;> rfl

theorem mem_addEdge_edges {g : G} {u v : Nat} {e : Nat × Nat} :
    e ∈ (g.addEdge u v).edges ↔ e ∈ g.edges ∨ e = (u, v) := by
  unfold G.addEdge
  simp only [addNode_edges]
  by_cases h : g.edges.contains (u, v) = true
  · simp only [h, if_true, addNode_edges]
    constructor
    · exact Or.inl
    · rintro (h' | rfl)
      · exact h'
      · simpa using h
  · have h' : (u, v) ∉ g.edges := by simpa using h
    simp [h']

theorem mem_addEdge_nodes {g : G} {u v x : Nat} :
    x ∈ (g.addEdge u v).nodes ↔ x ∈ g.nodes ∨ x = u ∨ x = v := by
  unfold G.addEdge
  simp only [addNode_edges]
  split <;> simp [mem_addNode_nodes, or_assoc]

/-- `g ≤ g'`: nothing was removed. -/
def GLe (g g' : G) : Prop := (∀ x ∈ g.nodes, x ∈ g'.nodes) ∧ (∀ e ∈ g.edges, e ∈ g'.edges)

theorem GLe.refl (g : G) : GLe g g := ⟨fun _ h => h, fun _ h => h⟩
theorem GLe.trans {a b c : G} (h1 : GLe a b) (h2 : GLe b c) : GLe a c :=
  ⟨fun x h => h2.1 x (h1.1 x h), fun e h => h2.2 e (h1.2 e h)⟩
theorem GLe.addEdge (g : G) (u v : Nat) : GLe g (g.addEdge u v) :=
  ⟨fun _ h => mem_addEdge_nodes.2 (Or.inl h), fun _ h => mem_addEdge_edges.2 (Or.inl h)⟩
theorem GLe.addNode (g : G) (v : Nat) : GLe g (g.addNode v) :=
  ⟨fun _ h => mem_addNode_nodes.2 (Or.inl h), fun _ h => by simpa using h⟩

theorem GLe.foldl {α} (f : G → α → G) (hf : ∀ g x, GLe g (f g x)) : ∀ (xs : List α) (g : G), GLe g (xs.foldl f g)
  | [], g => GLe.refl g
  | x :: xs, g => (hf g x).trans (GLe.foldl f hf xs (f g x))

/-- The per-task step of `_create_dag_from_tasks`. -/
def baseStep (g : G) (t : TaskSpec) : G :=
  let g := g.addNode (tv t.id)
  let g := t.deps.foldl (fun g d => g.addEdge (nv d) (tv t.id)) g
  t.prods.foldl (fun g p => g.addEdge (tv t.id) (nv p)) g

theorem baseGraph_eq (P : Project) : baseGraph P = P.tasks.foldl baseStep G.empty := rfl

theorem foldl_addEdge_mem {α} (mk : α → Nat × Nat) : ∀ (xs : List α) (g : G) (x : α), x ∈ xs →
    mk x ∈ (xs.foldl (fun g y => g.addEdge (mk y).1 (mk y).2) g).edges
  | y :: ys, g, x, hx => by
    simp only [List.foldl_cons]
    rcases List.mem_cons.1 hx with rfl | hx
    · exact (GLe.foldl _ (fun g y => GLe.addEdge g _ _) ys _).2 _ (mem_addEdge_edges.2 (Or.inr rfl))
    · exact foldl_addEdge_mem mk ys _ x hx

theorem baseStep_le (g : G) (t : TaskSpec) : GLe g (baseStep g t) := by
  unfold baseStep
  exact ((GLe.addNode g _).trans (GLe.foldl _ (fun g d => GLe.addEdge g _ _) _ _)).trans
    (GLe.foldl _ (fun g p => GLe.addEdge g _ _) _ _)

theorem baseStep_spec (g : G) (t : TaskSpec) :
    tv t.id ∈ (baseStep g t).nodes ∧ (∀ d ∈ t.deps, (nv d, tv t.id) ∈ (baseStep g t).edges) ∧
      (∀ p ∈ t.prods, (tv t.id, nv p) ∈ (baseStep g t).edges) := by
  unfold baseStep
  refine ⟨?_, ?_, ?_⟩
  · exact ((GLe.foldl _ (fun g d => GLe.addEdge g _ _) _ _).trans (GLe.foldl _ (fun g p => GLe.addEdge g _ _) _ _)).1 _
      (mem_addNode_nodes.2 (Or.inr rfl))
  · intro d hd
    exact (GLe.foldl _ (fun g p => GLe.addEdge g _ _) _ _).2 _
      (foldl_addEdge_mem (fun d => (nv d, tv t.id)) t.deps _ d hd)
  · intro p hp
    exact foldl_addEdge_mem (fun p => (tv t.id, nv p)) t.prods _ p hp

theorem baseGraph_spec (P : Project) (t : TaskSpec) (ht : t ∈ P.tasks) :
    tv t.id ∈ (baseGraph P).nodes ∧ (∀ d ∈ t.deps, (nv d, tv t.id) ∈ (baseGraph P).edges) ∧
      (∀ p ∈ t.prods, (tv t.id, nv p) ∈ (baseGraph P).edges) := by
  rw [baseGraph_eq]
  generalize G.empty = g0
  obtain ⟨tasks⟩ := P
  simp only at ht ⊢
  induction tasks generalizing g0 with
  | nil => cases ht
  | cons x xs ih =>
    simp only [List.foldl_cons]
    rcases List.mem_cons.1 ht with rfl | ht
    · have h := baseStep_spec g0 t
      have hle := GLe.foldl baseStep baseStep_le xs (baseStep g0 t)
      exact ⟨hle.1 _ h.1, fun d hd => hle.2 _ (h.2.1 d hd), fun p hp => hle.2 _ (h.2.2 p hp)⟩
    · exact ih _ ht

theorem modifyDag_le (P : Project) (g : G) : GLe g (modifyDag P g) := by
  unfold modifyDag
  refine GLe.foldl _ (fun g t => ?_) _ _
  refine GLe.foldl _ (fun g o => ?_) _ _
  split
  · exact GLe.refl g
  · exact GLe.foldl _ (fun g s => GLe.addEdge g _ _) _ _

/-- `create_dag_from_session` without `-k`/`-m`, in the extracted step order: the graph it returns. -/
theorem createDag_ok {P : Project} {g : G} {m : List Nat} (h : createDag P {} = .ok (g, m)) :
    g = modifyDag P (baseGraph P) ∧ g.hasCycle = false := by
  simp only [createDag, createDag.go, Generated.dagPipeline, String.reduceBEq, Bool.false_eq_true, if_false, if_true] at h
  split at h
  · cases h
  split at h
  · cases h
  split at h
  · cases h
  rename_i hc
  simp only [Except.ok.injEq, Prod.mk.injEq] at h
  exact ⟨h.1.symm, by rw [← h.1]; simpa using hc⟩

theorem createDag_spec {ts : List PTask} {g : G} {m : List Nat} (h : createDag (toProject ts) {} = .ok (g, m))
    (u : PTask) (hu : u ∈ ts) :
    tv u.id ∈ g.nodes ∧ (∀ d ∈ u.allDeps, (nv d, tv u.id) ∈ g.edges) ∧ (∀ p ∈ u.allProds, (tv u.id, nv p) ∈ g.edges) := by
  obtain ⟨rfl, _⟩ := createDag_ok h
  have hm : toSpec u ∈ (toProject ts).tasks := List.mem_map.2 ⟨u, hu, rfl⟩
  have hb := baseGraph_spec (toProject ts) (toSpec u) hm
  have hle := modifyDag_le (toProject ts) (baseGraph (toProject ts))
  exact ⟨hle.1 _ hb.1, fun d hd => hle.2 _ (hb.2.1 d hd), fun p hp => hle.2 _ (hb.2.2 p hp)⟩

end Prov
end Pytask
