import PytaskModel.Engine
import PytaskProofs.Lemmas.GraphReach
namespace Pytask.Engine

theorem setupImpl_provisional (P : Project) (g : G) (cfg : Cfg) (s : Sess) (t : TaskSpec) :
    setupImpl P g cfg s t "provisional" = .none := by
  simp [setupImpl]

theorem createDag_ok {P : Project} {cfg : Cfg} {g : G} {marks : List Nat}
    (h : createDag P cfg = .ok (g, marks)) :
    g = modifyDag P (baseGraph P) ∧ marks = deselected P g cfg ∧ g.hasCycle = false := by
  simp only [createDag, Generated.dagPipeline, createDag.go] at h
  simp at h
  trace_state
  sorry
end Pytask.Engine
