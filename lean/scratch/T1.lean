import PytaskModel.Catalog
namespace Pytask.Catalog

#check @Function.Injective
theorem inClass_doc (c : Char) : inClass Generated.catalogNameClass c = docChar c := by
  simp only [inClass, Generated.catalogNameClass, docChar, List.any_cons, List.any_nil, Bool.or_false]
  have h1 : ∀ (a b : Char), (a ≤ b) ↔ a.toNat ≤ b.toNat := by
    intro a b; exact Iff.rfl
  have h2 : ∀ (a : Char), (c == a) = decide (c.toNat = a.toNat) := by
    intro a
    by_cases h : c = a
    · subst h; simp
    · have : c.toNat ≠ a.toNat := by
        intro h'; apply h; exact Char.ext (by
          have : c.val.toNat = a.val.toNat := h'
          exact UInt32.toNat_inj.1 this)
      simp [h, this]
  simp only [h1, h2]
  have e1 : 'a'.toNat = 97 := rfl
  have e2 : 'z'.toNat = 122 := rfl
  have e3 : 'A'.toNat = 65 := rfl
  have e4 : 'Z'.toNat = 90 := rfl
  have e5 : '0'.toNat = 48 := rfl
  have e6 : '9'.toNat = 57 := rfl
  have e7 : '-'.toNat = 45 := rfl
  have e8 : '_'.toNat = 95 := rfl
  simp only [e1, e2, e3, e4, e5, e6, e7, e8]
  generalize c.toNat = n
  rw [Bool.eq_iff_iff]
  simp only [Bool.and_eq_true, Bool.or_eq_true, decide_eq_true_iff]
  omega
end Pytask.Catalog
