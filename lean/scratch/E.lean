import PytaskProofs.Lemmas.EngineComplete
open Pytask Pytask.Engine
def c06W : World := ⟨[(10, 5), (90, 1), (91, 2)], []⟩
def c06F : BodyFn := fun t i _ _ => t + i + 1
#eval (build c06F ⟨[{ id := 0, src := 90, deps := [], prods := [20], after := [], beh := .raisesEarly },
                            { id := 1, src := 90, deps := [20], prods := [21], after := [] },
                            { id := 2, src := 90, deps := [], prods := [22], after := [], skip := true },
                            { id := 3, src := 90, deps := [], prods := [23], after := [] }]⟩
      {} c06W [0, 3, 2, 1]).toOption.map (fun r => (r.exit, r.complete, r.reports, r.log))
