import PytaskProofs.Lemmas.Provisional
namespace Pytask
namespace Prov
open Engine Sorter

/-! ## What the phases do to the world, the body log and the received-lists log -/

/-- Fields no setup / teardown bookkeeping touches. -/
def SameObs (s s' : Sess) : Prop :=
  s'.w = s.w ∧ s'.log = s.log ∧ s'.recv = s.recv ∧ s'.failMarks = s.failMarks ∧ s'.crashed = s.crashed

theorem SameObs.refl (s : Sess) : SameObs s s := ⟨rfl, rfl, rfl, rfl, rfl⟩
theorem SameObs.trans {a b c : Sess} (h1 : SameObs a b) (h2 : SameObs b c) : SameObs a c :=
  ⟨h2.1.trans h1.1, h2.2.1.trans h1.2.1, h2.2.2.1.trans h1.2.2.1, h2.2.2.2.1.trans h1.2.2.2.1, h2.2.2.2.2.trans h1.2.2.2.2⟩

theorem recreate_sameObs (x : Sess) (t : Nat) : SameObs x (recreate x t) := by
  have h := recreate_frame x t
  exact ⟨h.2.1, h.2.2.1, h.2.2.2.1, h.2.2.2.2.1, h.2.2.2.2.2.1⟩

/-- The task record after `provisional.pytask_execute_task_setup`. -/
def resolvedDeps (fs : FS) (tk : PTask) : PTask :=
  if unresolved tk.pdeps then { tk with pdeps := tk.pdeps.map (Slot.resolve fs) } else tk

theorem setupProvisional_spec (s : Sess) (t : Nat) (tk : PTask) (hf : findTask s.tasks t = some tk) :
    SameObs s (setupProvisional s t) ∧ findTask (setupProvisional s t).tasks t = some (resolvedDeps s.w.fs tk) := by
  unfold setupProvisional resolvedDeps
  rw [hf]
  simp only []
  by_cases hu : unresolved tk.pdeps = true
  · simp only [hu, if_true, addTwp_contains]
    refine ⟨recreate_sameObs _ t, ?_⟩
    rw [(recreate_frame _ t).1]
    have hid : tk.id = t := findTask_id hf
    have := findTask_setTask_self s.tasks { tk with pdeps := tk.pdeps.map (Slot.resolve s.w.fs) } (by show (findTask s.tasks tk.id).isSome = true; rw [hid, hf]; rfl)
    rw [← hid]
    exact this
  · simp only [hu, Bool.false_eq_true, if_false]
    split
    · exact ⟨recreate_sameObs _ t, by rw [(recreate_frame _ t).1]; exact hf⟩
    · exact ⟨SameObs.refl s, hf⟩

theorem collectProducts_sameObs (s : Sess) (t : Nat) : SameObs s (collectProducts s t) := by
  unfold collectProducts
  split
  · exact SameObs.refl s
  · simp only []
    split
    · exact SameObs.refl s
    · split <;> split <;> first | exact recreate_sameObs _ t | exact SameObs.refl s

theorem setupExecute_sameObs (s : Sess) (t : Nat) : SameObs s (setupExecute s t).1 := by
  unfold setupExecute
  split
  · exact SameObs.refl s
  · split
    · exact SameObs.refl s
    · split
      · exact SameObs.refl s
      · exact SameObs.refl s
      · exact collectProducts_sameObs s t

theorem setupExecute_none_tasks (s : Sess) (t : Nat) (h : (setupExecute s t).2 = Raised.none) :
    (setupExecute s t).1 = s := by
  unfold setupExecute at h ⊢
  cases hf : findTask s.tasks t with
  | none => rfl
  | some tk =>
    simp only [hf] at h ⊢
    by_cases hg : tk.gen = true
    · simp [hg]
    · simp only [hg, Bool.false_eq_true, if_false] at h ⊢
      cases hs : scanP (toProject s.tasks) s.g s.w (provNodes s.tasks) t false (neighbours s.g t) <;>
        simp only [hs] at h ⊢
      cases h

theorem teardown_sameObs (s : Sess) (t : Nat) : SameObs s (teardown s t).1 := by
  unfold teardown
  split
  · exact SameObs.refl s
  · split
    · exact SameObs.refl s
    · simp only []
      split
      · exact collectProducts_sameObs s t
      · split <;> exact collectProducts_sameObs s t

theorem genExecute_obs (Y : YieldFn) (s : Sess) (tk : PTask) :
    (genExecute Y s tk).1.w = s.w ∧ (genExecute Y s tk).1.log = s.log ++ [tk.id] ∧
      (genExecute Y s tk).1.recv = s.recv ++ [⟨tk.id, received tk, seenBy tk s.w.fs⟩] ∧
      (genExecute Y s tk).1.failMarks = s.failMarks ∧ (genExecute Y s tk).1.crashed = s.crashed := by
  unfold genExecute
  simp only []
  split
  · simp [invoke]
  · split
    · simp [invoke]
    · have h := recreate_frame { invoke s tk with tasks := (invoke s tk).tasks ++ Y tk.id (received tk) } tk.id
      simp only [h.2.1, h.2.2.1, h.2.2.2.1, h.2.2.2.2.1, h.2.2.2.2.2.1]
      simp [invoke]

/-- Everything `runPhases` can do to the observable part of the session: either no body ran (world, body log and
received-lists log are unchanged), or the body ran exactly once, on the task record left by the `provisional`
setup implementation, in the world the protocol started in. -/
theorem runPhases_obs (Y : YieldFn) (F : BodyFn) (s : Sess) (t : Nat) (tk : PTask) (hf : findTask s.tasks t = some tk) :
    ((runPhases Y F s t).1.log = s.log ∧ (runPhases Y F s t).1.recv = s.recv ∧ (runPhases Y F s t).1.w = s.w) ∨
    ((runPhases Y F s t).1.log = s.log ++ [t] ∧
      (runPhases Y F s t).1.recv = s.recv ++ [⟨t, received (resolvedDeps s.w.fs tk), seenBy (resolvedDeps s.w.fs tk) s.w.fs⟩] ∧
      (runPhases Y F s t).1.w.db = s.w.db ∧
      (runPhases Y F s t).1.w.fs = (if (resolvedDeps s.w.fs tk).gen then s.w.fs else (runBody F (resolvedDeps s.w.fs tk) s.w.fs).1)) := by
  have hsp := setupProvisional_spec s t tk hf
  generalize resolvedDeps s.w.fs tk = tk1 at hsp ⊢
  have hid : tk1.id = t := findTask_id hsp.2
  unfold runPhases
  rw [setupChain_eval]
  by_cases hfm : (setupProvisional s t).failMarks.contains t = true
  · simp only [hfm, if_true]
    left; exact ⟨hsp.1.2.1, hsp.1.2.2.1, hsp.1.1⟩
  · simp only [hfm, Bool.false_eq_true, if_false]
    have hse := setupExecute_sameObs (setupProvisional s t) t
    have hnone := setupExecute_none_tasks (setupProvisional s t) t
    generalize setupExecute (setupProvisional s t) t = r2 at hse hnone ⊢
    obtain ⟨s2, ra⟩ := r2
    have h12 := hsp.1.trans hse
    cases ra with
    | none =>
      simp only []
      have he : s2 = setupProvisional s t := hnone rfl
      subst he
      rw [execChain_eval, hsp.2]
      simp only []
      right
      by_cases hg : tk1.gen = true
      · simp only [hg, if_true]
        have hge := genExecute_obs Y (setupProvisional s t) tk1
        generalize genExecute Y (setupProvisional s t) tk1 = r3 at hge ⊢
        obtain ⟨s3, b⟩ := r3
        cases b with
        | true =>
          simp only [] at hge ⊢
          rw [hge.2.1, hge.2.2.1, hge.1, hid, hsp.1.1, hsp.1.2.1, hsp.1.2.2.1]
          exact ⟨rfl, rfl, rfl, rfl⟩
        | false =>
          simp only [] at hge ⊢
          have htd := teardown_sameObs s3 t
          rw [htd.2.1, htd.2.2.1, htd.1, hge.2.1, hge.2.2.1, hge.1, hid, hsp.1.1, hsp.1.2.1, hsp.1.2.2.1]
          exact ⟨rfl, rfl, rfl, rfl⟩
      · simp only [hg, Bool.false_eq_true, if_false]
        cases hb : (runBody F tk1 (setupProvisional s t).w.fs).2 with
        | true =>
          simp [invoke, hid, hsp.1.1, hsp.1.2.1, hsp.1.2.2.1]
        | false =>
          simp only []
          have htd := teardown_sameObs ({ invoke (setupProvisional s t) tk1 with
            w := { (setupProvisional s t).w with fs := (runBody F tk1 (setupProvisional s t).w.fs).1 } }) t
          rw [htd.2.1, htd.2.2.1, htd.1]
          simp [invoke, hid, hsp.1.1, hsp.1.2.1, hsp.1.2.2.1]
    | _ => left; exact ⟨h12.2.1, h12.2.2.1, h12.1⟩

end Prov
end Pytask
