import PytaskProofs.Lemmas.Provisional
namespace Pytask
namespace Prov
open Engine Sorter

/-! ## Reports and generated tasks -/

theorem recreate_reports (x : Sess) (t : Nat) : ∃ l, (recreate x t).reports = x.reports ++ l := by
  unfold recreate
  split
  · exact ⟨_, rfl⟩
  · split
    · exact ⟨_, rfl⟩
    · exact ⟨[], by simp⟩

theorem Moves.reports {t : Nat} {s s' : Sess} (h : Moves t s s') : ∃ l, s'.reports = s.reports ++ l := by
  induction h with
  | refl => exact ⟨[], by simp⟩
  | other s' s'' _ _ _ _ _ e5 ih =>
    obtain ⟨l1, h1⟩ := ih; obtain ⟨l2, h2⟩ := e5
    exact ⟨l1 ++ l2, by rw [h2, h1, List.append_assoc]⟩
  | re s' _ ih =>
    obtain ⟨l1, h1⟩ := ih; obtain ⟨l2, h2⟩ := recreate_reports s' t
    exact ⟨l1 ++ l2, by rw [h2, h1, List.append_assoc]⟩
  | setRe s' tk' twp' _ _ ih =>
    obtain ⟨l1, h1⟩ := ih
    obtain ⟨l2, h2⟩ := recreate_reports { s' with tasks := setTask s'.tasks tk', twp := twp' } t
    exact ⟨l1 ++ l2, by rw [h2]; simp only []; rw [h1, List.append_assoc]⟩
  | addRe s' kids _ ih =>
    obtain ⟨l1, h1⟩ := ih
    obtain ⟨l2, h2⟩ := recreate_reports { s' with tasks := s'.tasks ++ kids } t
    exact ⟨l1 ++ l2, by rw [h2]; simp only []; rw [h1, List.append_assoc]⟩

theorem stepOf_moves (Y : YieldFn) (F : BodyFn) (s : Sess) (t : Nat) :
    Moves t { s with so := s.so.take [tv t] } (protocol Y F { s with so := s.so.take [tv t] } t) :=
  protocol_moves Y F _ t

theorem stepOf_mono (Y : YieldFn) (F : BodyFn) (s : Sess) (t : Nat) :
    (∀ r ∈ s.reports, r ∈ (stepOf Y F s t).reports) ∧
    (∀ u, (findTask s.tasks u).isSome → (findTask (stepOf Y F s t).tasks u).isSome) := by
  have hm := stepOf_moves Y F s t
  obtain ⟨l, hl⟩ := hm.reports
  refine ⟨fun r hr => ?_, fun u hu => hm.tasks.1 u hu⟩
  show r ∈ (protocol Y F { s with so := s.so.take [tv t] } t).reports
  rw [hl]; exact List.mem_append.2 (Or.inl hr)

theorem loop_mono {Y : YieldFn} {F : BodyFn} : ∀ (picks : List Nat) (s s' : Sess), loop Y F s picks = .ok s' →
    (∀ r ∈ s.reports, r ∈ s'.reports) ∧ (∀ u, (findTask s.tasks u).isSome → (findTask s'.tasks u).isSome)
  | [], s, s', h => by
    simp only [loop, Except.ok.injEq] at h
    subst h; exact ⟨fun _ h => h, fun _ h => h⟩
  | t :: ts, s, s', h => by
    obtain ⟨_, _, _, _, h5⟩ := loop_cons h
    have ih := loop_mono ts _ s' h5
    have hs := stepOf_mono Y F s t
    exact ⟨fun r hr => ih.1 r (hs.1 r hr), fun u hu => ih.2 u (hs.2 u hu)⟩

/-- Every protocol that does not crash appends a report about its task. -/
theorem protocol_report (Y : YieldFn) (F : BodyFn) (s : Sess) (t : Nat) :
    (protocol Y F s t).crashed = true ∨ ∃ o, (t, o) ∈ (protocol Y F s t).reports := by
  unfold protocol
  rw [reportChain_eval]
  generalize runPhases Y F s t = r
  obtain ⟨s1, ra⟩ := r
  cases ra <;> simp only [addReport] <;> (try (split <;> (try split))) <;>
    first
    | (right; exact ⟨_, List.mem_append.2 (Or.inr (List.mem_singleton.2 rfl))⟩)
    | (left; rfl)

theorem loop_reports {Y : YieldFn} {F : BodyFn} : ∀ (picks : List Nat) (s s' : Sess), loop Y F s picks = .ok s' →
    s'.crashed = false → ∀ t ∈ picks, ∃ o, (t, o) ∈ s'.reports
  | [], _, _, _, _, t, ht => by cases ht
  | p :: ps, s, s', h, hc, t, ht => by
    obtain ⟨_, _, _, _, h5⟩ := loop_cons h
    rcases List.mem_cons.1 ht with rfl | ht
    · have hcr : (stepOf Y F s t).crashed = false := by
        cases ps with
        | nil => simp only [loop, Except.ok.injEq] at h5; rw [h5]; exact hc
        | cons q qs => exact (loop_cons h5).2.1
      rcases protocol_report Y F { s with so := s.so.take [tv t] } t with hx | ⟨o, ho⟩
      · exact absurd (show (stepOf Y F s t).crashed = true from hx) (by rw [hcr]; simp)
      · exact ⟨o, (loop_mono ps _ s' h5).1 _ ho⟩
    · exact loop_reports ps _ s' h5 hc t ht

theorem findTask_isSome_of_mem {ts : List PTask} {k : PTask} (h : k ∈ ts) : (findTask ts k.id).isSome := by
  unfold findTask
  rw [List.find?_isSome]
  exact ⟨k, h, by simp⟩

/-- When the build loop has run to its natural end, every task of the session — generated ones included — was handed out. -/
theorem complete_all_done {ts0 : List PTask} {s : Sess} {h : List Nat} (hi : LInv ts0 s h) (hstop : s.stop = false)
    (hact : s.so.isActive = false) (u : Nat) (hu : (findTask s.tasks u).isSome) : u ∈ h := by
  cases hf : findTask s.tasks u with
  | none => rw [hf] at hu; cases hu
  | some x =>
    have hx := findTask_mem hf
    have hn : s.so.nodes = [] := by
      unfold isActive at hact
      cases hnn : s.so.nodes with
      | nil => rfl
      | cons a as => rw [hnn] at hact; simp at hact
    rcases (hi.good hstop).nodes x hx with h1 | h1
    · rw [hn] at h1; cases h1
    · rw [hi.done, findTask_id hf] at h1
      obtain ⟨a, ha, hv⟩ := List.mem_map.1 h1
      rw [← tv_inj' hv]; exact ha

/-- A generator that is not skipped and does not raise leaves every task it defined in `session.tasks`. -/
theorem protocol_gen_tasks (Y : YieldFn) (F : BodyFn) (s : Sess) (g : Nat) (G : PTask) (hf : findTask s.tasks g = some G)
    (hgen : G.gen = true) (hnf : G.fails = false) (hfm : g ∉ s.failMarks) (k : PTask)
    (hk : k ∈ Y g (received (resolvedDeps s.w.fs G))) : k ∈ (protocol Y F s g).tasks := by
  have hsp := setupProvisional_spec s g G hf
  have hgen1 : (resolvedDeps s.w.fs G).gen = true := by unfold resolvedDeps; split <;> exact hgen
  have hnf1 : (resolvedDeps s.w.fs G).fails = false := by unfold resolvedDeps; split <;> exact hnf
  have hid : (resolvedDeps s.w.fs G).id = g := findTask_id hsp.2
  generalize resolvedDeps s.w.fs G = G1 at hsp hgen1 hnf1 hid hk
  unfold protocol
  rw [(reportChain_frame _ g _).1]
  unfold runPhases
  rw [setupChain_eval]
  have hfm' : (setupProvisional s g).failMarks.contains g = false := by
    rw [hsp.1.2.2.2.1]; simpa using hfm
  simp only [hfm', Bool.false_eq_true, if_false]
  have hse : setupExecute (setupProvisional s g) g = (setupProvisional s g, Raised.none) := by
    unfold setupExecute; rw [hsp.2]; simp [hgen1]
  rw [hse]
  simp only []
  rw [execChain_eval, hsp.2]
  simp only [hgen1, if_true]
  have hne : (Y G1.id (received G1)).isEmpty = false := by
    rw [hid]; cases hy : Y g (received G1) with
    | nil => rw [hy] at hk; cases hk
    | cons a as => rfl
  have hge : genExecute Y (setupProvisional s g) G1 =
      (recreate { invoke (setupProvisional s g) G1 with tasks := (invoke (setupProvisional s g) G1).tasks ++ Y G1.id (received G1) } G1.id, false) := by
    unfold genExecute
    simp [hnf1, hne]
  rw [hge]
  simp only []
  have htasks : (recreate { invoke (setupProvisional s g) G1 with tasks := (invoke (setupProvisional s g) G1).tasks ++ Y G1.id (received G1) } G1.id).tasks
      = (setupProvisional s g).tasks ++ Y g (received G1) := by
    rw [(recreate_frame _ _).1, hid]; rfl
  have hft : findTask (recreate { invoke (setupProvisional s g) G1 with tasks := (invoke (setupProvisional s g) G1).tasks ++ Y G1.id (received G1) } G1.id).tasks g = some G1 := by
    rw [htasks]; exact findTask_append_some _ _ _ _ hsp.2
  unfold teardown
  rw [hft]
  simp only [hgen1, if_true]
  rw [htasks]
  exact List.mem_append.2 (Or.inr hk)

end Prov
end Pytask
