import PytaskProofs.Lemmas.Provisional
namespace Pytask
namespace Prov
open Engine Sorter

theorem stateOf_nv (P : Project) (w : World) (n : Nat) : stateOf P w (nv n) = lookup w.fs n := by
  unfold stateOf
  have h1 : isTaskV (nv n) = false := by unfold isTaskV nv; simp
  have h2 : nv n / 2 = n := by unfold nv; omega
  simp [h1, h2]

/-- A one-pick loop that is accepted performs exactly `stepOf`. -/
theorem loop_one {Y : YieldFn} {F : BodyFn} {s : Sess} {t : Nat}
    (h : (match loop Y F s [t] with | .ok _ => true | .error _ => false) = true) :
    loop Y F s [t] = .ok (stepOf Y F s t) := by
  unfold loop at h ⊢
  split
  · rename_i h1; simp [h1] at h
  · split
    · rename_i h1 h2; simp [h1, h2] at h
    · split
      · rename_i h1 h2 _ h3; simp [h1, h2, h3] at h
      · rfl

end Prov
end Pytask
