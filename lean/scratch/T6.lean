import PytaskProofs.Lemmas.Provisional
namespace Pytask
namespace Prov
open Engine Sorter

/-! ## Scheduling invariants -/

/-- What holds of tasks / graph / sorter while the build has not been stopped; `H` = tasks handed out so far. -/
structure Good (s : Sess) (H : List Nat) : Prop where
  dag : ∃ m, createDag (toProject s.tasks) {} = .ok (s.g, m)
  reach : ∃ f, fromDag s.g isTaskV prio0 = .ok f ∧ Reach f.edges s.so H
  nodes : ∀ u ∈ s.tasks, tv u.id ∈ s.so.nodes ∨ tv u.id ∈ s.so.done

theorem Good.congr {s s' : Sess} {H : List Nat} (h : Good s H) (e1 : s'.tasks = s.tasks) (e2 : s'.g = s.g) (e3 : s'.so = s.so) :
    Good s' H := by
  obtain ⟨d, r, n⟩ := h
  exact ⟨by rw [e1, e2]; exact d, by rw [e2, e3]; exact r, by rw [e1, e3]; exact n⟩

theorem recreate_frame (x : Sess) (t : Nat) :
    (recreate x t).tasks = x.tasks ∧ (recreate x t).w = x.w ∧ (recreate x t).log = x.log ∧ (recreate x t).recv = x.recv ∧
    (recreate x t).failMarks = x.failMarks ∧ (recreate x t).crashed = x.crashed ∧ (recreate x t).twp = x.twp ∧
    (x.stop = true → (recreate x t).stop = true) := by
  unfold recreate
  split
  · simp
  · split <;> simp

theorem recreate_spec (x : Sess) (t : Nat) :
    (recreate x t).so.done = x.so.done ∧
    ((recreate x t).stop = false → x.stop = false ∧ ∀ H E, Reach E x.so H → Good (recreate x t) H) := by
  unfold recreate
  cases hc : createDag (toProject x.tasks) {} with
  | error e => simp
  | ok gm =>
    obtain ⟨g, m⟩ := gm
    simp only []
    cases hs : fromDagAndSorter g isTaskV prio0 x.so with
    | error e => simp
    | ok so =>
      simp only []
      have hs' := hs
      unfold fromDagAndSorter at hs'
      cases hf : fromDag g isTaskV prio0 with
      | error e => rw [hf] at hs'; cases hs'
      | ok f =>
        rw [hf] at hs'
        simp only [Except.ok.injEq] at hs'
        have hfd := (fromDag_init hf).1
        have hdone : so.done = x.so.done := by rw [← hs']; simp [finish, hfd]
        refine ⟨hdone, fun hst => ⟨hst, fun H E hr => ⟨⟨m, hc⟩, ⟨f, hf, Reach.recreate g isTaskV prio0 f so hr hf hs⟩, ?_⟩⟩⟩
        intro u hu
        have hn := (createDag_spec hc u hu).1
        have hfn : tv u.id ∈ f.nodes := by
          rw [fromDag_nodes hf]
          exact List.mem_filter.2 ⟨hn, by unfold isTaskV tv; simp⟩
        by_cases hd : tv u.id ∈ x.so.done
        · right; rw [hdone]; exact hd
        · left; rw [← hs']; simp [finish, hfn, hd]

theorem Moves.good {t : Nat} {s s' : Sess} (h : Moves t s s') :
    s'.so.done = s.so.done ∧ (s'.stop = false → s.stop = false) ∧
    ∀ H, (s.stop = false → Good s H) → (s'.stop = false → Good s' H) := by
  induction h with
  | refl => exact ⟨rfl, id, fun _ h => h⟩
  | other s' s'' _ e1 e2 e3 e4 ih =>
    refine ⟨by rw [e3]; exact ih.1, fun h => ih.2.1 (by rw [← e4]; exact h), fun H hg hst => ?_⟩
    exact (ih.2.2 H hg (by rw [← e4]; exact hst)).congr e1 e2 e3
  | re s' _ ih =>
    have hsp := recreate_spec s' t
    refine ⟨hsp.1.trans ih.1, fun h => ih.2.1 (hsp.2 h).1, fun H hg hst => ?_⟩
    obtain ⟨hst', hgood⟩ := hsp.2 hst
    obtain ⟨f, _, hr⟩ := (ih.2.2 H hg hst').reach
    exact hgood H _ hr
  | setRe s' tk' twp' _ _ ih =>
    have hsp := recreate_spec { s' with tasks := setTask s'.tasks tk', twp := twp' } t
    refine ⟨hsp.1.trans ih.1, fun h => ih.2.1 (hsp.2 h).1, fun H hg hst => ?_⟩
    obtain ⟨hst', hgood⟩ := hsp.2 hst
    obtain ⟨f, _, hr⟩ := (ih.2.2 H hg hst').reach
    exact hgood H _ hr
  | addRe s' kids _ ih =>
    have hsp := recreate_spec { s' with tasks := s'.tasks ++ kids } t
    refine ⟨hsp.1.trans ih.1, fun h => ih.2.1 (hsp.2 h).1, fun H hg hst => ?_⟩
    obtain ⟨hst', hgood⟩ := hsp.2 hst
    obtain ⟨f, _, hr⟩ := (ih.2.2 H hg hst').reach
    exact hgood H _ hr

theorem findTask_setTask_ne (ts : List PTask) (tk' : PTask) (u : Nat) (h : tk'.id ≠ u) :
    findTask (setTask ts tk') u = findTask ts u := by
  unfold findTask setTask
  induction ts with
  | nil => rfl
  | cons x xs ih =>
    simp only [List.map_cons, List.find?_cons]
    by_cases hx : x.id = tk'.id
    · have h1 : (x.id == tk'.id) = true := by simpa using hx
      have h2 : (tk'.id == u) = false := by simpa using h
      have h3 : (x.id == u) = false := by rw [hx]; exact h2
      simp only [h1, if_true, h2, h3]
      exact ih
    · have h1 : (x.id == tk'.id) = false := by simpa using hx
      simp only [h1, Bool.false_eq_true, if_false]
      cases hxu : (x.id == u)
      · exact ih
      · rfl

theorem findTask_setTask_self (ts : List PTask) (tk' : PTask) (h : (findTask ts tk'.id).isSome) :
    findTask (setTask ts tk') tk'.id = some tk' := by
  unfold findTask setTask at *
  induction ts with
  | nil => simp at h
  | cons x xs ih =>
    simp only [List.map_cons, List.find?_cons] at h ⊢
    by_cases hx : x.id = tk'.id
    · have h1 : (x.id == tk'.id) = true := by simpa using hx
      simp [h1]
    · have h1 : (x.id == tk'.id) = false := by simpa using hx
      simp only [h1, Bool.false_eq_true, if_false] at h ⊢
      exact ih h

theorem findTask_append_some (ts ks : List PTask) (u : Nat) (x : PTask) (h : findTask ts u = some x) :
    findTask (ts ++ ks) u = some x := by
  unfold findTask at *
  rw [List.find?_append, h]; rfl

theorem Moves.tasks {t : Nat} {s s' : Sess} (h : Moves t s s') :
    (∀ u, (findTask s.tasks u).isSome → (findTask s'.tasks u).isSome) ∧
    (∀ u x, u ≠ t → findTask s.tasks u = some x → findTask s'.tasks u = some x) := by
  induction h with
  | refl => exact ⟨fun _ h => h, fun _ _ _ h => h⟩
  | other s' s'' _ e1 _ _ _ ih => rw [e1]; exact ih
  | re s' _ ih => rw [(recreate_frame s' t).1]; exact ih
  | setRe s' tk' twp' _ hid ih =>
    rw [(recreate_frame _ t).1]
    simp only []
    refine ⟨fun u hu => ?_, fun u x hne hx => ?_⟩
    · by_cases hut : u = t
      · subst hut
        rw [← hid, findTask_setTask_self _ _ (by rw [hid]; exact ih.1 _ hu)]; rfl
      · rw [findTask_setTask_ne _ _ _ (by rw [hid]; exact fun h => hut h.symm)]; exact ih.1 u hu
    · rw [findTask_setTask_ne _ _ _ (by rw [hid]; exact fun h => hne h.symm)]; exact ih.2 u x hne hx
  | addRe s' kids _ ih =>
    rw [(recreate_frame _ t).1]
    simp only []
    refine ⟨fun u hu => ?_, fun u x hne hx => findTask_append_some _ _ _ _ (ih.2 u x hne hx)⟩
    have := ih.1 u hu
    cases hf : findTask s'.tasks u with
    | none => rw [hf] at this; cases this
    | some y => rw [findTask_append_some _ _ _ _ hf]; rfl

end Prov
end Pytask
