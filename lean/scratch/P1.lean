import PytaskProofs.Properties.C18
namespace Pytask
open Sorter Prov
open Engine (lookup taskAnc taskDesc tv nv isTaskV hasChanged stateOf neighbours)

theorem stateOf_nv (P : Project) (w : World) (n : Nat) : stateOf P w (nv n) = lookup w.fs n := by
  unfold stateOf
  have h1 : isTaskV (nv n) = false := by unfold isTaskV nv; simp
  have h2 : nv n / 2 = n := by unfold nv; omega
  simp [h1, h2]

/-- **C18_rerun_partial.** In a build that reached state `sm` and now hands out the (non-generator) task `t`, which has
a still unresolved directory-pattern dependency `π`: if some file `n` matching `π` at this moment has no recorded state
for `t` in the database or a recorded state different from its current content (`hasChanged`: the set *grew by a file
never recorded*, or *a matched file's content changed*), and the DAG could be re-created after the resolution, then `t`
is not skipped: its function is called, or it fails (a dependency or its module is missing). -/
theorem C18_rerun_partial (Y : YieldFn) (F : BodyFn) (ts : List PTask) (w : World) (s0 sm s' : Prov.Sess) (pre : List Nat)
    (t : Nat) (post : List Nat) (h0 : initSess ts w = some s0) (h1 : loop Y F s0 pre = .ok sm)
    (h2 : loop Y F sm (t :: post) = .ok s')
    (tk : PTask) (hf : findTask sm.tasks t = some tk) (hng : tk.gen = false) (hfm : t ∉ sm.failMarks)
    (π : Pat) (hsl : (⟨π, none⟩ : Slot) ∈ tk.pdeps) (n : Nat) (hn : n ∈ π.glob sm.w.fs)
    (hch : hasChanged sm.w t (nv n) (lookup sm.w.fs n) = true)
    (hre : (setupProvisional { sm with so := sm.so.take [tv t] } t).stop = false) :
    (stepOf Y F sm t).log = sm.log ++ [t] ∨ (t, Outcome.fail) ∈ (stepOf Y F sm t).reports := by
  have hi : LInv ts sm ([] ++ pre) := loop_inv pre s0 sm [] (initSess_inv h0) h1
  obtain ⟨hs, _, hl, _, _⟩ := loop_cons h2
  have hg := hi.good hs
  generalize hsa : ({ sm with so := sm.so.take [tv t] } : Prov.Sess) = sa at hre
  have hga : sa.stop = false → Good sa (([] ++ pre).map tv ++ [tv t]) := fun _ => by
    subst hsa
    exact ⟨hg.dag, by obtain ⟨f, hf, hr⟩ := hg.reach; exact ⟨f, hf, Reach.ready 1 [tv t] hr hl⟩, hg.nodes⟩
  have hfa : findTask sa.tasks t = some tk := by subst hsa; exact hf
  have hfma : t ∉ sa.failMarks := by subst hsa; exact hfm
  have hwa : sa.w = sm.w := by subst hsa; rfl
  have hloga : sa.log = sm.log := by subst hsa; rfl
  have hstep : stepOf Y F sm t = { protocol Y F sa t with so := (protocol Y F sa t).so.finish [tv t] } := by subst hsa; rfl
  rw [hstep]
  show (protocol Y F sa t).log = sm.log ++ [t] ∨ (t, Outcome.fail) ∈ (protocol Y F sa t).reports
  rw [← hloga]
  have hsp := setupProvisional_spec sa t tk hfa
  have hg1 : Good (setupProvisional sa t) _ := (setupProvisional_moves sa t).good.2.2 _ hga hre
  -- the matched file is a dependency of the resolved task record
  have hun : unresolved tk.pdeps = true := by
    unfold unresolved; exact List.any_eq_true.2 ⟨_, hsl, rfl⟩
  have hdep : n ∈ (resolvedDeps sa.w.fs tk).allDeps := by
    unfold resolvedDeps PTask.allDeps
    simp only [hun, if_true]
    refine List.mem_append.2 (Or.inr (List.mem_flatMap.2 ⟨Slot.resolve sa.w.fs ⟨π, none⟩, List.mem_map.2 ⟨_, hsl, rfl⟩, ?_⟩))
    rw [hwa]; exact hn
  obtain ⟨m, hdag⟩ := hg1.dag
  have hedge := (createDag_spec hdag _ (findTask_mem hsp.2)).2.1 n hdep
  rw [findTask_id hsp.2] at hedge
  have hpred : nv n ∈ (setupProvisional sa t).g.preds (tv t) := mem_preds.2 hedge
  have hch' : hasChanged (setupProvisional sa t).w t (nv n)
      (stateOf (toProject (setupProvisional sa t).tasks) (setupProvisional sa t).w (nv n)) = true := by
    rw [stateOf_nv, hsp.1.1, hwa]; exact hch
  have hscan := scanP_changed (toProject (setupProvisional sa t).tasks) (setupProvisional sa t).g (setupProvisional sa t).w
    (provNodes (setupProvisional sa t).tasks) t (nv n) hpred hch' (neighbours (setupProvisional sa t).g t) false
    (by unfold neighbours; simp [hpred])
  have hrp := runPhases_not_unchanged Y F sa t tk hfa hng hfma hscan
  unfold protocol
  have hfr := reportChain_frame (runPhases Y F sa t).1 t (runPhases Y F sa t).2
  rcases hrp with h | h
  · left; rw [hfr.2.2.2.2.1]; exact h
  · right
    rw [reportChain_eval, h]
    simp [addReport]

end Pytask
