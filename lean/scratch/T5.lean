import PytaskProofs.Lemmas.Provisional
namespace Pytask
namespace Prov
open Engine Sorter

theorem mem_union {a b : List Nat} {x : Nat} : x ∈ G.union a b ↔ x ∈ a ∨ x ∈ b := by
  unfold G.union
  induction b generalizing a with
  | nil => simp
  | cons y ys ih =>
    simp only [List.foldl_cons, List.mem_cons]
    rw [ih]
    by_cases h : a.contains y = true
    · simp only [h, if_true]
      have : y ∈ a := by simpa using h
      constructor
      · rintro (h1 | h1)
        · exact Or.inl h1
        · exact Or.inr (Or.inr h1)
      · rintro (h1 | rfl | h1)
        · exact Or.inl h1
        · exact Or.inl this
        · exact Or.inr h1
    · simp only [h, Bool.false_eq_true, if_false, List.mem_append, List.mem_singleton]
      constructor
      · rintro ((h1 | rfl) | h1)
        · exact Or.inl h1
        · exact Or.inr (Or.inl rfl)
        · exact Or.inr (Or.inr h1)
      · rintro (h1 | rfl | h1)
        · exact Or.inl (Or.inl h1)
        · exact Or.inl (Or.inr rfl)
        · exact Or.inr h1

theorem mem_preds {g : G} {u v : Nat} : u ∈ g.preds v ↔ (u, v) ∈ g.edges := by
  unfold G.preds
  simp only [List.mem_map, List.mem_filter, beq_iff_eq]
  constructor
  · rintro ⟨e, ⟨he, rfl⟩, rfl⟩; exact he
  · intro h; exact ⟨(u, v), ⟨h, rfl⟩, rfl⟩

theorem mem_succs {g : G} {u v : Nat} : v ∈ g.succs u ↔ (u, v) ∈ g.edges := by
  unfold G.succs
  simp only [List.mem_map, List.mem_filter, beq_iff_eq]
  constructor
  · rintro ⟨e, ⟨he, rfl⟩, rfl⟩; exact he
  · intro h; exact ⟨(u, v), ⟨h, rfl⟩, rfl⟩

theorem iter_stepBack_mono (g : G) {x : Nat} : ∀ (n : Nat) (s : List Nat), x ∈ s → x ∈ G.iter g.stepBack n s
  | 0, _, h => h
  | n + 1, s, h => by
    unfold G.iter
    exact iter_stepBack_mono g n _ (by unfold G.stepBack; exact mem_union.2 (Or.inl h))

/-- A producer is a graph ancestor of a consumer of one of its products (path of two edges). -/
theorem anc_two_step {g : G} {u x v : Nat} (h1 : (u, x) ∈ g.edges) (h2 : (x, v) ∈ g.edges) (hne : u ≠ v) :
    u ∈ g.anc v := by
  unfold G.anc G.ancRaw
  refine List.mem_filter.2 ⟨?_, by simpa using hne⟩
  have hlen : g.edges.length ≠ 0 := by
    intro h0
    have := List.eq_nil_of_length_eq_zero h0
    rw [this] at h1; cases h1
  obtain ⟨n, hn⟩ := Nat.exists_eq_succ_of_ne_zero hlen
  rw [hn]
  unfold G.iter
  apply iter_stepBack_mono
  unfold G.stepBack
  refine mem_union.2 (Or.inr ?_)
  exact List.mem_flatMap.2 ⟨x, mem_preds.2 h2, mem_preds.2 h1⟩

end Prov
end Pytask
