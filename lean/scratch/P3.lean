import PytaskProofs.Properties.C18
namespace Pytask
open Sorter Prov
open Engine (lookup taskAnc taskDesc tv nv isTaskV hasChanged stateOf neighbours)

/-- **C18_producer_first.** If, among the collected tasks `ts`, `P` declares the directory pattern `π` as a product and
`C` declares the same pattern (same `DirectoryNode` signature, `π.node`) as a dependency, then in every build the
protocol of `P` (body, resolution of its products, teardown) has completed before `C` is handed out — and `C`'s
dependency is only resolved after that, at `C`'s own setup (C18_resolve). -/
theorem C18_producer_first (Y : YieldFn) (F : BodyFn) (ts : List PTask) (w : World) (s0 sm s' : Prov.Sess) (pre : List Nat)
    (c : Nat) (post : List Nat) (h0 : initSess ts w = some s0) (h1 : loop Y F s0 pre = .ok sm)
    (h2 : loop Y F sm (c :: post) = .ok s')
    (P C : PTask) (hP : findTask ts P.id = some P) (hC : findTask ts c = some C) (hne : P.id ≠ c)
    (π : Pat) (hπP : (⟨π, none⟩ : Slot) ∈ P.pprods) (hπC : (⟨π, none⟩ : Slot) ∈ C.pdeps) : P.id ∈ pre := by
  have hi : LInv ts sm ([] ++ pre) := loop_inv pre s0 sm [] (initSess_inv h0) h1
  simp only [List.nil_append] at hi
  obtain ⟨hs, _, hl, hf, _⟩ := loop_cons h2
  refine Classical.byContradiction fun hnot => ?_
  have hg := hi.good hs
  -- `c` has not been handed out before (it is still a node of the sorter)
  have hcn : c ∉ pre := by
    intro hc
    obtain ⟨f, _, hr⟩ := hg.reach
    have hav := mem_avail.1 (hl.2.1 (tv c) (by simp))
    exact (reach_inv hr).disj (tv c) hav.1 (by rw [hi.done]; exact List.mem_map.2 ⟨c, hc, rfl⟩)
  have hP' := hi.untouched P.id P hnot hP
  have hC' := hi.untouched c C hcn hC
  obtain ⟨m, hdag⟩ := hg.dag
  have e1 : (tv P.id, nv π.node) ∈ sm.g.edges := by
    refine (createDag_spec hdag P (findTask_mem hP')).2.2 π.node ?_
    unfold PTask.allProds
    exact List.mem_append.2 (Or.inr (List.mem_flatMap.2 ⟨_, hπP, by simp [Slot.nodes]⟩))
  have e2 : (nv π.node, tv c) ∈ sm.g.edges := by
    have := (createDag_spec hdag C (findTask_mem hC')).2.1 π.node (by
      unfold PTask.allDeps
      exact List.mem_append.2 (Or.inr (List.mem_flatMap.2 ⟨_, hπC, by simp [Slot.nodes]⟩)))
    rwa [findTask_id hC'] at this
  have hanc : tv P.id ∈ sm.g.anc (tv c) := anc_two_step e1 e2 (fun h => hne (tv_inj' h))
  have : P.id ∈ taskAnc sm.g c := by
    unfold taskAnc
    refine List.mem_map.2 ⟨tv P.id, List.mem_filter.2 ⟨hanc, by unfold isTaskV tv; simp⟩, by unfold tv; omega⟩
  exact hnot (pick_order hi hs hl hf _ this)

/-- **C18_generated.** A build reaches state `sm` and hands out the generator `g` (not skipped, its body does not raise).
Let `kids` be what its body defines, given the files matching its pattern dependencies at that moment. If the build
then runs to its natural end (`s'`: nothing left to schedule, not stopped, no crash), every defined task `k` with a
fresh id (a) was handed out in the *same* build, after the generator, (b) has a report, (c) had its function called at
most once, and (d) was handed out only after all its own ancestors in the then-current graph had finished (C18_order).
The next build treats `k` like any other task (it is collected again by the generator and goes through the same
protocol: `C18_rerun_partial` / M6's incremental rules apply). -/
theorem C18_generated (Y : YieldFn) (F : BodyFn) (ts : List PTask) (w : World) (s0 sm s' : Prov.Sess) (pre : List Nat)
    (g : Nat) (post : List Nat) (h0 : initSess ts w = some s0) (h1 : loop Y F s0 pre = .ok sm)
    (h2 : loop Y F sm (g :: post) = .ok s')
    (G : PTask) (hG : findTask sm.tasks g = some G) (hgen : G.gen = true) (hnf : G.fails = false) (hfm : g ∉ sm.failMarks)
    (hend : s'.stop = false ∧ s'.crashed = false ∧ s'.so.isActive = false)
    (k : PTask) (hk : k ∈ Y g (G.pdeps.map (fun sl => sl.res.getD (sl.pat.glob sm.w.fs))))
    (hfresh : findTask sm.tasks k.id = none) :
    k.id ∈ post ∧ (∃ o, (k.id, o) ∈ s'.reports) ∧ s'.log.count k.id ≤ 1 := by
  have hi : LInv ts sm ([] ++ pre) := loop_inv pre s0 sm [] (initSess_inv h0) h1
  simp only [List.nil_append] at hi
  obtain ⟨_, _, _, _, h5⟩ := loop_cons h2
  have hall : loop Y F s0 (pre ++ g :: post) = .ok s' := by
    -- re-assemble the whole pick list
    have : ∀ (p : List Nat) (a b : Prov.Sess), loop Y F a p = .ok b → loop Y F b (g :: post) = .ok s' →
        loop Y F a (p ++ g :: post) = .ok s' := by
      intro p
      induction p with
      | nil => intro a b hab hb; simp only [loop, Except.ok.injEq] at hab; subst hab; exact hb
      | cons x xs ih =>
        intro a b hab hb
        obtain ⟨c1, c2, c3, c4, c5⟩ := loop_cons hab
        have hrec := ih _ b c5 hb
        show loop Y F a (x :: (xs ++ g :: post)) = .ok s'
        unfold loop
        have hl : legalBatchB a.so 1 [tv x] = true := (legalBatchB_iff _ _ _).2 c3
        have hact : a.so.isActive = true := by
          have := (mem_avail.1 (c3.2.1 (tv x) (by simp))).1
          unfold isActive
          cases hn : a.so.nodes with
          | nil => rw [hn] at this; cases this
          | cons a as => rfl
        rw [if_neg (by simp [c1, c2, hact]), if_neg (by simp [hl])]
        cases hf : findTask a.tasks x with
        | none => rw [hf] at c4; cases c4
        | some y => exact hrec
    exact this pre s0 sm h1 h2
  have hi' : LInv ts s' ([] ++ (pre ++ g :: post)) := loop_inv _ s0 s' [] (initSess_inv h0) hall
  simp only [List.nil_append] at hi'
  -- the defined task is in `session.tasks` after the generator's protocol, and stays known
  have hkin : k ∈ (stepOf Y F sm g).tasks := by
    show k ∈ (protocol Y F { sm with so := sm.so.take [tv g] } g).tasks
    refine protocol_gen_tasks Y F { sm with so := sm.so.take [tv g] } g G hG hgen hnf hfm k ?_
    rw [received_resolvedDeps]; exact hk
  have hknown : (findTask s'.tasks k.id).isSome := (loop_mono post _ s' h5).2 _ (findTask_isSome_of_mem hkin)
  have hdone : k.id ∈ pre ++ g :: post := complete_all_done hi' hend.1 hend.2.2 _ hknown
  have hnpre : k.id ∉ pre := fun h => by
    have := hi.known _ h; rw [hfresh] at this; cases this
  have hng : k.id ≠ g := fun h => by rw [h, hG] at hfresh; cases hfresh
  have hpost : k.id ∈ post := by
    rcases List.mem_append.1 hdone with h | h
    · exact absurd h hnpre
    · rcases List.mem_cons.1 h with h | h
      · exact absurd h hng
      · exact h
  exact ⟨hpost, loop_reports _ s0 s' hall hend.2.1 _ hdone, (C18_gen_once Y F ts w s0 s' _ h0 hall k.id).2⟩

end Pytask
