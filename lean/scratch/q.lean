open List in
#check @List.nodup_iff_count
#check @List.Nodup.count
#check @List.count_le_one_of_nodup
example (l : List Nat) (h : l.Nodup) (a : Nat) : l.count a ≤ 1 := by exact?
