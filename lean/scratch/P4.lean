import PytaskProofs.Properties.C18
namespace Pytask
open Sorter Prov
open Engine (lookup taskAnc taskDesc tv nv isTaskV hasChanged stateOf neighbours)

/-! ## Non-vacuity: the hypotheses of the theorems above hold together on concrete builds

Project: task 1 produces the pattern `[1000,1005)` (count read from node 100), generator 2 and consumer 3 depend on the
same pattern; the generator defines one copy task `20000+n` per received file. -/
def exPat : Pat := ⟨500000, 1000, 5⟩
def exProd : PTask := { id := 1, src := 9000, cnt := some 100, pprods := [⟨exPat, none⟩] }
def exGen : PTask := { id := 2, src := 9000, pdeps := [⟨exPat, none⟩], gen := true }
def exCons : PTask := { id := 3, src := 9000, pdeps := [⟨exPat, none⟩], prods := [200] }
def exTs : List PTask := [exProd, exGen, exCons]
def exY : YieldFn := fun g got =>
  if g == 2 then got.flatten.map (fun n => ({ id := 20000 + n, src := 9000, deps := [n], prods := [20000 + n] } : PTask)) else []
def exW : World := ⟨[(9000, 1), (100, 2)], []⟩
def exDummy : Prov.Sess := { tasks := [], g := G.empty, so := ⟨[], [], prio0, [], []⟩, w := ⟨[], []⟩ }
def exS0 : Prov.Sess := (initSess exTs exW).getD exDummy
def exSm : Prov.Sess := match loop exY f11F exS0 [1] with | .ok s => s | .error _ => exDummy
def exSm3 : Prov.Sess := match loop exY f11F exS0 [1, 2] with | .ok s => s | .error _ => exDummy
def exS' : Prov.Sess := match loop exY f11F exSm [2, 3, 21000, 21001] with | .ok s => s | .error _ => exDummy

set_option maxRecDepth 8000 in
/-- the complete first build: everything, generated tasks included, runs once, in the same build -/
example : (Prov.build exY f11F exTs exW [1, 2, 3, 21000, 21001]).toOption.map (fun r => (r.exit, r.complete, r.log, r.tasks, r.recv)) =
    some (0, true, [1, 2, 3, 21000, 21001], [1, 2, 3, 21000, 21001],
      [⟨1, [], []⟩, ⟨2, [[1000, 1001]], [[1000, 1001]]⟩, ⟨3, [[1000, 1001]], [[1000, 1001]]⟩, ⟨21000, [], []⟩, ⟨21001, [], []⟩]) := by
  decide +kernel

set_option maxRecDepth 8000 in
/-- `C18_generated`, `C18_producer_first`, `C18_order`, `C18_gen_once` instantiated on that build -/
example : 21001 ∈ [3, 21000, 21001] ∧ (∃ o, (21001, o) ∈ exS'.reports) ∧ exS'.log.count 21001 ≤ 1 :=
  C18_generated exY f11F exTs exW exS0 exSm exS' [1] 2 [3, 21000, 21001] (by rfl) (by rfl) (by rfl) exGen (by decide +kernel) rfl rfl
    (by decide +kernel) (by decide +kernel) { id := 21001, src := 9000, deps := [1001], prods := [21001] } (by decide +kernel) (by decide +kernel)

set_option maxRecDepth 8000 in
example : exProd.id ∈ [1, 2] :=
  C18_producer_first exY f11F exTs exW exS0 exSm3 exS' [1, 2] 3 [21000, 21001] (by rfl) (by rfl) (by rfl) exProd exCons (by decide) (by decide)
    (by decide) exPat (by decide) (by decide)

set_option maxRecDepth 8000 in
/-- `C18_resolve`: the consumer's hypotheses hold in the state in which it is handed out, and it receives `[1000, 1001]` -/
example : findTask exSm3.tasks 3 = some exCons ∧ (∀ sl ∈ exCons.pdeps, sl.res = none) ∧
    (protocol exY f11F exSm3 3).recv = exSm3.recv ++ [⟨3, [[1000, 1001]], [[1000, 1001]]⟩] := by decide +kernel

/-! `C18_rerun_partial` on the F11 project: after the first build a file 1002 is dropped in (the set grows by a file
never recorded): all hypotheses hold and the body runs again. -/
def f11W3 : World := ⟨(1002, 9) :: f11R1.w.fs, f11R1.w.db⟩
def f11S3 : Prov.Sess := (initSess [f11Task] f11W3).getD exDummy
def f11S3' : Prov.Sess := match loop f11Y f11F f11S3 [1] with | .ok s => s | .error _ => exDummy

set_option maxRecDepth 8000 in
example : (stepOf f11Y f11F f11S3 1).log = f11S3.log ++ [1] ∨ (1, Outcome.fail) ∈ (stepOf f11Y f11F f11S3 1).reports :=
  C18_rerun_partial f11Y f11F [f11Task] f11W3 f11S3 f11S3 f11S3' [] 1 [] (by rfl) (by rfl) (by rfl) f11Task (by decide +kernel) rfl
    (by decide +kernel) ⟨500000, 1000, 5⟩ (by decide) 1002 (by decide +kernel) (by decide +kernel) (by decide +kernel)

set_option maxRecDepth 8000 in
/-- … and indeed it is the first disjunct: the body runs and receives the grown set -/
example : (stepOf f11Y f11F f11S3 1).log = [1] ∧ (stepOf f11Y f11F f11S3 1).recv = [⟨1, [[1000, 1001, 1002]], [[1000, 1001, 1002]]⟩] := by
  decide +kernel

end Pytask
