import PytaskProofs.Lemmas.Provisional
namespace Pytask
namespace Prov
open Engine Sorter

theorem setupChain_moves (s : Sess) (t : Nat) : Moves t s (setupChain t Generated.setupOrder s).1 := by
  rw [setupChain_eval]
  split
  · exact setupProvisional_moves s t
  · exact (setupProvisional_moves s t).trans (setupExecute_moves _ t)

theorem execChain_moves (Y : YieldFn) (F : BodyFn) (s : Sess) (t : Nat) :
    Moves t s (execChain Y F t Generated.executeOrder s).1 := by
  rw [execChain_eval]
  cases hf : findTask s.tasks t with
  | none => exact Moves.refl s
  | some tk =>
    simp only []
    split
    · exact genExecute_moves Y s tk (findTask_id hf)
    · exact Moves.other s s _ (Moves.refl s) rfl rfl rfl rfl

theorem runPhases_moves (Y : YieldFn) (F : BodyFn) (s : Sess) (t : Nat) : Moves t s (runPhases Y F s t).1 := by
  unfold runPhases
  have h1 := setupChain_moves s t
  generalize setupChain t Generated.setupOrder s = r1 at h1 ⊢
  obtain ⟨s1, ra⟩ := r1
  cases ra with
  | none =>
    simp only []
    have h2 := execChain_moves Y F s1 t
    generalize execChain Y F t Generated.executeOrder s1 = r2 at h2 ⊢
    obtain ⟨s2, b⟩ := r2
    cases b with
    | true => exact h1.trans h2
    | false => exact (h1.trans h2).trans (teardown_moves s2 t)
  | _ => exact h1

theorem updateStates_fs (P : Project) (g : G) (t : Nat) : ∀ (vs : List Nat) (w : World), (updateStates P g w t vs).1.fs = w.fs
  | [], w => rfl
  | v :: vs, w => by
    unfold updateStates
    split
    · rfl
    · rw [updateStates_fs P g t vs]

theorem reportChain_frame (s : Sess) (t : Nat) (r : Raised) :
    let s' := reportChain t r Generated.processReportOrder s
    s'.tasks = s.tasks ∧ s'.g = s.g ∧ s'.so = s.so ∧ s'.stop = s.stop ∧ s'.log = s.log ∧ s'.recv = s.recv ∧ s'.twp = s.twp ∧
      s'.w.fs = s.w.fs := by
  rw [reportChain_eval]
  cases r <;> simp only [addReport] <;> (try (split <;> (try split))) <;> simp [updateStates_fs]

theorem protocol_moves (Y : YieldFn) (F : BodyFn) (s : Sess) (t : Nat) : Moves t s (protocol Y F s t) := by
  unfold protocol
  have h := reportChain_frame (runPhases Y F s t).1 t (runPhases Y F s t).2
  exact Moves.other s _ _ (runPhases_moves Y F s t) h.1 h.2.1 h.2.2.1 h.2.2.2.1

end Prov
end Pytask
