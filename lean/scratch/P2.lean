import PytaskProofs.Properties.C18
namespace Pytask
open Sorter Prov
open Engine (lookup taskAnc taskDesc tv nv isTaskV hasChanged stateOf neighbours)

/-- **C18_rerun_full** — the property at full strength: a consumer of a directory pattern that succeeded in an earlier
build (receiving the lists `e1.got`) and is reached by a later build (on any file system, with the database the
earlier build left) is executed again — its function is called, or it fails for a missing node — whenever the lists of
files matching its patterns at that moment differ from what it received then, or a matching file's content differs from
what the earlier build left. **False of the current code** (finding F11): only per-file states are recorded, nothing
records the composition of the set. -/
def C18_rerun_full : Prop :=
  ∀ (Y : YieldFn) (F : BodyFn) (ts : List PTask) (w : World) (picks1 : List Nat) (r1 : Prov.Result) (e1 : Recv)
    (fs2 : FS) (s0 sm s' : Prov.Sess) (pre : List Nat) (t : Nat) (post : List Nat) (tk : PTask),
    Prov.build Y F ts w picks1 = .ok r1 → (t, Outcome.success) ∈ r1.reports → e1 ∈ r1.recv → e1.task = t →
    initSess ts ⟨fs2, r1.w.db⟩ = some s0 → loop Y F s0 pre = .ok sm → loop Y F sm (t :: post) = .ok s' →
    findTask sm.tasks t = some tk → tk.gen = false → t ∉ sm.failMarks → (∀ sl ∈ tk.pdeps, sl.res = none) →
    (setupProvisional { sm with so := sm.so.take [tv t] } t).stop = false →
    (tk.pdeps.map (fun sl => sl.pat.glob sm.w.fs) ≠ e1.got ∨
      ∃ π n, (⟨π, none⟩ : Slot) ∈ tk.pdeps ∧ n ∈ π.glob sm.w.fs ∧ lookup sm.w.fs n ≠ lookup r1.w.fs n) →
    (stepOf Y F sm t).log = sm.log ++ [t] ∨ (t, Outcome.fail) ∈ (stepOf Y F sm t).reports

/-! The F11 witness: one task over the pattern `[1000, 1005)` with product 200; build with files 1000, 1001; delete 1001; build. -/
def f11Task : PTask := { id := 1, src := 9000, pdeps := [⟨⟨500000, 1000, 5⟩, none⟩], prods := [200] }
def f11Y : YieldFn := fun _ _ => []
def f11F : BodyFn := fun _ _ _ _ => 7
def f11W : World := ⟨[(9000, 1), (1000, 5), (1001, 6)], []⟩
def f11R1 : Prov.Result := match Prov.build f11Y f11F [f11Task] f11W [1] with | .ok r => r | .error _ => default
def f11W2 : World := ⟨f11R1.w.fs.filter (fun e => e.1 != 1001), f11R1.w.db⟩

set_option maxRecDepth 8000 in
/-- **C18_rerun_full_false** (finding F11). First build: the consumer receives `[1000, 1001]` and succeeds. File 1001 is
deleted. Second build: the consumer is `SKIP_UNCHANGED` although the matching set shrank. -/
theorem C18_rerun_full_false : ¬ C18_rerun_full := by
  intro h
  have t1 : Prov.build f11Y f11F [f11Task] f11W [1] = .ok f11R1 := by rfl
  have t2 : (initSess [f11Task] f11W2).all (fun s =>
      (match loop f11Y f11F s [1] with | .ok _ => true | .error _ => false) &&
      decide (findTask s.tasks 1 = some f11Task) && decide (1 ∉ s.failMarks) &&
      decide ((setupProvisional { s with so := s.so.take [tv 1] } 1).stop = false) &&
      decide (f11Task.pdeps.map (fun sl => sl.pat.glob s.w.fs) ≠ [[1000, 1001]]) &&
      decide (¬ ((stepOf f11Y f11F s 1).log = s.log ++ [1] ∨ (1, Outcome.fail) ∈ (stepOf f11Y f11F s 1).reports))) = true ∧
      (initSess [f11Task] f11W2).isSome = true := by
    decide +kernel
  cases hs : initSess [f11Task] f11W2 with
  | none => rw [hs] at t2; exact absurd t2.2 (by simp)
  | some s0 =>
    rw [hs] at t2
    simp only [Option.all_some, Bool.and_eq_true, decide_eq_true_eq] at t2
    obtain ⟨⟨⟨⟨⟨⟨a1, a2⟩, a3⟩, a4⟩, a5⟩, a6⟩, _⟩ := t2
    exact a6 (h f11Y f11F [f11Task] f11W [1] f11R1 ⟨1, [[1000, 1001]], [[1000, 1001]]⟩ f11W2.fs s0 s0
      (stepOf f11Y f11F s0 1) [] 1 [] f11Task t1 (by decide +kernel) (by decide +kernel) rfl hs rfl (loop_one a1) a2 rfl a3
      (by decide) a4 (Or.inl a5))

end Pytask
