import PytaskProofs.Lemmas.HashValue
namespace Pytask.Hash

theorem joinSep_nil (l : List Str) : joinSep [] l = l.flatten := by
  induction l with
  | nil => rfl
  | cons x xs ih =>
    cases xs with
    | nil => simp [joinSep]
    | cons y r => simp [joinSep, ih]

theorem joinSep_gen (l : List Str) : joinSep Generated.hashSeqSep l = l.flatten := joinSep_nil l

theorem sameShape_kind {a b : PyVal} (h : SameShape a b) : a.kind = b.kind := by
  cases a <;> cases b <;> simp_all [SameShape, PyVal.kind]

variable (sha : Bytes → Str)

theorem hashValue_of_num {a : PyVal} (h : a.kind = .num) : hashValue sha a = .int a.numHash := by
  cases a <;> simp_all [PyVal.kind, hashValue, PyVal.numHash]

theorem hashValue_of_none {a : PyVal} (h : a.kind = .none) :
    hashValue sha a = .int Generated.hashNoneConst := by
  cases a <;> simp_all [PyVal.kind, hashValue]

theorem hashValue_hex {a : PyVal} (h1 : a.kind ≠ .num) (h2 : a.kind ≠ .none) :
    ∃ b, hashValue sha a = .hex (sha b) := by
  cases a <;> simp_all [PyVal.kind, hashValue] <;> exact ⟨_, rfl⟩

theorem render_ne_nil (hlen : ∀ b, (sha b).length = 64) (a : PyVal) : (hashValue sha a).render ≠ [] := by
  by_cases h1 : a.kind = .num
  · rw [hashValue_of_num sha h1]; simp only [HV.render]; exact decInt_ne_nil _
  · by_cases h2 : a.kind = .none
    · rw [hashValue_of_none sha h2]; simp only [HV.render]; exact decInt_ne_nil _
    · obtain ⟨b, hb⟩ := hashValue_hex sha h1 h2
      rw [hb]; intro h
      have := hlen b
      simp only [HV.render] at h
      rw [h] at this; simp at this

/-- aligned elements of same-shape values render equally wide, given the width side condition on numeric leaves -/
theorem render_length_eq (hlen : ∀ b, (sha b).length = 64) {x y : PyVal} (hs : SameShape x y)
    (hw : x.kind = .num → y.kind = .num → (decInt x.numHash).length = (decInt y.numHash).length) :
    (hashValue sha x).render.length = (hashValue sha y).render.length := by
  have hk := sameShape_kind hs
  by_cases h1 : x.kind = .num
  · have h1' : y.kind = .num := hk ▸ h1
    rw [hashValue_of_num sha h1, hashValue_of_num sha h1']; exact hw h1 h1'
  · by_cases h2 : x.kind = .none
    · have h2' : y.kind = .none := hk ▸ h2
      rw [hashValue_of_none sha h2, hashValue_of_none sha h2']
    · obtain ⟨b, hb⟩ := hashValue_hex sha h1 h2
      obtain ⟨b', hb'⟩ := hashValue_hex sha (hk ▸ h1) (hk ▸ h2)
      rw [hb, hb']; simp [HV.render, hlen]

/-- for same-shape values, `str(hash_value(·))` determines `hash_value(·)` -/
theorem render_inj {x y : PyVal} (hs : SameShape x y)
    (h : (hashValue sha x).render = (hashValue sha y).render) : hashValue sha x = hashValue sha y := by
  have hk := sameShape_kind hs
  by_cases h1 : x.kind = .num
  · have h1' : y.kind = .num := hk ▸ h1
    rw [hashValue_of_num sha h1, hashValue_of_num sha h1'] at h ⊢
    simp only [HV.render] at h; rw [decInt_inj h]
  · by_cases h2 : x.kind = .none
    · have h2' : y.kind = .none := hk ▸ h2
      rw [hashValue_of_none sha h2, hashValue_of_none sha h2']
    · obtain ⟨b, hb⟩ := hashValue_hex sha h1 h2
      obtain ⟨b', hb'⟩ := hashValue_hex sha (hk ▸ h1) (hk ▸ h2)
      rw [hb, hb'] at h ⊢; simp only [HV.render] at h; rw [h]

mutual
theorem hashValue_inj_aux (hlen : ∀ b, (sha b).length = 64) (S : Bytes → Prop) (hS : InjOn sha S) :
    ∀ a b : PyVal, SameShape a b → WidthOK a b → Covers sha S a → Covers sha S b →
      hashValue sha a = hashValue sha b → PyEqH a b
  | .none, b, hs, _, _, _, h => by
    cases b <;> simp_all [SameShape, PyVal.kind, PyEqH]
  | .bool x, b, hs, _, _, _, h => by
    cases b <;> simp_all [SameShape, PyVal.kind, PyEqH, hashValue, PyVal.numHash]
  | .int x, b, hs, _, _, _, h => by
    cases b <;> simp_all [SameShape, PyVal.kind, PyEqH, hashValue, PyVal.numHash]
  | .float x, b, hs, _, _, _, h => by
    cases b <;> simp_all [SameShape, PyVal.kind, PyEqH, hashValue, PyVal.numHash]
  | .str s, b, hs, _, ca, cb, h => by
    cases b <;> simp_all [SameShape, PyVal.kind, PyEqH, hashValue, Covers]
    exact utf8_inj (hS _ _ ca cb h)
  | .path s, b, hs, _, ca, cb, h => by
    cases b <;> simp_all [SameShape, PyVal.kind, PyEqH, hashValue, Covers]
    exact utf8_inj (hS _ _ ca cb h)
  | .bytes s, b, hs, _, ca, cb, h => by
    cases b <;> simp_all [SameShape, PyVal.kind, PyEqH, hashValue, Covers]
    exact hS _ _ ca cb h
  | .tuple xs, b, hs, hw, ca, cb, h => by
    cases b with
    | tuple ys =>
      simp only [SameShape, WidthOK, Covers, PyEqH] at *
      simp only [hashValue, HV.hex.injEq] at h
      have := utf8_inj (hS _ _ ca.1 cb.1 h)
      rw [joinSep_gen, joinSep_gen] at this
      exact hashRenders_inj_aux hlen S hS xs ys hs hw ca.2 cb.2 this
    | _ => simp_all [SameShape]
  | .list xs, b, hs, hw, ca, cb, h => by
    cases b with
    | list ys =>
      simp only [SameShape, WidthOK, Covers, PyEqH] at *
      simp only [hashValue, HV.hex.injEq] at h
      have := utf8_inj (hS _ _ ca.1 cb.1 h)
      rw [joinSep_gen, joinSep_gen] at this
      exact hashRenders_inj_aux hlen S hS xs ys hs hw ca.2 cb.2 this
    | _ => simp_all [SameShape]
theorem hashRenders_inj_aux (hlen : ∀ b, (sha b).length = 64) (S : Bytes → Prop) (hS : InjOn sha S) :
    ∀ xs ys : List PyVal, SameShapeL xs ys → WidthOKL xs ys → CoversL sha S xs → CoversL sha S ys →
      (hashRenders sha xs).flatten = (hashRenders sha ys).flatten → PyEqHL xs ys
  | [], [], _, _, _, _, _ => by simp [PyEqHL]
  | [], y :: ys, _, _, _, _, h => by
    simp only [hashRenders, List.flatten_nil, List.flatten_cons] at h
    have := render_ne_nil sha hlen y
    simp_all
  | x :: xs, [], _, _, _, _, h => by
    simp only [hashRenders, List.flatten_nil, List.flatten_cons] at h
    have := render_ne_nil sha hlen x
    simp_all
  | x :: xs, y :: ys, hs, hw, ca, cb, h => by
    simp only [SameShapeL, WidthOKL, CoversL, PyEqHL] at *
    simp only [hashRenders, List.flatten_cons] at h
    have hl := render_length_eq sha hlen hs.1 hw.1
    obtain ⟨h1, h2⟩ := List.append_inj h hl
    exact ⟨hashValue_inj_aux hlen S hS x y hs.1 hw.2.1 ca.1 cb.1 (render_inj sha hs.1 h1),
           hashRenders_inj_aux hlen S hS xs ys hs.2 hw.2.2 ca.2 cb.2 h2⟩
end

end Pytask.Hash
