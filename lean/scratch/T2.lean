import PytaskProofs.Lemmas.Provisional
namespace Pytask
namespace Prov
open Engine Sorter

/-! ## What a protocol can do to the scheduling state: a small set of primitive moves -/

/-- `Moves t s s'`: `s'` results from `s` by steps of the protocol of task `t` — changes that leave
tasks / graph / sorter / stop flag alone, re-creations of the DAG, and "change `session.tasks`, then re-create". -/
inductive Moves (t : Nat) : Sess → Sess → Prop
  | refl (s : Sess) : Moves t s s
  | other (s s' s'' : Sess) : Moves t s s' → s''.tasks = s'.tasks → s''.g = s'.g → s''.so = s'.so → s''.stop = s'.stop →
      Moves t s s''
  | re (s s' : Sess) : Moves t s s' → Moves t s (recreate s' t)
  | setRe (s s' : Sess) (tk' : PTask) (twp' : List Nat) : Moves t s s' → tk'.id = t →
      Moves t s (recreate { s' with tasks := setTask s'.tasks tk', twp := twp' } t)
  | addRe (s s' : Sess) (kids : List PTask) : Moves t s s' →
      Moves t s (recreate { s' with tasks := s'.tasks ++ kids } t)

theorem Moves.trans {t : Nat} {a b c : Sess} (h1 : Moves t a b) (h2 : Moves t b c) : Moves t a c := by
  induction h2 with
  | refl => exact h1
  | other s' s'' _ e1 e2 e3 e4 ih => exact Moves.other _ _ _ ih e1 e2 e3 e4
  | re s' _ ih => exact Moves.re _ _ ih
  | setRe s' tk' twp' _ hid ih => exact Moves.setRe _ _ tk' twp' ih hid
  | addRe s' kids _ ih => exact Moves.addRe _ _ kids ih

theorem addTwp_contains (twp : List Nat) (t : Nat) : (addTwp twp t).contains t = true := by
  unfold addTwp
  by_cases h : twp.contains t = true
  · simp only [h, if_true]
  · simp only [h, Bool.false_eq_true, if_false]; simp

theorem findTask_id {ts : List PTask} {t : Nat} {tk : PTask} (h : findTask ts t = some tk) : tk.id = t := by
  unfold findTask at h
  have := List.find?_some h
  simpa using this

theorem setupProvisional_moves (s : Sess) (t : Nat) : Moves t s (setupProvisional s t) := by
  unfold setupProvisional
  cases hf : findTask s.tasks t with
  | none => exact Moves.refl s
  | some tk =>
    simp only []
    by_cases hu : unresolved tk.pdeps = true
    · simp only [hu, if_true, addTwp_contains]
      exact Moves.setRe s s _ _ (Moves.refl s) (by simpa using findTask_id hf)
    · simp only [hu, Bool.false_eq_true, if_false]
      split
      · exact Moves.re s s (Moves.refl s)
      · exact Moves.refl s

theorem collectProducts_moves (s : Sess) (t : Nat) : Moves t s (collectProducts s t) := by
  unfold collectProducts
  cases hf : findTask s.tasks t with
  | none => exact Moves.refl s
  | some tk =>
    simp only []
    split
    · exact Moves.refl s
    · by_cases hu : unresolved tk.pprods = true
      · simp only [hu, if_true, addTwp_contains]
        exact Moves.setRe s s _ _ (Moves.refl s) (by simpa using findTask_id hf)
      · simp only [hu, Bool.false_eq_true, if_false]
        split
        · exact Moves.re s s (Moves.refl s)
        · exact Moves.refl s

theorem setupExecute_moves (s : Sess) (t : Nat) : Moves t s (setupExecute s t).1 := by
  unfold setupExecute
  split
  · exact Moves.refl s
  · split
    · exact Moves.refl s
    · split
      · exact Moves.refl s
      · exact Moves.refl s
      · exact collectProducts_moves s t

theorem genExecute_moves (Y : YieldFn) (s : Sess) (tk : PTask) (hid : tk.id = t) : Moves t s (genExecute Y s tk).1 := by
  unfold genExecute
  have h0 : Moves t s (invoke s tk) := Moves.other s s _ (Moves.refl s) rfl rfl rfl rfl
  simp only []
  split
  · exact h0
  · split
    · exact h0
    · rw [← hid]
      exact Moves.addRe s (invoke s tk) _ (hid ▸ h0)

theorem teardown_moves (s : Sess) (t : Nat) : Moves t s (teardown s t).1 := by
  unfold teardown
  split
  · exact Moves.refl s
  · split
    · exact Moves.refl s
    · simp only []
      split
      · exact collectProducts_moves s t
      · split <;> exact collectProducts_moves s t

end Prov
end Pytask
