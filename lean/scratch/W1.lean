import PytaskProofs.Properties.C18
namespace Pytask
open Sorter Prov
open Engine (lookup taskAnc taskDesc tv nv isTaskV hasChanged stateOf neighbours)

def f11Task : PTask := { id := 1, src := 9000, pdeps := [⟨⟨500000, 1000, 5⟩, none⟩], prods := [200] }
def f11Y : YieldFn := fun _ _ => []
def f11F : BodyFn := fun _ _ _ _ => 7
def f11W : World := ⟨[(9000, 1), (1000, 5), (1001, 6)], []⟩

def f11R1 : Prov.Result := match Prov.build f11Y f11F [f11Task] f11W [1] with | .ok r => r | .error _ => default
def f11W2 : World := ⟨f11R1.w.fs.filter (fun e => e.1 != 1001), f11R1.w.db⟩
def f11S0 : Option Prov.Sess := initSess [f11Task] f11W2

#eval f11R1
#eval f11W2
#eval (f11S0.map (fun s => ((stepOf f11Y f11F s 1).log, (stepOf f11Y f11F s 1).reports)))

set_option maxRecDepth 4000 in
example : f11R1.log = [1] := by decide +kernel
set_option maxRecDepth 4000 in
example : f11R1.reports = [(1, Outcome.success)] := by decide +kernel
set_option maxRecDepth 4000 in
example : (f11S0.map (fun s => (stepOf f11Y f11F s 1).log)) = some [] := by decide +kernel

end Pytask
