import PytaskProofs.Lemmas.Provisional
namespace Pytask
namespace Prov
open Engine Sorter

/-! ## Change detection over the resolved dependencies -/

theorem scanP_needs (P : Project) (g : G) (w : World) (pn : List Nat) (t : Nat) :
    ∀ vs, scanP P g w pn t true vs ≠ Scan.unchanged
  | [] => by simp [scanP]
  | v :: vs => by
    unfold scanP
    simp only []
    split
    · simp
    · split
      · exact scanP_needs P g w pn t vs
      · split
        · simp
        · simp only [if_true]; exact scanP_needs P g w pn t vs

/-- A predecessor whose recorded state is absent or differs makes the scan answer "changed" (or "missing"). -/
theorem scanP_changed (P : Project) (g : G) (w : World) (pn : List Nat) (t : Nat) (x : Nat)
    (hx : x ∈ g.preds (tv t)) (hch : hasChanged w t x (stateOf P w x) = true) :
    ∀ (vs : List Nat) (needs : Bool), x ∈ vs → scanP P g w pn t needs vs ≠ Scan.unchanged
  | [], _, h => by cases h
  | v :: vs, needs, h => by
    unfold scanP
    simp only []
    split
    · simp
    · rename_i h1
      split
      · rename_i h2
        have hvx : v ≠ x := by
          intro e; subst e
          simp only [Bool.and_eq_true, Bool.not_eq_true', Bool.or_eq_false_iff] at h2
          have := h2.1.1
          simp only [List.contains_eq_mem, decide_eq_false_iff_not] at this
          exact this hx
        have : x ∈ vs := by
          rcases List.mem_cons.1 h with e | e
          · exact absurd e.symm hvx
          · exact e
        exact scanP_changed P g w pn t x hx hch vs needs this
      · split
        · simp
        · cases needs with
          | true => simp only [if_true]; exact scanP_needs P g w pn t vs
          | false =>
            simp only [Bool.false_eq_true, if_false]
            rcases List.mem_cons.1 h with e | e
            · subst e; rw [hch]; exact scanP_needs P g w pn t vs
            · exact scanP_changed P g w pn t x hx hch vs _ e

/-- The consumer's setup does not raise `SkippedUnchanged`: either the body is called or the task fails. -/
theorem runPhases_not_unchanged (Y : YieldFn) (F : BodyFn) (s : Sess) (t : Nat) (tk : PTask)
    (hf : findTask s.tasks t = some tk) (hng : tk.gen = false) (hfm : t ∉ s.failMarks)
    (hscan : scanP (toProject (setupProvisional s t).tasks) (setupProvisional s t).g (setupProvisional s t).w
        (provNodes (setupProvisional s t).tasks) t false (neighbours (setupProvisional s t).g t) ≠ Scan.unchanged) :
    (runPhases Y F s t).1.log = s.log ++ [t] ∨ (runPhases Y F s t).2 = Raised.error := by
  have hsp := setupProvisional_spec s t tk hf
  have hgen : (resolvedDeps s.w.fs tk).gen = false := by unfold resolvedDeps; split <;> exact hng
  have hid : (resolvedDeps s.w.fs tk).id = t := findTask_id hsp.2
  unfold runPhases
  rw [setupChain_eval]
  have hfm' : (setupProvisional s t).failMarks.contains t = false := by
    rw [hsp.1.2.2.2.1]; simpa using hfm
  simp only [hfm', Bool.false_eq_true, if_false]
  have hse : setupExecute (setupProvisional s t) t = (setupProvisional s t, Raised.none) ∨
      setupExecute (setupProvisional s t) t = (setupProvisional s t, Raised.error) := by
    unfold setupExecute
    rw [hsp.2]
    simp only [hgen, Bool.false_eq_true, if_false]
    cases hsc : scanP (toProject (setupProvisional s t).tasks) (setupProvisional s t).g (setupProvisional s t).w
        (provNodes (setupProvisional s t).tasks) t false (neighbours (setupProvisional s t).g t) with
    | missing => right; rfl
    | changed => left; rfl
    | unchanged => exact absurd hsc hscan
  rcases hse with hse | hse
  · rw [hse]
    simp only []
    rw [execChain_eval, hsp.2]
    simp only [hgen, Bool.false_eq_true, if_false]
    cases hb : (runBody F (resolvedDeps s.w.fs tk) (setupProvisional s t).w.fs).2 with
    | true => right; rfl
    | false =>
      left
      simp only []
      have htd := teardown_sameObs ({ invoke (setupProvisional s t) (resolvedDeps s.w.fs tk) with
        w := { (setupProvisional s t).w with fs := (runBody F (resolvedDeps s.w.fs tk) (setupProvisional s t).w.fs).1 } }) t
      rw [htd.2.1]
      simp [invoke, hid, hsp.1.2.1]
  · rw [hse]; right; rfl

end Prov
end Pytask
