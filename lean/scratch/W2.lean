import PytaskProofs.Properties.C18
namespace Pytask
open Sorter Prov
open Engine (lookup taskAnc taskDesc tv nv isTaskV hasChanged stateOf neighbours)

def f11Task : PTask := { id := 1, src := 9000, pdeps := [⟨⟨500000, 1000, 5⟩, none⟩], prods := [200] }
def f11Y : YieldFn := fun _ _ => []
def f11F : BodyFn := fun _ _ _ _ => 7
def f11W : World := ⟨[(9000, 1), (1000, 5), (1001, 6)], []⟩
def f11R1 : Prov.Result := match Prov.build f11Y f11F [f11Task] f11W [1] with | .ok r => r | .error _ => default
def f11W2 : World := ⟨f11R1.w.fs.filter (fun e => e.1 != 1001), f11R1.w.db⟩

theorem loop_one {Y : YieldFn} {F : BodyFn} {s : Prov.Sess} {t : Nat}
    (h : (match loop Y F s [t] with | .ok _ => true | .error _ => false) = true) :
    loop Y F s [t] = .ok (stepOf Y F s t) := by
  unfold loop at h ⊢
  split
  · rename_i h1; simp [h1] at h
  · split
    · rename_i h1 h2; simp [h1, h2] at h
    · split
      · rename_i h1 h2 _ h3; simp [h1, h2, h3] at h
      · rfl

set_option maxRecDepth 8000 in
theorem t1 : Prov.build f11Y f11F [f11Task] f11W [1] = .ok f11R1 := by rfl

set_option maxRecDepth 8000 in
theorem t2 : (initSess [f11Task] f11W2).all (fun s =>
    (match loop f11Y f11F s [1] with | .ok _ => true | .error _ => false) &&
    decide (findTask s.tasks 1 = some f11Task) && decide (1 ∉ s.failMarks) &&
    decide ((setupProvisional { s with so := s.so.take [tv 1] } 1).stop = false) &&
    decide (f11Task.pdeps.map (fun sl => sl.pat.glob s.w.fs) ≠ [[1000, 1001]]) &&
    decide (¬ ((stepOf f11Y f11F s 1).log = s.log ++ [1] ∨ (1, Outcome.fail) ∈ (stepOf f11Y f11F s 1).reports))) = true ∧
    (initSess [f11Task] f11W2).isSome = true := by
  decide +kernel

end Pytask
