import PytaskProofs.Lemmas.Provisional
namespace Pytask
namespace Prov
open Engine Sorter

/-! ## The build loop -/

/-- One iteration of `pytask_execute_build` for the pick `t`. -/
def stepOf (Y : YieldFn) (F : BodyFn) (s : Sess) (t : Nat) : Sess :=
  let s1 := protocol Y F { s with so := s.so.take [tv t] } t
  { s1 with so := s1.so.finish [tv t] }

theorem loop_cons {Y : YieldFn} {F : BodyFn} {s s' : Sess} {t : Nat} {ts : List Nat}
    (h : loop Y F s (t :: ts) = .ok s') :
    s.stop = false ∧ s.crashed = false ∧ LegalBatch s.so 1 [tv t] ∧ (findTask s.tasks t).isSome ∧
      loop Y F (stepOf Y F s t) ts = .ok s' := by
  unfold loop at h
  split at h
  · cases h
  rename_i h1
  split at h
  · cases h
  rename_i h2
  split at h
  · cases h
  rename_i x hx
  simp only [Bool.or_eq_true, not_or, Bool.not_eq_true] at h1
  refine ⟨h1.1.1, h1.1.2, (legalBatchB_iff _ _ _).1 (by simpa using h2), by rw [hx]; rfl, h⟩

theorem loop_append {Y : YieldFn} {F : BodyFn} : ∀ (p q : List Nat) (s s' : Sess),
    loop Y F s (p ++ q) = .ok s' → ∃ sm, loop Y F s p = .ok sm ∧ loop Y F sm q = .ok s'
  | [], q, s, s', h => ⟨s, rfl, h⟩
  | t :: p, q, s, s', h => by
    have hc := loop_cons (ts := p ++ q) h
    obtain ⟨sm, h1, h2⟩ := loop_append p q _ s' hc.2.2.2.2
    refine ⟨sm, ?_, h2⟩
    have hl : legalBatchB s.so 1 [tv t] = true := (legalBatchB_iff _ _ _).2 hc.2.2.1
    have hact : s.so.isActive = true := by
      have := (mem_avail.1 (hc.2.2.1.2.1 (tv t) (by simp))).1
      unfold isActive
      cases hn : s.so.nodes with
      | nil => rw [hn] at this; cases this
      | cons a as => rfl
    unfold loop
    rw [if_neg (by simp [hc.1, hc.2.1, hact]), if_neg (by simp [hl])]
    cases hf : findTask s.tasks t with
    | none => rw [hf] at hc; simp at hc
    | some x => exact h1

/-- Invariant of `pytask_execute_build` after the picks `h`, for a build that started with the tasks `ts0`. -/
structure LInv (ts0 : List PTask) (s : Sess) (h : List Nat) : Prop where
  done : s.so.done = h.map tv
  good : s.stop = false → Good s (h.map tv)
  untouched : ∀ u x, u ∉ h → findTask ts0 u = some x → findTask s.tasks u = some x
  known : ∀ u, u ∈ h → (findTask s.tasks u).isSome
  mono : ∀ u, (findTask ts0 u).isSome → (findTask s.tasks u).isSome

theorem findTask_mem {ts : List PTask} {t : Nat} {x : PTask} (h : findTask ts t = some x) : x ∈ ts := by
  unfold findTask at h; exact List.mem_of_find?_eq_some h

theorem initSess_inv {ts0 : List PTask} {w : World} {s0 : Sess} (h : initSess ts0 w = some s0) : LInv ts0 s0 [] := by
  unfold initSess at h
  cases hc : createDag (toProject ts0) {} with
  | error e => rw [hc] at h; cases h
  | ok gm =>
    obtain ⟨g, m⟩ := gm
    rw [hc] at h
    simp only [] at h
    cases hf : fromDag g isTaskV prio0 with
    | error e => rw [hf] at h; cases h
    | ok f =>
      rw [hf] at h
      simp only [Option.some.injEq] at h
      subst h
      obtain ⟨hd, hp⟩ := fromDag_init hf
      refine ⟨by simpa using hd, fun _ => ⟨⟨m, hc⟩, ⟨f, hf, Reach.init f hd hp⟩, ?_⟩, fun _ _ _ h => h, fun _ h => (by cases h), fun _ h => h⟩
      intro u hu
      left
      show tv u.id ∈ f.nodes
      rw [fromDag_nodes hf]
      exact List.mem_filter.2 ⟨(createDag_spec hc u hu).1, by unfold isTaskV tv; simp⟩

theorem stepOf_inv {Y : YieldFn} {F : BodyFn} {ts0 : List PTask} {s : Sess} {h : List Nat} {t : Nat}
    (hi : LInv ts0 s h) (hstop : s.stop = false) (hl : LegalBatch s.so 1 [tv t]) (hf : (findTask s.tasks t).isSome) :
    LInv ts0 (stepOf Y F s t) (h ++ [t]) := by
  have hg := hi.good hstop
  let sa : Sess := { s with so := s.so.take [tv t] }
  have hga : sa.stop = false → Good sa (h.map tv ++ [tv t]) := fun _ =>
    ⟨hg.dag, by obtain ⟨f, hf, hr⟩ := hg.reach; exact ⟨f, hf, Reach.ready 1 [tv t] hr hl⟩, hg.nodes⟩
  have hm : Moves t sa (protocol Y F sa t) := protocol_moves Y F sa t
  have hmg := hm.good
  have hmt := hm.tasks
  have hstep : stepOf Y F s t = { protocol Y F sa t with so := (protocol Y F sa t).so.finish [tv t] } := rfl
  rw [hstep]
  refine ⟨?_, ?_, ?_, ?_, ?_⟩
  · show ((protocol Y F sa t).so.finish [tv t]).done = (h ++ [t]).map tv
    simp only [finish, List.map_append, List.map_cons, List.map_nil]
    rw [hmg.1]
    show (s.so.take [tv t]).done ++ [tv t] = _
    simp [take, hi.done]
  · intro hst
    have hg1 : Good (protocol Y F sa t) (h.map tv ++ [tv t]) := hmg.2.2 _ hga hst
    refine ⟨hg1.dag, ?_, ?_⟩
    · obtain ⟨f, hf, hr⟩ := hg1.reach
      exact ⟨f, hf, by simpa using Reach.done [tv t] hr⟩
    · intro u hu
      rcases hg1.nodes u hu with hn | hd
      · by_cases hut : tv u.id = tv t
        · right; show tv u.id ∈ ((protocol Y F sa t).so.finish [tv t]).done; simp [finish, hut]
        · left; show tv u.id ∈ ((protocol Y F sa t).so.finish [tv t]).nodes; simp [finish, hn, hut]
      · right; show tv u.id ∈ ((protocol Y F sa t).so.finish [tv t]).done; simp [finish, hd]
  · intro u x hu hx
    have hu' : u ∉ h ∧ u ≠ t := by simpa using hu
    exact hmt.2 u x hu'.2 (hi.untouched u x hu'.1 hx)
  · intro u hu
    rcases List.mem_append.1 hu with hu | hu
    · exact hmt.1 u (hi.known u hu)
    · have : u = t := by simpa using hu
      subst this
      exact hmt.1 u hf
  · intro u hu
    exact hmt.1 u (hi.mono u hu)

theorem loop_inv {Y : YieldFn} {F : BodyFn} {ts0 : List PTask} : ∀ (picks : List Nat) (s s' : Sess) (h : List Nat),
    LInv ts0 s h → loop Y F s picks = .ok s' → LInv ts0 s' (h ++ picks)
  | [], s, s', h, hi, hl => by
    simp only [loop, Except.ok.injEq] at hl
    subst hl; simpa using hi
  | t :: ts, s, s', h, hi, hl => by
    obtain ⟨h1, _, h3, h4, h5⟩ := loop_cons hl
    have := loop_inv ts _ s' (h ++ [t]) (stepOf_inv hi h1 h3 h4) h5
    simpa [List.append_assoc] using this

end Prov
end Pytask
