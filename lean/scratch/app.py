import sys,re
src=open(sys.argv[1]).read(); dst=sys.argv[2]
body=src[src.index("open Engine Sorter\n")+len("open Engine Sorter\n"):src.rindex("end Prov")]
d=open(dst).read()
i=d.rindex("end Prov")
open(dst,'w').write(d[:i]+body.strip("\n")+"\n\n"+d[i:])
