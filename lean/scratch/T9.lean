import PytaskProofs.Lemmas.Provisional
namespace Pytask
namespace Prov
open Engine Sorter

theorem protocol_obs (Y : YieldFn) (F : BodyFn) (s : Sess) (t : Nat) (tk : PTask) (hf : findTask s.tasks t = some tk) :
    ((protocol Y F s t).log = s.log ∧ (protocol Y F s t).recv = s.recv ∧ (protocol Y F s t).w.fs = s.w.fs) ∨
    ((protocol Y F s t).log = s.log ++ [t] ∧
      (protocol Y F s t).recv = s.recv ++ [⟨t, received (resolvedDeps s.w.fs tk), seenBy (resolvedDeps s.w.fs tk) s.w.fs⟩] ∧
      (protocol Y F s t).w.fs = (if (resolvedDeps s.w.fs tk).gen then s.w.fs else (runBody F (resolvedDeps s.w.fs tk) s.w.fs).1)) := by
  unfold protocol
  have hfr := reportChain_frame (runPhases Y F s t).1 t (runPhases Y F s t).2
  simp only [] at hfr
  rw [hfr.2.2.2.2.1, hfr.2.2.2.2.2.1, hfr.2.2.2.2.2.2.2]
  rcases runPhases_obs Y F s t tk hf with h | h
  · left; exact ⟨h.1, h.2.1, by rw [h.2.2]⟩
  · right; exact ⟨h.1, h.2.1, h.2.2.2⟩

theorem received_resolvedDeps (fs : FS) (tk : PTask) :
    received (resolvedDeps fs tk) = tk.pdeps.map (fun sl => sl.res.getD (sl.pat.glob fs)) := by
  unfold resolvedDeps received
  by_cases hu : unresolved tk.pdeps = true
  · simp only [hu, if_true, List.map_map]
    apply List.map_congr_left
    intro sl _
    rcases sl with ⟨pat, _ | l⟩ <;> simp [Slot.resolve]
  · simp only [hu, Bool.false_eq_true, if_false]
    apply List.map_congr_left
    intro sl hsl
    have : sl.res.isNone = false := by
      unfold unresolved at hu
      simp only [List.any_eq_true, not_exists, not_and, Bool.not_eq_true] at hu
      exact hu sl hsl
    cases hr : sl.res with
    | none => rw [hr] at this; cases this
    | some l => rfl

theorem seenBy_resolvedDeps (fs fs' : FS) (tk : PTask) :
    seenBy (resolvedDeps fs tk) fs' = tk.pdeps.map (fun sl => sl.pat.glob fs') := by
  unfold resolvedDeps seenBy
  by_cases hu : unresolved tk.pdeps = true
  · simp only [hu, if_true, List.map_map]
    apply List.map_congr_left
    intro sl _
    rcases sl with ⟨pat, _ | l⟩ <;> simp [Slot.resolve]
  · simp only [hu, Bool.false_eq_true, if_false]

theorem mem_glob {π : Pat} {fs : FS} {n : Nat} :
    n ∈ π.glob fs ↔ π.lo ≤ n ∧ n < π.lo + π.len ∧ (lookup fs n).isSome = true := by
  unfold Pat.glob
  simp only [List.mem_filter, List.mem_range'_1]
  constructor
  · rintro ⟨⟨h1, h2⟩, h3⟩; exact ⟨h1, h2, h3⟩
  · rintro ⟨h1, h2, h3⟩; exact ⟨⟨h1, h2⟩, h3⟩

theorem stepOf_log (Y : YieldFn) (F : BodyFn) (s : Sess) (t : Nat) (hf : (findTask s.tasks t).isSome) :
    (stepOf Y F s t).log = s.log ∨ (stepOf Y F s t).log = s.log ++ [t] := by
  cases hft : findTask s.tasks t with
  | none => rw [hft] at hf; cases hf
  | some tk =>
    have := protocol_obs Y F { s with so := s.so.take [tv t] } t tk hft
    rcases this with h | h
    · left; exact h.1
    · right; exact h.1

/-- The body log grows by a sublist of the picks. -/
theorem loop_log {Y : YieldFn} {F : BodyFn} : ∀ (picks : List Nat) (s s' : Sess),
    loop Y F s picks = .ok s' → ∃ l, l.Sublist picks ∧ s'.log = s.log ++ l
  | [], s, s', h => by
    simp only [loop, Except.ok.injEq] at h
    subst h; exact ⟨[], List.Sublist.refl _, by simp⟩
  | t :: ts, s, s', h => by
    obtain ⟨_, _, _, h4, h5⟩ := loop_cons h
    obtain ⟨l, hl1, hl2⟩ := loop_log ts _ s' h5
    rcases stepOf_log Y F s t h4 with hlog | hlog
    · exact ⟨l, List.Sublist.cons _ hl1, by rw [hl2, hlog]⟩
    · exact ⟨t :: l, List.Sublist.cons_cons _ hl1, by rw [hl2, hlog]; simp⟩

theorem tv_inj' {a b : Nat} (h : tv a = tv b) : a = b := by unfold tv at h; omega

theorem loop_nodup {Y : YieldFn} {F : BodyFn} {ts0 : List PTask} : ∀ (picks : List Nat) (s s' : Sess) (h : List Nat),
    LInv ts0 s h → h.Nodup → loop Y F s picks = .ok s' → (h ++ picks).Nodup
  | [], _, _, h, _, hn, _ => by simpa using hn
  | t :: ts, s, s', h, hi, hn, hl => by
    obtain ⟨h1, _, h3, h4, h5⟩ := loop_cons hl
    obtain ⟨f, _, hr⟩ := (hi.good h1).reach
    have hnd := (reach_inv (Reach.ready 1 [tv t] hr h3)).hnodup
    have hn' : (h ++ [t]).Nodup := by
      have : ((h ++ [t]).map tv).Nodup := by simpa using hnd
      exact (List.pairwise_map.1 this).imp (fun hne heq => hne (by rw [heq]))
    have := loop_nodup ts _ s' (h ++ [t]) (stepOf_inv hi h1 h3 h4) hn' h5
    simpa [List.append_assoc] using this

/-- When a task is handed out, every task-ancestor in the *current* graph has completed its protocol. -/
theorem pick_order {ts0 : List PTask} {s : Sess} {h : List Nat} {t : Nat} (hi : LInv ts0 s h) (hstop : s.stop = false)
    (hl : LegalBatch s.so 1 [tv t]) (hf : (findTask s.tasks t).isSome) (a : Nat) (ha : a ∈ taskAnc s.g t) : a ∈ h := by
  have hg := hi.good hstop
  obtain ⟨f, hfd, hr⟩ := hg.reach
  obtain ⟨m, hdag⟩ := hg.dag
  unfold taskAnc at ha
  simp only [List.mem_map, List.mem_filter] at ha
  obtain ⟨v, ⟨hv1, hv2⟩, rfl⟩ := ha
  cases hft : findTask s.tasks t with
  | none => rw [hft] at hf; cases hf
  | some tk =>
    have hnode : tv t ∈ s.g.nodes := by
      have := (createDag_spec hdag tk (findTask_mem hft)).1
      rwa [findTask_id hft] at this
    have hedge : (v, tv t) ∈ f.edges := (fromDag_edges hfd v (tv t)).2 ⟨hnode, by unfold isTaskV tv; simp, hv1, hv2⟩
    have hinv := reach_inv hr
    have hav := mem_avail.1 (hl.2.1 (tv t) (by simp))
    have hdone : v ∈ s.so.done := by
      rcases hinv.edges v (tv t) hedge hav.1 with he | hd
      · exact absurd he (indeg0_iff.1 hav.2.1 v)
      · exact hd
    rw [hi.done] at hdone
    obtain ⟨a', ha', hv⟩ := List.mem_map.1 hdone
    have : v / 2 = a' := by rw [← hv]; unfold tv; omega
    rw [this]; exact ha'

end Prov
end Pytask
