import PytaskProofs.Lemmas.EngineFail
import PytaskModel.BuildTop
/-! Exit code of the engine's `build` when a task failed (shared by C04 and C08). -/
namespace Pytask
namespace Engine

variable {F : BodyFn} {P : Project} {cfg : Cfg} {g : G} {marks : List Nat}

theorem C04_exit' {w : World} {picks : List Nat} {r : Result}
    (hdag : createDag P cfg = .ok (g, marks)) (hb : build F P cfg w picks = .ok r)
    {t : Nat} (ht : (t, Outcome.fail) ∈ r.reports) : r.exit = 1 := by
  rcases build_run hdag hb with ⟨so, so', s', hso, hrun, hr, _, _, _, he⟩ | ⟨hr, _, _, _⟩
  · rw [he]
    have hany : s'.reports.any (fun r => r.2 == Outcome.fail) = true := by
      rw [hr] at ht
      exact List.any_eq_true.2 ⟨_, ht, by simp⟩
    rw [hany]
    have h1 : ladderCode "Exception" = 1 := by decide
    have h2 : ladderCode "ExecutionError" = 1 := by decide
    split <;> simp [h1, h2]
  · rw [hr] at ht; cases ht

end Engine

open Engine BuildTop

theorem handles_exception (names : List String) (c : String) (h : names.contains "Exception" = true) :
    handles names (.exn c) = true := by
  have : "Exception" ∈ names := by simpa using h
  simp [handles, this]

theorem ladderFind_exn (c : String) : ∃ code, ladderFind Generated.buildLadder (.exn c) = some code ∧
    (code = "COLLECTION_FAILED" ∨ code = "DAG_FAILED" ∨ code = "FAILED") := by
  unfold ladderFind
  simp only [Generated.buildLadder, List.find?_cons, handles]
  by_cases h1 : c = "CollectionError"
  · subst h1; exact ⟨_, by decide, Or.inl rfl⟩
  by_cases h2 : c = "ResolvingDependenciesError"
  · subst h2; exact ⟨_, by decide, Or.inr (Or.inl rfl)⟩
  refine ⟨"FAILED", ?_, Or.inr (Or.inr rfl)⟩
  by_cases h3 : c = "ExecutionError"
  · subst h3; decide
  · simp [h1, h2, h3]

theorem importExc_user {e : Exc} (h : (∃ c, e = .exn c) ∨ e = .base "SystemExit") :
    importExc e = .exn Generated.collectLogRaises := by
  rcases h with ⟨c, rfl⟩ | rfl
  · unfold importExc
    rw [handles_exception _ c (by decide)]; rfl
  · decide

/-- Exit code that the ladder of `build()` assigns to an exception class. -/
def classCode (e : Exc) : Nat :=
  match ladderFind Generated.buildLadder e with
  | some c => exitCode c
  | none => 0

theorem classCode_exn (c : String) : ∃ code, ladderFind Generated.buildLadder (.exn c) = some code ∧
    classCode (.exn c) = exitCode code := by
  obtain ⟨code, h, _⟩ := ladderFind_exn c
  exact ⟨code, h, by simp [classCode, h]⟩

end Pytask
