import PytaskProofs.Lemmas.EngineFail
/-! Exit code of the engine's `build` when a task failed (shared by C04 and C08). -/
namespace Pytask
namespace Engine

variable {F : BodyFn} {P : Project} {cfg : Cfg} {g : G} {marks : List Nat}

theorem C04_exit' {w : World} {picks : List Nat} {r : Result}
    (hdag : createDag P cfg = .ok (g, marks)) (hb : build F P cfg w picks = .ok r)
    {t : Nat} (ht : (t, Outcome.fail) ∈ r.reports) : r.exit = 1 := by
  rcases build_run hdag hb with ⟨so, so', s', hso, hrun, hr, _, _, _, he⟩ | ⟨hr, _, _, _⟩
  · rw [he]
    have hany : s'.reports.any (fun r => r.2 == Outcome.fail) = true := by
      rw [hr] at ht
      exact List.any_eq_true.2 ⟨_, ht, by simp⟩
    rw [hany]
    have h1 : ladderCode "Exception" = 1 := by decide
    have h2 : ladderCode "ExecutionError" = 1 := by decide
    split <;> simp [h1, h2]
  · rw [hr] at ht; cases ht

end Engine
end Pytask
