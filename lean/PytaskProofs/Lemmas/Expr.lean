import PytaskModel.Expr
/-!
# Lemmas for M3 (selection expressions)

Part A: the reference grammar (a left-recursive context-free grammar over tokens, written without looking at the
parser's control flow) and the parser: fuel monotonicity, fuel adequacy, soundness, completeness.
Part B: the lexer. Part C: the matchers.
-/
namespace Pytask.SelExpr

/-! ## Reference grammar

```
expr     := expr 'or' and_expr  | and_expr
and_expr := and_expr 'and' not_expr | not_expr
not_expr := 'not' not_expr | '(' expr ')' | ident
```
`Derives lvl ts e`: the token string `ts` is derived from the non-terminal `lvl` and denotes the tree `e`.
One inductive family indexed by the non-terminal (instead of three mutually inductive ones) so that ordinary
induction on derivations is available. -/

inductive Lvl where
  | expr | and | not
  deriving DecidableEq, Repr

inductive Derives : Lvl → List Tok → Ast → Prop where
  | or {l r a b} : Derives .expr l a → Derives .and r b → Derives .expr (l ++ .or :: r) (.or a b)
  | ofAnd {ts e} : Derives .and ts e → Derives .expr ts e
  | and {l r a b} : Derives .and l a → Derives .not r b → Derives .and (l ++ .and :: r) (.and a b)
  | ofNot {ts e} : Derives .not ts e → Derives .and ts e
  | not {ts e} : Derives .not ts e → Derives .not (.not :: ts) (.not e)
  | paren {ts e} : Derives .expr ts e → Derives .not (.lparen :: (ts ++ [.rparen])) e
  | ident (s) : Derives .not [.ident s] (.ident s)

abbrev GExpr := Derives .expr
abbrev GAnd := Derives .and
abbrev GNot := Derives .not

/-- `expression := expr? EOF`; the empty expression denotes `False`. -/
inductive GTop : List Tok → Ast → Prop where
  | empty : GTop [] .false
  | expr {ts e} : GExpr ts e → GTop ts e

theorem Derives.ne_nil {lvl ts e} (h : Derives lvl ts e) : ts ≠ [] := by
  induction h <;> simp_all

/-! ## Part A: parser -/

@[simp] theorem advance_false (rest : List Tok) : advance false rest = .ok rest := by
  simp [advance]

theorem advance_ok {bad rest r} (h : advance bad rest = .ok r) : r = rest := by
  unfold advance at h; split at h <;> simp_all

theorem advance_err {bad rest e} (h : advance bad rest = .error e) : e = .at 0 := by
  unfold advance at h; split at h <;> simp_all

/-! Step equations (one unfolding of each parser function, per shape of the token list). -/
theorem pExpr_succ (bad f ts) : pExpr bad (f + 1) ts =
    match pAnd bad f ts with
    | .error e => .error e
    | .ok (ret, r) => pExprLoop bad f ret r := by rw [pExpr]; rfl

theorem pAnd_succ (bad f ts) : pAnd bad (f + 1) ts =
    match pNot bad f ts with
    | .error e => .error e
    | .ok (ret, r) => pAndLoop bad f ret r := by rw [pAnd]; rfl

theorem pExprLoop_or (bad f acc rest) : pExprLoop bad (f + 1) acc (.or :: rest) =
    match advance bad rest with
    | .error e => .error e
    | .ok r =>
      match pAnd bad f r with
      | .error e => .error e
      | .ok (rhs, r') => pExprLoop bad f (.or acc rhs) r' := by rw [pExprLoop]; rfl

theorem pExprLoop_stop (bad f acc ts) (h : ∀ rest, ts ≠ .or :: rest) :
    pExprLoop bad (f + 1) acc ts = .ok (acc, ts) := by
  rw [pExprLoop]; exact fun rest hr => h rest hr

theorem pAndLoop_and (bad f acc rest) : pAndLoop bad (f + 1) acc (.and :: rest) =
    match advance bad rest with
    | .error e => .error e
    | .ok r =>
      match pNot bad f r with
      | .error e => .error e
      | .ok (rhs, r') => pAndLoop bad f (.and acc rhs) r' := by rw [pAndLoop]; rfl

theorem pAndLoop_stop (bad f acc ts) (h : ∀ rest, ts ≠ .and :: rest) :
    pAndLoop bad (f + 1) acc ts = .ok (acc, ts) := by
  rw [pAndLoop]; exact fun rest hr => h rest hr

theorem pNot_not (bad f rest) : pNot bad (f + 1) (.not :: rest) =
    match advance bad rest with
    | .error e => .error e
    | .ok r =>
      match pNot bad f r with
      | .error e => .error e
      | .ok (e, r') => .ok (.not e, r') := by rw [pNot]; rfl

theorem pNot_lparen (bad f rest) : pNot bad (f + 1) (.lparen :: rest) =
    match advance bad rest with
    | .error e => .error e
    | .ok r =>
      match pExpr bad f r with
      | .error e => .error e
      | .ok (e, .rparen :: rest') =>
        match advance bad rest' with
        | .error e => .error e
        | .ok r'' => .ok (e, r'')
      | .ok (_, r') => .error (.at r'.length) := by rw [pNot]; rfl

theorem pNot_ident (bad f s rest) : pNot bad (f + 1) (.ident s :: rest) =
    match advance bad rest with
    | .error e => .error e
    | .ok r => .ok (.ident s, r) := by rw [pNot]; rfl

theorem pNot_other (bad f ts) (h1 : ∀ rest, ts ≠ .not :: rest) (h2 : ∀ rest, ts ≠ .lparen :: rest)
    (h3 : ∀ s rest, ts ≠ .ident s :: rest) : pNot bad (f + 1) ts = .error (.at ts.length) := by
  rw [pNot]
  · exact fun rest hr => h1 rest hr
  · exact fun rest hr => h2 rest hr
  · exact fun s rest hr => h3 s rest hr


/-- What every parser function guarantees about its result on `n` remaining tokens: a successful call returns a
remainder that is shorter (`strict`) or not longer; an error position lies within the remaining tokens. -/
def ResOK (strict : Bool) (n : Nat) : PRes → Prop
  | .ok (_, r) => if strict then r.length < n else r.length ≤ n
  | .error (.at k) => k ≤ n
  | .error .fuel => True

@[simp, grind =] theorem ResOK_ok (s n a r) : ResOK s n (.ok (a, r)) ↔ (if s then r.length < n else r.length ≤ n) := Iff.rfl
@[simp, grind =] theorem ResOK_at (s n k) : ResOK s n (.error (.at k)) ↔ k ≤ n := Iff.rfl
@[simp, grind =] theorem ResOK_fuel (s n) : ResOK s n (.error .fuel) ↔ True := Iff.rfl

theorem ResOK.up {s s' n m res} (h : ResOK s n res) (hnm : n ≤ m) (hs : s' = true → s = true ∨ n < m) :
    ResOK s' m res := by
  unfold ResOK at *
  split <;> simp_all <;> grind

theorem ResOK.ft {n m res} (h : ResOK false n res) (hnm : n < m) : ResOK true m res := h.up (by omega) (by simp [hnm])
theorem ResOK.ff {n m res} (h : ResOK false n res) (hnm : n ≤ m) : ResOK false m res := h.up hnm (by simp)
theorem ResOK.tt {n m res} (h : ResOK true n res) (hnm : n ≤ m) : ResOK true m res := h.up hnm (by simp)
theorem ResOK.tf {n m res} (h : ResOK true n res) (hnm : n ≤ m) : ResOK false m res := h.up hnm (by simp)

structure Spec (bad : Bool) (f : Nat) : Prop where
  expr : ∀ ts, ResOK true ts.length (pExpr bad f ts)
  exprLoop : ∀ acc ts, ResOK false ts.length (pExprLoop bad f acc ts)
  and : ∀ ts, ResOK true ts.length (pAnd bad f ts)
  andLoop : ∀ acc ts, ResOK false ts.length (pAndLoop bad f acc ts)
  not : ∀ ts, ResOK true ts.length (pNot bad f ts)

theorem advance_cases (bad rest) : advance bad rest = .ok rest ∨ advance bad rest = .error (.at 0) := by
  unfold advance; split <;> simp

theorem spec (bad : Bool) : ∀ f, Spec bad f := by
  intro f
  induction f with
  | zero => constructor <;> intros <;> simp [pExpr, pExprLoop, pAnd, pAndLoop, pNot]
  | succ f ih =>
    obtain ⟨h1, h2, h3, h4, h5⟩ := ih
    constructor
    · intro ts
      unfold pExpr
      grind [ResOK.ft, ResOK.ff, ResOK.tt, ResOK.tf]
    · intro acc ts
      unfold pExprLoop
      grind [advance_cases, ResOK.ft, ResOK.ff, ResOK.tt, ResOK.tf]
    · intro ts
      unfold pAnd
      grind [ResOK.ft, ResOK.ff, ResOK.tt, ResOK.tf]
    · intro acc ts
      unfold pAndLoop
      grind [advance_cases, ResOK.ft, ResOK.ff, ResOK.tt, ResOK.tf]
    · intro ts
      unfold pNot
      repeat' split
      all_goals grind [advance_cases, ResOK.ft, ResOK.ff, ResOK.tt, ResOK.tf]


/-- More fuel does not change a result that is not the out-of-fuel marker. -/
structure Mono (bad : Bool) (f : Nat) : Prop where
  expr : ∀ ts, pExpr bad f ts ≠ .error .fuel → pExpr bad (f + 1) ts = pExpr bad f ts
  exprLoop : ∀ acc ts, pExprLoop bad f acc ts ≠ .error .fuel → pExprLoop bad (f + 1) acc ts = pExprLoop bad f acc ts
  and : ∀ ts, pAnd bad f ts ≠ .error .fuel → pAnd bad (f + 1) ts = pAnd bad f ts
  andLoop : ∀ acc ts, pAndLoop bad f acc ts ≠ .error .fuel → pAndLoop bad (f + 1) acc ts = pAndLoop bad f acc ts
  not : ∀ ts, pNot bad f ts ≠ .error .fuel → pNot bad (f + 1) ts = pNot bad f ts

theorem mono (bad : Bool) : ∀ f, Mono bad f := by
  intro f
  induction f with
  | zero => constructor <;> intros <;> simp_all [pExpr, pExprLoop, pAnd, pAndLoop, pNot]
  | succ f ih =>
    obtain ⟨h1, h2, h3, h4, h5⟩ := ih
    constructor
    · intro ts hne
      rw [pExpr_succ] at hne
      rw [pExpr_succ, pExpr_succ]
      cases hp : pAnd bad f ts <;> grind
    · intro acc ts hne
      by_cases hts : ∃ rest, ts = .or :: rest
      · obtain ⟨rest, rfl⟩ := hts
        rw [pExprLoop_or] at hne
        rw [pExprLoop_or, pExprLoop_or]
        rcases advance_cases bad rest with ha | ha <;> simp only [ha] at hne ⊢
        cases hp : pAnd bad f rest <;> grind
      · rw [pExprLoop_stop _ _ _ _ (by grind), pExprLoop_stop _ _ _ _ (by grind)]
    · intro ts hne
      rw [pAnd_succ] at hne
      rw [pAnd_succ, pAnd_succ]
      cases hp : pNot bad f ts <;> grind
    · intro acc ts hne
      by_cases hts : ∃ rest, ts = .and :: rest
      · obtain ⟨rest, rfl⟩ := hts
        rw [pAndLoop_and] at hne
        rw [pAndLoop_and, pAndLoop_and]
        rcases advance_cases bad rest with ha | ha <;> simp only [ha] at hne ⊢
        cases hp : pNot bad f rest <;> grind
      · rw [pAndLoop_stop _ _ _ _ (by grind), pAndLoop_stop _ _ _ _ (by grind)]
    · intro ts hne
      rcases ts with _ | ⟨t, rest⟩
      · rw [pNot_other _ _ _ (by simp) (by simp) (by simp), pNot_other _ _ _ (by simp) (by simp) (by simp)]
      · cases t
        case not =>
          rw [pNot_not] at hne
          rw [pNot_not, pNot_not]
          rcases advance_cases bad rest with ha | ha <;> simp only [ha] at hne ⊢
          cases hp : pNot bad f rest <;> grind
        case lparen =>
          rw [pNot_lparen] at hne
          rw [pNot_lparen, pNot_lparen]
          rcases advance_cases bad rest with ha | ha <;> simp only [ha] at hne ⊢
          cases hp : pExpr bad f rest <;> grind
        case ident s =>
          rw [pNot_ident, pNot_ident]
        all_goals
          rw [pNot_other _ _ _ (by simp) (by simp) (by simp), pNot_other _ _ _ (by simp) (by simp) (by simp)]


theorem ResOK.ok_lt {n a r} (h : ResOK true n (.ok (a, r))) : r.length < n := by simpa using h
theorem ResOK.ok_le {n a r} (h : ResOK false n (.ok (a, r))) : r.length ≤ n := by simpa using h

/-- Fuel adequacy: with fuel at least linear in the number of remaining tokens, the out-of-fuel marker is
never returned. -/
structure NoFuel (bad : Bool) (f : Nat) : Prop where
  expr : ∀ ts, 3 * ts.length + 3 ≤ f → pExpr bad f ts ≠ .error .fuel
  exprLoop : ∀ acc ts, 3 * ts.length + 1 ≤ f → pExprLoop bad f acc ts ≠ .error .fuel
  and : ∀ ts, 3 * ts.length + 2 ≤ f → pAnd bad f ts ≠ .error .fuel
  andLoop : ∀ acc ts, 3 * ts.length + 1 ≤ f → pAndLoop bad f acc ts ≠ .error .fuel
  not : ∀ ts, 3 * ts.length + 1 ≤ f → pNot bad f ts ≠ .error .fuel

theorem noFuel (bad : Bool) : ∀ f, NoFuel bad f := by
  intro f
  induction f with
  | zero => constructor <;> intros <;> omega
  | succ f ih =>
    obtain ⟨h1, h2, h3, h4, h5⟩ := ih
    have hs := spec bad f
    constructor
    · intro ts hf
      rw [pExpr_succ]
      have := hs.and ts
      cases hp : pAnd bad f ts with
      | error e => have := h3 ts (by omega); grind
      | ok v =>
        obtain ⟨ret, r⟩ := v
        rw [hp] at this
        have := this.ok_lt
        exact h2 ret r (by omega)
    · intro acc ts hf
      by_cases hts : ∃ rest, ts = .or :: rest
      · obtain ⟨rest, rfl⟩ := hts
        rw [pExprLoop_or]
        simp only [List.length_cons] at hf
        rcases advance_cases bad rest with ha | ha <;> simp only [ha]
        · have := hs.and rest
          cases hp : pAnd bad f rest with
          | error e => have := h3 rest (by omega); grind
          | ok v =>
            obtain ⟨rhs, r'⟩ := v
            rw [hp] at this
            have := this.ok_lt
            exact h2 _ r' (by omega)
        · simp
      · rw [pExprLoop_stop _ _ _ _ (by grind)]; simp
    · intro ts hf
      rw [pAnd_succ]
      have := hs.not ts
      cases hp : pNot bad f ts with
      | error e => have := h5 ts (by omega); grind
      | ok v =>
        obtain ⟨ret, r⟩ := v
        rw [hp] at this
        have := this.ok_lt
        exact h4 ret r (by omega)
    · intro acc ts hf
      by_cases hts : ∃ rest, ts = .and :: rest
      · obtain ⟨rest, rfl⟩ := hts
        rw [pAndLoop_and]
        simp only [List.length_cons] at hf
        rcases advance_cases bad rest with ha | ha <;> simp only [ha]
        · have := hs.not rest
          cases hp : pNot bad f rest with
          | error e => have := h5 rest (by omega); grind
          | ok v =>
            obtain ⟨rhs, r'⟩ := v
            rw [hp] at this
            have := this.ok_lt
            exact h4 _ r' (by omega)
        · simp
      · rw [pAndLoop_stop _ _ _ _ (by grind)]; simp
    · intro ts hf
      rcases ts with _ | ⟨t, rest⟩
      · rw [pNot_other _ _ _ (by simp) (by simp) (by simp)]; simp
      · simp only [List.length_cons] at hf
        cases t
        case not =>
          rw [pNot_not]
          rcases advance_cases bad rest with ha | ha <;> simp only [ha]
          · cases hp : pNot bad f rest with
            | error e => have := h5 rest (by omega); grind
            | ok v => simp
          · simp
        case lparen =>
          rw [pNot_lparen]
          rcases advance_cases bad rest with ha | ha <;> simp only [ha]
          · cases hp : pExpr bad f rest with
            | error e => have := h1 rest (by omega); grind
            | ok v =>
              obtain ⟨e, r'⟩ := v
              rcases r' with _ | ⟨t', rest'⟩
              · simp
              · cases t' <;> simp
                rcases advance_cases bad rest' with ha' | ha' <;> simp [ha']
          · simp
        case ident s =>
          rw [pNot_ident]
          rcases advance_cases bad rest with ha | ha <;> simp [ha]
        all_goals
          rw [pNot_other _ _ _ (by simp) (by simp) (by simp)]; simp


/-- Soundness of the parser functions w.r.t. the reference grammar (lexing succeeded: `bad = false`):
what a call consumes is derivable from the corresponding non-terminal; a loop extends a derivation of what
was consumed before. -/
structure Sound (f : Nat) : Prop where
  expr : ∀ ts e r, pExpr false f ts = .ok (e, r) → ∃ m, ts = m ++ r ∧ GExpr m e
  exprLoop : ∀ acc ts e r, pExprLoop false f acc ts = .ok (e, r) →
    ∀ pre, GExpr pre acc → ∃ m, ts = m ++ r ∧ GExpr (pre ++ m) e
  and : ∀ ts e r, pAnd false f ts = .ok (e, r) → ∃ m, ts = m ++ r ∧ GAnd m e
  andLoop : ∀ acc ts e r, pAndLoop false f acc ts = .ok (e, r) →
    ∀ pre, GAnd pre acc → ∃ m, ts = m ++ r ∧ GAnd (pre ++ m) e
  not : ∀ ts e r, pNot false f ts = .ok (e, r) → ∃ m, ts = m ++ r ∧ GNot m e

theorem sound : ∀ f, Sound f := by
  intro f
  induction f with
  | zero => constructor <;> intros <;> simp_all [pExpr, pExprLoop, pAnd, pAndLoop, pNot]
  | succ f ih =>
    obtain ⟨h1, h2, h3, h4, h5⟩ := ih
    constructor
    · intro ts e r h
      rw [pExpr_succ] at h
      cases hp : pAnd false f ts with
      | error e => simp [hp] at h
      | ok v =>
        obtain ⟨ret, r1⟩ := v
        simp only [hp] at h
        obtain ⟨m1, rfl, g1⟩ := h3 _ _ _ hp
        obtain ⟨m2, rfl, g2⟩ := h2 _ _ _ _ h m1 (.ofAnd g1)
        exact ⟨m1 ++ m2, by simp, g2⟩
    · intro acc ts e r h pre gpre
      by_cases hts : ∃ rest, ts = .or :: rest
      · obtain ⟨rest, rfl⟩ := hts
        rw [pExprLoop_or] at h
        simp only [advance_false] at h
        cases hp : pAnd false f rest with
        | error e => simp [hp] at h
        | ok v =>
          obtain ⟨rhs, r'⟩ := v
          simp only [hp] at h
          obtain ⟨m1, rfl, g1⟩ := h3 _ _ _ hp
          obtain ⟨m2, rfl, g2⟩ := h2 _ _ _ _ h (pre ++ .or :: m1) (.or gpre g1)
          exact ⟨.or :: m1 ++ m2, by simp, by simpa using g2⟩
      · rw [pExprLoop_stop _ _ _ _ (by grind)] at h
        simp only [Except.ok.injEq, Prod.mk.injEq] at h
        obtain ⟨rfl, rfl⟩ := h
        exact ⟨[], by simp, by simpa using gpre⟩
    · intro ts e r h
      rw [pAnd_succ] at h
      cases hp : pNot false f ts with
      | error e => simp [hp] at h
      | ok v =>
        obtain ⟨ret, r1⟩ := v
        simp only [hp] at h
        obtain ⟨m1, rfl, g1⟩ := h5 _ _ _ hp
        obtain ⟨m2, rfl, g2⟩ := h4 _ _ _ _ h m1 (.ofNot g1)
        exact ⟨m1 ++ m2, by simp, g2⟩
    · intro acc ts e r h pre gpre
      by_cases hts : ∃ rest, ts = .and :: rest
      · obtain ⟨rest, rfl⟩ := hts
        rw [pAndLoop_and] at h
        simp only [advance_false] at h
        cases hp : pNot false f rest with
        | error e => simp [hp] at h
        | ok v =>
          obtain ⟨rhs, r'⟩ := v
          simp only [hp] at h
          obtain ⟨m1, rfl, g1⟩ := h5 _ _ _ hp
          obtain ⟨m2, rfl, g2⟩ := h4 _ _ _ _ h (pre ++ .and :: m1) (.and gpre g1)
          exact ⟨.and :: m1 ++ m2, by simp, by simpa using g2⟩
      · rw [pAndLoop_stop _ _ _ _ (by grind)] at h
        simp only [Except.ok.injEq, Prod.mk.injEq] at h
        obtain ⟨rfl, rfl⟩ := h
        exact ⟨[], by simp, by simpa using gpre⟩
    · intro ts e r h
      rcases ts with _ | ⟨t, rest⟩
      · rw [pNot_other _ _ _ (by simp) (by simp) (by simp)] at h; simp at h
      · cases t
        case not =>
          rw [pNot_not] at h
          simp only [advance_false] at h
          cases hp : pNot false f rest with
          | error e => simp [hp] at h
          | ok v =>
            obtain ⟨e1, r'⟩ := v
            simp only [hp, Except.ok.injEq, Prod.mk.injEq] at h
            obtain ⟨rfl, rfl⟩ := h
            obtain ⟨m1, rfl, g1⟩ := h5 _ _ _ hp
            exact ⟨.not :: m1, by simp, .not g1⟩
        case lparen =>
          rw [pNot_lparen] at h
          simp only [advance_false] at h
          cases hp : pExpr false f rest with
          | error e => simp [hp] at h
          | ok v =>
            obtain ⟨e1, r'⟩ := v
            rw [hp] at h
            obtain ⟨m1, hm, g1⟩ := h1 _ _ _ hp
            subst hm
            rcases r' with _ | ⟨t', rest'⟩
            · simp at h
            · cases t' <;> simp at h
              obtain ⟨rfl, rfl⟩ := h
              exact ⟨.lparen :: (m1 ++ [.rparen]), by simp, .paren g1⟩
        case ident s =>
          rw [pNot_ident] at h
          simp only [advance_false, Except.ok.injEq, Prod.mk.injEq] at h
          obtain ⟨rfl, rfl⟩ := h
          exact ⟨[.ident s], by simp, .ident s⟩
        all_goals
          rw [pNot_other _ _ _ (by simp) (by simp) (by simp)] at h; simp at h


theorem pExpr_mono_le {bad f g ts res} (h : pExpr bad f ts = res) (hne : res ≠ .error .fuel) (hfg : f ≤ g) :
    pExpr bad g ts = res := by
  induction hfg with
  | refl => exact h
  | step _ ih => rw [(mono bad _).expr ts (by rw [ih]; exact hne), ih]

theorem pExprLoop_mono_le {bad f g acc ts res} (h : pExprLoop bad f acc ts = res) (hne : res ≠ .error .fuel)
    (hfg : f ≤ g) : pExprLoop bad g acc ts = res := by
  induction hfg with
  | refl => exact h
  | step _ ih => rw [(mono bad _).exprLoop acc ts (by rw [ih]; exact hne), ih]

theorem pAnd_mono_le {bad f g ts res} (h : pAnd bad f ts = res) (hne : res ≠ .error .fuel) (hfg : f ≤ g) :
    pAnd bad g ts = res := by
  induction hfg with
  | refl => exact h
  | step _ ih => rw [(mono bad _).and ts (by rw [ih]; exact hne), ih]

theorem pAndLoop_mono_le {bad f g acc ts res} (h : pAndLoop bad f acc ts = res) (hne : res ≠ .error .fuel)
    (hfg : f ≤ g) : pAndLoop bad g acc ts = res := by
  induction hfg with
  | refl => exact h
  | step _ ih => rw [(mono bad _).andLoop acc ts (by rw [ih]; exact hne), ih]

theorem pNot_mono_le {bad f g ts res} (h : pNot bad f ts = res) (hne : res ≠ .error .fuel) (hfg : f ≤ g) :
    pNot bad g ts = res := by
  induction hfg with
  | refl => exact h
  | step _ ih => rw [(mono bad _).not ts (by rw [ih]; exact hne), ih]

/-- Completeness, by induction on derivations of the reference grammar. A `not_expr` is consumed exactly,
whatever follows; a derivation of `and_expr` / `expr` brings the corresponding loop to the state "accumulated
tree `e`, rest still to be read". -/
def Compl : Lvl → List Tok → Ast → Prop
  | .not, m, e => ∀ rest, ∃ f, pNot false f (m ++ rest) = .ok (e, rest)
  | .and, m, e => ∀ rest f e' r, pAndLoop false f e rest = .ok (e', r) →
      ∃ f', pAnd false f' (m ++ rest) = .ok (e', r)
  | .expr, m, e => ∀ rest, (∀ x, rest ≠ .and :: x) → ∀ f e' r, pExprLoop false f e rest = .ok (e', r) →
      ∃ f', pExpr false f' (m ++ rest) = .ok (e', r)

theorem complete {lvl m e} (h : Derives lvl m e) : Compl lvl m e := by
  induction h with
  | ident s =>
    intro rest
    exact ⟨1, by show pNot false (0 + 1) (.ident s :: rest) = _; rw [pNot_ident]; simp⟩
  | @not ts e _ ih =>
    intro rest
    obtain ⟨f, hf⟩ := ih rest
    exact ⟨f + 1, by rw [List.cons_append, pNot_not]; simp [hf]⟩
  | @paren ts e _ ih =>
    intro rest
    obtain ⟨f, hf⟩ := ih (.rparen :: rest) (by simp) 1 e (.rparen :: rest)
      (by rw [pExprLoop_stop _ _ _ _ (by simp)])
    refine ⟨f + 1, ?_⟩
    rw [List.cons_append, pNot_lparen]
    simp [hf]
  | @ofNot ts e _ ih =>
    intro rest f e' r hl
    obtain ⟨f0, hf0⟩ := ih rest
    refine ⟨max f0 f + 1, ?_⟩
    rw [pAnd_succ, pNot_mono_le hf0 (by simp) (Nat.le_max_left _ _)]
    exact pAndLoop_mono_le hl (by simp) (Nat.le_max_right _ _)
  | @and l r a b _ _ ihl ihr =>
    intro rest f e' r' hl
    obtain ⟨fr, hfr⟩ := ihr rest
    have : pAndLoop false (max fr f + 1) a (.and :: (r ++ rest)) = .ok (e', r') := by
      rw [pAndLoop_and]
      simp only [advance_false]
      rw [pNot_mono_le hfr (by simp) (Nat.le_max_left _ _)]
      exact pAndLoop_mono_le hl (by simp) (Nat.le_max_right _ _)
    obtain ⟨f', hf'⟩ := ihl _ _ _ _ this
    exact ⟨f', by simpa using hf'⟩
  | @ofAnd ts e _ ih =>
    intro rest hrest f e' r hl
    obtain ⟨f1, hf1⟩ := ih rest 1 e rest (by rw [pAndLoop_stop _ _ _ _ hrest])
    refine ⟨max f1 f + 1, ?_⟩
    rw [pExpr_succ, pAnd_mono_le hf1 (by simp) (Nat.le_max_left _ _)]
    exact pExprLoop_mono_le hl (by simp) (Nat.le_max_right _ _)
  | @or l r a b _ _ ihl ihr =>
    intro rest hrest f e' r' hl
    obtain ⟨f1, hf1⟩ := ihr rest 1 b rest (by rw [pAndLoop_stop _ _ _ _ hrest])
    have : pExprLoop false (max f1 f + 1) a (.or :: (r ++ rest)) = .ok (e', r') := by
      rw [pExprLoop_or]
      simp only [advance_false]
      rw [pAnd_mono_le hf1 (by simp) (Nat.le_max_left _ _)]
      exact pExprLoop_mono_le hl (by simp) (Nat.le_max_right _ _)
    obtain ⟨f', hf'⟩ := ihl _ (by simp) _ _ _ this
    exact ⟨f', by simpa using hf'⟩


theorem pExpr_parseFuel_ne_fuel (bad ts) : pExpr bad (parseFuel ts.length) ts ≠ .error .fuel :=
  (noFuel bad _).expr ts (by simp [parseFuel])

/-- With the standard fuel the parser finds every parse that any amount of fuel finds. -/
theorem pExpr_parseFuel_of_ok {bad f ts v} (h : pExpr bad f ts = .ok v) :
    pExpr bad (parseFuel ts.length) ts = .ok v := by
  have h1 := pExpr_mono_le (g := max f (parseFuel ts.length)) h (by simp) (Nat.le_max_left _ _)
  have h2 := pExpr_mono_le (g := max f (parseFuel ts.length)) rfl (pExpr_parseFuel_ne_fuel bad ts)
    (Nat.le_max_right _ _)
  rw [← h2, h1]

theorem parseToks_cons (bad t ts) : parseToks bad (t :: ts) =
    match pExpr bad (parseFuel (t :: ts).length) (t :: ts) with
    | .error e => .error e
    | .ok (e, []) => if bad then .error (.at 0) else .ok e
    | .ok (_, r) => .error (.at r.length) := by
  rw [parseToks]
  · rfl
  · simp

theorem parseToks_ok_iff (ts : List Tok) (e : Ast) : parseToks false ts = .ok e ↔ GTop ts e := by
  constructor
  · intro h
    rcases ts with _ | ⟨t, ts⟩
    · simp [parseToks] at h; subst h; exact .empty
    · rw [parseToks_cons] at h
      cases hp : pExpr false (parseFuel (t :: ts).length) (t :: ts) with
      | error e => rw [hp] at h; simp at h
      | ok v =>
        obtain ⟨e1, r⟩ := v
        rw [hp] at h
        rcases r with _ | ⟨t', r⟩
        · simp at h
          subst h
          obtain ⟨m, hm, g⟩ := (sound _).expr _ _ _ hp
          simp at hm; subst hm
          exact .expr g
        · simp at h
  · intro h
    cases h with
    | empty => simp [parseToks]
    | expr g =>
      rcases ts with _ | ⟨t, ts⟩
      · exact absurd rfl g.ne_nil
      · obtain ⟨f, hf⟩ := complete g [] (by simp) 1 e [] (by rw [pExprLoop_stop _ _ _ _ (by simp)])
        rw [List.append_nil] at hf
        rw [parseToks_cons, pExpr_parseFuel_of_ok hf]
        simp

theorem parseToks_bad_ne_ok (ts : List Tok) (e : Ast) : parseToks true ts ≠ .ok e := by
  rcases ts with _ | ⟨t, ts⟩
  · simp [parseToks]
  · rw [parseToks_cons]
    cases hp : pExpr true (parseFuel (t :: ts).length) (t :: ts) with
    | error e => simp
    | ok v =>
      obtain ⟨e1, r⟩ := v
      rcases r with _ | ⟨t', r⟩ <;> simp

theorem parseToks_total (bad : Bool) (ts : List Tok) :
    (∃ e, parseToks bad ts = .ok e) ∨ (∃ k, parseToks bad ts = .error (.at k) ∧ k ≤ ts.length) := by
  rcases ts with _ | ⟨t, ts⟩
  · cases bad <;> simp [parseToks]
  · rw [parseToks_cons]
    have hs := (spec bad (parseFuel (t :: ts).length)).expr (t :: ts)
    have hn := pExpr_parseFuel_ne_fuel bad (t :: ts)
    cases hp : pExpr bad (parseFuel (t :: ts).length) (t :: ts) with
    | error e =>
      cases e with
      | fuel => exact absurd hp hn
      | «at» k => rw [hp] at hs; right; exact ⟨k, rfl, by simpa using hs⟩
    | ok v =>
      obtain ⟨e1, r⟩ := v
      rw [hp] at hs
      have := hs.ok_lt
      rcases r with _ | ⟨t', r⟩
      · cases bad <;> simp
      · right; exact ⟨(t' :: r).length, rfl, by omega⟩

/-- The grammar is unambiguous: a token string denotes at most one tree. -/
theorem GTop.unique {ts e e'} (h : GTop ts e) (h' : GTop ts e') : e = e' := by
  have := (parseToks_ok_iff ts e).2 h
  have := (parseToks_ok_iff ts e').2 h'
  simp_all


end Pytask.SelExpr
