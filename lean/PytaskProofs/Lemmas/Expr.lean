import PytaskModel.Expr
/-!
# Lemmas for M3 (selection expressions)

Part A: the reference grammar (a left-recursive context-free grammar over tokens, written without looking at the
parser's control flow) and the parser: fuel monotonicity, fuel adequacy, soundness, completeness.
Part B: the lexer. Part C: the matchers.
-/
namespace Pytask.SelExpr

/-! ## Reference grammar

```
expr     := expr 'or' and_expr  | and_expr
and_expr := and_expr 'and' not_expr | not_expr
not_expr := 'not' not_expr | '(' expr ')' | ident
```
`Derives lvl ts e`: the token string `ts` is derived from the non-terminal `lvl` and denotes the tree `e`.
One inductive family indexed by the non-terminal (instead of three mutually inductive ones) so that ordinary
induction on derivations is available. -/

inductive Lvl where
  | expr | and | not
  deriving DecidableEq, Repr

inductive Derives : Lvl → List Tok → Ast → Prop where
  | or {l r a b} : Derives .expr l a → Derives .and r b → Derives .expr (l ++ .or :: r) (.or a b)
  | ofAnd {ts e} : Derives .and ts e → Derives .expr ts e
  | and {l r a b} : Derives .and l a → Derives .not r b → Derives .and (l ++ .and :: r) (.and a b)
  | ofNot {ts e} : Derives .not ts e → Derives .and ts e
  | not {ts e} : Derives .not ts e → Derives .not (.not :: ts) (.not e)
  | paren {ts e} : Derives .expr ts e → Derives .not (.lparen :: (ts ++ [.rparen])) e
  | ident (s) : Derives .not [.ident s] (.ident s)

abbrev GExpr := Derives .expr
abbrev GAnd := Derives .and
abbrev GNot := Derives .not

/-- `expression := expr? EOF`; the empty expression denotes `False`. -/
inductive GTop : List Tok → Ast → Prop where
  | empty : GTop [] .false
  | expr {ts e} : GExpr ts e → GTop ts e

theorem Derives.ne_nil {lvl ts e} (h : Derives lvl ts e) : ts ≠ [] := by
  induction h <;> simp_all

/-! ## Part A: parser -/

@[simp] theorem advance_false (rest : List Tok) : advance false rest = .ok rest := by
  simp [advance]

theorem advance_ok {bad rest r} (h : advance bad rest = .ok r) : r = rest := by
  unfold advance at h; split at h <;> simp_all

theorem advance_err {bad rest e} (h : advance bad rest = .error e) : e = .at 0 := by
  unfold advance at h; split at h <;> simp_all

/-! Step equations (one unfolding of each parser function, per shape of the token list). -/
theorem pExpr_succ (bad f ts) : pExpr bad (f + 1) ts =
    match pAnd bad f ts with
    | .error e => .error e
    | .ok (ret, r) => pExprLoop bad f ret r := by rw [pExpr]; rfl

theorem pAnd_succ (bad f ts) : pAnd bad (f + 1) ts =
    match pNot bad f ts with
    | .error e => .error e
    | .ok (ret, r) => pAndLoop bad f ret r := by rw [pAnd]; rfl

theorem pExprLoop_or (bad f acc rest) : pExprLoop bad (f + 1) acc (.or :: rest) =
    match advance bad rest with
    | .error e => .error e
    | .ok r =>
      match pAnd bad f r with
      | .error e => .error e
      | .ok (rhs, r') => pExprLoop bad f (.or acc rhs) r' := by rw [pExprLoop]; rfl

theorem pExprLoop_stop (bad f acc ts) (h : ∀ rest, ts ≠ .or :: rest) :
    pExprLoop bad (f + 1) acc ts = .ok (acc, ts) := by
  rw [pExprLoop]; exact fun rest hr => h rest hr

theorem pAndLoop_and (bad f acc rest) : pAndLoop bad (f + 1) acc (.and :: rest) =
    match advance bad rest with
    | .error e => .error e
    | .ok r =>
      match pNot bad f r with
      | .error e => .error e
      | .ok (rhs, r') => pAndLoop bad f (.and acc rhs) r' := by rw [pAndLoop]; rfl

theorem pAndLoop_stop (bad f acc ts) (h : ∀ rest, ts ≠ .and :: rest) :
    pAndLoop bad (f + 1) acc ts = .ok (acc, ts) := by
  rw [pAndLoop]; exact fun rest hr => h rest hr

theorem pNot_not (bad f rest) : pNot bad (f + 1) (.not :: rest) =
    match advance bad rest with
    | .error e => .error e
    | .ok r =>
      match pNot bad f r with
      | .error e => .error e
      | .ok (e, r') => .ok (.not e, r') := by rw [pNot]; rfl

theorem pNot_lparen (bad f rest) : pNot bad (f + 1) (.lparen :: rest) =
    match advance bad rest with
    | .error e => .error e
    | .ok r =>
      match pExpr bad f r with
      | .error e => .error e
      | .ok (e, .rparen :: rest') =>
        match advance bad rest' with
        | .error e => .error e
        | .ok r'' => .ok (e, r'')
      | .ok (_, r') => .error (.at r'.length) := by rw [pNot]; rfl

theorem pNot_ident (bad f s rest) : pNot bad (f + 1) (.ident s :: rest) =
    match advance bad rest with
    | .error e => .error e
    | .ok r => .ok (.ident s, r) := by rw [pNot]; rfl

theorem pNot_other (bad f ts) (h1 : ∀ rest, ts ≠ .not :: rest) (h2 : ∀ rest, ts ≠ .lparen :: rest)
    (h3 : ∀ s rest, ts ≠ .ident s :: rest) : pNot bad (f + 1) ts = .error (.at ts.length) := by
  rw [pNot]
  · exact fun rest hr => h1 rest hr
  · exact fun rest hr => h2 rest hr
  · exact fun s rest hr => h3 s rest hr


/-- What every parser function guarantees about its result on `n` remaining tokens: a successful call returns a
remainder that is shorter (`strict`) or not longer; an error position lies within the remaining tokens. -/
def ResOK (strict : Bool) (n : Nat) : PRes → Prop
  | .ok (_, r) => if strict then r.length < n else r.length ≤ n
  | .error (.at k) => k ≤ n
  | .error .fuel => True

@[simp, grind =] theorem ResOK_ok (s n a r) : ResOK s n (.ok (a, r)) ↔ (if s then r.length < n else r.length ≤ n) := Iff.rfl
@[simp, grind =] theorem ResOK_at (s n k) : ResOK s n (.error (.at k)) ↔ k ≤ n := Iff.rfl
@[simp, grind =] theorem ResOK_fuel (s n) : ResOK s n (.error .fuel) ↔ True := Iff.rfl

theorem ResOK.up {s s' n m res} (h : ResOK s n res) (hnm : n ≤ m) (hs : s' = true → s = true ∨ n < m) :
    ResOK s' m res := by
  unfold ResOK at *
  split <;> simp_all <;> grind

theorem ResOK.ft {n m res} (h : ResOK false n res) (hnm : n < m) : ResOK true m res := h.up (by omega) (by simp [hnm])
theorem ResOK.ff {n m res} (h : ResOK false n res) (hnm : n ≤ m) : ResOK false m res := h.up hnm (by simp)
theorem ResOK.tt {n m res} (h : ResOK true n res) (hnm : n ≤ m) : ResOK true m res := h.up hnm (by simp)
theorem ResOK.tf {n m res} (h : ResOK true n res) (hnm : n ≤ m) : ResOK false m res := h.up hnm (by simp)

structure Spec (bad : Bool) (f : Nat) : Prop where
  expr : ∀ ts, ResOK true ts.length (pExpr bad f ts)
  exprLoop : ∀ acc ts, ResOK false ts.length (pExprLoop bad f acc ts)
  and : ∀ ts, ResOK true ts.length (pAnd bad f ts)
  andLoop : ∀ acc ts, ResOK false ts.length (pAndLoop bad f acc ts)
  not : ∀ ts, ResOK true ts.length (pNot bad f ts)

theorem advance_cases (bad rest) : advance bad rest = .ok rest ∨ advance bad rest = .error (.at 0) := by
  unfold advance; split <;> simp

theorem spec (bad : Bool) : ∀ f, Spec bad f := by
  intro f
  induction f with
  | zero => constructor <;> intros <;> simp [pExpr, pExprLoop, pAnd, pAndLoop, pNot]
  | succ f ih =>
    obtain ⟨h1, h2, h3, h4, h5⟩ := ih
    constructor
    · intro ts
      unfold pExpr
      grind [ResOK.ft, ResOK.ff, ResOK.tt, ResOK.tf]
    · intro acc ts
      unfold pExprLoop
      grind [advance_cases, ResOK.ft, ResOK.ff, ResOK.tt, ResOK.tf]
    · intro ts
      unfold pAnd
      grind [ResOK.ft, ResOK.ff, ResOK.tt, ResOK.tf]
    · intro acc ts
      unfold pAndLoop
      grind [advance_cases, ResOK.ft, ResOK.ff, ResOK.tt, ResOK.tf]
    · intro ts
      unfold pNot
      repeat' split
      all_goals grind [advance_cases, ResOK.ft, ResOK.ff, ResOK.tt, ResOK.tf]


/-- More fuel does not change a result that is not the out-of-fuel marker. -/
structure Mono (bad : Bool) (f : Nat) : Prop where
  expr : ∀ ts, pExpr bad f ts ≠ .error .fuel → pExpr bad (f + 1) ts = pExpr bad f ts
  exprLoop : ∀ acc ts, pExprLoop bad f acc ts ≠ .error .fuel → pExprLoop bad (f + 1) acc ts = pExprLoop bad f acc ts
  and : ∀ ts, pAnd bad f ts ≠ .error .fuel → pAnd bad (f + 1) ts = pAnd bad f ts
  andLoop : ∀ acc ts, pAndLoop bad f acc ts ≠ .error .fuel → pAndLoop bad (f + 1) acc ts = pAndLoop bad f acc ts
  not : ∀ ts, pNot bad f ts ≠ .error .fuel → pNot bad (f + 1) ts = pNot bad f ts

theorem mono (bad : Bool) : ∀ f, Mono bad f := by
  intro f
  induction f with
  | zero => constructor <;> intros <;> simp_all [pExpr, pExprLoop, pAnd, pAndLoop, pNot]
  | succ f ih =>
    obtain ⟨h1, h2, h3, h4, h5⟩ := ih
    constructor
    · intro ts hne
      rw [pExpr_succ] at hne
      rw [pExpr_succ, pExpr_succ]
      cases hp : pAnd bad f ts <;> grind
    · intro acc ts hne
      by_cases hts : ∃ rest, ts = .or :: rest
      · obtain ⟨rest, rfl⟩ := hts
        rw [pExprLoop_or] at hne
        rw [pExprLoop_or, pExprLoop_or]
        rcases advance_cases bad rest with ha | ha <;> simp only [ha] at hne ⊢
        cases hp : pAnd bad f rest <;> grind
      · rw [pExprLoop_stop _ _ _ _ (by grind), pExprLoop_stop _ _ _ _ (by grind)]
    · intro ts hne
      rw [pAnd_succ] at hne
      rw [pAnd_succ, pAnd_succ]
      cases hp : pNot bad f ts <;> grind
    · intro acc ts hne
      by_cases hts : ∃ rest, ts = .and :: rest
      · obtain ⟨rest, rfl⟩ := hts
        rw [pAndLoop_and] at hne
        rw [pAndLoop_and, pAndLoop_and]
        rcases advance_cases bad rest with ha | ha <;> simp only [ha] at hne ⊢
        cases hp : pNot bad f rest <;> grind
      · rw [pAndLoop_stop _ _ _ _ (by grind), pAndLoop_stop _ _ _ _ (by grind)]
    · intro ts hne
      rcases ts with _ | ⟨t, rest⟩
      · rw [pNot_other _ _ _ (by simp) (by simp) (by simp), pNot_other _ _ _ (by simp) (by simp) (by simp)]
      · cases t
        case not =>
          rw [pNot_not] at hne
          rw [pNot_not, pNot_not]
          rcases advance_cases bad rest with ha | ha <;> simp only [ha] at hne ⊢
          cases hp : pNot bad f rest <;> grind
        case lparen =>
          rw [pNot_lparen] at hne
          rw [pNot_lparen, pNot_lparen]
          rcases advance_cases bad rest with ha | ha <;> simp only [ha] at hne ⊢
          cases hp : pExpr bad f rest <;> grind
        case ident s =>
          rw [pNot_ident, pNot_ident]
        all_goals
          rw [pNot_other _ _ _ (by simp) (by simp) (by simp), pNot_other _ _ _ (by simp) (by simp) (by simp)]


theorem ResOK.ok_lt {n a r} (h : ResOK true n (.ok (a, r))) : r.length < n := by simpa using h
theorem ResOK.ok_le {n a r} (h : ResOK false n (.ok (a, r))) : r.length ≤ n := by simpa using h

/-- Fuel adequacy: with fuel at least linear in the number of remaining tokens, the out-of-fuel marker is
never returned. -/
structure NoFuel (bad : Bool) (f : Nat) : Prop where
  expr : ∀ ts, 3 * ts.length + 3 ≤ f → pExpr bad f ts ≠ .error .fuel
  exprLoop : ∀ acc ts, 3 * ts.length + 1 ≤ f → pExprLoop bad f acc ts ≠ .error .fuel
  and : ∀ ts, 3 * ts.length + 2 ≤ f → pAnd bad f ts ≠ .error .fuel
  andLoop : ∀ acc ts, 3 * ts.length + 1 ≤ f → pAndLoop bad f acc ts ≠ .error .fuel
  not : ∀ ts, 3 * ts.length + 1 ≤ f → pNot bad f ts ≠ .error .fuel

theorem noFuel (bad : Bool) : ∀ f, NoFuel bad f := by
  intro f
  induction f with
  | zero => constructor <;> intros <;> omega
  | succ f ih =>
    obtain ⟨h1, h2, h3, h4, h5⟩ := ih
    have hs := spec bad f
    constructor
    · intro ts hf
      rw [pExpr_succ]
      have := hs.and ts
      cases hp : pAnd bad f ts with
      | error e => have := h3 ts (by omega); grind
      | ok v =>
        obtain ⟨ret, r⟩ := v
        rw [hp] at this
        have := this.ok_lt
        exact h2 ret r (by omega)
    · intro acc ts hf
      by_cases hts : ∃ rest, ts = .or :: rest
      · obtain ⟨rest, rfl⟩ := hts
        rw [pExprLoop_or]
        simp only [List.length_cons] at hf
        rcases advance_cases bad rest with ha | ha <;> simp only [ha]
        · have := hs.and rest
          cases hp : pAnd bad f rest with
          | error e => have := h3 rest (by omega); grind
          | ok v =>
            obtain ⟨rhs, r'⟩ := v
            rw [hp] at this
            have := this.ok_lt
            exact h2 _ r' (by omega)
        · simp
      · rw [pExprLoop_stop _ _ _ _ (by grind)]; simp
    · intro ts hf
      rw [pAnd_succ]
      have := hs.not ts
      cases hp : pNot bad f ts with
      | error e => have := h5 ts (by omega); grind
      | ok v =>
        obtain ⟨ret, r⟩ := v
        rw [hp] at this
        have := this.ok_lt
        exact h4 ret r (by omega)
    · intro acc ts hf
      by_cases hts : ∃ rest, ts = .and :: rest
      · obtain ⟨rest, rfl⟩ := hts
        rw [pAndLoop_and]
        simp only [List.length_cons] at hf
        rcases advance_cases bad rest with ha | ha <;> simp only [ha]
        · have := hs.not rest
          cases hp : pNot bad f rest with
          | error e => have := h5 rest (by omega); grind
          | ok v =>
            obtain ⟨rhs, r'⟩ := v
            rw [hp] at this
            have := this.ok_lt
            exact h4 _ r' (by omega)
        · simp
      · rw [pAndLoop_stop _ _ _ _ (by grind)]; simp
    · intro ts hf
      rcases ts with _ | ⟨t, rest⟩
      · rw [pNot_other _ _ _ (by simp) (by simp) (by simp)]; simp
      · simp only [List.length_cons] at hf
        cases t
        case not =>
          rw [pNot_not]
          rcases advance_cases bad rest with ha | ha <;> simp only [ha]
          · cases hp : pNot bad f rest with
            | error e => have := h5 rest (by omega); grind
            | ok v => simp
          · simp
        case lparen =>
          rw [pNot_lparen]
          rcases advance_cases bad rest with ha | ha <;> simp only [ha]
          · cases hp : pExpr bad f rest with
            | error e => have := h1 rest (by omega); grind
            | ok v =>
              obtain ⟨e, r'⟩ := v
              rcases r' with _ | ⟨t', rest'⟩
              · simp
              · cases t' <;> simp
                rcases advance_cases bad rest' with ha' | ha' <;> simp [ha']
          · simp
        case ident s =>
          rw [pNot_ident]
          rcases advance_cases bad rest with ha | ha <;> simp [ha]
        all_goals
          rw [pNot_other _ _ _ (by simp) (by simp) (by simp)]; simp


/-- Soundness of the parser functions w.r.t. the reference grammar (lexing succeeded: `bad = false`):
what a call consumes is derivable from the corresponding non-terminal; a loop extends a derivation of what
was consumed before. -/
structure Sound (f : Nat) : Prop where
  expr : ∀ ts e r, pExpr false f ts = .ok (e, r) → ∃ m, ts = m ++ r ∧ GExpr m e
  exprLoop : ∀ acc ts e r, pExprLoop false f acc ts = .ok (e, r) →
    ∀ pre, GExpr pre acc → ∃ m, ts = m ++ r ∧ GExpr (pre ++ m) e
  and : ∀ ts e r, pAnd false f ts = .ok (e, r) → ∃ m, ts = m ++ r ∧ GAnd m e
  andLoop : ∀ acc ts e r, pAndLoop false f acc ts = .ok (e, r) →
    ∀ pre, GAnd pre acc → ∃ m, ts = m ++ r ∧ GAnd (pre ++ m) e
  not : ∀ ts e r, pNot false f ts = .ok (e, r) → ∃ m, ts = m ++ r ∧ GNot m e

theorem sound : ∀ f, Sound f := by
  intro f
  induction f with
  | zero => constructor <;> intros <;> simp_all [pExpr, pExprLoop, pAnd, pAndLoop, pNot]
  | succ f ih =>
    obtain ⟨h1, h2, h3, h4, h5⟩ := ih
    constructor
    · intro ts e r h
      rw [pExpr_succ] at h
      cases hp : pAnd false f ts with
      | error e => simp [hp] at h
      | ok v =>
        obtain ⟨ret, r1⟩ := v
        simp only [hp] at h
        obtain ⟨m1, rfl, g1⟩ := h3 _ _ _ hp
        obtain ⟨m2, rfl, g2⟩ := h2 _ _ _ _ h m1 (.ofAnd g1)
        exact ⟨m1 ++ m2, by simp, g2⟩
    · intro acc ts e r h pre gpre
      by_cases hts : ∃ rest, ts = .or :: rest
      · obtain ⟨rest, rfl⟩ := hts
        rw [pExprLoop_or] at h
        simp only [advance_false] at h
        cases hp : pAnd false f rest with
        | error e => simp [hp] at h
        | ok v =>
          obtain ⟨rhs, r'⟩ := v
          simp only [hp] at h
          obtain ⟨m1, rfl, g1⟩ := h3 _ _ _ hp
          obtain ⟨m2, rfl, g2⟩ := h2 _ _ _ _ h (pre ++ .or :: m1) (.or gpre g1)
          exact ⟨.or :: m1 ++ m2, by simp, by simpa using g2⟩
      · rw [pExprLoop_stop _ _ _ _ (by grind)] at h
        simp only [Except.ok.injEq, Prod.mk.injEq] at h
        obtain ⟨rfl, rfl⟩ := h
        exact ⟨[], by simp, by simpa using gpre⟩
    · intro ts e r h
      rw [pAnd_succ] at h
      cases hp : pNot false f ts with
      | error e => simp [hp] at h
      | ok v =>
        obtain ⟨ret, r1⟩ := v
        simp only [hp] at h
        obtain ⟨m1, rfl, g1⟩ := h5 _ _ _ hp
        obtain ⟨m2, rfl, g2⟩ := h4 _ _ _ _ h m1 (.ofNot g1)
        exact ⟨m1 ++ m2, by simp, g2⟩
    · intro acc ts e r h pre gpre
      by_cases hts : ∃ rest, ts = .and :: rest
      · obtain ⟨rest, rfl⟩ := hts
        rw [pAndLoop_and] at h
        simp only [advance_false] at h
        cases hp : pNot false f rest with
        | error e => simp [hp] at h
        | ok v =>
          obtain ⟨rhs, r'⟩ := v
          simp only [hp] at h
          obtain ⟨m1, rfl, g1⟩ := h5 _ _ _ hp
          obtain ⟨m2, rfl, g2⟩ := h4 _ _ _ _ h (pre ++ .and :: m1) (.and gpre g1)
          exact ⟨.and :: m1 ++ m2, by simp, by simpa using g2⟩
      · rw [pAndLoop_stop _ _ _ _ (by grind)] at h
        simp only [Except.ok.injEq, Prod.mk.injEq] at h
        obtain ⟨rfl, rfl⟩ := h
        exact ⟨[], by simp, by simpa using gpre⟩
    · intro ts e r h
      rcases ts with _ | ⟨t, rest⟩
      · rw [pNot_other _ _ _ (by simp) (by simp) (by simp)] at h; simp at h
      · cases t
        case not =>
          rw [pNot_not] at h
          simp only [advance_false] at h
          cases hp : pNot false f rest with
          | error e => simp [hp] at h
          | ok v =>
            obtain ⟨e1, r'⟩ := v
            simp only [hp, Except.ok.injEq, Prod.mk.injEq] at h
            obtain ⟨rfl, rfl⟩ := h
            obtain ⟨m1, rfl, g1⟩ := h5 _ _ _ hp
            exact ⟨.not :: m1, by simp, .not g1⟩
        case lparen =>
          rw [pNot_lparen] at h
          simp only [advance_false] at h
          cases hp : pExpr false f rest with
          | error e => simp [hp] at h
          | ok v =>
            obtain ⟨e1, r'⟩ := v
            rw [hp] at h
            obtain ⟨m1, hm, g1⟩ := h1 _ _ _ hp
            subst hm
            rcases r' with _ | ⟨t', rest'⟩
            · simp at h
            · cases t' <;> simp at h
              obtain ⟨rfl, rfl⟩ := h
              exact ⟨.lparen :: (m1 ++ [.rparen]), by simp, .paren g1⟩
        case ident s =>
          rw [pNot_ident] at h
          simp only [advance_false, Except.ok.injEq, Prod.mk.injEq] at h
          obtain ⟨rfl, rfl⟩ := h
          exact ⟨[.ident s], by simp, .ident s⟩
        all_goals
          rw [pNot_other _ _ _ (by simp) (by simp) (by simp)] at h; simp at h


theorem pExpr_mono_le {bad f g ts res} (h : pExpr bad f ts = res) (hne : res ≠ .error .fuel) (hfg : f ≤ g) :
    pExpr bad g ts = res := by
  induction hfg with
  | refl => exact h
  | step _ ih => rw [(mono bad _).expr ts (by rw [ih]; exact hne), ih]

theorem pExprLoop_mono_le {bad f g acc ts res} (h : pExprLoop bad f acc ts = res) (hne : res ≠ .error .fuel)
    (hfg : f ≤ g) : pExprLoop bad g acc ts = res := by
  induction hfg with
  | refl => exact h
  | step _ ih => rw [(mono bad _).exprLoop acc ts (by rw [ih]; exact hne), ih]

theorem pAnd_mono_le {bad f g ts res} (h : pAnd bad f ts = res) (hne : res ≠ .error .fuel) (hfg : f ≤ g) :
    pAnd bad g ts = res := by
  induction hfg with
  | refl => exact h
  | step _ ih => rw [(mono bad _).and ts (by rw [ih]; exact hne), ih]

theorem pAndLoop_mono_le {bad f g acc ts res} (h : pAndLoop bad f acc ts = res) (hne : res ≠ .error .fuel)
    (hfg : f ≤ g) : pAndLoop bad g acc ts = res := by
  induction hfg with
  | refl => exact h
  | step _ ih => rw [(mono bad _).andLoop acc ts (by rw [ih]; exact hne), ih]

theorem pNot_mono_le {bad f g ts res} (h : pNot bad f ts = res) (hne : res ≠ .error .fuel) (hfg : f ≤ g) :
    pNot bad g ts = res := by
  induction hfg with
  | refl => exact h
  | step _ ih => rw [(mono bad _).not ts (by rw [ih]; exact hne), ih]

/-- Completeness, by induction on derivations of the reference grammar. A `not_expr` is consumed exactly,
whatever follows; a derivation of `and_expr` / `expr` brings the corresponding loop to the state "accumulated
tree `e`, rest still to be read". -/
def Compl : Lvl → List Tok → Ast → Prop
  | .not, m, e => ∀ rest, ∃ f, pNot false f (m ++ rest) = .ok (e, rest)
  | .and, m, e => ∀ rest f e' r, pAndLoop false f e rest = .ok (e', r) →
      ∃ f', pAnd false f' (m ++ rest) = .ok (e', r)
  | .expr, m, e => ∀ rest, (∀ x, rest ≠ .and :: x) → ∀ f e' r, pExprLoop false f e rest = .ok (e', r) →
      ∃ f', pExpr false f' (m ++ rest) = .ok (e', r)

theorem complete {lvl m e} (h : Derives lvl m e) : Compl lvl m e := by
  induction h with
  | ident s =>
    intro rest
    exact ⟨1, by show pNot false (0 + 1) (.ident s :: rest) = _; rw [pNot_ident]; simp⟩
  | @not ts e _ ih =>
    intro rest
    obtain ⟨f, hf⟩ := ih rest
    exact ⟨f + 1, by rw [List.cons_append, pNot_not]; simp [hf]⟩
  | @paren ts e _ ih =>
    intro rest
    obtain ⟨f, hf⟩ := ih (.rparen :: rest) (by simp) 1 e (.rparen :: rest)
      (by rw [pExprLoop_stop _ _ _ _ (by simp)])
    refine ⟨f + 1, ?_⟩
    rw [List.cons_append, pNot_lparen]
    simp [hf]
  | @ofNot ts e _ ih =>
    intro rest f e' r hl
    obtain ⟨f0, hf0⟩ := ih rest
    refine ⟨max f0 f + 1, ?_⟩
    rw [pAnd_succ, pNot_mono_le hf0 (by simp) (Nat.le_max_left _ _)]
    exact pAndLoop_mono_le hl (by simp) (Nat.le_max_right _ _)
  | @and l r a b _ _ ihl ihr =>
    intro rest f e' r' hl
    obtain ⟨fr, hfr⟩ := ihr rest
    have : pAndLoop false (max fr f + 1) a (.and :: (r ++ rest)) = .ok (e', r') := by
      rw [pAndLoop_and]
      simp only [advance_false]
      rw [pNot_mono_le hfr (by simp) (Nat.le_max_left _ _)]
      exact pAndLoop_mono_le hl (by simp) (Nat.le_max_right _ _)
    obtain ⟨f', hf'⟩ := ihl _ _ _ _ this
    exact ⟨f', by simpa using hf'⟩
  | @ofAnd ts e _ ih =>
    intro rest hrest f e' r hl
    obtain ⟨f1, hf1⟩ := ih rest 1 e rest (by rw [pAndLoop_stop _ _ _ _ hrest])
    refine ⟨max f1 f + 1, ?_⟩
    rw [pExpr_succ, pAnd_mono_le hf1 (by simp) (Nat.le_max_left _ _)]
    exact pExprLoop_mono_le hl (by simp) (Nat.le_max_right _ _)
  | @or l r a b _ _ ihl ihr =>
    intro rest hrest f e' r' hl
    obtain ⟨f1, hf1⟩ := ihr rest 1 b rest (by rw [pAndLoop_stop _ _ _ _ hrest])
    have : pExprLoop false (max f1 f + 1) a (.or :: (r ++ rest)) = .ok (e', r') := by
      rw [pExprLoop_or]
      simp only [advance_false]
      rw [pAnd_mono_le hf1 (by simp) (Nat.le_max_left _ _)]
      exact pExprLoop_mono_le hl (by simp) (Nat.le_max_right _ _)
    obtain ⟨f', hf'⟩ := ihl _ (by simp) _ _ _ this
    exact ⟨f', by simpa using hf'⟩


theorem pExpr_parseFuel_ne_fuel (bad ts) : pExpr bad (parseFuel ts.length) ts ≠ .error .fuel :=
  (noFuel bad _).expr ts (by simp [parseFuel])

/-- With the standard fuel the parser finds every parse that any amount of fuel finds. -/
theorem pExpr_parseFuel_of_ok {bad f ts v} (h : pExpr bad f ts = .ok v) :
    pExpr bad (parseFuel ts.length) ts = .ok v := by
  have h1 := pExpr_mono_le (g := max f (parseFuel ts.length)) h (by simp) (Nat.le_max_left _ _)
  have h2 := pExpr_mono_le (g := max f (parseFuel ts.length)) rfl (pExpr_parseFuel_ne_fuel bad ts)
    (Nat.le_max_right _ _)
  rw [← h2, h1]

theorem parseToks_cons (bad t ts) : parseToks bad (t :: ts) =
    match pExpr bad (parseFuel (t :: ts).length) (t :: ts) with
    | .error e => .error e
    | .ok (e, []) => if bad then .error (.at 0) else .ok e
    | .ok (_, r) => .error (.at r.length) := by
  rw [parseToks]
  · rfl
  · simp

theorem parseToks_ok_iff (ts : List Tok) (e : Ast) : parseToks false ts = .ok e ↔ GTop ts e := by
  constructor
  · intro h
    rcases ts with _ | ⟨t, ts⟩
    · simp [parseToks] at h; subst h; exact .empty
    · rw [parseToks_cons] at h
      cases hp : pExpr false (parseFuel (t :: ts).length) (t :: ts) with
      | error e => rw [hp] at h; simp at h
      | ok v =>
        obtain ⟨e1, r⟩ := v
        rw [hp] at h
        rcases r with _ | ⟨t', r⟩
        · simp at h
          subst h
          obtain ⟨m, hm, g⟩ := (sound _).expr _ _ _ hp
          simp at hm; subst hm
          exact .expr g
        · simp at h
  · intro h
    cases h with
    | empty => simp [parseToks]
    | expr g =>
      rcases ts with _ | ⟨t, ts⟩
      · exact absurd rfl g.ne_nil
      · obtain ⟨f, hf⟩ := complete g [] (by simp) 1 e [] (by rw [pExprLoop_stop _ _ _ _ (by simp)])
        rw [List.append_nil] at hf
        rw [parseToks_cons, pExpr_parseFuel_of_ok hf]
        simp

theorem parseToks_bad_ne_ok (ts : List Tok) (e : Ast) : parseToks true ts ≠ .ok e := by
  rcases ts with _ | ⟨t, ts⟩
  · simp [parseToks]
  · rw [parseToks_cons]
    cases hp : pExpr true (parseFuel (t :: ts).length) (t :: ts) with
    | error e => simp
    | ok v =>
      obtain ⟨e1, r⟩ := v
      rcases r with _ | ⟨t', r⟩ <;> simp

theorem parseToks_total (bad : Bool) (ts : List Tok) :
    (∃ e, parseToks bad ts = .ok e) ∨ (∃ k, parseToks bad ts = .error (.at k) ∧ k ≤ ts.length) := by
  rcases ts with _ | ⟨t, ts⟩
  · cases bad <;> simp [parseToks]
  · rw [parseToks_cons]
    have hs := (spec bad (parseFuel (t :: ts).length)).expr (t :: ts)
    have hn := pExpr_parseFuel_ne_fuel bad (t :: ts)
    cases hp : pExpr bad (parseFuel (t :: ts).length) (t :: ts) with
    | error e =>
      cases e with
      | fuel => exact absurd hp hn
      | «at» k => rw [hp] at hs; right; exact ⟨k, rfl, by simpa using hs⟩
    | ok v =>
      obtain ⟨e1, r⟩ := v
      rw [hp] at hs
      have := hs.ok_lt
      rcases r with _ | ⟨t', r⟩
      · cases bad <;> simp
      · right; exact ⟨(t' :: r).length, rfl, by omega⟩

/-- The grammar is unambiguous: a token string denotes at most one tree. -/
theorem GTop.unique {ts e e'} (h : GTop ts e) (h' : GTop ts e') : e = e' := by
  have := (parseToks_ok_iff ts e).2 h
  have := (parseToks_ok_iff ts e').2 h'
  simp_all


/-! ## Part B: lexer -/

def isBlank (c : Char) : Bool := Generated.exprWsChars.contains c

/-- Assumption on the parameter `isWord` (true of `\w`, checked by the harness): word characters are neither
blank nor parentheses. -/
def WordSane (isWord : Char → Bool) : Prop :=
  ∀ c, isWord c = true → isBlank c = false ∧ c ≠ Generated.exprLParen ∧ c ≠ Generated.exprRParen

theorem extra_not_delim : ∀ c ∈ Generated.identExtraChars,
    isBlank c = false ∧ c ≠ Generated.exprLParen ∧ c ≠ Generated.exprRParen := by decide

theorem parens_facts : isBlank Generated.exprLParen = false ∧ isBlank Generated.exprRParen = false ∧
    Generated.exprLParen ≠ Generated.exprRParen := by decide

theorem identChar_not_delim {isWord} (hw : WordSane isWord) {c} (h : isIdentChar isWord c = true) :
    isBlank c = false ∧ c ≠ Generated.exprLParen ∧ c ≠ Generated.exprRParen := by
  unfold isIdentChar at h
  simp only [Bool.or_eq_true, Bool.and_eq_true] at h
  rcases h with ⟨_, h⟩ | h
  · exact hw c h
  · exact extra_not_delim c (by simpa using h)

theorem blank_not_identChar {isWord} (hw : WordSane isWord) {c} (h : isBlank c = true) :
    isIdentChar isWord c = false := by
  cases hc : isIdentChar isWord c
  · rfl
  · have := (identChar_not_delim hw hc).1; simp_all

theorem lparen_not_identChar {isWord} (hw : WordSane isWord) : isIdentChar isWord Generated.exprLParen = false := by
  cases hc : isIdentChar isWord Generated.exprLParen
  · rfl
  · exact absurd rfl (identChar_not_delim hw hc).2.1

theorem rparen_not_identChar {isWord} (hw : WordSane isWord) : isIdentChar isWord Generated.exprRParen = false := by
  cases hc : isIdentChar isWord Generated.exprRParen
  · rfl
  · exact absurd rfl (identChar_not_delim hw hc).2.2

/-! Step equations of the lexer loop. -/
@[simp] theorem lexGo_nil (isWord f pos) : lexGo isWord f pos [] = ⟨[], .eof pos⟩ := by
  cases f <;> rfl

theorem lexGo_blank (isWord f pos) {c cs} (h : isBlank c = true) :
    lexGo isWord (f + 1) pos (c :: cs) = lexGo isWord f (pos + 1) cs := by
  rw [lexGo]; unfold isBlank at h; simp only [h, ↓reduceIte]

theorem lexGo_lparen (isWord f pos cs) :
    lexGo isWord (f + 1) pos (Generated.exprLParen :: cs) = (lexGo isWord f (pos + 1) cs).push (.lparen, pos) := by
  rw [lexGo]; have := parens_facts.1; unfold isBlank at this; simp only [this, Bool.false_eq_true, ↓reduceIte, beq_self_eq_true]

theorem lexGo_rparen (isWord f pos cs) :
    lexGo isWord (f + 1) pos (Generated.exprRParen :: cs) = (lexGo isWord f (pos + 1) cs).push (.rparen, pos) := by
  rw [lexGo]; have h1 := parens_facts.2.1; have h2 := parens_facts.2.2; unfold isBlank at h1
  simp only [h1, Bool.false_eq_true, ↓reduceIte, beq_iff_eq, Ne.symm h2, beq_self_eq_true]

theorem lexGo_ident {isWord} (f pos) {c cs} (hb : isBlank c = false) (hl : c ≠ Generated.exprLParen)
    (hr : c ≠ Generated.exprRParen) (hc : isIdentChar isWord c = true) :
    lexGo isWord (f + 1) pos (c :: cs) =
      (lexGo isWord f (pos + (cs.takeWhile (isIdentChar isWord)).length + 1)
        (cs.dropWhile (isIdentChar isWord))).push (classify (c :: cs.takeWhile (isIdentChar isWord)), pos) := by
  rw [lexGo]; unfold isBlank at hb
  simp only [hb, Bool.false_eq_true, ↓reduceIte, beq_iff_eq, hl, hr, hc, List.length_cons, Nat.add_assoc]

theorem lexGo_bad {isWord} (f pos) {c cs} (hb : isBlank c = false) (hl : c ≠ Generated.exprLParen)
    (hr : c ≠ Generated.exprRParen) (hc : isIdentChar isWord c = false) :
    lexGo isWord (f + 1) pos (c :: cs) = ⟨[], .bad pos⟩ := by
  rw [lexGo]; unfold isBlank at hb
  simp only [hb, Bool.false_eq_true, ↓reduceIte, beq_iff_eq, hl, hr, hc]

/-- Every character is of exactly one of the five kinds the loop distinguishes. -/
theorem char_cases (isWord : Char → Bool) (c : Char) :
    isBlank c = true ∨ (isBlank c = false ∧ c = Generated.exprLParen) ∨
    (isBlank c = false ∧ c ≠ Generated.exprLParen ∧ c = Generated.exprRParen) ∨
    (isBlank c = false ∧ c ≠ Generated.exprLParen ∧ c ≠ Generated.exprRParen ∧ isIdentChar isWord c = true) ∨
    (isBlank c = false ∧ c ≠ Generated.exprLParen ∧ c ≠ Generated.exprRParen ∧ isIdentChar isWord c = false) := by
  cases isBlank c <;> by_cases h1 : c = Generated.exprLParen <;> by_cases h2 : c = Generated.exprRParen <;>
    cases isIdentChar isWord c <;> simp_all

theorem length_dropWhile_le {α} (p : α → Bool) (l : List α) : (l.dropWhile p).length ≤ l.length := by
  induction l with
  | nil => simp
  | cons a l ih => rw [List.dropWhile_cons]; split <;> simp <;> omega

/-- The amount of fuel does not matter once it covers the remaining characters. -/
theorem lexGo_fuel (isWord : Char → Bool) : ∀ f g pos cs, cs.length ≤ f → cs.length ≤ g →
    lexGo isWord f pos cs = lexGo isWord g pos cs := by
  intro f
  induction f with
  | zero => intro g pos cs hf hg; have : cs = [] := by simpa using hf
            subst this; simp
  | succ f ih =>
    intro g pos cs hf hg
    rcases cs with _ | ⟨c, cs⟩
    · simp
    · obtain ⟨g, rfl⟩ : ∃ g', g = g' + 1 := ⟨g - 1, by simp at hg; omega⟩
      simp only [List.length_cons, Nat.add_le_add_iff_right] at hf hg
      rcases char_cases isWord c with h | ⟨hb, rfl⟩ | ⟨hb, hl, rfl⟩ | ⟨hb, hl, hr, hc⟩ | ⟨hb, hl, hr, hc⟩
      · rw [lexGo_blank _ _ _ h, lexGo_blank _ _ _ h, ih g _ _ hf hg]
      · rw [lexGo_lparen, lexGo_lparen, ih g _ _ hf hg]
      · rw [lexGo_rparen, lexGo_rparen, ih g _ _ hf hg]
      · have := length_dropWhile_le (isIdentChar isWord) cs
        rw [lexGo_ident _ _ hb hl hr hc, lexGo_ident _ _ hb hl hr hc, ih g _ _ (by omega) (by omega)]
      · rw [lexGo_bad _ _ hb hl hr hc, lexGo_bad _ _ hb hl hr hc]


theorem takeWhile_append_stop {α} (p : α → Bool) (w rest : List α) (hw : ∀ c ∈ w, p c = true)
    (hr : ∀ c, rest.head? = some c → p c = false) : (w ++ rest).takeWhile p = w := by
  induction w with
  | nil =>
    rcases rest with _ | ⟨c, rest⟩
    · simp
    · simp [hr c (by simp)]
  | cons a w ih =>
    simp only [List.cons_append, List.takeWhile_cons, hw a (by simp), ↓reduceIte]
    rw [ih (fun c hc => hw c (by simp [hc]))]

theorem dropWhile_append_stop {α} (p : α → Bool) (w rest : List α) (hw : ∀ c ∈ w, p c = true)
    (hr : ∀ c, rest.head? = some c → p c = false) : (w ++ rest).dropWhile p = rest := by
  induction w with
  | nil =>
    rcases rest with _ | ⟨c, rest⟩
    · simp
    · simp [hr c (by simp)]
  | cons a w ih =>
    simp only [List.cons_append, List.dropWhile_cons, hw a (by simp), ↓reduceIte]
    exact ih (fun c hc => hw c (by simp [hc]))

/-- A run of blanks is skipped. -/
theorem lexGo_blanks (isWord : Char → Bool) : ∀ (b : List Char) f pos rest, (∀ c ∈ b, isBlank c = true) →
    (b ++ rest).length ≤ f → lexGo isWord f pos (b ++ rest) = lexGo isWord f (pos + b.length) rest := by
  intro b
  induction b with
  | nil => intros; simp
  | cons c b ih =>
    intro f pos rest hb hf
    obtain ⟨f, rfl⟩ : ∃ f', f = f' + 1 := ⟨f - 1, by simp at hf; omega⟩
    simp only [List.cons_append, List.length_cons, Nat.add_le_add_iff_right] at hf
    rw [List.cons_append, lexGo_blank _ _ _ (hb c (by simp)), ih f _ _ (fun c hc => hb c (by simp [hc])) hf]
    rw [lexGo_fuel isWord f (f + 1) _ rest (by simp at hf; omega) (by simp at hf; omega)]
    simp [Nat.add_assoc, Nat.add_comm 1]

/-- A maximal run of identifier characters becomes one token, classified as a whole. -/
theorem lexGo_word {isWord} (hw : WordSane isWord) (w rest : List Char) (f pos : Nat) (hne : w ≠ [])
    (hall : ∀ c ∈ w, isIdentChar isWord c = true)
    (hstop : ∀ c, rest.head? = some c → isIdentChar isWord c = false) (hf : (w ++ rest).length ≤ f) :
    lexGo isWord f pos (w ++ rest) = (lexGo isWord f (pos + w.length) rest).push (classify w, pos) := by
  rcases w with _ | ⟨c, w⟩
  · exact absurd rfl hne
  · obtain ⟨f, rfl⟩ : ∃ f', f = f' + 1 := ⟨f - 1, by simp at hf; omega⟩
    have hc := hall c (by simp)
    obtain ⟨hb, hl, hr⟩ := identChar_not_delim hw hc
    have hall' : ∀ c ∈ w, isIdentChar isWord c = true := fun c hc => hall c (by simp [hc])
    rw [List.cons_append, lexGo_ident _ _ hb hl hr hc, takeWhile_append_stop _ _ _ hall' hstop,
      dropWhile_append_stop _ _ _ hall' hstop]
    rw [lexGo_fuel isWord f (f + 1) _ rest (by simp at hf; omega) (by simp at hf; omega)]
    simp [Nat.add_assoc]

/-- Positions: tokens lie inside the text that was read, in front of where lexing stopped; `EOF` sits at the
end of the text, a rejected character inside it. -/
theorem lexGo_bounds (isWord : Char → Bool) : ∀ f pos cs, cs.length ≤ f →
    (∀ t ∈ (lexGo isWord f pos cs).toks, pos ≤ t.2 ∧ t.2 < pos + cs.length) ∧
    (match (lexGo isWord f pos cs).stop with
     | .eof p => p = pos + cs.length
     | .bad p => pos ≤ p ∧ p < pos + cs.length) := by
  intro f
  induction f with
  | zero => intro pos cs hf; have : cs = [] := by simpa using hf
            subst this; simp
  | succ f ih =>
    intro pos cs hf
    rcases cs with _ | ⟨c, cs⟩
    · simp
    · simp only [List.length_cons, Nat.add_le_add_iff_right] at hf
      rcases char_cases isWord c with h | ⟨hb, rfl⟩ | ⟨hb, hl, rfl⟩ | ⟨hb, hl, hr, hc⟩ | ⟨hb, hl, hr, hc⟩
      · rw [lexGo_blank _ _ _ h]
        obtain ⟨h1, h2⟩ := ih (pos + 1) cs hf
        refine ⟨fun t ht => ?_, ?_⟩
        · have := h1 t ht; simp only [List.length_cons]; omega
        · revert h2; cases (lexGo isWord f (pos + 1) cs).stop <;> simp only [List.length_cons] <;> omega
      · rw [lexGo_lparen]
        obtain ⟨h1, h2⟩ := ih (pos + 1) cs hf
        refine ⟨fun t ht => ?_, ?_⟩
        · simp only [Lexed.push, List.mem_cons] at ht
          rcases ht with rfl | ht
          · simp
          · have := h1 t ht; simp only [List.length_cons]; omega
        · simp only [Lexed.push]
          revert h2; cases (lexGo isWord f (pos + 1) cs).stop <;> simp only [List.length_cons] <;> omega
      · rw [lexGo_rparen]
        obtain ⟨h1, h2⟩ := ih (pos + 1) cs hf
        refine ⟨fun t ht => ?_, ?_⟩
        · simp only [Lexed.push, List.mem_cons] at ht
          rcases ht with rfl | ht
          · simp
          · have := h1 t ht; simp only [List.length_cons]; omega
        · simp only [Lexed.push]
          revert h2; cases (lexGo isWord f (pos + 1) cs).stop <;> simp only [List.length_cons] <;> omega
      · rw [lexGo_ident _ _ hb hl hr hc]
        have hlen : (cs.takeWhile (isIdentChar isWord)).length + (cs.dropWhile (isIdentChar isWord)).length
            = cs.length := by
          rw [← List.length_append, List.takeWhile_append_dropWhile]
        obtain ⟨h1, h2⟩ := ih (pos + (cs.takeWhile (isIdentChar isWord)).length + 1)
          (cs.dropWhile (isIdentChar isWord)) (by omega)
        refine ⟨fun t ht => ?_, ?_⟩
        · simp only [Lexed.push, List.mem_cons] at ht
          rcases ht with rfl | ht
          · simp
          · have := h1 t ht; simp only [List.length_cons]; omega
        · simp only [Lexed.push]
          revert h2
          cases (lexGo isWord f (pos + (cs.takeWhile (isIdentChar isWord)).length + 1)
            (cs.dropWhile (isIdentChar isWord))).stop <;> simp only [List.length_cons] <;> omega
      · rw [lexGo_bad _ _ hb hl hr hc]; simp


theorem takeWhile_append_reject {α} (p : α → Bool) (xs : List α) (c : α) (ys : List α) (hc : p c = false) :
    (xs ++ c :: ys).takeWhile p = xs.takeWhile p := by
  induction xs with
  | nil => simp [hc]
  | cons a xs ih => simp only [List.cons_append, List.takeWhile_cons, ih]

theorem dropWhile_append_reject {α} (p : α → Bool) (xs : List α) (c : α) (ys : List α) (hc : p c = false) :
    (xs ++ c :: ys).dropWhile p = xs.dropWhile p ++ c :: ys := by
  induction xs with
  | nil => simp [hc]
  | cons a xs ih =>
    simp only [List.cons_append, List.dropWhile_cons, ih]
    split <;> simp

/-- A character outside the alphabet stops the lexer exactly there: the tokens in front of it are those of
the prefix, everything behind it is never looked at. -/
theorem lexGo_reject {isWord : Char → Bool} (c : Char) (post : List Char) (hb : isBlank c = false)
    (hl : c ≠ Generated.exprLParen) (hr : c ≠ Generated.exprRParen) (hc : isIdentChar isWord c = false) :
    ∀ f pos pre, (pre ++ c :: post).length ≤ f → (∃ q, (lexGo isWord f pos pre).stop = .eof q) →
      lexGo isWord f pos (pre ++ c :: post) = ⟨(lexGo isWord f pos pre).toks, .bad (pos + pre.length)⟩ := by
  intro f
  induction f with
  | zero => intro pos pre hf; simp at hf
  | succ f ih =>
    intro pos pre hf hq
    rcases pre with _ | ⟨d, pre⟩
    · simp [lexGo_bad _ _ hb hl hr hc]
    · simp only [List.cons_append, List.length_cons, Nat.add_le_add_iff_right] at hf
      rw [List.cons_append]
      rcases char_cases isWord d with h | ⟨hdb, rfl⟩ | ⟨hdb, hdl, rfl⟩ | ⟨hdb, hdl, hdr, hdc⟩ | ⟨hdb, hdl, hdr, hdc⟩
      · rw [lexGo_blank _ _ _ h] at hq
        rw [lexGo_blank _ _ _ h, lexGo_blank _ _ _ h]
        rw [ih _ _ hf hq]; simp [Nat.add_assoc, Nat.add_comm 1]
      · rw [lexGo_lparen] at hq
        rw [lexGo_lparen, lexGo_lparen]
        rw [ih _ _ hf (by simpa [Lexed.push] using hq)]; simp [Lexed.push, Nat.add_assoc, Nat.add_comm 1]
      · rw [lexGo_rparen] at hq
        rw [lexGo_rparen, lexGo_rparen]
        rw [ih _ _ hf (by simpa [Lexed.push] using hq)]; simp [Lexed.push, Nat.add_assoc, Nat.add_comm 1]
      · rw [lexGo_ident _ _ hdb hdl hdr hdc] at hq
        rw [lexGo_ident _ _ hdb hdl hdr hdc, lexGo_ident _ _ hdb hdl hdr hdc]
        rw [takeWhile_append_reject _ _ _ _ hc, dropWhile_append_reject _ _ _ _ hc]
        have hlen : (pre.takeWhile (isIdentChar isWord)).length + (pre.dropWhile (isIdentChar isWord)).length
            = pre.length := by
          rw [← List.length_append, List.takeWhile_append_dropWhile]
        rw [ih _ _ (by simp at hf ⊢; omega) (by simpa [Lexed.push] using hq)]
        simp only [Lexed.push, Lexed.mk.injEq, Stop.bad.injEq, true_and, List.length_cons]
        omega
      · rw [lexGo_bad _ _ hdb hdl hdr hdc] at hq; simp at hq

/-! ### Rendering token lists back to text -/

/-- The text of a token. -/
def Tok.text : Tok → List Char
  | .lparen => [Generated.exprLParen]
  | .rparen => [Generated.exprRParen]
  | .or => ['o', 'r']
  | .and => ['a', 'n', 'd']
  | .not => ['n', 'o', 't']
  | .ident s => s

/-- Keywords and identifiers (tokens made of identifier characters), as opposed to parentheses. -/
def Tok.wordy : Tok → Bool
  | .lparen | .rparen => false
  | _ => true

/-- Identifier tokens as the lexer can produce them: a non-empty run of identifier characters that is not
a keyword. -/
def Tok.WF (isWord : Char → Bool) : Tok → Prop
  | .ident s => s ≠ [] ∧ (∀ c ∈ s, isIdentChar isWord c = true) ∧ classify s = .ident s
  | _ => True

/-- Assumption on the parameter `isWord` (true of `\w`): the letters of the keywords are word characters. -/
def KwWord (isWord : Char → Bool) : Prop := ∀ c ∈ ['o', 'r', 'a', 'n', 'd', 't'], isWord c = true

/-- Text of a token list: before each token a (possibly empty) run of blanks, `trail` at the end. -/
def render : List (List Char × Tok) → List Char → List Char
  | [], trail => trail
  | (b, t) :: rest, trail => b ++ (t.text ++ render rest trail)

/-- Two adjacent keyword/identifier tokens are separated by at least one blank. -/
def SepOK : List (List Char × Tok) → Prop
  | (_, t1) :: (b2, t2) :: rest => (t1.wordy = true → t2.wordy = true → b2 ≠ []) ∧ SepOK ((b2, t2) :: rest)
  | _ => True

theorem classify_text {isWord} {t : Tok} (h : t.WF isWord) (hwd : t.wordy = true) : classify t.text = t := by
  cases t with
  | ident s => exact h.2.2
  | lparen => simp [Tok.wordy] at hwd
  | rparen => simp [Tok.wordy] at hwd
  | or => decide
  | and => decide
  | not => decide

theorem text_identChars {isWord} (hk : KwWord isWord) {t : Tok} (h : t.WF isWord) (hwd : t.wordy = true) :
    t.text ≠ [] ∧ ∀ c ∈ t.text, isIdentChar isWord c = true := by
  have kw : ∀ c ∈ ['o', 'r', 'a', 'n', 'd', 't'], isIdentChar isWord c = true := by
    intro c hc; unfold isIdentChar; simp [hk c hc, Generated.identHasWordClass]
  cases t with
  | ident s => exact ⟨h.1, h.2.1⟩
  | lparen => simp [Tok.wordy] at hwd
  | rparen => simp [Tok.wordy] at hwd
  | or => exact ⟨by simp [Tok.text], fun c hc => kw c (by simp [Tok.text] at hc; rcases hc with rfl | rfl <;> simp)⟩
  | and => exact ⟨by simp [Tok.text], fun c hc => kw c (by simp [Tok.text] at hc; rcases hc with rfl | rfl | rfl <;> simp)⟩
  | not => exact ⟨by simp [Tok.text], fun c hc => kw c (by simp [Tok.text] at hc; rcases hc with rfl | rfl | rfl <;> simp)⟩


/-- Hypotheses of the round trip: blanks are blanks, identifiers are lexable identifiers. -/
def ItemsOK (isWord : Char → Bool) (items : List (List Char × Tok)) : Prop :=
  ∀ it ∈ items, (∀ c ∈ it.1, isBlank c = true) ∧ it.2.WF isWord

/-- What follows a keyword/identifier token in a rendering does not continue it. -/
theorem render_head_stop {isWord} (hw : WordSane isWord) (t : Tok) (b : List Char)
    (rest : List (List Char × Tok)) (trail : List Char) (hwd : t.wordy = true)
    (hok : ItemsOK isWord rest) (htr : ∀ c ∈ trail, isBlank c = true) (hsep : SepOK ((b, t) :: rest)) :
    ∀ c, (render rest trail).head? = some c → isIdentChar isWord c = false := by
  intro c hc
  rcases rest with _ | ⟨⟨b2, t2⟩, rest⟩
  · simp only [render] at hc
    exact blank_not_identChar hw (htr c (List.mem_of_mem_head? hc))
  · simp only [render] at hc
    rcases b2 with _ | ⟨c2, b2⟩
    · have hnw : t2.wordy = false := by
        cases h2 : t2.wordy
        · rfl
        · exact absurd rfl (hsep.1 hwd h2)
      cases t2 <;> simp [Tok.wordy] at hnw
      · simp [Tok.text] at hc; subst hc; exact lparen_not_identChar hw
      · simp [Tok.text] at hc; subst hc; exact rparen_not_identChar hw
    · simp at hc; subst hc
      exact blank_not_identChar hw ((hok (c2 :: b2, t2) (by simp)).1 c2 (by simp))

theorem SepOK.tail {it : List Char × Tok} {rest} (h : SepOK (it :: rest)) : SepOK rest := by
  rcases rest with _ | ⟨it2, rest⟩
  · simp [SepOK]
  · obtain ⟨b, t⟩ := it; obtain ⟨b2, t2⟩ := it2; exact h.2

/-- Lexing a rendering gives back the tokens and reaches the end of the text. -/
theorem lexGo_render {isWord} (hw : WordSane isWord) (hk : KwWord isWord) :
    ∀ (items : List (List Char × Tok)) (trail : List Char) (f pos : Nat), ItemsOK isWord items →
      (∀ c ∈ trail, isBlank c = true) → SepOK items → (render items trail).length ≤ f →
      (lexGo isWord f pos (render items trail)).toks.map (·.1) = items.map (·.2) ∧
      (lexGo isWord f pos (render items trail)).stop = .eof (pos + (render items trail).length) := by
  intro items
  induction items with
  | nil =>
    intro trail f pos _ htr _ hf
    simp only [render] at hf
    have := lexGo_blanks isWord trail f pos [] htr (by simpa using hf)
    simp only [List.append_nil] at this
    simp [render, this]
  | cons it rest ih =>
    intro trail f pos hok htr hsep hf
    obtain ⟨b, t⟩ := it
    have hokr : ItemsOK isWord rest := fun it hit => hok it (by simp [hit])
    obtain ⟨hb, hwf⟩ := hok (b, t) (by simp)
    simp only [render] at hf ⊢
    rw [lexGo_blanks isWord b f pos _ hb hf]
    simp only [List.length_append] at hf
    by_cases hwd : t.wordy = true
    · obtain ⟨hne, hall⟩ := text_identChars hk hwf hwd
      rw [lexGo_word hw _ _ _ _ hne hall (render_head_stop hw t b rest trail hwd hokr htr hsep)
        (by simp; omega)]
      obtain ⟨h1, h2⟩ := ih trail f (pos + b.length + t.text.length) hokr htr hsep.tail (by omega)
      simp only [Lexed.push, List.map_cons, classify_text hwf hwd, h1, h2, List.length_append]
      exact ⟨trivial, by congr 1; omega⟩
    · obtain ⟨f, rfl⟩ : ∃ f', f = f' + 1 := ⟨f - 1, by cases t <;> simp [Tok.text, Tok.wordy] at hf hwd <;> omega⟩
      cases t <;> simp [Tok.wordy] at hwd
      · simp only [Tok.text, List.cons_append, List.nil_append, List.length_cons, List.length_nil] at hf ⊢
        rw [lexGo_lparen, lexGo_fuel isWord f (f + 1) _ _ (by omega) (by omega)]
        obtain ⟨h1, h2⟩ := ih trail (f + 1) (pos + b.length + 1) hokr htr hsep.tail (by omega)
        simp only [Lexed.push, List.map_cons, h1, h2, List.length_append, List.length_cons]
        exact ⟨trivial, by congr 1; omega⟩
      · simp only [Tok.text, List.cons_append, List.nil_append, List.length_cons, List.length_nil] at hf ⊢
        rw [lexGo_rparen, lexGo_fuel isWord f (f + 1) _ _ (by omega) (by omega)]
        obtain ⟨h1, h2⟩ := ih trail (f + 1) (pos + b.length + 1) hokr htr hsep.tail (by omega)
        simp only [Lexed.push, List.map_cons, h1, h2, List.length_append, List.length_cons]
        exact ⟨trivial, by congr 1; omega⟩


/-! ## Part C: matchers -/

/-- `a in b` (Python, strings) is the contiguous-substring relation. -/
theorem isInfixB_iff (a b : List Char) : isInfixB a b = true ↔ a <:+: b := by
  induction b with
  | nil => simp [isInfixB, List.isPrefixOf_iff_prefix]
  | cons c b ih =>
    rw [isInfixB, Bool.or_eq_true, ih, List.isPrefixOf_iff_prefix, List.infix_cons_iff]

theorem mem_selectIdx (pred : TaskInfo → Bool) (tasks : List TaskInfo) (i : Nat) :
    i ∈ selectIdx pred tasks ↔ ∃ t, tasks[i]? = some t ∧ pred t = true := by
  unfold selectIdx
  simp only [List.mem_filterMap]
  constructor
  · rintro ⟨⟨j, t⟩, hmem, hp⟩
    simp only at hp
    split at hp
    · rename_i hpt
      simp only [Option.some.injEq] at hp; subst hp
      refine ⟨t, ?_, hpt⟩
      rw [List.mem_iff_getElem] at hmem
      obtain ⟨k, hk, hk'⟩ := hmem
      simp only [List.getElem_zip, List.getElem_range, Prod.mk.injEq] at hk'
      obtain ⟨rfl, rfl⟩ := hk'
      simp at hk
      simp [hk]
    · simp at hp
  · rintro ⟨t, ht, hp⟩
    refine ⟨(i, t), ?_, by simp [hp]⟩
    rw [List.getElem?_eq_some_iff] at ht
    obtain ⟨hi, rfl⟩ := ht
    rw [List.mem_iff_getElem]
    exact ⟨i, by simp [hi], by simp⟩


theorem classify_ident_iff (w : List Char) :
    classify w = .ident w ↔ w ≠ ['o', 'r'] ∧ w ≠ ['a', 'n', 'd'] ∧ w ≠ ['n', 'o', 't'] := by
  unfold classify
  simp only [Generated.exprKeywords, List.find?]
  by_cases h1 : w = ['o', 'r']
  · subst h1; simp [kindTok]
  · by_cases h2 : w = ['a', 'n', 'd']
    · subst h2; simp [kindTok]
    · by_cases h3 : w = ['n', 'o', 't']
      · subst h3; simp [kindTok]
      · have e1 : (['o', 'r'] == w) = false := by simpa using Ne.symm h1
        have e2 : (['a', 'n', 'd'] == w) = false := by simpa using Ne.symm h2
        have e3 : (['n', 'o', 't'] == w) = false := by simpa using Ne.symm h3
        simp [e1, e2, e3, h1, h2, h3]

theorem classify_keywords : classify ['o', 'r'] = .or ∧ classify ['a', 'n', 'd'] = .and ∧
    classify ['n', 'o', 't'] = .not := by decide

/-- Columns of `ParseError` lie between the position of the first character and one past the end of the string
(positions are 0-based, the column adds `Generated.exprErrorColOffset` — 1 in the current source). -/
theorem colAt_bounds (isWord : Char → Bool) (cs : List Char) (k : Nat) :
    Generated.exprErrorColOffset ≤ (lex isWord cs).colAt k ∧
    (lex isWord cs).colAt k ≤ cs.length + Generated.exprErrorColOffset := by
  obtain ⟨h1, h2⟩ := lexGo_bounds isWord cs.length 0 cs (Nat.le_refl _)
  unfold Lexed.colAt lex
  generalize Generated.exprErrorColOffset = off
  split
  · rename_i tk p rest heq
    have hmem : (tk, p) ∈ (lexGo isWord cs.length 0 cs).toks :=
      List.mem_of_mem_drop (by rw [heq]; simp)
    have := h1 _ hmem
    simp at this
    omega
  · revert h2
    cases (lexGo isWord cs.length 0 cs).stop <;> simp [Stop.pos] <;> omega

/-- The ASCII approximation of `\w` used in the non-vacuity examples. -/
def asciiWord (c : Char) : Bool := c.isAlphanum || c == '_'

theorem asciiWord_sane : WordSane asciiWord := by
  intro c hc
  refine ⟨?_, ?_, ?_⟩
  · cases hb : isBlank c
    · rfl
    · unfold isBlank at hb
      simp [Generated.exprWsChars] at hb
      rcases hb with rfl | rfl <;> revert hc <;> decide
  · rintro rfl; revert hc; decide
  · rintro rfl; revert hc; decide

theorem asciiWord_kw : KwWord asciiWord := by unfold KwWord; decide


end Pytask.SelExpr
