import PytaskProofs.Lemmas.EngineSkip
/-!
Persist / recorded-state lemmas for M6 (used by C17): what `update_states_in_database` leaves in the
database, which rows other tasks' protocols leave alone, and the "nothing changed" path of the
setup chain.
-/
namespace Pytask
namespace Engine

/-! ## the database as an association list -/

theorem find_filter_ne (m : DB) (k k' : Nat × Nat) (h : k' ≠ k) :
    (m.filter (fun e => !(e.1 == k))).find? (fun e => e.1 == k') = m.find? (fun e => e.1 == k') := by
  induction m with
  | nil => rfl
  | cons e m ih =>
    by_cases h1 : e.1 = k
    · have hb : (e.1 == k) = true := by simpa using h1
      have h2 : (e.1 == k') = false := by simpa using fun e' => h (e'.symm.trans h1)
      simp only [List.filter_cons, hb, Bool.not_true, Bool.false_eq_true, if_false, List.find?_cons, h2, ih]
    · have hb : (e.1 == k) = false := by simpa using h1
      by_cases h2 : e.1 = k'
      · have hb2 : (e.1 == k') = true := by simpa using h2
        simp only [List.filter_cons, hb, Bool.not_false, if_true, List.find?_cons, hb2]
      · have hb2 : (e.1 == k') = false := by simpa using h2
        simp only [List.filter_cons, hb, Bool.not_false, if_true, List.find?_cons, hb2, ih]

theorem lookup_insert (m : DB) (k k' : Nat × Nat) (v : Nat) :
    lookup (insert m k v) k' = if k' = k then some v else lookup m k' := by
  unfold insert lookup
  by_cases h : k' = k
  · subst h; simp
  · have hb : (k == k') = false := by simpa using fun e => h e.symm
    simp only [List.find?_cons, hb, h, if_false]
    rw [find_filter_ne m k k' h]

/-! ## `update_states_in_database` -/

theorem stateOf_db (P : Project) (w : World) (db : DB) (v : Nat) : stateOf P { w with db := db } v = stateOf P w v := rfl

theorem updateStates_fs {P : Project} {g : G} {t : Nat} : ∀ (ns : List Nat) (w : World),
    (updateStates P g w t ns).1.fs = w.fs
  | [], _ => rfl
  | v :: vs, w => by
    unfold updateStates
    cases hs : stateOf P w v with
    | none => rfl
    | some x => simp only []; rw [updateStates_fs vs]

/-- Rows of other tasks are never touched. -/
theorem updateStates_other {P : Project} {g : G} {t : Nat} {k : Nat × Nat} (hk : k.1 ≠ tv t) :
    ∀ (ns : List Nat) (w : World), lookup (updateStates P g w t ns).1.db k = lookup w.db k
  | [], _ => rfl
  | v :: vs, w => by
    unfold updateStates
    cases hs : stateOf P w v with
    | none => rfl
    | some x =>
      simp only []
      rw [updateStates_other hk vs, lookup_insert]
      have : k ≠ (tv t, v) := fun e => hk (by rw [e])
      simp [this]

/-- When every listed neighbour has a state, each of them ends up recorded with that state. -/
theorem updateStates_lookup {P : Project} {g : G} {t : Nat} : ∀ (ns : List Nat) (w : World),
    (∀ v ∈ ns, (stateOf P w v).isSome = true) → ∀ v,
    lookup (updateStates P g w t ns).1.db (tv t, v) = if v ∈ ns then stateOf P w v else lookup w.db (tv t, v)
  | [], _, _, _ => by simp [updateStates]
  | x :: xs, w, h, v => by
    unfold updateStates
    have hx := h x (by simp)
    cases hs : stateOf P w x with
    | none => simp [hs] at hx
    | some hval =>
      simp only []
      rw [updateStates_lookup xs _ (fun v' hv' => by rw [stateOf_db]; exact h v' (by simp [hv']))]
      rw [stateOf_db, lookup_insert]
      by_cases h1 : v ∈ xs
      · simp [h1]
      · by_cases h2 : v = x
        · subst h2; simp [h1, hs]
        · have : (tv t, v) ≠ (tv t, x) := fun e => h2 (by simpa using e)
          simp [h1, h2, this]

theorem recordStates_fs {P : Project} {g : G} {cfg : Cfg} {w : World} {t : Nat} :
    (recordStates P g cfg w t).1.fs = w.fs := by
  unfold recordStates
  split
  · rfl
  · exact updateStates_fs _ _

theorem recordStates_other {P : Project} {g : G} {cfg : Cfg} {w : World} {t : Nat} {k : Nat × Nat}
    (hk : k.1 ≠ tv t) : lookup (recordStates P g cfg w t).1.db k = lookup w.db k := by
  unfold recordStates
  split
  · rfl
  · exact updateStates_other hk _ _

/-- In a dry run nothing is recorded (fix 8d652c5). -/
theorem recordStates_dry {P : Project} {g : G} {cfg : Cfg} {w : World} {t : Nat} (h : cfg.dry = true) :
    (recordStates P g cfg w t).1 = w := by
  unfold recordStates; simp [h]

theorem recordStates_lookup {P : Project} {g : G} {cfg : Cfg} {w : World} {t : Nat} (hd : cfg.dry = false)
    (h : ∀ v ∈ neighbours g t, (stateOf P w v).isSome = true) {v : Nat} (hv : v ∈ neighbours g t) :
    lookup (recordStates P g cfg w t).1.db (tv t, v) = stateOf P w v := by
  unfold recordStates
  simp only [hd, Bool.false_eq_true, if_false]
  rw [updateStates_lookup _ _ h]
  simp [hv]

/-! ## one protocol and the rows of another task -/

theorem protocol_db_other {F : BodyFn} {P : Project} {g : G} {cfg : Cfg} {s : Sess} {u : TaskSpec} {k : Nat × Nat}
    (hk : k.1 ≠ tv u.id) : lookup (protocol F P g cfg s u).w.db k = lookup s.w.db k := by
  obtain ⟨_, _, _, _, _, _, _, f8⟩ := runPhases_fields F P g cfg s u
  unfold protocol
  simp only []
  rw [← f8]
  generalize (runPhases F P g cfg s u).2 = s2
  cases (runPhases F P g cfg s u).1 <;> simp only [processReport] <;> (try rfl)
  · split <;> exact recordStates_other hk
  · exact recordStates_other hk

variable {F : BodyFn} {P : Project} {g : G} {cfg : Cfg}

/-- The recorded rows of a task that is not picked survive the run. -/
theorem Steps.db_rows_notin {picks : List Nat} {s s' : Sess} (h : Steps F P g cfg s picks s') {t : Nat}
    (ht : t ∉ picks) (v : Nat) : lookup s'.w.db (tv t, v) = lookup s.w.db (tv t, v) := by
  induction h with
  | nil => rfl
  | @cons s u spec ts s' hf _ ih =>
    rw [ih (fun h => ht (List.mem_cons_of_mem _ h))]
    apply protocol_db_other
    intro e
    have : t = spec.id := tv_injective e
    exact ht (by rw [this, find?_id hf]; exact List.mem_cons_self)

theorem Steps.det {picks : List Nat} {s s1 s2 : Sess} (h1 : Steps F P g cfg s picks s1) (h2 : Steps F P g cfg s picks s2) :
    s1 = s2 := by
  induction h1 with
  | nil => cases h2; rfl
  | cons hf _ ih =>
    cases h2 with
    | cons hf' h2' =>
      rw [hf] at hf'
      cases hf'
      exact ih h2'

/-! ## the "nothing changed" path -/

theorem setupImpl_persist_cases (P : Project) (g : G) (cfg : Cfg) (s : Sess) (t : TaskSpec) :
    setupImpl P g cfg s t "persist" = .persisted ∨ setupImpl P g cfg s t "persist" = .none := by
  have e : setupImpl P g cfg s t "persist" =
      if (t.persist && !s.wbeMarks.contains t.id) then
        (if ((neighbours g t.id).map (stateOf P s.w)).all (·.isSome) then
          (if ((neighbours g t.id).zip ((neighbours g t.id).map (stateOf P s.w))).any
                (fun (v, st) => hasChanged s.w t.id v st) then .persisted else .none)
        else .none)
      else .none := by
    simp [setupImpl]
  rw [e]
  split <;> (try split) <;> (try split) <;> simp

theorem setupImpl_persist_none {P : Project} {g : G} {cfg : Cfg} {s : Sess} {t : TaskSpec}
    (h : ¬ PersistCond P g s t) : setupImpl P g cfg s t "persist" = .none := by
  rcases setupImpl_persist_cases P g cfg s t with h' | h'
  · exact absurd (setupImpl_persist_iff.1 h') h
  · exact h'

/-- Every neighbour exists and is recorded with its current state. -/
def UpToDate (P : Project) (g : G) (w : World) (t : Nat) : Prop :=
  ∀ v ∈ neighbours g t, (stateOf P w v).isSome = true ∧ lookup w.db (tv t, v) = stateOf P w v

theorem hasChanged_of_recorded {w : World} {t v : Nat} {st : Option Nat} (h1 : st.isSome = true)
    (h2 : lookup w.db (tv t, v) = st) : hasChanged w t v st = false := by
  cases st with
  | none => simp at h1
  | some x => simp [hasChanged, h2]

theorem scan_unchanged {P : Project} {g : G} {w : World} {t : Nat} : ∀ (ns : List Nat),
    (∀ v ∈ ns, (stateOf P w v).isSome = true ∧ lookup w.db (tv t, v) = stateOf P w v) →
    scan P g w t false ns = .unchanged
  | [], _ => by simp [scan]
  | v :: vs, h => by
    obtain ⟨h1, h2⟩ := h v (by simp)
    unfold scan
    have h3 : (stateOf P w v).isNone = false := by
      cases hs : stateOf P w v <;> simp [hs] at h1 ⊢
    simp only [Bool.false_and, Bool.false_eq_true, if_false, h3, Bool.and_false, hasChanged_of_recorded h1 h2]
    exact scan_unchanged vs (fun v' hv' => h v' (by simp [hv']))

theorem setupChain_unchanged {s : Sess} {t : TaskSpec}
    (hforce : cfg.force = false) (hns : ¬ SkipCond s t) (hnf : t.id ∉ s.failMarks) (hnw : t.id ∉ s.wbeMarks)
    (hup : UpToDate P g s.w t.id) : setupChain P g cfg s t Generated.setupOrder = .skippedUnchanged := by
  rw [setupChain_order, setupImpl_skipping_none.2 ⟨hns, hnf⟩]
  have hnp : ¬ PersistCond P g s t := by
    rintro ⟨_, _, v, hv, hc⟩
    obtain ⟨h1, h2⟩ := hup v hv
    rw [hasChanged_of_recorded h1 h2] at hc
    cases hc
  simp only [setupImpl_persist_none hnp]
  have : setupImpl P g cfg s t "execute" = .skippedUnchanged := by
    simp [setupImpl, hnw, hforce, scan_unchanged _ hup]
  rw [this]

/-- A task all of whose neighbours are recorded with their current states is reported
SKIP_UNCHANGED by an unforced build; nothing runs, nothing changes. -/
theorem protocol_unchanged {s : Sess} {t : TaskSpec}
    (hforce : cfg.force = false) (hns : ¬ SkipCond s t) (hnf : t.id ∉ s.failMarks) (hnw : t.id ∉ s.wbeMarks)
    (hup : UpToDate P g s.w t.id) :
    protocol F P g cfg s t = { s with reports := s.reports ++ [(t.id, Outcome.skipUnchanged)] } := by
  unfold protocol
  rw [runPhases_of_raise (setupChain_unchanged hforce hns hnf hnw hup) (by simp)]
  simp [processReport]

/-- A task with a failed ancestor (and no skip mark) is reported SKIP_PREVIOUS_FAILED; nothing runs. -/
theorem protocol_ancestorFailed {s : Sess} {t : TaskSpec} (hns : ¬ SkipCond s t) (hf : t.id ∈ s.failMarks) :
    protocol F P g cfg s t = { s with reports := s.reports ++ [(t.id, Outcome.skipPrevFailed)] } := by
  have hc : setupChain P g cfg s t Generated.setupOrder = .ancestorFailed := by
    rw [setupChain_order, setupImpl_skipping]
    unfold SkipCond at hns
    have h1 : t.skip = false := by cases h : t.skip <;> simp_all
    have h2 : t.skipif = false := by cases h : t.skipif <;> simp_all
    have h3 : t.id ∉ s.skipMarks := fun h => hns (.inr (.inr h))
    simp [h1, h2, h3, hf]
  unfold protocol
  rw [runPhases_of_raise hc (by simp)]
  simp [processReport]

/-- Whenever the persist implementation does not raise, the mark is irrelevant: the protocol is
that of the same task without the mark. -/
theorem protocol_persist_irrelevant {s : Sess} {t : TaskSpec} (h : ¬ PersistCond P g s t) :
    protocol F P g cfg s t = protocol F P g cfg s { t with persist := false } := by
  have hsk : setupImpl P g cfg s { t with persist := false } "skipping" = setupImpl P g cfg s t "skipping" := by
    simp [setupImpl]
  have hex : setupImpl P g cfg s { t with persist := false } "execute" = setupImpl P g cfg s t "execute" := by
    simp [setupImpl]
  have hp1 := setupImpl_persist_none (cfg := cfg) h
  have hp2 : setupImpl P g cfg s { t with persist := false } "persist" = .none := by simp [setupImpl]
  have hc : setupChain P g cfg s { t with persist := false } Generated.setupOrder =
      setupChain P g cfg s t Generated.setupOrder := by
    rw [setupChain_order, setupChain_order, hsk, hex, hp1, hp2]
  unfold protocol runPhases
  rw [hc]
  rfl

theorem stateOf_fs {P : Project} {w w' : World} (h : w'.fs = w.fs) (v : Nat) : stateOf P w' v = stateOf P w v := by
  unfold stateOf; rw [h]

/-! ## a pick inside a build -/

/-- The protocol of the pick `t` inside a whole build: the session `s1` it starts in (reached by
the earlier picks), and how the build's result relates to what that one protocol did. -/
theorem build_at {w : World} {picks : List Nat} {r : Result} {marks : List Nat}
    (hd : createDag P cfg = .ok (g, marks)) (hb : build F P cfg w picks = .ok r)
    {pre post : List Nat} {t : Nat} (hp : picks = pre ++ t :: post) :
    ∃ s1 spec s', Steps F P g cfg { w := w, skipMarks := marks } pre s1 ∧ Project.find? P t = some spec ∧ spec.id = t ∧
      Steps F P g cfg (protocol F P g cfg s1 spec) post s' ∧ t ∉ pre ∧ t ∉ post ∧
      r.reports = s'.reports ∧ r.log = s'.log ∧ r.w = s'.w ∧ t ∉ s1.log ∧ (∀ o, (t, o) ∉ s1.reports) ∧
      (t ∈ r.log ↔ t ∈ (protocol F P g cfg s1 spec).log) ∧
      (∀ o, (t, o) ∈ r.reports ↔ (t, o) ∈ (protocol F P g cfg s1 spec).reports) := by
  obtain ⟨_, _, s', _, _, hs, hnd, _, hr, hl, hw, _⟩ := build_run hd hb
  subst hp
  obtain ⟨s1, spec, h1, hf, hid, h2, hl1, hr1, hl2, hr2⟩ := hs.pick hnd
  have hpre : t ∉ pre := fun hm => (List.nodup_append.1 hnd).2.2 t hm t (by simp) rfl
  have hpost : t ∉ post := (List.nodup_cons.1 (List.nodup_append.1 hnd).2.1).1
  refine ⟨s1, spec, s', h1, hf, hid, h2, hpre, hpost, hr, hl, hw, ?_, ?_, by rw [hl]; exact hl2, fun o => by rw [hr]; exact hr2 o⟩
  · intro h; have := hl1.1 h; simp at this
  · intro o h; have := (hr1 o).1 h; simp at this

/-! ## `would_be_executed` marks (dry runs only; repair of F20) -/

theorem setupChain_wbe {s : Sess} {t : TaskSpec}
    (h : setupChain P g cfg s t Generated.setupOrder = .wouldBeExecuted) : t.id ∈ s.wbeMarks := by
  rw [setupChain_order] at h
  have h1 : setupImpl P g cfg s t "skipping" ≠ .wouldBeExecuted := by
    rw [setupImpl_skipping]; split <;> (try split) <;> (try split) <;> simp
  have h2 : setupImpl P g cfg s t "persist" ≠ .wouldBeExecuted := by
    rcases setupImpl_persist_cases P g cfg s t with e | e <;> rw [e] <;> simp
  have h3 : setupImpl P g cfg s t "execute" = .wouldBeExecuted → t.id ∈ s.wbeMarks := by
    intro e
    by_cases hm : t.id ∈ s.wbeMarks
    · exact hm
    · exfalso
      simp only [setupImpl] at e
      simp [hm] at e
      split at e <;> cases e
  cases e1 : setupImpl P g cfg s t "skipping" <;> rw [e1] at h <;> simp only [] at h <;> (try (cases h)) <;> (try exact absurd e1 h1)
  cases e2 : setupImpl P g cfg s t "persist" <;> rw [e2] at h <;> simp only [] at h <;> (try (cases h)) <;> (try exact absurd e2 h2)
  exact h3 h

/-- The phases end in "would be executed" only in a dry run or for a task carrying the mark. -/
theorem runPhases_wbe {s : Sess} {t : TaskSpec} (h : (runPhases F P g cfg s t).1 = .wouldBeExecuted) :
    cfg.dry = true ∨ t.id ∈ s.wbeMarks := by
  by_cases hn : setupChain P g cfg s t Generated.setupOrder = .none
  · by_cases hd : cfg.dry = true
    · exact .inl hd
    · exfalso
      unfold runPhases at h
      rw [hn] at h
      simp only [hd, Bool.false_eq_true, if_false] at h
      split at h
      · cases h
      · split at h <;> cases h
  · rw [runPhases_of_raise rfl hn] at h
    exact .inr (setupChain_wbe h)

theorem processReport_wbeMarks {s : Sess} {t : TaskSpec} {r : Raised} (hr : r ≠ .wouldBeExecuted) :
    (processReport P g cfg s t r).wbeMarks = s.wbeMarks := by
  unfold processReport
  cases r <;> simp only [] <;> (try split) <;> first | rfl | exact absurd rfl hr

/-- A real (non-dry) build never attaches `would_be_executed` marks. -/
theorem protocol_real_nowbe {s : Sess} {t : TaskSpec} (hd : cfg.dry = false) (hw : s.wbeMarks = []) :
    (protocol F P g cfg s t).wbeMarks = [] := by
  obtain ⟨_, _, f3, _⟩ := runPhases_fields F P g cfg s t
  have hr : (runPhases F P g cfg s t).1 ≠ .wouldBeExecuted := by
    intro e
    rcases runPhases_wbe e with h | h
    · rw [hd] at h; cases h
    · rw [hw] at h; cases h
  unfold protocol
  simp only []
  rw [processReport_wbeMarks hr, f3, hw]

theorem Steps.real_nowbe {picks : List Nat} {s s' : Sess} (h : Steps F P g cfg s picks s') (hd : cfg.dry = false)
    (hw : s.wbeMarks = []) : s'.wbeMarks = [] := by
  induction h with
  | nil => exact hw
  | cons _ _ ih => exact ih (protocol_real_nowbe hd hw)

/-- A task carrying the `would_be_executed` mark that no skip mark / failed ancestor stops is
reported WOULD_BE_EXECUTED and passes the mark on — whether or not it is marked `persist`. -/
theorem protocol_wbe_marked {s : Sess} {t : TaskSpec} (hns : ¬ SkipCond s t) (hnf : t.id ∉ s.failMarks)
    (hw : t.id ∈ s.wbeMarks) :
    protocol F P g cfg s t =
      { s with reports := s.reports ++ [(t.id, Outcome.wouldBeExecuted)], wbeMarks := s.wbeMarks ++ taskDesc g t.id } := by
  have hc : setupChain P g cfg s t Generated.setupOrder = .wouldBeExecuted := by
    rw [setupChain_order, setupImpl_skipping_none.2 ⟨hns, hnf⟩]
    have hnp : ¬ PersistCond P g s t := fun h => h.1.2 hw
    simp only [setupImpl_persist_none hnp]
    simp [setupImpl, hw]
  unfold protocol
  rw [runPhases_of_raise hc (by simp)]
  simp [processReport, markAll]

end Engine
end Pytask
