import PytaskProofs.Lemmas.EngineInv
/-!
# The from-scratch result as a specification, and the link from the final world to it
-/
namespace Pytask
namespace Engine
open Sorter

/-- **What a from-scratch build produces** (the specification; the harness' independent oracle
`scratch_contents` is the same recursion): a file no task produces keeps its content `inp n`; the
`i`-th product of task `t` is `F t i (module content) (from-scratch contents of the dependencies)`. -/
inductive Scratch (F : BodyFn) (P : Project) (inp : FS) : Nat → Nat → Prop
  | input (n v : Nat) : (∀ t ∈ P.tasks, n ∉ t.prods) → lookup inp n = some v → Scratch F P inp n v
  | prod (t : TaskSpec) (p i : Nat) (vs : List Nat) : t ∈ P.tasks → (p, i) ∈ t.prods.zipIdx →
      vs.length = t.deps.length →
      (∀ (k d v : Nat), t.deps[k]? = some d → vs[k]? = some v → Scratch F P inp d v) →
      Scratch F P inp p (F t.id i (lookup inp t.src) (vs.map some))

/-- Worlds reachable by a history of edits and builds over the (static) project `P`: start from any
files and an empty state table; `edit` = any change of file contents (create / rewrite / delete;
inputs, module files, products); `dbLost` = the state table is deleted; `build` = any build with any
options and any schedule the loop accepts. -/
inductive History (F : BodyFn) (P : Project) : World → Prop
  | init (fs : FS) : History F P ⟨fs, []⟩
  | edit {w : World} (fs' : FS) : History F P w → History F P { w with fs := fs' }
  | dbLost {w : World} : History F P w → History F P { w with db := [] }
  | build {w : World} (cfg : Cfg) (picks : List Nat) (r : Result) :
      History F P w → Engine.build F P cfg w picks = .ok r → History F P r.w

/-- `UpTo P u t`: `u` is `t` or produces, through a chain of products, something `t` consumes. -/
inductive UpTo (P : Project) : Nat → Nat → Prop
  | refl (t : Nat) : UpTo P t t
  | step {x u : TaskSpec} {t : Nat} : x ∈ P.tasks → u ∈ P.tasks → (∃ d ∈ u.deps, d ∈ x.prods) →
      UpTo P u.id t → UpTo P x.id t

theorem zipIdx_index_unique {α} {l : List α} (hnd : l.Nodup) {p : α} {i j : Nat}
    (hi : (p, i) ∈ l.zipIdx) (hj : (p, j) ∈ l.zipIdx) : i = j := by
  rw [List.mem_zipIdx_iff_getElem?] at hi hj
  obtain ⟨hi', _⟩ := List.getElem?_eq_some_iff.1 hi
  exact (List.getElem?_inj hi' hnd).1 (hi.trans hj.symm)

theorem exists_zipIdx_of_mem {α} {l : List α} {p : α} (h : p ∈ l) : ∃ i, (p, i) ∈ l.zipIdx := by
  obtain ⟨i, hi, hx⟩ := List.getElem_of_mem h
  exact ⟨i, List.mem_zipIdx_iff_getElem?.2 (by rw [List.getElem?_eq_getElem hi, hx])⟩

/-- The from-scratch result is unique (products have one producer, a task lists a product once). -/
theorem scratch_functional {F : BodyFn} {P : Project} {inp : FS} (hwf : WF P)
    (huniq : ∀ t ∈ P.tasks, ∀ u ∈ P.tasks, ∀ p, p ∈ t.prods → p ∈ u.prods → t = u)
    {n v : Nat} (h : Scratch F P inp n v) : ∀ v', Scratch F P inp n v' → v = v' := by
  induction h with
  | input n v hno hl =>
    intro v' h'
    cases h' with
    | input _ _ _ hl' => rw [hl] at hl'; exact Option.some.inj hl'
    | prod t p i vs ht hpi _ _ => exact absurd (mem_zipIdx_fst hpi) (hno t ht)
  | prod t p i vs ht hpi hlen _ ih =>
    intro v' h'
    cases h' with
    | input _ _ hno _ => exact absurd (mem_zipIdx_fst hpi) (hno t ht)
    | prod t' _ i' vs' ht' hpi' hlen' hall' =>
      have htt := huniq t ht t' ht' p (mem_zipIdx_fst hpi) (mem_zipIdx_fst hpi')
      subst htt
      have hii := zipIdx_index_unique (hwf.prodsNodup t ht) hpi hpi'
      subst hii
      have hvs : vs = vs' := by
        apply List.ext_getElem?
        intro k
        by_cases hk : k < t.deps.length
        · have h1 : k < vs.length := by omega
          have h2 : k < vs'.length := by omega
          rw [List.getElem?_eq_getElem h1, List.getElem?_eq_getElem h2]
          congr 1
          exact ih k t.deps[k] vs[k] (List.getElem?_eq_getElem hk) (List.getElem?_eq_getElem h1) vs'[k]
            (hall' k t.deps[k] vs'[k] (List.getElem?_eq_getElem hk) (List.getElem?_eq_getElem h2))
        · rw [List.getElem?_eq_none (by omega), List.getElem?_eq_none (by omega)]
      rw [hvs]

/-- The specification reads `inp` only at files that no task produces and at module files. -/
theorem scratch_congr {F : BodyFn} {P : Project} {inp inp' : FS} (hwf : WF P)
    (hsame : ∀ n, (∀ t ∈ P.tasks, n ∉ t.prods) → lookup inp' n = lookup inp n)
    {n v : Nat} (h : Scratch F P inp n v) : Scratch F P inp' n v := by
  induction h with
  | input n v hno hl => exact Scratch.input n v hno (by rw [hsame n hno]; exact hl)
  | prod t p i vs ht hpi hlen _ ih =>
    have : lookup inp t.src = lookup inp' t.src :=
      (hsame t.src (fun u hu => hwf.srcNotProd t ht u hu)).symm
    rw [this]
    exact Scratch.prod t p i vs ht hpi hlen ih

/-- **From the final world to the specification.** If `t` and every task upstream of it (through
product chains) is not marked `persist` and was reported SUCCESS or SKIP_UNCHANGED in this (non-dry)
build, every product of `t` holds, at the end of the build, its from-scratch content w.r.t. the
files that no task produces. Induction along the order of picks: producers of dependencies are
ancestors, hence were picked earlier (C01). -/
theorem final_scratch {F : BodyFn} {P : Project} {g : G} {cfg : Cfg} {so so' : Sorter} {s0 s' : Sess}
    {picks : List Nat} (hwf : WF P) (hg : GraphOK P g) (hdry : cfg.dry = false)
    (hso : Sorter.fromDag g isTaskV (prioFn P) = .ok so)
    (hloop : buildLoop F P g cfg so s0 picks = .ok (so', s')) (hs0 : s0.reports = [])
    (hinv : Inv F P g s'.w) (t : TaskSpec)
    (hup : ∀ u ∈ P.tasks, UpTo P u.id t.id → u.persist = false ∧
      ((u.id, Outcome.success) ∈ s'.reports ∨ (u.id, Outcome.skipUnchanged) ∈ s'.reports)) :
    ∀ u ∈ P.tasks, UpTo P u.id t.id → ∀ p i, (p, i) ∈ u.prods.zipIdx →
      ∃ v, lookup s'.w.fs p = some v ∧ Scratch F P s'.w.fs p v := by
  obtain ⟨hnd, hord⟩ := picks_order hg hso hloop
  have factA : ∀ u ∈ P.tasks, UpTo P u.id t.id →
      RowsMatch P g s'.w u.id ∧ ∃ pre post, picks = pre ++ u.id :: post := by
    intro u hu hupu
    rcases (hup u hu hupu).2 with h | h
    · exact final_rowsMatch hwf hg hdry hso hloop hs0 _ h (Or.inl rfl)
    · exact final_rowsMatch hwf hg hdry hso hloop hs0 _ h (Or.inr (Or.inr rfl))
  have main : ∀ n, ∀ u ∈ P.tasks, UpTo P u.id t.id → ∀ pre post, picks = pre ++ u.id :: post →
      pre.length < n → ∀ p i, (p, i) ∈ u.prods.zipIdx →
        ∃ v, lookup s'.w.fs p = some v ∧ Scratch F P s'.w.fs p v := by
    intro n
    induction n with
    | zero => intro u _ _ pre post _ h; omega
    | succ n ih =>
      intro u hu hupu pre post hp hlen p i hpi
      have hrm := (factA u hu hupu).1
      have hval := hinv u hu (hup u hu hupu).1 hrm p i hpi
      have hdeps : ∀ d ∈ u.deps, ∃ v, lookup s'.w.fs d = some v ∧ Scratch F P s'.w.fs d v := by
        intro d hd
        have hpred := hg.deps u hu d hd
        obtain ⟨h, hs, _⟩ := hrm (nv d) (mem_neighbours.2 (Or.inl hpred))
        rw [stateOf_nv] at hs
        by_cases hprod : ∃ x ∈ P.tasks, d ∈ x.prods
        · obtain ⟨x, hx, hdx⟩ := hprod
          have hupx : UpTo P x.id t.id := UpTo.step hx hu ⟨d, hd, hdx⟩ hupu
          have hanc := hg.producerAnc u hu x hx d hdx hpred
          have hxpre := hord pre u.id post hp u hu rfl x.id hanc
          obtain ⟨a, b, hab⟩ := List.append_of_mem hxpre
          obtain ⟨j, hj⟩ := exists_zipIdx_of_mem hdx
          exact ih x hx hupx a (b ++ u.id :: post) (by rw [hp, hab]; simp) (by rw [hab] at hlen; simp at hlen; omega) d j hj
        · refine ⟨h, hs, Scratch.input d h ?_ hs⟩
          intro x hx hdx
          exact hprod ⟨x, hx, hdx⟩
      let vs := u.deps.map (fun d => (lookup s'.w.fs d).getD 0)
      have hvs : vs.map some = u.deps.map (lookup s'.w.fs) := by
        simp only [vs, List.map_map]
        apply List.map_congr_left
        intro d hd
        obtain ⟨v, hv, _⟩ := hdeps d hd
        simp [hv]
      rw [← hvs] at hval
      refine ⟨_, hval, Scratch.prod u p i vs hu hpi (by simp [vs]) ?_⟩
      intro k d v hk hv
      have hd : d ∈ u.deps := List.mem_of_getElem? hk
      obtain ⟨v0, hv0, hs0⟩ := hdeps d hd
      simp only [vs, List.getElem?_map, hk, Option.map_some, Option.some.injEq] at hv
      rw [hv0] at hv
      simp only [Option.getD_some] at hv
      rw [← hv]; exact hs0
  intro u hu hupu p i hpi
  obtain ⟨_, pre, post, hp⟩ := factA u hu hupu
  exact main (pre.length + 1) u hu hupu pre post hp (by omega) p i hpi

/-- A report SKIP_UNCHANGED is only filed when, at setup, all rows matched (and `--force` is off). -/
theorem unchanged_rowsMatch (F : BodyFn) (P : Project) (g : G) (cfg : Cfg) (s : Sess) (t : TaskSpec)
    (h : outcomeOf (runPhases F P g cfg s t).1 = .skipUnchanged) :
    cfg.force = false ∧ RowsMatch P g s.w t.id := by
  have hsu : (runPhases F P g cfg s t).1 = .skippedUnchanged := by
    cases hx : (runPhases F P g cfg s t).1 <;> simp [hx, outcomeOf] at h ⊢
  have hchain : setupChain P g cfg s t Generated.setupOrder = .skippedUnchanged := by
    rcases runPhases_raised F P g cfg s t with h1 | ⟨_, h1 | h1 | h1⟩
    · rw [← h1]; exact hsu
    · rw [hsu] at h1; cases h1.1
    · rw [hsu] at h1; cases h1
    · rw [hsu] at h1; cases h1
  exact (scan_unchanged_iff P g s.w t.id _ _).1 (setupChain_unchanged P g cfg s t _ hchain)

/-- The loop writes nothing but products of tasks of the project. -/
theorem buildLoop_fs_frame {F : BodyFn} {P : Project} {g : G} {cfg : Cfg} :
    ∀ (picks : List Nat) {so so' : Sorter} {s s' : Sess}, buildLoop F P g cfg so s picks = .ok (so', s') →
      ∀ q, (∀ t ∈ P.tasks, q ∉ t.prods) → lookup s'.w.fs q = lookup s.w.fs q
  | [], so, so', s, s', h, q, _ => by
    simp only [buildLoop, Except.ok.injEq, Prod.mk.injEq] at h
    rw [← h.2]
  | t :: ts, so, so', s, s', h, q, hq => by
    obtain ⟨spec, hfind, _, _, _, hrest⟩ := buildLoop_cons h
    rw [buildLoop_fs_frame ts hrest q hq]
    exact protocol_fs_frame F P g cfg s spec q (hq spec (find?_mem hfind))

end Engine
end Pytask
