import PytaskProofs.Lemmas.EngineFail
/-!
Report-level lemmas for M6 (used by C08): which tasks have a report, files only appear, every
collected task is a node of the graph the scheduler works on.
-/
namespace Pytask
namespace Engine
open Sorter

variable {F : BodyFn} {P : Project} {g : G} {cfg : Cfg}

theorem count_eq_one_of_nodup {a : Nat} : ∀ {l : List Nat}, l.Nodup → a ∈ l → l.count a = 1
  | [], _, h => by cases h
  | b :: l, hn, h => by
    have hn' := List.nodup_cons.1 hn
    by_cases hab : b = a
    · subst hab
      have : l.count b = 0 := List.count_eq_zero.2 hn'.1
      simp [this]
    · have hm : a ∈ l := by
        rcases List.mem_cons.1 h with h | h
        · exact absurd h.symm hab
        · exact h
      rw [List.count_cons_of_ne hab]
      exact count_eq_one_of_nodup hn'.2 hm

/-- The tasks that have a report are the picks, in order — all of them unless the last protocol
crashed in `update_states_in_database`. -/
theorem Run.report_keys {so : Sorter} {s : Sess} {picks : List Nat} {so' : Sorter} {s' : Sess}
    (h : Run F P g cfg so s picks so' s') :
    ∃ l, l <+: picks ∧ s'.reports.map Prod.fst = s.reports.map Prod.fst ++ l ∧ (s'.crashed = false → l = picks) := by
  induction h with
  | nil so s => exact ⟨[], List.prefix_refl _, by simp, fun _ => rfl⟩
  | @cons so s t spec ts so' s' h1 h2 h3 h4 h5 htail ih =>
    obtain ⟨l, hl1, hl2, hl3⟩ := ih
    rcases protocol_reports (F := F) (P := P) (g := g) (cfg := cfg) s spec with hr | hr
    · refine ⟨t :: l, ?_, ?_, ?_⟩
      · obtain ⟨r, rfl⟩ := hl1; exact ⟨r, rfl⟩
      · rw [hl2, hr, find?_id h5]; simp
      · intro hc; rw [hl3 hc]
    · obtain ⟨rfl, rfl⟩ := htail.of_crashed (Or.inl hr.2.2)
      refine ⟨[], List.nil_prefix, ?_, ?_⟩
      · rw [hr.2.1]; simp
      · intro hc; rw [hr.2.2] at hc; cases hc

theorem Run.sorter_nodes {so : Sorter} {s : Sess} {picks : List Nat} {so' : Sorter} {s' : Sess}
    (h : Run F P g cfg so s picks so' s') : ∀ v, v ∈ so'.nodes ↔ v ∈ so.nodes ∧ v ∉ picks.map tv := by
  induction h with
  | nil => intro v; simp
  | @cons so s t spec ts so' s' h1 h2 h3 h4 h5 htail ih =>
    intro v
    rw [ih v]
    simp only [next, finish, take, List.mem_filter, List.contains_cons, List.contains_nil, Bool.or_false,
      Bool.not_eq_true', beq_eq_false_iff_ne, ne_eq, List.map_cons, List.mem_cons, not_or]
    constructor
    · rintro ⟨⟨a, b⟩, c⟩; exact ⟨a, b, c⟩
    · rintro ⟨a, b, c⟩; exact ⟨⟨a, b⟩, c⟩

/-! ### files only appear -/

theorem foldl_insert_isSome {α} (f : FS → α → FS) (hf : ∀ fs a n, (lookup fs n).isSome = true → (lookup (f fs a) n).isSome = true) :
    ∀ (l : List α) (fs : FS) (n : Nat), (lookup fs n).isSome = true → (lookup (l.foldl f fs) n).isSome = true
  | [], _, _, h => h
  | a :: l, fs, n, h => foldl_insert_isSome f hf l _ n (hf fs a n h)

theorem runBody_fs_mono (t : TaskSpec) (fs : FS) (n : Nat) (h : (lookup fs n).isSome = true) :
    (lookup (runBody F t fs).1 n).isSome = true := by
  unfold runBody
  simp only []
  split
  · exact h
  · have key : ∀ (val : Nat → Nat) (skipIdx : Option Nat), (lookup ((t.prods.zipIdx).foldl (fun fs (x : Nat × Nat) =>
        if some x.2 == skipIdx then fs else insert fs x.1 (val x.2)) fs) n).isSome = true := by
      intro val skipIdx
      apply foldl_insert_isSome _ _ _ _ _ h
      intro fs a n h
      split
      · exact h
      · exact lookup_insert_isSome _ _ _ _ h
    cases t.beh <;> dsimp only <;> first | exact h | exact key (fun i => F t.id i (lookup fs t.src) (List.map (lookup fs) t.deps)) _

theorem runPhases_fs_mono (s : Sess) (t : TaskSpec) (n : Nat) (h : (lookup s.w.fs n).isSome = true) :
    (lookup (runPhases F P g cfg s t).2.w.fs n).isSome = true := by
  unfold runPhases
  split
  · split
    · exact h
    · simp only []
      split <;> (try split) <;> exact runBody_fs_mono t _ n h
  · exact h

theorem protocol_fs_mono (s : Sess) (t : TaskSpec) (n : Nat) (h : (lookup s.w.fs n).isSome = true) :
    (lookup (protocol F P g cfg s t).w.fs n).isSome = true := by
  unfold protocol
  rw [processReport_fs]
  exact runPhases_fs_mono s t n h

theorem Run.fs_mono {so : Sorter} {s : Sess} {picks : List Nat} {so' : Sorter} {s' : Sess}
    (h : Run F P g cfg so s picks so' s') (n : Nat) (hn : (lookup s.w.fs n).isSome = true) :
    (lookup s'.w.fs n).isSome = true := by
  induction h with
  | nil => exact hn
  | cons _ _ _ _ _ _ ih => exact ih (protocol_fs_mono _ _ n hn)

/-! ### every collected task is a node of the graph -/

theorem addNode_mono (g : G) (u v : Nat) (h : v ∈ g.nodes) : v ∈ (g.addNode u).nodes := by
  unfold G.addNode; split
  · exact h
  · simp [h]

theorem addNode_self (g : G) (u : Nat) : u ∈ (g.addNode u).nodes := by
  unfold G.addNode; split
  · rename_i h; simpa using h
  · simp

theorem addEdge_mono (g : G) (a b v : Nat) (h : v ∈ g.nodes) : v ∈ (g.addEdge a b).nodes := by
  unfold G.addEdge
  simp only []
  split <;> exact addNode_mono _ _ _ (addNode_mono _ _ _ h)

theorem foldl_nodes_mono {α} (f : G → α → G) (hf : ∀ g a v, v ∈ g.nodes → v ∈ (f g a).nodes) :
    ∀ (l : List α) (g : G) (v : Nat), v ∈ g.nodes → v ∈ (l.foldl f g).nodes
  | [], _, _, h => h
  | a :: l, g, v, h => foldl_nodes_mono f hf l _ v (hf g a v h)

def baseStep (g : G) (t : TaskSpec) : G :=
  let g := g.addNode (tv t.id)
  let g := t.deps.foldl (fun g d => g.addEdge (nv d) (tv t.id)) g
  t.prods.foldl (fun g p => g.addEdge (tv t.id) (nv p)) g

theorem baseStep_mono (g : G) (t : TaskSpec) (v : Nat) (h : v ∈ g.nodes) : v ∈ (baseStep g t).nodes := by
  unfold baseStep
  apply foldl_nodes_mono _ (fun g a v h => addEdge_mono g _ _ v h)
  apply foldl_nodes_mono _ (fun g a v h => addEdge_mono g _ _ v h)
  exact addNode_mono _ _ _ h

theorem baseStep_self (g : G) (t : TaskSpec) : tv t.id ∈ (baseStep g t).nodes := by
  unfold baseStep
  apply foldl_nodes_mono _ (fun g a v h => addEdge_mono g _ _ v h)
  apply foldl_nodes_mono _ (fun g a v h => addEdge_mono g _ _ v h)
  exact addNode_self _ _

theorem baseGraph_nodes (P : Project) (t : TaskSpec) (ht : t ∈ P.tasks) : tv t.id ∈ (baseGraph P).nodes := by
  have key : ∀ (l : List TaskSpec) (acc : G), t ∈ l → tv t.id ∈ (l.foldl baseStep acc).nodes := by
    intro l
    induction l with
    | nil => intro _ h; cases h
    | cons a l ih =>
      intro acc h
      rcases List.mem_cons.1 h with rfl | h
      · exact foldl_nodes_mono baseStep baseStep_mono l _ _ (baseStep_self acc t)
      · exact ih _ h
  exact key P.tasks G.empty ht

theorem modifyDag_mono (P : Project) (g : G) (v : Nat) (h : v ∈ g.nodes) : v ∈ (modifyDag P g).nodes := by
  unfold modifyDag
  apply foldl_nodes_mono _ _ _ _ _ h
  intro g t v h
  apply foldl_nodes_mono _ _ _ _ _ h
  intro g o v h
  split
  · exact h
  · exact foldl_nodes_mono _ (fun g a v h => addEdge_mono g _ _ v h) _ _ _ h

/-- `create_dag_from_session` with the extracted pipeline: the graph is `_modify_dag` of the base
graph, it is acyclic, and the marks are the deselection marks. -/
theorem createDag_ok {P : Project} {cfg : Cfg} {g : G} {marks : List Nat} (h : createDag P cfg = .ok (g, marks)) :
    g = modifyDag P (baseGraph P) ∧ g.hasCycle = false ∧ marks = deselected P g cfg := by
  simp only [createDag, Generated.dagPipeline, createDag.go, String.reduceBEq, Bool.false_eq_true, reduceIte, List.nil_append] at h
  by_cases c1 : (baseGraph P).hasCycle = true
  · rw [if_pos c1] at h; cases h
  rw [if_neg c1] at h
  by_cases c2 : sharedProduct (baseGraph P) = true
  · rw [if_pos c2] at h; cases h
  rw [if_neg c2] at h
  by_cases c3 : (modifyDag P (baseGraph P)).hasCycle = true
  · rw [if_pos c3] at h; cases h
  rw [if_neg c3] at h
  simp only [Except.ok.injEq, Prod.mk.injEq] at h
  obtain ⟨rfl, rfl⟩ := h
  exact ⟨rfl, by simpa using c3, rfl⟩

theorem createDag_nodes {P : Project} {cfg : Cfg} {g : G} {marks : List Nat} (h : createDag P cfg = .ok (g, marks))
    (t : TaskSpec) (ht : t ∈ P.tasks) : tv t.id ∈ g.nodes := by
  rw [(createDag_ok h).1]
  exact modifyDag_mono P _ _ (baseGraph_nodes P t ht)

/-- After `create_dag` succeeded, the scheduler can always be built (the last cycle check of the
pipeline is on the final graph). -/
theorem fromDag_ok_of_createDag {P : Project} {cfg : Cfg} {g : G} {marks : List Nat} (h : createDag P cfg = .ok (g, marks))
    (prio : Nat → Int) : ∃ so, fromDag g isTaskV prio = .ok so := by
  unfold fromDag
  rw [(createDag_ok h).2.1]
  exact ⟨_, rfl⟩

/-! ### when exactly the protocol ends in FAIL -/

theorem scan_missing_sound (w : World) (t : Nat) : ∀ (vs : List Nat) (needs : Bool),
    scan P g w t needs vs = .missing →
    ∃ v ∈ vs, ((g.preds (tv t)).contains v || v == tv t) = true ∧ stateOf P w v = none
  | [], needs, h => by unfold scan at h; split at h <;> cases h
  | v :: vs, needs, h => by
    unfold scan at h
    simp only [] at h
    split at h
    · cases h
    · split at h
      · rename_i hm
        simp only [Bool.and_eq_true, Option.isNone_iff_eq_none] at hm
        exact ⟨v, by simp, hm.1, hm.2⟩
      · split at h
        · obtain ⟨u, hu, h1, h2⟩ := scan_missing_sound w t vs _ h
          exact ⟨u, by simp [hu], h1, h2⟩
        · obtain ⟨u, hu, h1, h2⟩ := scan_missing_sound w t vs _ h
          exact ⟨u, by simp [hu], h1, h2⟩

theorem scan_missing_complete (w : World) (t : Nat) (rest : List Nat) : ∀ (A : List Nat) (needs : Bool),
    (∀ v ∈ A, ((g.preds (tv t)).contains v || v == tv t) = true) → (∃ v ∈ A, stateOf P w v = none) →
    scan P g w t needs (A ++ rest) = .missing
  | [], _, _, h => by obtain ⟨v, hv, _⟩ := h; cases hv
  | v :: A, needs, hA, hex => by
    have hv := hA v (by simp)
    simp only [List.cons_append]
    unfold scan
    simp only [hv, Bool.not_true, Bool.and_false, Bool.false_eq_true, if_false, Bool.true_and]
    by_cases hs : (stateOf P w v).isNone = true
    · simp [hs]
    · simp only [hs, Bool.false_eq_true, if_false]
      have hex' : ∃ u ∈ A, stateOf P w u = none := by
        obtain ⟨u, hu, hn⟩ := hex
        rcases List.mem_cons.1 hu with rfl | hu
        · rw [hn] at hs; simp at hs
        · exact ⟨u, hu, hn⟩
      have hA' : ∀ u ∈ A, ((g.preds (tv t)).contains u || u == tv t) = true := fun u hu => hA u (by simp [hu])
      split <;> exact scan_missing_complete w t rest A _ hA' hex'

/-- A dependency of `t` (a predecessor in the graph) or `t`'s own module has no state. -/
def depMissing (P : Project) (g : G) (w : World) (t : Nat) : Prop :=
  ∃ v ∈ g.preds (tv t) ++ [tv t], stateOf P w v = none

theorem scan_missing_iff (w : World) (t : Nat) (needs : Bool) :
    scan P g w t needs (neighbours g t) = .missing ↔ depMissing P g w t := by
  unfold depMissing
  constructor
  · intro h
    obtain ⟨v, _, h1, h2⟩ := scan_missing_sound w t _ _ h
    refine ⟨v, ?_, h2⟩
    simp only [Bool.or_eq_true, List.contains_iff_mem, beq_iff_eq] at h1
    simpa using h1
  · intro h
    unfold neighbours
    apply scan_missing_complete w t _ _ _ _ h
    intro v hv
    simp only [List.mem_append, List.mem_singleton] at hv
    simpa using hv

theorem setupImpl_provisional (s : Sess) (t : TaskSpec) : setupImpl P g cfg s t "provisional" = .none := by
  simp [setupImpl]

theorem setupChain_unfold (s : Sess) (t : TaskSpec) :
    setupChain P g cfg s t Generated.setupOrder =
      match setupImpl P g cfg s t "skipping" with
      | .none => (match setupImpl P g cfg s t "persist" with
        | .none => (match setupImpl P g cfg s t "execute" with
          | .none => .none
          | r => r)
        | r => r)
      | r => r := by
  simp only [Generated.setupOrder, setupChain, setupImpl_provisional]
  rfl

theorem setupImpl_skipping_none (s : Sess) (t : TaskSpec) :
    setupImpl P g cfg s t "skipping" = .none ↔
      t.skip = false ∧ t.id ∉ s.skipMarks ∧ t.skipif = false ∧ t.id ∉ s.failMarks := by
  by_cases h1 : t.skip = true <;> by_cases h2 : t.id ∈ s.skipMarks <;> by_cases h3 : t.skipif = true <;>
    by_cases h4 : t.id ∈ s.failMarks <;> simp [setupImpl, h1, h2, h3, h4]

theorem setupImpl_skipping_ne_error (s : Sess) (t : TaskSpec) : setupImpl P g cfg s t "skipping" ≠ .error := by
  by_cases h1 : t.skip = true <;> by_cases h2 : t.id ∈ s.skipMarks <;> by_cases h3 : t.skipif = true <;>
    by_cases h4 : t.id ∈ s.failMarks <;> simp [setupImpl, h1, h2, h3, h4]

theorem setupImpl_persist_cases (s : Sess) (t : TaskSpec) :
    setupImpl P g cfg s t "persist" = .none ∨ setupImpl P g cfg s t "persist" = .persisted := by
  simp only [setupImpl, String.reduceBEq, Bool.false_eq_true, reduceIte]
  repeat' split
  all_goals simp

theorem setupImpl_execute_error (s : Sess) (t : TaskSpec) :
    setupImpl P g cfg s t "execute" = .error ↔ t.id ∉ s.wbeMarks ∧ depMissing P g s.w t.id := by
  rw [← scan_missing_iff (P := P) (g := g) s.w t.id cfg.force]
  by_cases h : t.id ∈ s.wbeMarks
  · simp [setupImpl, h]
  · cases hs : scan P g s.w t.id cfg.force (neighbours g t.id) <;> simp [setupImpl, h, hs]

theorem setupImpl_execute_none (s : Sess) (t : TaskSpec) :
    setupImpl P g cfg s t "execute" = .none ↔
      t.id ∉ s.wbeMarks ∧ scan P g s.w t.id cfg.force (neighbours g t.id) = .changed := by
  by_cases h : t.id ∈ s.wbeMarks
  · simp [setupImpl, h]
  · cases hs : scan P g s.w t.id cfg.force (neighbours g t.id) <;> simp [setupImpl, h, hs]

/-- The task is not short-cut by the skipping implementation, the persist implementation or a
`would_be_executed` mark. -/
def reachesExecute (P : Project) (g : G) (cfg : Cfg) (s : Sess) (t : TaskSpec) : Prop :=
  t.skip = false ∧ t.id ∉ s.skipMarks ∧ t.skipif = false ∧ t.id ∉ s.failMarks ∧
  setupImpl P g cfg s t "persist" = .none ∧ t.id ∉ s.wbeMarks

theorem chain_skip_through (s : Sess) (t : TaskSpec) (X : Raised) (h : setupImpl P g cfg s t "skipping" ≠ .none) :
    (match setupImpl P g cfg s t "skipping" with
      | .none => X
      | r => r) = setupImpl P g cfg s t "skipping" := by
  cases h1 : setupImpl P g cfg s t "skipping" <;> simp_all

theorem chain_id (x : Raised) : (match x with | .none => Raised.none | r => r) = x := by cases x <;> rfl

theorem setupChain_error_iff (s : Sess) (t : TaskSpec) :
    setupChain P g cfg s t Generated.setupOrder = .error ↔ reachesExecute P g cfg s t ∧ depMissing P g s.w t.id := by
  rw [setupChain_unfold]
  unfold reachesExecute
  have hsk := setupImpl_skipping_none (P := P) (g := g) (cfg := cfg) s t
  have hne := setupImpl_skipping_ne_error (P := P) (g := g) (cfg := cfg) s t
  have hex := setupImpl_execute_error (P := P) (g := g) (cfg := cfg) s t
  by_cases hsk0 : setupImpl P g cfg s t "skipping" = .none
  · rw [hsk0]
    simp only []
    obtain ⟨a, b, c, d⟩ := hsk.1 hsk0
    rcases setupImpl_persist_cases (P := P) (g := g) (cfg := cfg) s t with h2 | h2 <;> simp only [h2]
    · rw [chain_id, hex]
      constructor
      · rintro ⟨x, y⟩; exact ⟨⟨a, b, c, d, trivial, x⟩, y⟩
      · rintro ⟨⟨_, _, _, _, _, x⟩, y⟩; exact ⟨x, y⟩
    · simp
  · rw [chain_skip_through s t _ hsk0]
    constructor
    · intro h; exact absurd h hne
    · rintro ⟨⟨a, b, c, d, _⟩, _⟩; exact absurd (hsk.2 ⟨a, b, c, d⟩) hsk0

theorem setupChain_none_iff (s : Sess) (t : TaskSpec) :
    setupChain P g cfg s t Generated.setupOrder = .none ↔
      reachesExecute P g cfg s t ∧ scan P g s.w t.id cfg.force (neighbours g t.id) = .changed := by
  rw [setupChain_unfold]
  unfold reachesExecute
  have hsk := setupImpl_skipping_none (P := P) (g := g) (cfg := cfg) s t
  have hex := setupImpl_execute_none (P := P) (g := g) (cfg := cfg) s t
  by_cases hsk0 : setupImpl P g cfg s t "skipping" = .none
  · rw [hsk0]
    simp only []
    obtain ⟨a, b, c, d⟩ := hsk.1 hsk0
    rcases setupImpl_persist_cases (P := P) (g := g) (cfg := cfg) s t with h2 | h2 <;> simp only [h2]
    · rw [chain_id, hex]
      constructor
      · rintro ⟨x, y⟩; exact ⟨⟨a, b, c, d, trivial, x⟩, y⟩
      · rintro ⟨⟨_, _, _, _, _, x⟩, y⟩; exact ⟨x, y⟩
    · simp
  · rw [chain_skip_through s t _ hsk0]
    constructor
    · intro h; exact absurd h hsk0
    · rintro ⟨⟨a, b, c, d, _⟩, _⟩; exact absurd (hsk.2 ⟨a, b, c, d⟩) hsk0

/-- The situation in which the protocol of `t`, started in session `s`, ends in FAIL. -/
def FailCond (F : BodyFn) (P : Project) (g : G) (cfg : Cfg) (s : Sess) (t : TaskSpec) : Prop :=
  reachesExecute P g cfg s t ∧
  ( -- a dependency (or the task module) is missing at setup
    depMissing P g s.w t.id ∨
    -- or the task is due (forced or changed), it is no dry-run, and the function / a node's load or
    -- save raises, or a product is missing afterwards
    (scan P g s.w t.id cfg.force (neighbours g t.id) = .changed ∧ cfg.dry = false ∧
      ((runBody F t s.w.fs).2 = true ∨ ∃ p ∈ t.prods, lookup (runBody F t s.w.fs).1 p = none)))

theorem runPhases_error_iff_failCond (s : Sess) (t : TaskSpec) :
    (runPhases F P g cfg s t).1 = .error ↔ FailCond F P g cfg s t := by
  rw [runPhases_error_iff, setupChain_error_iff, setupChain_none_iff]
  unfold FailCond
  constructor
  · rintro (⟨h1, h2⟩ | ⟨⟨h1, h2⟩, h3, h4⟩)
    · exact ⟨h1, Or.inl h2⟩
    · exact ⟨h1, Or.inr ⟨h2, h3, h4⟩⟩
  · rintro ⟨h1, h2 | ⟨h2, h3, h4⟩⟩
    · exact Or.inl ⟨h1, h2⟩
    · exact Or.inr ⟨⟨h1, h2⟩, h3, h4⟩

end Engine
end Pytask
