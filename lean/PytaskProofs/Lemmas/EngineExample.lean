import PytaskProofs.Lemmas.EngineScratch
import PytaskProofs.Lemmas.StateStructural
/-! A concrete project, body function and two builds, used by the non-vacuity examples of C02 / C03. -/
namespace Pytask
namespace Engine

def exF : BodyFn := fun t i src ds => t * 1000 + i * 100 + src.getD 0 + (ds.map (·.getD 0)).sum
def exT0 : TaskSpec := { id := 0, src := 90, deps := [10], prods := [20], after := [] }
def exT1 : TaskSpec := { id := 1, src := 91, deps := [20], prods := [21, 22], after := [0] }
/-- input 10 → task 0 → 20 → task 1 → 21, 22; task 1 is also declared `after` task 0. -/
def exP : Project := ⟨[exT0, exT1]⟩
def exW : World := ⟨[(10, 5), (90, 1), (91, 2)], []⟩
/-- result of the first build of `exW` -/
def exR1 : Result :=
  { exit := 0, reports := [(0, .success), (1, .success)], log := [0, 1],
    w := { fs := [(22, 1108), (21, 1008), (20, 6), (10, 5), (90, 1), (91, 2)],
           db := [((2, 45), 1108), ((2, 43), 1008), ((2, 2), 2), ((2, 41), 6), ((0, 41), 6), ((0, 0), 1), ((0, 21), 5)] },
    complete := true }
/-- the world after the input 10 was rewritten to 6 -/
def exW2 : World := { exR1.w with fs := insert exR1.w.fs 10 6 }
/-- result of the build after that edit -/
def exR2 : Result :=
  { exit := 0, reports := [(0, .success), (1, .success)], log := [0, 1],
    w := { fs := [(22, 1109), (21, 1009), (20, 7), (10, 6), (90, 1), (91, 2)],
           db := [((2, 45), 1109), ((2, 43), 1009), ((2, 2), 2), ((2, 41), 7), ((0, 41), 7), ((0, 0), 1), ((0, 21), 6)] },
    complete := true }
/-- the module of task 1 is edited (content 2 → 3): only task 1 has to run again -/
def exW3 : World := { exR2.w with fs := insert exR2.w.fs 91 3 }
def exR3 : Result :=
  { exit := 0, reports := [(0, .skipUnchanged), (1, .success)], log := [1],
    w := { fs := [(22, 1110), (21, 1010), (91, 3), (20, 7), (10, 6), (90, 1)],
           db := [((2, 45), 1110), ((2, 43), 1010), ((2, 2), 3), ((2, 41), 7), ((0, 41), 7), ((0, 0), 1), ((0, 21), 6)] },
    complete := true }

theorem mem_exP {t : TaskSpec} (h : t ∈ exP.tasks) : t = exT0 ∨ t = exT1 := by
  simpa [exP] using h

theorem exWF : WF exP := by
  refine ⟨?_, ?_, ?_⟩
  · intro t ht u hu h
    rcases mem_exP ht with rfl | rfl <;> rcases mem_exP hu with rfl | rfl <;>
      first | rfl | (simp [exT0, exT1] at h)
  · intro t ht
    rcases mem_exP ht with rfl | rfl <;> decide
  · intro t ht u hu
    rcases mem_exP ht with rfl | rfl <;> rcases mem_exP hu with rfl | rfl <;> decide

theorem exBT : BodiesTotal exP := by
  intro t ht k
  rcases mem_exP ht with rfl | rfl <;> simp [exT0, exT1]

theorem exBuild1 : build exF exP {} exW [0, 1] = .ok exR1 := by rfl
theorem exBuild2 : build exF exP {} exW2 [0, 1] = .ok exR2 := by rfl
theorem exBuild3 : build exF exP {} exW3 [0, 1] = .ok exR3 := by rfl

/-! ### witness for the shrinking dependency set (finding F11b) -/

/-- one task with two dependencies … -/
def shT : TaskSpec := { id := 0, src := 90, deps := [10, 11], prods := [20], after := [] }
/-- … and the same task (same id, same module content) after dependency 11 was dropped, e.g. because
the list of dependencies is computed by a glob at import time and the file was removed. -/
def shT' : TaskSpec := { id := 0, src := 90, deps := [10], prods := [20], after := [] }
def shP : Project := ⟨[shT]⟩
def shP' : Project := ⟨[shT']⟩
def shW : World := ⟨[(10, 5), (11, 7), (90, 1)], []⟩
def shR1 : Result :=
  { exit := 0, reports := [(0, .success)], log := [0],
    w := { fs := [(20, 13), (10, 5), (11, 7), (90, 1)],
           db := [((0, 41), 13), ((0, 0), 1), ((0, 23), 7), ((0, 21), 5)] },
    complete := true }
def shR2 : Result :=
  { exit := 0, reports := [(0, .skipUnchanged)], log := [],
    w := shR1.w, complete := true }

theorem shBuild1 : build exF shP {} shW [0] = .ok shR1 := by rfl
theorem shBuild2 : build exF shP' {} shR1.w [0] = .ok shR2 := by rfl

theorem shWF : WF shP := by
  refine ⟨?_, ?_, ?_⟩ <;> intro t ht <;> simp only [shP, List.mem_singleton] at ht <;> subst ht
  · intro u hu _; simp only [shP, List.mem_singleton] at hu; exact hu.symm
  · decide
  · intro u hu; simp only [shP, List.mem_singleton] at hu; subst hu; decide

theorem shWF' : WF shP' := by
  refine ⟨?_, ?_, ?_⟩ <;> intro t ht <;> simp only [shP', List.mem_singleton] at ht <;> subst ht
  · intro u hu _; simp only [shP', List.mem_singleton] at hu; exact hu.symm
  · decide
  · intro u hu; simp only [shP', List.mem_singleton] at hu; subst hu; decide

theorem shBT : BodiesTotal shP := by
  intro t ht k; simp only [shP, List.mem_singleton] at ht; subst ht; simp [shT]
theorem shBT' : BodiesTotal shP' := by
  intro t ht k; simp only [shP', List.mem_singleton] at ht; subst ht; simp [shT']

/-- The from-scratch content of the product under the shrunken project is 6, not the 13 on disk. -/
theorem shScratch : Scratch exF shP' shR2.w.fs 20 6 := by
  have h := Scratch.prod (F := exF) (P := shP') (inp := shR2.w.fs) shT' 20 0 [5] (by simp [shP']) (by decide) rfl
    (by
      intro k d v hk hv
      cases k with
      | zero =>
        simp [shT'] at hk hv; subst hk; subst hv
        exact Scratch.input 10 5 (by intro t ht; simp only [shP', List.mem_singleton] at ht; subst ht; decide) (by decide)
      | succ k => simp [shT'] at hk)
  exact h

/-! ### a history with a project edit -/

/-- task 1 rewired: it additionally consumes the input 10 (its module content changes 2 → 3, see `exW3`) -/
def exT1' : TaskSpec := { id := 1, src := 91, deps := [20, 10], prods := [21, 22], after := [0] }
def exP' : Project := ⟨[exT0, exT1']⟩
/-- what the module contents of the example say: module of task 1 with content 2 declares `exT1`, with any other content `exT1'` -/
def exDeclOf : Nat → Nat → Option Decl := fun c id =>
  if id = 0 then some (declOfTask exT0) else if c = 2 then some (declOfTask exT1) else some (declOfTask exT1')
def exR3' : Result :=
  { exit := 0, reports := [(0, .skipUnchanged), (1, .success)], log := [1],
    w := { fs := [(22, 1116), (21, 1016), (91, 3), (20, 7), (10, 6), (90, 1)],
           db := [((2, 45), 1116), ((2, 43), 1016), ((2, 2), 3), ((2, 21), 6), ((2, 41), 7), ((0, 41), 7), ((0, 0), 1), ((0, 21), 6)] },
    complete := true }

theorem mem_exP' {t : TaskSpec} (h : t ∈ exP'.tasks) : t = exT0 ∨ t = exT1' := by
  simpa [exP'] using h

theorem exP'_eq : (PEdit.change 1 exT1').apply exP = exP' := by rfl

theorem exWF' : WF exP' := by
  refine ⟨?_, ?_, ?_⟩
  · intro t ht u hu h
    rcases mem_exP' ht with rfl | rfl <;> rcases mem_exP' hu with rfl | rfl <;>
      first | rfl | (simp [exT0, exT1'] at h)
  · intro t ht
    rcases mem_exP' ht with rfl | rfl <;> decide
  · intro t ht u hu
    rcases mem_exP' ht with rfl | rfl <;> rcases mem_exP' hu with rfl | rfl <;> decide

theorem exBT' : BodiesTotal exP' := by
  intro t ht k
  rcases mem_exP' ht with rfl | rfl <;> simp [exT0, exT1']

theorem exBuild3' : build exF exP' {} exW3 [0, 1] = .ok exR3' := by rfl

theorem exReads (fs : FS) (h : lookup fs 91 = some 2) : DeclChangeTouchesSrc exDeclOf exP fs := by
  intro t ht c hc
  rcases mem_exP ht with rfl | rfl
  · rfl
  · have : c = 2 := by
      have h' : lookup fs 91 = some c := hc
      rw [h] at h'; exact (Option.some.inj h').symm
    subst this; rfl

theorem exReads' : DeclChangeTouchesSrc exDeclOf exP' exW3.fs := by
  intro t ht c hc
  rcases mem_exP' ht with rfl | rfl
  · rfl
  · have h3 : lookup exW3.fs 91 = some 3 := by decide
    have : c = 3 := by
      have h' : lookup exW3.fs 91 = some c := hc
      rw [h3] at h'; exact (Option.some.inj h').symm
    subst this; rfl

/-- first build, edit of the input, second build, then task 1 is rewired *and* its module edited, third build -/
theorem exHistoryP : HistoryP exF exDeclOf exP' exW3 := by
  have h1 : HistoryP exF exDeclOf exP exR1.w :=
    HistoryP.build {} [0, 1] exR1 (HistoryP.init exP exW.fs) exWF exBT (exReads _ (by decide)) exBuild1
  have h2 : HistoryP exF exDeclOf exP exR2.w :=
    HistoryP.build {} [0, 1] exR2 (HistoryP.fileEdit exW2.fs h1) exWF exBT (exReads _ (by decide)) exBuild2
  have h3 := HistoryP.projEdit (PEdit.change 1 exT1') (HistoryP.fileEdit exW3.fs h2)
  rw [exP'_eq] at h3
  exact h3

end Engine
end Pytask
