import PytaskProofs.Lemmas.EngineCrash
import PytaskProofs.Lemmas.EngineOrder
/-!
# Convergence after a kill: work that was done is never undone (no edits)

`RC` (all complete row sets are consistent snapshots) fails for the task whose rows were being committed when the process
died. What replaces it is a *set `A` of settled tasks*: `A` is closed under "produces a dependency of", every task in `A` has
fresh products, and every task outside `A` still has a consistent row set (`Q`).  Without edits no step of any later build
breaks this: a settled task that runs again rewrites the same bytes, and a task outside `A` does not write anything a settled
task reads (else it would be in `A`).
-/
namespace Pytask
namespace Engine

/-- every product has one producer; a module file is nobody's product -/
structure WF2 (P : Project) : Prop where
  uniq : ∀ t ∈ P.tasks, ∀ u ∈ P.tasks, ∀ p, p ∈ t.prods → p ∈ u.prods → t = u
  srcNotProd : ∀ t ∈ P.tasks, ∀ u ∈ P.tasks, t.src ∉ u.prods

def UpClosed (P : Project) (A : Nat → Prop) : Prop :=
  ∀ a ∈ P.tasks, A a.id → ∀ u ∈ P.tasks, (∃ d ∈ a.deps, d ∈ u.prods) → A u.id

structure Q (F : BodyFn) (P : Project) (g : G) (w : World) (A : Nat → Prop) : Prop where
  up : UpClosed P A
  fresh : ∀ a ∈ P.tasks, A a.id → Fresh F w a
  rc : ∀ u ∈ P.tasks, ¬ A u.id → RowsConsistent F g w.db u

/-- single-task version of `inv_of_rc` -/
theorem fresh_of_rowsConsistent {F : BodyFn} {P : Project} {g : G} (hwf : WF P g) (w : World) (t : TaskSpec)
    (ht : t ∈ P.tasks) (hc : RowsConsistent F g w.db t) (hm : RowsMatch P g w t.id) : Fresh F w t := by
  intro pi hpi
  have hall : ∀ v ∈ neighbours g t.id, (lookup w.db (tv t.id, v)).isSome = true := by
    intro v hv
    obtain ⟨h, _, h2⟩ := hm v hv
    simp [h2]
  have hrow := hc hall pi hpi
  have row_eq : ∀ v ∈ neighbours g t.id, lookup w.db (tv t.id, v) = stateOf P w v := by
    intro v hv
    obtain ⟨h, h1, h2⟩ := hm v hv
    rw [h1, h2]
  rw [row_eq _ (hwf.prods t ht _ (mem_prods_of_mem_zipIdx hpi)), cr_stateOf_nv] at hrow
  rw [hrow, row_eq _ (tv_mem_neighbours g t.id), stateOf_tv P w t.id t (hwf.find t ht)]
  congr 2
  apply List.map_congr_left
  intro d hd
  rw [row_eq _ (hwf.deps t ht d hd), cr_stateOf_nv]

theorem Q.inv {F : BodyFn} {P : Project} {g : G} {w : World} {A : Nat → Prop} (hwf : WF P g) (q : Q F P g w A) :
    Inv F P g w := by
  intro t ht hm
  by_cases hA : A t.id
  · exact q.fresh t ht hA
  · exact fresh_of_rowsConsistent hwf w t ht (q.rc t ht hA) hm

theorem Q.of_rc {F : BodyFn} {P : Project} {g : G} {w : World} (hrc : RC F P g w.db) : Q F P g w (fun _ => False) :=
  ⟨fun _ _ h => h.elim, fun _ _ h => h.elim, fun u hu _ => hrc u hu⟩

/-- `Fresh` only looks at the task's module, dependencies and products. -/
theorem fresh_congr {F : BodyFn} {w w' : World} {t : TaskSpec}
    (hsrc : lookup w'.fs t.src = lookup w.fs t.src) (hdeps : ∀ d ∈ t.deps, lookup w'.fs d = lookup w.fs d)
    (hprods : ∀ p ∈ t.prods, lookup w'.fs p = lookup w.fs p) (hf : Fresh F w t) : Fresh F w' t := by
  intro pi hpi
  rw [hprods _ (mem_prods_of_mem_zipIdx hpi), hsrc, hf pi hpi]
  congr 2
  apply List.map_congr_left
  intro d hd
  exact (hdeps d hd).symm

/-! ### writes that keep lookups -/

theorem lookup_insert_same (fs : FS) (n c q : Nat) (h : lookup fs n = some c) : lookup (insert fs n c) q = lookup fs q := by
  by_cases hq : q = n
  · subst hq; rw [lookup_insert_self, h]
  · exact cr_lookup_insert_ne _ _ _ _ hq

theorem applySteps_same (st : List Step) (w : World)
    (h : ∀ s ∈ st, ∃ n c, s = Step.write n c ∧ lookup w.fs n = some c) :
    ∀ q, lookup (applySteps w st).fs q = lookup w.fs q := by
  induction st generalizing w with
  | nil => intro q; rfl
  | cons s st ih =>
    obtain ⟨n, c, rfl, hn⟩ := h _ (List.mem_cons_self ..)
    have hA : ∀ q, lookup (applyStep w (.write n c)).fs q = lookup w.fs q := fun q => lookup_insert_same _ _ _ _ hn
    intro q
    rw [applySteps_cons, ih _ (fun s' hs' => by
      obtain ⟨n', c', rfl, hn'⟩ := h s' (List.mem_cons_of_mem _ hs')
      exact ⟨n', c', rfl, by rw [hA]; exact hn'⟩), hA]

theorem applySteps_avoid (Keep : Nat → Prop) (st : List Step) (w : World)
    (h : ∀ s ∈ st, ∃ n c, s = Step.write n c ∧ ¬ Keep n) :
    ∀ q, Keep q → lookup (applySteps w st).fs q = lookup w.fs q := by
  induction st generalizing w with
  | nil => intro q _; rfl
  | cons s st ih =>
    obtain ⟨n, c, rfl, hn⟩ := h _ (List.mem_cons_self ..)
    intro q hq
    rw [applySteps_cons, ih _ (fun s' hs' => h s' (List.mem_cons_of_mem _ hs')) q hq]
    exact cr_lookup_insert_ne _ _ _ _ (fun heq => hn (heq ▸ hq))

/-- every write of a body goes to a declared product and carries the body's function of the contents read at the start -/
theorem bodySteps_mem (F : BodyFn) (t : TaskSpec) (fs : FS) (s : Step) (hs : s ∈ bodySteps F t fs) :
    ∃ pi ∈ t.prods.zipIdx, s = Step.write pi.1 (F t.id pi.2 (lookup fs t.src) (t.deps.map (lookup fs))) := by
  unfold bodySteps at hs
  split at hs
  · cases hs
  · have key : ∀ skip, s ∈ writeSteps F t fs skip →
        ∃ pi ∈ t.prods.zipIdx, s = Step.write pi.1 (F t.id pi.2 (lookup fs t.src) (t.deps.map (lookup fs))) := by
      intro skip h
      unfold writeSteps at h
      simp only [List.mem_filterMap] at h
      obtain ⟨pi, hpi, heq⟩ := h
      split at heq
      · cases heq
      · exact ⟨pi, hpi, (Option.some.inj heq).symm⟩
    cases hb : t.beh <;> simp only [hb] at hs <;> first | exact key _ hs | cases hs

theorem phaseSteps_mem (F : BodyFn) (P : Project) (g : G) (cfg : Cfg) (s : Sess) (t : TaskSpec) (x : Step)
    (hx : x ∈ phaseSteps F P g cfg s t) :
    ∃ pi ∈ t.prods.zipIdx, x = Step.write pi.1 (F t.id pi.2 (lookup s.w.fs t.src) (t.deps.map (lookup s.w.fs))) := by
  unfold phaseSteps at hx
  split at hx
  · split at hx
    · cases hx
    · exact bodySteps_mem F t _ x hx
  · cases hx

end Engine
end Pytask

namespace Pytask
namespace Engine

theorem Q.congr {F : BodyFn} {P : Project} {g : G} {w : World} {A B : Nat → Prop} (h : ∀ x, A x ↔ B x) (q : Q F P g w A) :
    Q F P g w B :=
  ⟨fun a ha hA u hu hd => (h _).1 (q.up a ha ((h _).2 hA) u hu hd),
   fun a ha hA => q.fresh a ha ((h _).2 hA),
   fun u hu hA => q.rc u hu (fun hB => hA ((h _).1 hB))⟩

/-- QW: the (partial) product writes of `spec`'s body keep `Q`: a settled `spec` rewrites the bytes that are there, an
unsettled one writes nothing a settled task looks at. -/
theorem q_phase_prefix {F : BodyFn} {P : Project} {g : G} (hwf2 : WF2 P) (cfg : Cfg) (s : Sess) (spec : TaskSpec)
    (hspec : spec ∈ P.tasks) (A : Nat → Prop) (q : Q F P g s.w A) (j : Nat) :
    Q F P g (applySteps s.w ((phaseSteps F P g cfg s spec).take j)) A := by
  have hmem : ∀ x ∈ (phaseSteps F P g cfg s spec).take j, ∃ pi ∈ spec.prods.zipIdx,
      x = Step.write pi.1 (F spec.id pi.2 (lookup s.w.fs spec.src) (spec.deps.map (lookup s.w.fs))) :=
    fun x hx => phaseSteps_mem F P g cfg s spec x (List.mem_of_mem_take hx)
  have hdb : (applySteps s.w ((phaseSteps F P g cfg s spec).take j)).db = s.w.db :=
    applySteps_onlyWrites_db ((phaseSteps_onlyWrites F P g cfg s spec).take j) s.w
  refine ⟨q.up, ?_, fun u hu hA => by rw [hdb]; exact q.rc u hu hA⟩
  intro a ha hAa
  by_cases hAs : A spec.id
  · -- same bytes
    have hsame := applySteps_same _ s.w (fun x hx => by
      obtain ⟨pi, hpi, rfl⟩ := hmem x hx
      exact ⟨_, _, rfl, q.fresh spec hspec hAs pi hpi⟩)
    exact fresh_congr (hsame _) (fun d _ => hsame d) (fun p _ => hsame p) (q.fresh a ha hAa)
  · -- nothing `a` looks at
    have hav := applySteps_avoid (fun n => n = a.src ∨ n ∈ a.deps ∨ n ∈ a.prods) _ s.w (fun x hx => by
      obtain ⟨pi, hpi, rfl⟩ := hmem x hx
      have hp := mem_prods_of_mem_zipIdx hpi
      refine ⟨_, _, rfl, ?_⟩
      rintro (h1 | h2 | h3)
      · exact hwf2.srcNotProd a ha spec hspec (h1 ▸ hp)
      · exact hAs (q.up a ha hAa spec hspec ⟨_, h2, hp⟩)
      · have := hwf2.uniq a ha spec hspec _ h3 hp
        exact hAs (this ▸ hAa))
    exact fresh_congr (hav _ (Or.inl rfl)) (fun d hd => hav d (Or.inr (Or.inl hd))) (fun p hp => hav p (Or.inr (Or.inr hp)))
      (q.fresh a ha hAa)

/-- QR: once body and teardown of `spec` went through, `spec` is settled — during and after its row commits. -/
theorem q_report_prefix {F : BodyFn} {P : Project} {g : G} (hwf : WF P g) (cfg : Cfg) (s1 : Sess) (spec : TaskSpec)
    (hspec : spec ∈ P.tasks) (A : Nat → Prop) (q : Q F P g s1.w A) (hfresh : Fresh F s1.w spec)
    (hprod : ∀ u ∈ P.tasks, (∃ d ∈ spec.deps, d ∈ u.prods) → A u.id) (r : Raised) (j : Nat) :
    Q F P g (applySteps s1.w ((reportStepsEach P g cfg s1 spec r).take j)) (fun x => A x ∨ x = spec.id) := by
  have hrows := (reportSteps_onlyRows P g cfg s1 spec r).take j
  have hfs := applySteps_onlyRows_fs hrows s1.w
  refine ⟨?_, ?_, ?_⟩
  · intro a ha hA' u hu hd
    rcases hA' with hA | hid
    · exact Or.inl (q.up a ha hA u hu hd)
    · have : a = spec := wf_id_inj hwf ha hspec hid
      subst this
      exact Or.inl (hprod u hu hd)
  · intro a ha hA'
    rcases hA' with hA | hid
    · exact fresh_of_fs_eq hfs (q.fresh a ha hA)
    · have : a = spec := wf_id_inj hwf ha hspec hid
      subst this
      exact fresh_of_fs_eq hfs hfresh
  · intro u hu hA'
    have hnA : ¬ A u.id := fun h => hA' (Or.inl h)
    have hid : u.id ≠ spec.id := fun h => hA' (Or.inr h)
    exact RowsConsistent.congr (fun x => applySteps_onlyRows_other hrows s1.w u.id x hid) (q.rc u hu hnA)

theorem Q.mono_set {F : BodyFn} {P : Project} {g : G} {w : World} {A : Nat → Prop} (q : Q F P g w A) :
    ∃ A', (∀ x, A x → A' x) ∧ Q F P g w A' := ⟨A, fun _ h => h, q⟩

/-- QP: after every prefix of the atomic updates of one protocol, `Q` holds for `A` or for `A ∪ {spec}`. -/
theorem q_protocol_prefix {F : BodyFn} {P : Project} {g : G} (hwf : WF P g) (hwf2 : WF2 P) (cfg : Cfg) (s : Sess)
    (spec : TaskSpec) (hspec : spec ∈ P.tasks) (A : Nat → Prop) (q : Q F P g s.w A)
    (hprod : ∀ u ∈ P.tasks, (∃ d ∈ spec.deps, d ∈ u.prods) → A u.id) (j : Nat) :
    ∃ A', (∀ x, A x → A' x) ∧ Q F P g (applySteps s.w ((protocolStepsEach F P g cfg s spec).take j)) A' := by
  unfold protocolStepsEach
  simp only []
  rw [List.take_append, applySteps_append]
  by_cases hk : j ≤ (phaseSteps F P g cfg s spec).length
  · have : j - (phaseSteps F P g cfg s spec).length = 0 := by omega
    rw [this, List.take_zero, applySteps_nil]
    exact ⟨A, fun _ h => h, q_phase_prefix hwf2 cfg s spec hspec A q j⟩
  · have q1 := q_phase_prefix hwf2 cfg s spec hspec A q j
    rw [List.take_of_length_le (by omega), applySteps_phases] at q1 ⊢
    by_cases hr : (runPhases F P g cfg s spec).1 = .none
    · have hfresh := runPhases_none_fresh F P g cfg s spec (hwf.nodup spec hspec) (hwf.disj spec hspec) (hwf.honest spec hspec) hr
      exact ⟨_, fun _ h => Or.inl h, q_report_prefix hwf cfg _ spec hspec A q1 hfresh hprod _ _⟩
    · have hnp := runPhases_ne_persisted F P g cfg s spec (hwf.noPersist spec hspec)
      rw [reportSteps_other _ _ _ _ _ _ hr hnp, List.take_nil, applySteps_nil]
      exact ⟨A, fun _ h => h, q1⟩

/-- QC: a protocol of `spec` that ends in SUCCESS or SKIP_UNCHANGED (or dies in its row commits) settles `spec`. -/
theorem q_protocol_good {F : BodyFn} {P : Project} {g : G} (hwf : WF P g) (hwf2 : WF2 P) (cfg : Cfg) (s : Sess)
    (spec : TaskSpec) (hspec : spec ∈ P.tasks) (A : Nat → Prop) (q : Q F P g s.w A)
    (hprod : ∀ u ∈ P.tasks, (∃ d ∈ spec.deps, d ∈ u.prods) → A u.id)
    (hout : (runPhases F P g cfg s spec).1 = .none ∨ (runPhases F P g cfg s spec).1 = .skippedUnchanged) :
    Q F P g (protocol F P g cfg s spec).w (fun x => A x ∨ x = spec.id) := by
  rcases hout with hr | hr
  · have q1 := q_phase_prefix hwf2 cfg s spec hspec A q (phaseSteps F P g cfg s spec).length
    rw [List.take_length, applySteps_phases] at q1
    have hfresh := runPhases_none_fresh F P g cfg s spec (hwf.nodup spec hspec) (hwf.disj spec hspec) (hwf.honest spec hspec) hr
    have := q_report_prefix hwf cfg _ spec hspec A q1 hfresh hprod (runPhases F P g cfg s spec).1
      (reportStepsEach P g cfg (runPhases F P g cfg s spec).2 spec (runPhases F P g cfg s spec).1).length
    rw [List.take_length, applySteps_report] at this
    exact this
  · obtain ⟨hm, hs⟩ := rowsMatch_of_skippedUnchanged F P g cfg s spec hr
    have hw : (protocol F P g cfg s spec).w = s.w := by
      unfold protocol
      simp only [hr, hs, processReport]
    rw [hw]
    have hfresh : Fresh F s.w spec := q.inv hwf spec hspec hm
    have := q_report_prefix hwf cfg s spec hspec A q hfresh hprod .skipped 0
    simpa using this

end Engine
end Pytask

/-! ### reports -/
namespace Pytask
namespace Engine

abbrev GoodOutcome (o : Outcome) : Prop := o = .success ∨ o = .skipUnchanged

theorem protocol_reports_mono (F : BodyFn) (P : Project) (g : G) (cfg : Cfg) (s : Sess) (t : TaskSpec) :
    ∀ rep ∈ s.reports, rep ∈ (protocol F P g cfg s t).reports := by
  have h1 : (runPhases F P g cfg s t).2.reports = s.reports := by
    unfold runPhases
    split
    · split
      · rfl
      · simp only []
        split <;> (try split) <;> rfl
    · rfl
  intro rep hrep
  unfold protocol
  simp only []
  rw [← h1] at hrep
  cases (runPhases F P g cfg s t).1 <;> simp only [processReport] <;> (try split) <;> simp [hrep]

/-- the protocol's own report; a bad outcome is visible in the reports -/
theorem protocol_raised_good (F : BodyFn) (P : Project) (g : G) (cfg : Cfg) (s : Sess) (t : TaskSpec)
    (hp : t.persist = false)
    (hgood : ∀ rep ∈ (protocol F P g cfg s t).reports, GoodOutcome rep.2) :
    (runPhases F P g cfg s t).1 = .none ∨ (runPhases F P g cfg s t).1 = .skippedUnchanged := by
  have hnp := runPhases_ne_persisted F P g cfg s t hp
  unfold protocol at hgood
  simp only [] at hgood
  cases hr : (runPhases F P g cfg s t).1
  case none => exact Or.inl rfl
  case skippedUnchanged => exact Or.inr rfl
  case persisted => exact absurd hr hnp
  all_goals
    exfalso
    simp only [hr, processReport] at hgood
    have := hgood (t.id, _) (List.mem_append_right _ (List.mem_singleton.2 rfl))
    rcases this with h | h <;> cases h

theorem buildLoop_reports_mono (F : BodyFn) (P : Project) (g : G) (cfg : Cfg) :
    ∀ (picks : List Nat) (so : Sorter) (s : Sess) (so' : Sorter) (s' : Sess),
      buildLoop F P g cfg so s picks = .ok (so', s') → ∀ rep ∈ s.reports, rep ∈ s'.reports
  | [], so, s, so', s', h => by
    simp only [buildLoop, Except.ok.injEq, Prod.mk.injEq] at h
    obtain ⟨_, rfl⟩ := h
    exact fun _ h => h
  | t :: ts, so, s, so', s', h => by
    unfold buildLoop at h
    split at h
    · cases h
    split at h
    · cases h
    split at h
    · cases h
    rename_i spec hfind
    intro rep hrep
    exact buildLoop_reports_mono F P g cfg ts _ _ so' s' h rep (protocol_reports_mono F P g cfg s spec rep hrep)

/-- The schedule respects the data flow: when `t` is picked, the producers of its dependencies are settled or were picked
before (a consequence of `C01_order`: producers are task-ancestors). -/
def DataOrdered (P : Project) (A : Nat → Prop) (picks : List Nat) : Prop :=
  ∀ pre t post, picks = pre ++ t :: post → ∀ spec, Project.find? P t = some spec →
    ∀ u ∈ P.tasks, (∃ d ∈ spec.deps, d ∈ u.prods) → A u.id ∨ u.id ∈ pre

/-- QL: a build loop all of whose protocols end in SUCCESS / SKIP_UNCHANGED settles every task it processes. -/
theorem q_loop {F : BodyFn} {P : Project} {g : G} (hwf : WF P g) (hwf2 : WF2 P) (cfg : Cfg) :
    ∀ (picks : List Nat) (so : Sorter) (s : Sess) (so' : Sorter) (s' : Sess) (A : Nat → Prop),
      Q F P g s.w A → buildLoop F P g cfg so s picks = .ok (so', s') →
      (∀ rep ∈ s'.reports, GoodOutcome rep.2) → DataOrdered P A picks →
      Q F P g s'.w (fun x => A x ∨ x ∈ picks)
  | [], so, s, so', s', A, q, h, _, _ => by
    simp only [buildLoop, Except.ok.injEq, Prod.mk.injEq] at h
    obtain ⟨_, rfl⟩ := h
    exact q.congr (fun x => by simp)
  | t :: ts, so, s, so', s', A, q, h, hgood, hord => by
    unfold buildLoop at h
    split at h
    · cases h
    split at h
    · cases h
    split at h
    · cases h
    rename_i spec hfind
    have hspec := mem_of_find? hfind
    have hid : spec.id = t := find?_id hfind
    have hprod : ∀ u ∈ P.tasks, (∃ d ∈ spec.deps, d ∈ u.prods) → A u.id := by
      intro u hu hd
      rcases hord [] t ts rfl spec hfind u hu hd with h | h
      · exact h
      · cases h
    have hout := protocol_raised_good F P g cfg s spec (hwf.noPersist spec hspec)
      (fun rep hrep => hgood rep (buildLoop_reports_mono F P g cfg ts _ _ so' s' h rep hrep))
    have q1 := q_protocol_good hwf hwf2 cfg s spec hspec A q hprod hout
    have hord' : DataOrdered P (fun x => A x ∨ x = spec.id) ts := by
      intro pre t2 post hts spec2 hf2 u hu hd
      rcases hord (t :: pre) t2 post (by rw [hts]; rfl) spec2 hf2 u hu hd with h | h
      · exact Or.inl (Or.inl h)
      · rcases List.mem_cons.1 h with h | h
        · exact Or.inl (Or.inr (by rw [hid]; exact h))
        · exact Or.inr h
    have q2 := q_loop hwf hwf2 cfg ts _ _ so' s' _ q1 h hgood hord'
    exact q2.congr (fun x => by rw [hid]; simp [or_assoc])

/-- When every task is settled, every product on disk is its body's function of the contents on disk of its module and
dependencies: the from-scratch fixpoint. -/
theorem Q.allFresh {F : BodyFn} {P : Project} {g : G} {w : World} {A : Nat → Prop} (q : Q F P g w A)
    (hall : ∀ t ∈ P.tasks, A t.id) : ∀ t ∈ P.tasks, Fresh F w t := fun t ht => q.fresh t ht (hall t ht)

end Engine
end Pytask

/-! ### all rows match after a successful build; such a world is quiet -/
namespace Pytask
namespace Engine

/-- Later picks neither are, nor write into the neighbourhood of, tasks in `D` or earlier picks (a consequence of `C01_order` and
of `_check_if_tasks_have_the_same_products`: a task whose product is a neighbour of `t'` is `t'` itself or an ancestor of it). -/
def FrameOrdered (P : Project) (g : G) (D : List Nat) (picks : List Nat) : Prop :=
  ∀ pre t post, picks = pre ++ t :: post → ∀ spec, Project.find? P t = some spec → ∀ t', (t' ∈ D ∨ t' ∈ pre) →
    t' ≠ t ∧ ∀ p ∈ spec.prods, nv p ∉ neighbours g t' ∧ ∀ spec', Project.find? P t' = some spec' → spec'.src ≠ p

theorem protocolSteps_avoid (F : BodyFn) (P : Project) (g : G) (cfg : Cfg) (s : Sess) (spec : TaskSpec) (t' : Nat)
    (hne : t' ≠ spec.id)
    (hp : ∀ p ∈ spec.prods, nv p ∉ neighbours g t' ∧ ∀ spec', Project.find? P t' = some spec' → spec'.src ≠ p) :
    ∀ x ∈ protocolStepsEach F P g cfg s spec, StepAvoids P g t' x := by
  intro x hx
  unfold protocolStepsEach at hx
  simp only [List.mem_append] at hx
  rcases hx with hx | hx
  · obtain ⟨pi, hpi, rfl⟩ := phaseSteps_mem F P g cfg s spec x hx
    exact hp _ (mem_prods_of_mem_zipIdx hpi)
  · obtain ⟨v, h, rfl⟩ := reportSteps_onlyRows P g cfg _ spec _ x hx
    exact fun heq => hne heq.symm

theorem rowsMatch_loop {F : BodyFn} {P : Project} {g : G} (hwf : WF P g)
    (hbip : ∀ t, ∀ v ∈ neighbours g t, isTaskV v = true → v = tv t) (cfg : Cfg) :
    ∀ (picks : List Nat) (so : Sorter) (s : Sess) (so' : Sorter) (s' : Sess) (D : List Nat),
      (∀ t' ∈ D, RowsMatch P g s.w t') → buildLoop F P g cfg so s picks = .ok (so', s') →
      (∀ rep ∈ s'.reports, GoodOutcome rep.2) → s'.crashed = false → FrameOrdered P g D picks →
      ∀ t' ∈ D ++ picks, RowsMatch P g s'.w t'
  | [], so, s, so', s', D, hD, h, _, _, _ => by
    simp only [buildLoop, Except.ok.injEq, Prod.mk.injEq] at h
    obtain ⟨_, rfl⟩ := h
    simpa using hD
  | t :: ts, so, s, so', s', D, hD, h, hgood, hcr, hfr => by
    unfold buildLoop at h
    split at h
    · cases h
    split at h
    · cases h
    split at h
    · cases h
    rename_i spec hfind
    have hspec := mem_of_find? hfind
    have hid : spec.id = t := find?_id hfind
    have hout := protocol_raised_good F P g cfg s spec (hwf.noPersist spec hspec)
      (fun rep hrep => hgood rep (buildLoop_reports_mono F P g cfg ts _ _ so' s' h rep hrep))
    -- the protocol did not die in its row commits (else the loop could not have ended with `crashed = false`)
    have hnc : (protocol F P g cfg s spec).crashed = false := by
      cases hc : (protocol F P g cfg s spec).crashed
      · rfl
      · exfalso
        cases ts with
        | nil =>
          simp only [buildLoop, Except.ok.injEq, Prod.mk.injEq] at h
          obtain ⟨_, rfl⟩ := h
          rw [hc] at hcr; cases hcr
        | cons u us => unfold buildLoop at h; simp [hc] at h
    -- rows of `spec` match after its protocol
    have hms : RowsMatch P g (protocol F P g cfg s spec).w t := by
      rcases hout with hr | hr
      · have hok : (updateStates P g (runPhases F P g cfg s spec).2.w spec.id (neighbours g spec.id)).2 = true := by
          cases hok : (updateStates P g (runPhases F P g cfg s spec).2.w spec.id (neighbours g spec.id)).2
          · exfalso
            have hdry := runPhases_none_not_dry F P g cfg s spec hr
            unfold protocol at hnc
            simp [hr, processReport, recordStates, hdry, hok] at hnc
          · rfl
        rw [← hid]; exact rowsMatch_after_protocol F P g cfg s spec hr hok
      · obtain ⟨hm, hs⟩ := rowsMatch_of_skippedUnchanged F P g cfg s spec hr
        have hw : (protocol F P g cfg s spec).w = s.w := by
          unfold protocol
          simp only [hr, hs, processReport]
        rw [hw, ← hid]; exact hm
    -- rows of the tasks in `D` still match
    have hD' : ∀ t' ∈ D ++ [t], RowsMatch P g (protocol F P g cfg s spec).w t' := by
      intro t' ht'
      rcases List.mem_append.1 ht' with h1 | h1
      · obtain ⟨hne, hp⟩ := hfr [] t ts rfl spec hfind t' (Or.inl h1)
        rw [← applySteps_protocol]
        exact rowsMatch_frame P g t' (hbip t') _ _ (protocolSteps_avoid F P g cfg s spec t' (by rw [hid]; exact hne) hp) (hD t' h1)
      · rw [List.mem_singleton.1 h1]; exact hms
    have hfr' : FrameOrdered P g (D ++ [t]) ts := by
      intro pre t2 post hts spec2 hf2 t' ht'
      apply hfr (t :: pre) t2 post (by rw [hts]; rfl) spec2 hf2 t'
      rcases ht' with h1 | h1
      · rcases List.mem_append.1 h1 with h2 | h2
        · exact Or.inl h2
        · exact Or.inr (by rw [List.mem_singleton.1 h2]; simp)
      · exact Or.inr (List.mem_cons_of_mem _ h1)
    have := rowsMatch_loop hwf hbip cfg ts _ _ so' s' (D ++ [t]) hD' h hgood hcr hfr'
    intro t' ht'
    apply this t'
    simpa [List.append_assoc] using ht'

/-- In a world in which every task's rows match, a non-forced build executes nothing and changes nothing. -/
theorem quiet_loop {F : BodyFn} {P : Project} {g : G} (hwf : WF P g) (cfg : Cfg) (hforce : cfg.force = false) :
    ∀ (picks : List Nat) (so : Sorter) (s : Sess) (so' : Sorter) (s' : Sess),
      (∀ t ∈ P.tasks, RowsMatch P g s.w t.id) → buildLoop F P g cfg so s picks = .ok (so', s') →
      s'.log = s.log ∧ s'.w = s.w
  | [], so, s, so', s', _, h => by
    simp only [buildLoop, Except.ok.injEq, Prod.mk.injEq] at h
    obtain ⟨_, rfl⟩ := h
    exact ⟨rfl, rfl⟩
  | t :: ts, so, s, so', s', hm, h => by
    unfold buildLoop at h
    split at h
    · cases h
    split at h
    · cases h
    split at h
    · cases h
    rename_i spec hfind
    have hspec := mem_of_find? hfind
    obtain ⟨hs, hne⟩ := runPhases_rowsMatch F P g cfg s spec hforce (hm spec hspec)
    have hnp := runPhases_ne_persisted F P g cfg s spec (hwf.noPersist spec hspec)
    have hw : (protocol F P g cfg s spec).w = s.w ∧ (protocol F P g cfg s spec).log = s.log := by
      unfold protocol
      simp only []
      rw [hs]
      cases hr : (runPhases F P g cfg s spec).1 <;> simp only [processReport] <;>
        first | exact absurd hr hne | exact absurd hr hnp | simp
    have := quiet_loop hwf cfg hforce ts _ _ so' s' (by rw [hw.1]; exact hm) h
    rw [hw.1, hw.2] at this
    exact this

end Engine
end Pytask

namespace Pytask
namespace Engine

theorem DataOrdered.mono {P : Project} {A B : Nat → Prop} {picks : List Nat} (h : ∀ x, A x → B x)
    (hd : DataOrdered P A picks) : DataOrdered P B picks := by
  intro pre t post hp spec hf u hu hdep
  rcases hd pre t post hp spec hf u hu hdep with h1 | h1
  · exact Or.inl (h _ h1)
  · exact Or.inr h1

end Engine
end Pytask

namespace Pytask
namespace Engine

/-- The convergence argument with the scheduling facts as hypotheses (`DataOrdered`, `FrameOrdered`, bipartite graph);
`Lemmas/EngineGraph.lean` derives them from `createDag` and the C01 theorems, `Properties/C05.lean` states the result. -/
theorem converge_abstract (F : BodyFn) (P : Project) (g : G) (cfg cfg' : Cfg)
    (hwf : WF P g) (hwf2 : WF2 P) (hbip : ∀ t, ∀ v ∈ neighbours g t, isTaskV v = true → v = tv t)
    -- the killed build
    (so0 so1 : Sorter) (s0 s1 : Sess) (hrc : RC F P g s0.w.db) (done : List Nat) (tstar : Nat) (specS : TaskSpec)
    (hloop1 : buildLoop F P g cfg so0 s0 done = .ok (so1, s1)) (hgood1 : ∀ rep ∈ s1.reports, GoodOutcome rep.2)
    (hfindS : Project.find? P tstar = some specS) (hord1 : DataOrdered P (fun _ => False) (done ++ [tstar]))
    (j : Nat) (w1 : World) (hw1 : w1 = applySteps s1.w ((protocolStepsEach F P g cfg s1 specS).take j))
    -- the recovery build
    (so2 so3 : Sorter) (s2 s3 : Sess) (hs2 : s2.w = w1) (picks2 : List Nat)
    (hloop2 : buildLoop F P g cfg' so2 s2 picks2 = .ok (so3, s3)) (hgood2 : ∀ rep ∈ s3.reports, GoodOutcome rep.2)
    (hcr : s3.crashed = false) (hall : ∀ t ∈ P.tasks, t.id ∈ picks2)
    (hord2 : DataOrdered P (fun _ => False) picks2) (hframe2 : FrameOrdered P g [] picks2) :
    (∀ t ∈ P.tasks, Fresh F s3.w t) ∧ (∀ t ∈ P.tasks, RowsMatch P g s3.w t.id) ∧
    (∀ (cfg'' : Cfg) (so4 so5 : Sorter) (s4 s5 : Sess) (picks : List Nat), cfg''.force = false → s4.w = s3.w →
        buildLoop F P g cfg'' so4 s4 picks = .ok (so5, s5) → s5.log = s4.log ∧ s5.w = s4.w) := by
  -- settled set after the completed part of the killed build
  have q1 := q_loop hwf hwf2 cfg done so0 s0 so1 s1 (fun _ => False) (Q.of_rc hrc) hloop1 hgood1
    (by
      intro pre t post hp spec hf u hu hd
      exact hord1 pre t (post ++ [tstar]) (by rw [hp]; simp) spec hf u hu hd)
  -- … and at the kill point inside the protocol of `tstar`
  have hprodS : ∀ u ∈ P.tasks, (∃ d ∈ specS.deps, d ∈ u.prods) → (False ∨ u.id ∈ done) :=
    fun u hu hd => hord1 done tstar [] rfl specS hfindS u hu hd
  obtain ⟨A1, hA1, q2⟩ := q_protocol_prefix hwf hwf2 cfg s1 specS (mem_of_find? hfindS) _ q1 hprodS j
  rw [← hw1, ← hs2] at q2
  -- the recovery build settles everything
  have q3 := q_loop hwf hwf2 cfg' picks2 so2 s2 so3 s3 A1 q2 hloop2 hgood2 (hord2.mono (fun _ h => h.elim))
  have hfresh := q3.allFresh (fun t ht => Or.inr (hall t ht))
  have hrows : ∀ t ∈ P.tasks, RowsMatch P g s3.w t.id := by
    have := rowsMatch_loop hwf hbip cfg' picks2 so2 s2 so3 s3 [] (fun _ h => by cases h) hloop2 hgood2 hcr hframe2
    intro t ht
    exact this t.id (by simpa using hall t ht)
  refine ⟨hfresh, hrows, ?_⟩
  intro cfg'' so4 so5 s4 s5 picks hforce hw4 hloop
  exact quiet_loop hwf cfg'' hforce picks so4 s4 so5 s5 (by rw [hw4]; exact hrows) hloop


end Engine
end Pytask

namespace Pytask
namespace Engine

/-- bipartite graphs: a decidable sufficient condition for `hbip` -/
theorem bip_of_edges (g : G) (h : ∀ e ∈ g.edges, isTaskV e.1 ≠ isTaskV e.2) :
    ∀ t, ∀ v ∈ neighbours g t, isTaskV v = true → v = tv t := by
  intro t v hv hT
  have htv : isTaskV (tv t) = true := by
    unfold isTaskV tv
    have : (2 * t) % 2 = 0 := by omega
    simp [this]
  unfold neighbours at hv
  simp only [List.mem_append, List.mem_singleton] at hv
  rcases hv with (hv | hv) | hv
  · exfalso
    unfold G.preds at hv
    simp only [List.mem_map, List.mem_filter] at hv
    obtain ⟨e, ⟨he, he2⟩, rfl⟩ := hv
    have h2 : e.2 = tv t := by simpa using he2
    exact h e he (by rw [hT, h2, htv])
  · exact hv
  · exfalso
    unfold G.succs at hv
    simp only [List.mem_map, List.mem_filter] at hv
    obtain ⟨e, ⟨he, he1⟩, rfl⟩ := hv
    have h1 : e.1 = tv t := by simpa using he1
    exact h e he (by rw [hT, h1, htv])

/-! data for the non-vacuity example of `C05_converge_partial` -/
theorem c05_wf2 : WF2 c05P where
  uniq := by
    intro t ht u hu p hp hq
    simp [c05P] at ht hu
    rcases ht with rfl | rfl <;> rcases hu with rfl | rfl <;> simp_all
  srcNotProd := by
    intro t ht u hu
    simp [c05P] at ht hu
    rcases ht with rfl | rfl <;> rcases hu with rfl | rfl <;> simp

theorem c05_bip : ∀ t, ∀ v ∈ neighbours c05G t, isTaskV v = true → v = tv t :=
  bip_of_edges c05G (by decide)

def c05So : Sorter :=
  match Sorter.fromDag c05G isTaskV (prioFn c05P) with
  | .ok so => so
  | .error _ => ⟨[], [], fun _ => 0, [], []⟩

def c05T0 : TaskSpec := { id := 0, src := 90, deps := [10], prods := [20, 21], after := [] }
def c05T1 : TaskSpec := { id := 1, src := 90, deps := [20], prods := [22], after := [] }

theorem c05_find0 {spec : TaskSpec} (h : Project.find? c05P 0 = some spec) : spec = c05T0 := by
  have : Project.find? c05P 0 = some c05T0 := rfl
  rw [this] at h; exact (Option.some.inj h).symm

theorem c05_find1 {spec : TaskSpec} (h : Project.find? c05P 1 = some spec) : spec = c05T1 := by
  have : Project.find? c05P 1 = some c05T1 := rfl
  rw [this] at h; exact (Option.some.inj h).symm

theorem c05_ord1 : DataOrdered c05P (fun _ => False) [0] := by
  intro pre t post hp spec hf u hu hd
  match pre, hp with
  | [], hp =>
    simp at hp
    obtain ⟨rfl, rfl⟩ := hp
    have := c05_find0 hf
    subst this
    simp [c05P, c05T0] at hu hd
    rcases hu with rfl | rfl <;> simp at hd
  | a :: rest, hp =>
    exfalso
    have := congrArg List.length hp
    simp at this

theorem c05_ord2 : DataOrdered c05P (fun _ => False) [0, 1] := by
  intro pre t post hp spec hf u hu hd
  match pre, hp with
  | [], hp =>
    simp at hp
    obtain ⟨rfl, rfl⟩ := hp
    have := c05_find0 hf
    subst this
    simp [c05P, c05T0] at hu hd
    rcases hu with rfl | rfl <;> simp at hd
  | [a], hp =>
    simp at hp
    obtain ⟨rfl, rfl, rfl⟩ := hp
    have := c05_find1 hf
    subst this
    simp [c05P, c05T1] at hu hd
    rcases hu with rfl | rfl
    · right; simp
    · simp at hd
  | a :: b :: rest, hp =>
    exfalso
    have := congrArg List.length hp
    simp at this

theorem c05_frame2 : FrameOrdered c05P c05G [] [0, 1] := by
  intro pre t post hp spec hf t' ht'
  match pre, hp with
  | [], hp => simp at ht'
  | [a], hp =>
    simp at hp
    obtain ⟨rfl, rfl, rfl⟩ := hp
    have := c05_find1 hf
    subst this
    simp at ht'
    subst ht'
    refine ⟨by decide, ?_⟩
    intro p hp
    simp [c05T1] at hp
    subst hp
    refine ⟨by decide, ?_⟩
    intro spec' hf'
    have := c05_find0 hf'
    subst this
    decide
  | a :: b :: rest, hp =>
    exfalso
    have := congrArg List.length hp
    simp at this

end Engine
end Pytask

/-! data for the F50 scenario (examples of `Properties/C05.lean`) -/
namespace Pytask
namespace Engine

/-- "do the two inputs agree?" (0 = agree, 1 = differ) -/
def f50F : BodyFn := fun _ _ _ ds => ((ds.map (·.getD 0)).sum) % 2
def f50T : TaskSpec := { id := 0, src := 90, deps := [10, 11], prods := [20], after := [] }
def f50P : Project := ⟨[f50T]⟩
def f50G : G := modifyDag f50P (baseGraph f50P)
/-- after a finished build with inputs 0, 0 and the edit of both inputs to 1 -/
def f50W : World := ⟨[(10, 1), (11, 1), (90, 7), (20, 0)], [((0, 21), 0), ((0, 23), 0), ((0, 0), 7), ((0, 41), 0)]⟩

theorem f50_wf : WF f50P f50G where
  find := by intro t ht; simp [f50P] at ht; subst ht; rfl
  deps := by intro t ht; simp [f50P] at ht; subst ht; decide
  prods := by intro t ht; simp [f50P] at ht; subst ht; decide
  nodup := by intro t ht; simp [f50P] at ht; subst ht; decide
  disj := by intro t ht; simp [f50P] at ht; subst ht; decide
  honest := by intro t ht; simp [f50P] at ht; subst ht; intro k h; cases h
  noPersist := by intro t ht; simp [f50P] at ht; subst ht; rfl

theorem f50_rc : RC f50F f50P f50G f50W.db := by
  intro t ht
  simp [f50P] at ht
  subst ht
  intro _ pi hpi
  have : pi = (20, 0) := by simpa [f50T] using hpi
  subst this
  decide

end Engine
end Pytask
