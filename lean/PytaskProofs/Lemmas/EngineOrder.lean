import PytaskModel.Engine
import PytaskProofs.Lemmas.Sorter
/-! Order / at-most-once lemmas for the build loop of M6. -/
namespace Pytask
namespace Engine
open Sorter

theorem runPhases_log (F : BodyFn) (P : Project) (g : G) (cfg : Cfg) (s : Sess) (t : TaskSpec) :
    (runPhases F P g cfg s t).2.log = s.log ∨ (runPhases F P g cfg s t).2.log = s.log ++ [t.id] := by
  unfold runPhases
  split
  · split
    · simp
    · simp only []
      split <;> (try split) <;> (by_cases hb : behInvokes t.beh = true <;> simp [hb])
  · simp

@[simp] theorem processReport_log (P : Project) (g : G) (cfg : Cfg) (s : Sess) (t : TaskSpec) (r : Raised) :
    (processReport P g cfg s t r).log = s.log := by
  unfold processReport
  cases r <;> simp only [] <;> (try split) <;> rfl

/-- The protocol appends at most the task's own id to the body log. -/
theorem protocol_log (F : BodyFn) (P : Project) (g : G) (cfg : Cfg) (s : Sess) (t : TaskSpec) :
    (protocol F P g cfg s t).log = s.log ∨ (protocol F P g cfg s t).log = s.log ++ [t.id] := by
  unfold protocol
  simp only [processReport_log]
  exact runPhases_log F P g cfg s t

theorem find?_id {P : Project} {t : Nat} {spec : TaskSpec} (h : Project.find? P t = some spec) : spec.id = t := by
  unfold Project.find? at h
  have := List.find?_some h
  simpa using this

/-- Main loop invariant: with the sequential executor every pick is finished at once, so the
sorter's `done` list is exactly the list of earlier picks. -/
theorem buildLoop_order (F : BodyFn) (P : Project) (g : G) (cfg : Cfg) :
    ∀ (picks : List Nat) (E : List (Nat × Nat)) (so : Sorter) (s : Sess) (h : List Nat) (so' : Sorter) (s' : Sess),
      Reach E so h → so.done = h → buildLoop F P g cfg so s picks = .ok (so', s') →
      Reach E so' (h ++ picks.map tv) ∧ so'.done = h ++ picks.map tv ∧
      (∀ pre t post, picks = pre ++ t :: post → ∀ a, (a, tv t) ∈ E → a ∈ h ++ pre.map tv) ∧
      (∃ l, l.Sublist picks ∧ s'.log = s.log ++ l)
  | [], E, so, s, h, so', s', hr, hd, hb => by
    simp only [buildLoop, Except.ok.injEq, Prod.mk.injEq] at hb
    obtain ⟨rfl, rfl⟩ := hb
    refine ⟨by simpa using hr, by simpa using hd, ?_, ⟨[], List.Sublist.refl _, by simp⟩⟩
    intro pre t post hp; cases pre <;> cases hp
  | t :: ts, E, so, s, h, so', s', hr, hd, hb => by
    unfold buildLoop at hb
    split at hb
    · cases hb
    split at hb
    · cases hb
    rename_i hlegal
    split at hb
    · cases hb
    rename_i spec hfind
    have hlb : LegalBatch so 1 [tv t] := (legalBatchB_iff so 1 [tv t]).1 (by simpa using hlegal)
    have hr1 : Reach E (so.take [tv t]) (h ++ [tv t]) := Reach.ready 1 [tv t] hr hlb
    have hr2 : Reach E ((so.take [tv t]).finish [tv t]) (h ++ [tv t]) := Reach.done [tv t] hr1
    have hd2 : ((so.take [tv t]).finish [tv t]).done = h ++ [tv t] := by simp [finish, take, hd]
    obtain ⟨ih1, ih2, ih3, l, hl1, hl2⟩ := buildLoop_order F P g cfg ts E _ _ (h ++ [tv t]) so' s' hr2 hd2 hb
    refine ⟨by simpa [List.append_assoc] using ih1, by simpa [List.append_assoc] using ih2, ?_, ?_⟩
    · intro pre t' post hp a ha
      cases pre with
      | nil =>
        simp only [List.nil_append, List.cons.injEq] at hp
        obtain ⟨rfl, rfl⟩ := hp
        have hinv := reach_inv hr
        have hav := mem_avail.1 (hlb.2.1 (tv t) (by simp))
        rcases hinv.edges a (tv t) ha hav.1 with he | hdone
        · exact absurd he (indeg0_iff.1 hav.2.1 a)
        · simpa [hd] using hdone
      | cons p pre' =>
        simp only [List.cons_append, List.cons.injEq] at hp
        obtain ⟨rfl, rfl⟩ := hp
        have := ih3 pre' t' post rfl a ha
        simpa [List.append_assoc] using this
    · rcases protocol_log F P g cfg s spec with hlog | hlog
      · exact ⟨l, List.Sublist.cons _ hl1, by rw [hl2, hlog]⟩
      · refine ⟨t :: l, List.Sublist.cons_cons _ hl1, ?_⟩
        rw [hl2, hlog, find?_id hfind]; simp

end Engine
end Pytask

namespace Pytask
namespace Engine
open Sorter

/-- Every pick was a node of the sorter it was taken from (so it is a task vertex of the graph). -/
theorem buildLoop_picked_node (F : BodyFn) (P : Project) (g : G) (cfg : Cfg) :
    ∀ (picks : List Nat) (so : Sorter) (s : Sess) (so' : Sorter) (s' : Sess),
      buildLoop F P g cfg so s picks = .ok (so', s') → ∀ t ∈ picks, tv t ∈ so.nodes
  | [], _, _, _, _, _, t, ht => by cases ht
  | p :: ps, so, s, so', s', hb, t, ht => by
    unfold buildLoop at hb
    split at hb
    · cases hb
    split at hb
    · cases hb
    rename_i hlegal
    split at hb
    · cases hb
    have hlb : LegalBatch so 1 [tv p] := (legalBatchB_iff so 1 [tv p]).1 (by simpa using hlegal)
    rcases List.mem_cons.1 ht with rfl | ht
    · exact (mem_avail.1 (hlb.2.1 (tv t) (by simp))).1
    · have := buildLoop_picked_node F P g cfg ps _ _ so' s' hb t ht
      have : tv t ∈ so.nodes := by
        simp only [finish, take, List.mem_filter] at this
        exact this.1
      exact this

end Engine
end Pytask
