import PytaskProofs.Lemmas.EngineDryLoop
import PytaskProofs.Properties.C01
/-! Dry-run lemmas, part 6: every task a real build executes is announced by a complete dry run from the same state. -/
namespace Pytask
namespace EngineDry
open Engine G Sorter

/-! ### reading the setup chain -/

theorem skipRes_skipped_iff (s : Sess) (t : TaskSpec) :
    skipRes s t = .skipped ↔ (t.skip = true ∨ t.id ∈ s.skipMarks ∨ t.skipif = true) := by
  unfold skipRes
  by_cases h1 : t.skip = true <;> by_cases h2 : t.id ∈ s.skipMarks <;> by_cases h3 : t.skipif = true <;>
    by_cases h4 : t.id ∈ s.failMarks <;> simp [h1, h2, h3, h4]

theorem skipRes_none_iff (s : Sess) (t : TaskSpec) :
    skipRes s t = .none ↔ (t.skip = false ∧ t.id ∉ s.skipMarks ∧ t.skipif = false ∧ t.id ∉ s.failMarks) := by
  unfold skipRes
  by_cases h1 : t.skip = true <;> by_cases h2 : t.id ∈ s.skipMarks <;> by_cases h3 : t.skipif = true <;>
    by_cases h4 : t.id ∈ s.failMarks <;> simp [h1, h2, h3, h4]

theorem skipRes_af (s : Sess) (t : TaskSpec) (h : skipRes s t = .ancestorFailed) : t.id ∈ s.failMarks := by
  unfold skipRes at h
  by_cases h1 : t.skip = true <;> by_cases h2 : t.id ∈ s.skipMarks <;> by_cases h3 : t.skipif = true <;>
    by_cases h4 : t.id ∈ s.failMarks <;> simp [h1, h2, h3, h4] at h ⊢

theorem setupChain_of_skip (P : Project) (g : G) (cfg : Cfg) (s : Sess) (t : TaskSpec) (h : skipRes s t ≠ .none) :
    setupChain P g cfg s t Generated.setupOrder = skipRes s t := by
  rcases setupChain_cases P g cfg s t with ⟨_, h'⟩ | ⟨h', _⟩ | ⟨h', _⟩
  · exact h'
  · exact absurd h' h
  · exact absurd h' h

theorem setupChain_skipped (P : Project) (g : G) (cfg : Cfg) (s : Sess) (t : TaskSpec)
    (h : setupChain P g cfg s t Generated.setupOrder = .skipped) : skipRes s t = .skipped := by
  rcases setupChain_cases P g cfg s t with ⟨_, h'⟩ | ⟨_, _, h'⟩ | ⟨_, _, h'⟩
  · rw [← h']; exact h
  · rw [h'] at h; cases h
  · rw [h'] at h
    rcases execRes_range P g cfg.force s.wbeMarks s.w t with e | e | e | e <;> rw [e] at h <;> cases h

theorem setupChain_af (P : Project) (g : G) (cfg : Cfg) (s : Sess) (t : TaskSpec)
    (h : setupChain P g cfg s t Generated.setupOrder = .ancestorFailed) : skipRes s t = .ancestorFailed := by
  rcases setupChain_cases P g cfg s t with ⟨_, h'⟩ | ⟨_, _, h'⟩ | ⟨_, _, h'⟩
  · rw [← h']; exact h
  · rw [h'] at h; cases h
  · rw [h'] at h
    rcases execRes_range P g cfg.force s.wbeMarks s.w t with e | e | e | e <;> rw [e] at h <;> cases h

theorem setupChain_exec (P : Project) (g : G) (cfg : Cfg) (s : Sess) (t : TaskSpec) (r : Raised)
    (h : setupChain P g cfg s t Generated.setupOrder = r) (hr : r = .none ∨ r = .error) :
    skipRes s t = .none ∧ persistRes P g s.wbeMarks s.w t = .none ∧ execRes P g cfg.force s.wbeMarks s.w t = r := by
  rcases setupChain_cases P g cfg s t with ⟨hne, h'⟩ | ⟨_, _, h'⟩ | ⟨h1, h2, h'⟩
  · rw [h'] at h
    rcases skipRes_range s t with e | e | e
    · rw [e] at h; rcases hr with rfl | rfl <;> cases h
    · rw [e] at h; rcases hr with rfl | rfl <;> cases h
    · exact absurd e hne
  · rw [h'] at h; rcases hr with rfl | rfl <;> cases h
  · exact ⟨h1, h2, h' ▸ h⟩

theorem repOf_inj {a b : Raised} (h : repOf a = repOf b) : a = b := by
  cases a <;> cases b <;> simp [repOf] at h ⊢

/-! ### change detection depends only on the neighbourhood of the task -/

theorem zip_map_any {α β} (l : List α) (f : α → β) (q : α × β → Bool) :
    (l.zip (l.map f)).any q = l.any (fun v => q (v, f v)) := by
  induction l with
  | nil => rfl
  | cons x xs ih => simp [List.zip_cons_cons, ih]

/-- the two worlds look the same from task `t` -/
def Agree (P : Project) (g : G) (w1 w2 : World) (t : Nat) : Prop :=
  ∀ v, v ∈ neighbours g t → stateOf P w1 v = stateOf P w2 v ∧ lookup w1.db (tv t, v) = lookup w2.db (tv t, v)

theorem hasChanged_congr {w1 w2 : World} {t v : Nat} (st : Option Nat)
    (h : lookup w1.db (tv t, v) = lookup w2.db (tv t, v)) : hasChanged w1 t v st = hasChanged w2 t v st := by
  unfold hasChanged; rw [h]

theorem persistRes_persisted_iff (P : Project) (g : G) (wbe : List Nat) (w : World) (t : TaskSpec) :
    persistRes P g wbe w t = .persisted ↔
      (t.persist = true ∧ t.id ∉ wbe) ∧ (∀ v, v ∈ neighbours g t.id → (stateOf P w v).isSome = true) ∧
      ∃ v, v ∈ neighbours g t.id ∧ hasChanged w t.id v (stateOf P w v) = true := by
  unfold persistRes
  rw [zip_map_any]
  simp only []
  cases hp : (t.persist && !wbe.contains t.id)
  · have hp' : ¬ (t.persist = true ∧ t.id ∉ wbe) := by simpa using hp
    simp only [Bool.false_eq_true, if_false]
    constructor
    · intro h; cases h
    · rintro ⟨h, _⟩; exact absurd h hp'
  · have hp' : t.persist = true ∧ t.id ∉ wbe := by simpa using hp
    simp only [if_true]
    by_cases hall : ((neighbours g t.id).map (stateOf P w)).all (·.isSome) = true
    · have hall' : ∀ v, v ∈ neighbours g t.id → (stateOf P w v).isSome = true := by
        simpa [List.all_eq_true] using hall
      simp only [hall, if_true]
      by_cases hany : (neighbours g t.id).any (fun v => hasChanged w t.id v (stateOf P w v)) = true
      · simp only [hany, if_true]
        constructor
        · intro _; exact ⟨hp', hall', by simpa [List.any_eq_true] using hany⟩
        · intro _; trivial
      · simp only [hany, Bool.false_eq_true, if_false]
        constructor
        · intro h; cases h
        · rintro ⟨_, _, v, hv, hc⟩
          exact absurd (List.any_eq_true.2 ⟨v, hv, hc⟩) hany
    · simp only [hall, Bool.false_eq_true, if_false]
      constructor
      · intro h; cases h
      · rintro ⟨_, h, _⟩
        apply absurd _ hall
        simpa [List.all_eq_true] using h

theorem persistRes_congr {P : Project} {g : G} {wbe : List Nat} {w1 w2 : World} {t : TaskSpec} (h : Agree P g w1 w2 t.id) :
    persistRes P g wbe w1 t = persistRes P g wbe w2 t := by
  have key : ∀ w1 w2, Agree P g w1 w2 t.id → persistRes P g wbe w1 t = .persisted → persistRes P g wbe w2 t = .persisted := by
    intro w1 w2 h hp
    rw [persistRes_persisted_iff] at hp ⊢
    obtain ⟨h1, h2, v, hv, hc⟩ := hp
    refine ⟨h1, fun v hv => (h v hv).1 ▸ h2 v hv, v, hv, ?_⟩
    rw [← (h v hv).1, ← hasChanged_congr _ (h v hv).2]
    exact hc
  have hsymm : Agree P g w2 w1 t.id := fun v hv => ⟨(h v hv).1.symm, (h v hv).2.symm⟩
  rcases persistRes_range P g wbe w1 t with h1 | h1 <;> rcases persistRes_range P g wbe w2 t with h2 | h2
  · rw [h1, h2]
  · rw [key w1 w2 h h1] at h2; cases h2
  · rw [key w2 w1 hsymm h2] at h1; cases h1
  · rw [h1, h2]

theorem persistRes_wbe_irrel {P : Project} {g : G} {wbe : List Nat} {w : World} {t : TaskSpec} (h : t.id ∉ wbe) :
    persistRes P g wbe w t = persistRes P g [] w t := by
  have hc : wbe.contains t.id = false := by simpa using h
  unfold persistRes
  rw [hc]
  simp only [List.contains_nil]

theorem scan_congr {P : Project} {g : G} {w1 w2 : World} {t : Nat} :
    ∀ (l : List Nat) (needs : Bool),
      (∀ v, v ∈ l → stateOf P w1 v = stateOf P w2 v ∧ lookup w1.db (tv t, v) = lookup w2.db (tv t, v)) →
      scan P g w1 t needs l = scan P g w2 t needs l
  | [], needs, _ => by simp [scan]
  | v :: vs, needs, h => by
    have hv := h v List.mem_cons_self
    have ih := fun n => scan_congr (P := P) (g := g) (w1 := w1) (w2 := w2) (t := t) vs n (fun x hx => h x (List.mem_cons_of_mem _ hx))
    unfold scan
    simp only [hv.1, hasChanged_congr _ hv.2, ih]

theorem scan_unchanged {P : Project} {g : G} {w : World} {t : Nat} :
    ∀ (l : List Nat), (∀ v, v ∈ l → (stateOf P w v).isSome = true) →
      (∀ v, v ∈ l → hasChanged w t v (stateOf P w v) = false) → scan P g w t false l = .unchanged
  | [], _, _ => by simp [scan]
  | v :: vs, h1, h2 => by
    have a := h1 v List.mem_cons_self
    have b := h2 v List.mem_cons_self
    have ih := scan_unchanged (P := P) (g := g) (w := w) (t := t) vs (fun x hx => h1 x (List.mem_cons_of_mem _ hx))
      (fun x hx => h2 x (List.mem_cons_of_mem _ hx))
    unfold scan
    have hn : (stateOf P w v).isNone = false := by
      cases hst : stateOf P w v <;> simp [hst] at a ⊢
    simp only [Bool.false_and, Bool.false_eq_true, if_false, hn, Bool.and_false, b, ih]

theorem stateOf_mono {P : Project} {w1 w2 : World} (h : ∀ n, (lookup w1.fs n).isSome = true → (lookup w2.fs n).isSome = true)
    (v : Nat) (hv : (stateOf P w1 v).isSome = true) : (stateOf P w2 v).isSome = true := by
  unfold stateOf at hv ⊢
  split
  · rename_i ht
    simp only [ht, if_true] at hv
    split
    · rename_i u hu
      rw [hu] at hv
      exact h _ hv
    · rename_i hu
      rw [hu] at hv
      cases hv
  · rename_i ht
    simp only [ht, Bool.false_eq_true, if_false] at hv
    exact h _ hv

theorem find?_mem {P : Project} {t : Nat} {spec : TaskSpec} (h : Project.find? P t = some spec) : spec ∈ P.tasks := by
  unfold Project.find? at h
  exact List.mem_of_find?_eq_some h

/-! ### the main induction -/

/-- what is shown for every task the real build picks: skipped in the dry run ⇒ skipped in the real build;
failed / blocked by a failure in the dry run ⇒ not run by the real build either; executed by the real build ⇒ announced. -/
def Q (sD sR : Sess) (t : Nat) : Prop :=
  ((t, Outcome.skip) ∈ sD.reports → (t, Outcome.skip) ∈ sR.reports) ∧
  (((t, Outcome.fail) ∈ sD.reports ∨ (t, Outcome.skipPrevFailed) ∈ sD.reports) →
     (t, Outcome.skip) ∈ sR.reports ∨ (t, Outcome.skipPrevFailed) ∈ sR.reports ∨ (t, Outcome.fail) ∈ sR.reports) ∧
  (t ∈ sR.log → (t, Outcome.wouldBeExecuted) ∈ sD.reports)

theorem superset_key {F : BodyFn} {P : Project} {g : G} {marks : List Nat} {w : World} {so : Sorter}
    {cfgR cfgD : Cfg} {dp rp : List Nat} {soD soR : Sorter} {sD sR : Sess} (s0 : Sess)
    (hs0 : s0 = { w := w, skipMarks := marks })
    (hdagR : createDag P cfgR = .ok (g, marks)) (hdagD : createDag P cfgD = .ok (g, marks))
    (hso : fromDag g isTaskV (prioFn P) = .ok so)
    (hreal : cfgR.dry = false) (hdry : cfgD.dry = true) (hforce : cfgD.force = cfgR.force)
    (hD : buildLoop F P g cfgD so s0 dp = .ok (soD, sD))
    (hR : buildLoop F P g cfgR so s0 rp = .ok (soR, sR))
    (hcomplete : soD.isActive = false)
    (wf : ∀ t, t ∈ P.tasks → ∀ u, u ∈ P.tasks → t.src ∉ u.prods) :
    ∀ (n : Nat) (pre : List Nat) (t : Nat) (post : List Nat), rp = pre ++ t :: post → pre.length = n → Q sD sR t := by
  have z1 : s0.reports = [] := by rw [hs0]
  have z2 : s0.log = [] := by rw [hs0]
  have z3 : s0.skipMarks = marks := by rw [hs0]
  have z4 : s0.failMarks = [] := by rw [hs0]
  have z5 : s0.wbeMarks = [] := by rw [hs0]
  have z6 : s0.w = w := by rw [hs0]
  have gok := createDag_graphOK hdagR
  have hndR : rp.Nodup := (C01_once F P cfgR g so soR s0 sR rp hso hR).1
  have hndD : dp.Nodup := (C01_once F P cfgD g so soD s0 sD dp hso hD).1
  have hordR : ∀ pre t post, rp = pre ++ t :: post → ∀ a, a ∈ taskAnc g t → a ∈ pre :=
    fun pre t post hp a ha => C01_order F P cfgR g marks so soR s0 sR rp hdagR hso hR pre t post hp a ha
  have hordD : ∀ pre t post, dp = pre ++ t :: post → ∀ a, a ∈ taskAnc g t → a ∈ pre :=
    fun pre t post hp a ha => C01_order F P cfgD g marks so soD s0 sD dp hdagD hso hD pre t post hp a ha
  have hallD : ∀ t, tv t ∈ so.nodes → t ∈ dp := by
    intro t ht
    apply Classical.byContradiction
    intro hn
    have hin : tv t ∈ soD.nodes := buildLoop_nodes dp so s0 soD sD hD (tv t) ht (by
      intro hm
      obtain ⟨x, hx, e⟩ := List.mem_map.1 hm
      exact hn (tv_inj' e ▸ hx))
    unfold Sorter.isActive at hcomplete
    cases hnodes : soD.nodes with
    | nil => rw [hnodes] at hin; cases hin
    | cons a b => rw [hnodes] at hcomplete; simp at hcomplete
  intro n
  induction n using Nat.strongRecOn with
  | ind n ih =>
  intro pre t post hp hlen
  have IH : ∀ a, a ∈ pre → Q sD sR a := by
    intro a ha
    obtain ⟨p1, p2, hpre⟩ := List.append_of_mem ha
    exact ih p1.length (by rw [← hlen, hpre]; simp) p1 a (p2 ++ t :: post) (by rw [hp, hpre]; simp) rfl
  obtain ⟨so1, s1, spec, ex1, l1, ext, lt, ex2, l2, hb1, hfind, R1, Rt, R2, d1, d2, d3⟩ := at_pick hR pre t post hp
  have hid : spec.id = t := find?_id hfind
  have hspec : spec ∈ P.tasks := find?_mem hfind
  have htdp : t ∈ dp := hallD t (buildLoop_picked_node F P g cfgR rp so s0 soR sR hR t (by rw [hp]; simp))
  obtain ⟨dpre, dpost, hdp⟩ := List.append_of_mem htdp
  obtain ⟨sod1, sd1, spec', dx1, dl1, dxt, dlt, dx2, dl2, hdb1, hfind', D1, Dt, D2, e1, e2, e3⟩ := at_pick hD dpre t dpost hdp
  have hsp : spec = spec' := by rw [hfind] at hfind'; exact Option.some.inj hfind'
  subst hsp
  have hw1 : sd1.w = w := by rw [(buildLoop_dry F P g cfgD hdry dpre so s0 sod1 sd1 hdb1).1, z6]
  have hRrep : sR.reports = ex1 ++ ext ++ ex2 := by rw [R2.reports, Rt.reports, R1.reports, z1]; simp
  have hDrep : sD.reports = dx1 ++ dxt ++ dx2 := by rw [D2.reports, Dt.reports, D1.reports, z1]; simp
  have hRlog : sR.log = l1 ++ lt ++ l2 := by rw [R2.log, Rt.log, R1.log, z2]; simp
  -- no task is picked twice
  have hnd := hndR
  rw [hp] at hnd
  obtain ⟨_, hnd2, hnd3⟩ := List.nodup_append.1 hnd
  have htpre : t ∉ pre := fun h => hnd3 t h t List.mem_cons_self rfl
  have htpost : t ∉ post := (List.nodup_cons.1 hnd2).1
  have hdisj : ∀ a, a ∈ pre → a ∉ post := fun a ha hb => hnd3 a ha a (List.mem_cons_of_mem _ hb) rfl
  have hndd := hndD
  rw [hdp] at hndd
  obtain ⟨_, hndd2, hndd3⟩ := List.nodup_append.1 hndd
  have htdpre : t ∉ dpre := fun h => hndd3 t h t List.mem_cons_self rfl
  have htdpost : t ∉ dpost := (List.nodup_cons.1 hndd2).1
  have hddisj : ∀ a, a ∈ dpre → a ∉ dpost := fun a ha hb => hndd3 a ha a (List.mem_cons_of_mem _ hb) rfl
  -- where a report of the final list was written
  have H1 : ∀ a o, (a, o) ∈ sR.reports → a ∈ pre → (a, o) ∈ ex1 := by
    intro a o h ha
    rw [hRrep] at h
    rcases List.mem_append.1 h with h | h
    · rcases List.mem_append.1 h with h | h
      · exact h
      · have := Rt.exIds _ h
        simp only [List.mem_singleton] at this
        exact absurd (this ▸ ha) htpre
    · exact absurd (R2.exIds _ h) (hdisj a ha)
  have H2 : ∀ o, (t, o) ∈ sR.reports → (t, o) ∈ ext := by
    intro o h
    rw [hRrep] at h
    rcases List.mem_append.1 h with h | h
    · rcases List.mem_append.1 h with h | h
      · exact absurd (R1.exIds _ h) htpre
      · exact h
    · exact absurd (R2.exIds _ h) htpost
  have H1d : ∀ a o, (a, o) ∈ sD.reports → a ∈ dpre → (a, o) ∈ dx1 := by
    intro a o h ha
    rw [hDrep] at h
    rcases List.mem_append.1 h with h | h
    · rcases List.mem_append.1 h with h | h
      · exact h
      · have := Dt.exIds _ h
        simp only [List.mem_singleton] at this
        exact absurd (this ▸ ha) htdpre
    · exact absurd (D2.exIds _ h) (hddisj a ha)
  have H2d : ∀ o, (t, o) ∈ sD.reports → (t, o) ∈ dxt := by
    intro o h
    rw [hDrep] at h
    rcases List.mem_append.1 h with h | h
    · rcases List.mem_append.1 h with h | h
      · exact absurd (D1.exIds _ h) htdpre
      · exact h
    · exact absurd (D2.exIds _ h) htdpost
  have hdx1 : ∀ e, e ∈ dx1 → e ∈ sD.reports := fun e h => by rw [hDrep]; simp [h]
  have hdxt : ∀ e, e ∈ dxt → e ∈ sD.reports := fun e h => by rw [hDrep]; simp [h]
  have hext : ∀ e, e ∈ ext → e ∈ sR.reports := fun e h => by rw [hRrep]; simp [h]
  have hwbeR : s1.wbeMarks = [] := buildLoop_real_wbe hreal pre so s0 so1 s1 hb1 z5
  -- marks at the two picks
  have MskipR : ∀ a, (a, Outcome.skip) ∈ ex1 → t ∈ taskDesc g a → spec.id ∈ s1.skipMarks := by
    intro a ha hd
    rw [R1.skipM, hid]
    exact List.mem_append.2 (Or.inr (mem_marksOf.2 ⟨a, ha, hd⟩))
  have MfailR : ∀ a, (a, Outcome.fail) ∈ ex1 → t ∈ taskDesc g a → spec.id ∈ s1.failMarks := by
    intro a ha hd
    rw [R1.failM, hid]
    exact List.mem_append.2 (Or.inr (mem_marksOf.2 ⟨a, ha, hd⟩))
  -- (SK) skipped in the dry run ⇒ skipped in the real build
  have SK : skipRes sd1 spec = .skipped → skipRes s1 spec = .skipped := by
    intro h
    rw [skipRes_skipped_iff] at h ⊢
    rcases h with h | h | h
    · exact Or.inl h
    · right; left
      rw [D1.skipM, z3] at h
      rcases List.mem_append.1 h with h | h
      · rw [R1.skipM, z3]; exact List.mem_append.2 (Or.inl h)
      · obtain ⟨a, ha, hd⟩ := mem_marksOf.1 h
        rw [hid] at hd
        have hapre := hordR pre t post hp a (taskDesc_iff_taskAnc.1 hd)
        exact MskipR a (H1 a _ ((IH a hapre).1 (hdx1 _ ha)) hapre) hd
    · exact Or.inr (Or.inr h)
  -- (FL) blocked by a failure in the dry run ⇒ skipped one way or the other in the real build
  have FL : spec.id ∈ sd1.failMarks → skipRes s1 spec ≠ .none := by
    intro h hnone
    rw [skipRes_none_iff] at hnone
    obtain ⟨_, n2, _, n4⟩ := hnone
    rw [D1.failM, z4] at h
    obtain ⟨a, ha, hd⟩ := mem_marksOf.1 (by simpa using h)
    rw [hid] at hd
    have hapre := hordR pre t post hp a (taskDesc_iff_taskAnc.1 hd)
    rcases (IH a hapre).2.1 (Or.inl (hdx1 _ ha)) with h' | h' | h'
    · exact n2 (MskipR a (H1 a _ h' hapre) hd)
    · rcases R1.prevFailed a (H1 a _ h' hapre) with hf | ⟨a', hf, hd'⟩
      · rw [z4] at hf; cases hf
      · have ha'pre : a' ∈ pre := R1.exIds _ hf
        have hne : t ≠ a' := fun e => htpre (e ▸ ha'pre)
        exact n4 (MfailR a' hf (taskDesc_trans hd' hd hne))
    · exact n4 (MfailR a (H1 a _ h' hapre) hd)
  -- (DI) either an executed ancestor touched the neighbourhood of `t` — then the dry run marked `t` — or the two
  -- worlds look the same from `t`
  have DI : spec.id ∉ sd1.wbeMarks → Agree P g s1.w w t := by
    intro hnw v hv
    constructor
    · apply Classical.byContradiction
      intro hst
      apply hnw
      unfold stateOf at hst
      by_cases htv : isTaskV v = true
      · simp only [htv, if_true] at hst
        split at hst
        · rename_i u hu
          have hne : lookup s1.w.fs u.src ≠ lookup s0.w.fs u.src := by rw [z6]; exact hst
          obtain ⟨b, specb, _, hfb, hpb⟩ := R1.fsChg _ hne
          exact absurd hpb (wf u (find?_mem hu) specb (find?_mem hfb))
        · exact absurd rfl hst
      · have htv' : isTaskV v = false := by simpa using htv
        simp only [htv', Bool.false_eq_true, if_false] at hst
        have hne : lookup s1.w.fs (v / 2) ≠ lookup s0.w.fs (v / 2) := by rw [z6]; exact hst
        obtain ⟨b, specb, hbl, hfb, hpb⟩ := R1.fsChg _ hne
        have hbid : specb.id = b := find?_id hfb
        have hbpre : b ∈ pre := R1.logIds b hbl
        have hedge : (tv b, v) ∈ g.edges := by
          have := gok.prodEdge specb (find?_mem hfb) _ hpb
          rw [hbid, ← not_isTaskV_eq htv'] at this
          exact this
        -- `v` is a predecessor of `t`
        have hpred : (v, tv t) ∈ g.edges := by
          unfold neighbours at hv
          rcases List.mem_append.1 hv with hv | hv
          · rcases List.mem_append.1 hv with hv | hv
            · exact mem_preds.1 hv
            · simp only [List.mem_singleton] at hv
              rw [hv, isTaskV_tv] at htv'
              cases htv'
          · have h2 : (tv t, v) ∈ g.edges := mem_succs.1 hv
            rw [not_isTaskV_eq htv'] at hedge h2
            have := tv_inj' (gok.uniq _ _ _ hedge h2)
            exact absurd (this ▸ hbpre) htpre
        have hbt : b ≠ t := fun e => htpre (e ▸ hbpre)
        have hdesc : t ∈ taskDesc g b := mem_taskDesc.2 ⟨Reach.tail (Reach.edge hedge) hpred, fun e => hbt e.symm⟩
        have hbdpre : b ∈ dpre := hordD dpre t dpost hdp b (taskDesc_iff_taskAnc.1 hdesc)
        have hblog : b ∈ sR.log := by rw [hRlog]; simp [hbl]
        have := H1d b _ ((IH b hbpre).2.2 hblog) hbdpre
        rw [D1.wbeM, z5, hid]
        exact List.mem_append.2 (Or.inr (mem_marksOf.2 ⟨b, this, hdesc⟩))
    · apply Classical.byContradiction
      intro hdb
      have hne : lookup s1.w.db (tv t, v) ≠ lookup s0.w.db (tv t, v) := by rw [z6]; exact hdb
      obtain ⟨b, hb, e⟩ := R1.dbChg _ hne
      simp only at e
      exact htpre (tv_inj' e ▸ hb)
  -- what the real build reports when the skipping hook fired
  have hRskip : skipRes s1 spec ≠ .none →
      (t, Outcome.skip) ∈ sR.reports ∨ (t, Outcome.skipPrevFailed) ∈ sR.reports ∨ (t, Outcome.fail) ∈ sR.reports := by
    intro hne
    have hch := setupChain_of_skip P g cfgR s1 spec hne
    have hx := (d1 (by rw [hch]; exact hne)).1
    rw [hch] at hx
    rcases skipRes_range s1 spec with e | e | e
    · left; apply hext; rw [hx, e]; simp [repOf]
    · right; left; apply hext; rw [hx, e]; simp [repOf]
    · exact absurd e hne
  refine ⟨?_, ?_, ?_⟩
  · -- Q1
    intro h
    have h' := H2d _ h
    by_cases hne : setupChain P g cfgD sd1 spec Generated.setupOrder = .none
    · rw [(e2 hne hdry).1] at h'; simp at h'
    · rw [(e1 hne).1] at h'
      simp only [List.mem_singleton, Prod.mk.injEq, true_and] at h'
      have hr : setupChain P g cfgD sd1 spec Generated.setupOrder = .skipped := repOf_inj (by rw [← h']; rfl)
      have hsk := SK (setupChain_skipped P g cfgD sd1 spec hr)
      have hch := setupChain_of_skip P g cfgR s1 spec (by rw [hsk]; intro e; cases e)
      have hx := (d1 (by rw [hch, hsk]; intro e; cases e)).1
      apply hext
      rw [hx, hch, hsk]
      simp [repOf]
  · -- Q2
    intro h
    have hfm_or : spec.id ∈ sd1.failMarks ∨
        (skipRes sd1 spec = .none ∧ persistRes P g sd1.wbeMarks sd1.w spec = .none ∧
          execRes P g cfgD.force sd1.wbeMarks sd1.w spec = .error) := by
      by_cases hne : setupChain P g cfgD sd1 spec Generated.setupOrder = .none
      · rcases h with h | h <;> (have h' := H2d _ h; rw [(e2 hne hdry).1] at h'; simp at h')
      · rcases h with h | h
        · have h' := H2d _ h
          rw [(e1 hne).1] at h'
          simp only [List.mem_singleton, Prod.mk.injEq, true_and] at h'
          have hr : setupChain P g cfgD sd1 spec Generated.setupOrder = .error := repOf_inj (by rw [← h']; rfl)
          exact Or.inr (setupChain_exec P g cfgD sd1 spec _ hr (Or.inr rfl))
        · have h' := H2d _ h
          rw [(e1 hne).1] at h'
          simp only [List.mem_singleton, Prod.mk.injEq, true_and] at h'
          have hr : setupChain P g cfgD sd1 spec Generated.setupOrder = .ancestorFailed := repOf_inj (by rw [← h']; rfl)
          exact Or.inl (skipRes_af sd1 spec (setupChain_af P g cfgD sd1 spec hr))
    rcases hfm_or with hfm | ⟨_, hpD, hxD⟩
    · exact hRskip (FL hfm)
    · by_cases hsk : skipRes s1 spec = .none
      · -- the real build reaches the dependency check and fails in the same way
        have hnw : spec.id ∉ sd1.wbeMarks := by
          intro hin
          unfold execRes at hxD
          simp [hin] at hxD
        have hag := DI hnw
        rw [hw1] at hpD hxD
        have hpR : persistRes P g s1.wbeMarks s1.w spec = .none := by
          rw [hwbeR, persistRes_congr (hid ▸ hag), ← persistRes_wbe_irrel hnw]; exact hpD
        have hxR : execRes P g cfgR.force s1.wbeMarks s1.w spec = .error := by
          unfold execRes at hxD ⊢
          have hnw' : sd1.wbeMarks.contains spec.id = false := by simpa using hnw
          rw [hnw'] at hxD
          rw [hwbeR]
          simp only [List.contains_nil, Bool.false_eq_true, if_false] at hxD ⊢
          rw [hid] at hxD ⊢
          rw [scan_congr (neighbours g t) cfgR.force hag, ← hforce]
          exact hxD
        have hch : setupChain P g cfgR s1 spec Generated.setupOrder = .error := by
          rcases setupChain_cases P g cfgR s1 spec with ⟨hne, _⟩ | ⟨_, hp', _⟩ | ⟨_, _, hc⟩
          · exact absurd hsk hne
          · rw [hpR] at hp'; cases hp'
          · rw [hc, hxR]
        have hx := (d1 (by rw [hch]; intro e; cases e)).1
        right; right
        apply hext
        rw [hx, hch]
        simp [repOf]
      · exact hRskip hsk
  · -- Q3
    intro hlog
    have htlt : t ∈ lt := by
      rw [hRlog] at hlog
      rcases List.mem_append.1 hlog with h | h
      · rcases List.mem_append.1 h with h | h
        · exact absurd (R1.logIds t h) htpre
        · exact h
      · exact absurd (R2.logIds t h) htpost
    have hrR : setupChain P g cfgR s1 spec Generated.setupOrder = .none := by
      apply Classical.byContradiction
      intro hne
      rw [(d1 hne).2] at htlt
      cases htlt
    obtain ⟨hskR, hpR, hxR⟩ := setupChain_exec P g cfgR s1 spec _ hrR (Or.inl rfl)
    have hscanR : scan P g s1.w t cfgR.force (neighbours g t) = .changed := by
      unfold execRes at hxR
      rw [hwbeR] at hxR
      simp only [List.contains_nil, Bool.false_eq_true, if_false] at hxR
      rw [hid] at hxR
      cases hsc : scan P g s1.w t cfgR.force (neighbours g t) <;> rw [hsc] at hxR <;> first | rfl | cases hxR
    have hclaim : setupChain P g cfgD sd1 spec Generated.setupOrder = .none ∨
        setupChain P g cfgD sd1 spec Generated.setupOrder = .wouldBeExecuted := by
      rcases setupChain_cases P g cfgD sd1 spec with ⟨hne, _⟩ | ⟨_, hpD, _⟩ | ⟨_, _, hc⟩
      · rcases skipRes_range sd1 spec with e | e | e
        · rw [SK e] at hskR; cases hskR
        · exact absurd hskR (FL (skipRes_af sd1 spec e))
        · exact absurd e hne
      · -- the dry run wants to persist `t`: then `t` is not marked, the worlds agree, and the real build persists it as well
        exfalso
        rw [hw1] at hpD
        have hnw : spec.id ∉ sd1.wbeMarks := ((persistRes_persisted_iff P g sd1.wbeMarks w spec).1 hpD).1.2
        have hag := DI hnw
        rw [hwbeR, persistRes_congr (hid ▸ hag), ← persistRes_wbe_irrel hnw, hpD] at hpR
        cases hpR
      · rw [hc]
        unfold execRes
        by_cases hnw : spec.id ∈ sd1.wbeMarks
        · right; simp [hnw]
        · left
          have hnw' : sd1.wbeMarks.contains spec.id = false := by simpa using hnw
          have hag := DI hnw
          rw [hnw', hw1, hid]
          simp only [Bool.false_eq_true, if_false]
          rw [← scan_congr (neighbours g t) cfgD.force hag, hforce, hscanR]
    apply hdxt
    rcases hclaim with hn | hn
    · rw [(e2 hn hdry).1]; simp
    · rw [(e1 (by rw [hn]; intro e; cases e)).1, hn]; simp [repOf]

/-- `superset_key` at the level of `build`: `d` is a complete dry run from `w` with the options of `cfg`, `r` the real
build from the same world. -/
theorem build_Q {F : BodyFn} {P : Project} {cfg : Cfg} {w : World} {dp rp : List Nat} {d r : Result}
    (hreal : cfg.dry = false) (hlim : cfg.maxFail = none ∨ ∀ t, (t, Outcome.fail) ∉ d.reports)
    (wf : ∀ t, t ∈ P.tasks → ∀ u, u ∈ P.tasks → t.src ∉ u.prods)
    (hd : build F P { cfg with dry := true } w dp = .ok d) (hc : d.complete = true)
    (hr : build F P cfg w rp = .ok r) :
    ∀ t, t ∈ rp →
      ((t, Outcome.skip) ∈ d.reports → (t, Outcome.skip) ∈ r.reports) ∧
      (((t, Outcome.fail) ∈ d.reports ∨ (t, Outcome.skipPrevFailed) ∈ d.reports) →
        (t, Outcome.skip) ∈ r.reports ∨ (t, Outcome.skipPrevFailed) ∈ r.reports ∨ (t, Outcome.fail) ∈ r.reports) ∧
      (t ∈ r.log → (t, Outcome.wouldBeExecuted) ∈ d.reports) := by
  intro t ht
  have hcongr : createDag P { cfg with dry := true } = createDag P cfg := createDag_congr P _ _ rfl rfl
  rcases build_cases F P cfg w rp r hr with ⟨hbadR, _, hlog, hrep⟩ | ⟨g, marks, so, soR, sR, hdag, hso, hloopR, hrrep, hrlog, _, _⟩
  · -- the DAG was rejected: nothing ran in either build
    rcases build_cases F P _ w dp d hd with ⟨_, _, _, hdrep⟩ | ⟨g', marks', so', soD, sD, hdag', hso', _⟩
    · rw [hdrep, hlog]; simp
    · exfalso
      rw [hcongr] at hdag'
      rcases hbadR with ⟨e, he⟩ | ⟨g'', m'', e, he, hs⟩
      · rw [hdag'] at he; cases he
      · rw [hdag'] at he; cases he; rw [hso'] at hs; cases hs
  · rcases build_cases F P _ w dp d hd with ⟨hbad, _⟩ | ⟨g', marks', so', soD, sD, hdag', hso', hloopD, hdrep, _, _, hdc⟩
    · exfalso
      rw [hcongr] at hbad
      rcases hbad with ⟨e, he⟩ | ⟨g', m', e, he, hs⟩
      · rw [hdag] at he; cases he
      · rw [hdag] at he; cases he; rw [hso] at hs; cases hs
    · rw [hcongr, hdag] at hdag'
      cases hdag'
      rw [hso] at hso'
      cases hso'
      have hflags : sD.stop = false ∧ sD.crashed = false := by
        rcases hlim with hmf | hnf
        · exact buildLoop_dry_flags (cfg := { cfg with dry := true }) rfl hmf dp so _ soD sD hloopD rfl rfl
        · obtain ⟨hcr, hst⟩ := buildLoop_dry_stop (cfg := { cfg with dry := true }) rfl dp so _ soD sD hloopD rfl rfl
          refine ⟨?_, hcr⟩
          cases hs : sD.stop
          · rfl
          · obtain ⟨t', ht'⟩ := hst hs
            rw [← hdrep] at ht'
            exact absurd ht' (hnf t')
      have hact : soD.isActive = false := by
        rw [hdc, hflags.1, hflags.2] at hc
        simpa using hc
      obtain ⟨pre, post, hp⟩ := List.append_of_mem ht
      have := superset_key (cfgR := cfg) (cfgD := { cfg with dry := true }) _ rfl hdag (hcongr ▸ hdag) hso hreal rfl rfl
        hloopD hloopR hact wf pre.length pre t post hp rfl
      unfold Q at this
      rw [hdrep, hrrep, hrlog]
      exact this

end EngineDry


end Pytask
