import PytaskProofs.Lemmas.EngineState
/-!
# One task protocol: what it can change, when it records rows, when it stays quiet
-/
namespace Pytask
namespace Engine
open Sorter

theorem zip_map_self {α β} (f : α → β) : ∀ l : List α, l.zip (l.map f) = l.map (fun a => (a, f a))
  | [] => rfl
  | a :: l => by simp [zip_map_self f l]

/-- Setup results after which neither the body runs nor anything is recorded. -/
def Quiet (r : Raised) : Prop :=
  r = .skipped ∨ r = .ancestorFailed ∨ r = .wouldBeExecuted ∨ r = .skippedUnchanged

theorem rowsMatch_no_change {P : Project} {g : G} {w : World} {t : Nat} (h : RowsMatch P g w t) :
    ((neighbours g t).zip ((neighbours g t).map (stateOf P w))).any
      (fun (v, st) => hasChanged w t v st) = false := by
  rw [zip_map_self, List.any_map]
  rw [List.any_eq_false]
  intro v hv
  simp only [Function.comp_apply, Bool.not_eq_true]
  exact (hasChanged_false_iff w t v _).2 (h v hv)

theorem rowsMatch_all_some {P : Project} {g : G} {w : World} {t : Nat} (h : RowsMatch P g w t) :
    ((neighbours g t).map (stateOf P w)).all (·.isSome) = true := by
  simp only [List.all_map, List.all_eq_true, Function.comp_apply]
  intro v hv
  obtain ⟨h', hs, _⟩ := h v hv
  simp [hs]

/-- Under `RowsMatch` and without `--force`, every setup hook implementation either passes or ends
the protocol quietly; the change-detecting implementation ("execute") always ends it. -/
theorem setupImpl_rowsMatch (P : Project) (g : G) (cfg : Cfg) (s : Sess) (t : TaskSpec)
    (hforce : cfg.force = false) (hrows : RowsMatch P g s.w t.id) (n : String) :
    (setupImpl P g cfg s t n = .none ∨ Quiet (setupImpl P g cfg s t n)) ∧
    (n = "execute" → Quiet (setupImpl P g cfg s t n)) := by
  have hscan : scan P g s.w t.id false (neighbours g t.id) = .unchanged :=
    (scan_unchanged_iff P g s.w t.id _ false).2 ⟨rfl, hrows⟩
  unfold setupImpl
  by_cases h1 : (n == "skipping") = true
  · simp only [h1, if_true]
    have hne : n ≠ "execute" := by
      intro h; subst h; exact absurd h1 (by decide)
    refine ⟨?_, fun h => absurd h hne⟩
    split
    · right; left; rfl
    · split
      · right; left; rfl
      · split
        · right; right; left; rfl
        · left; rfl
  · simp only [h1, Bool.false_eq_true, if_false]
    by_cases h2 : (n == "persist") = true
    · simp only [h2, if_true]
      have hne : n ≠ "execute" := by
        intro h; subst h; exact absurd h2 (by decide)
      refine ⟨?_, fun h => absurd h hne⟩
      split
      · simp only [rowsMatch_all_some hrows, if_true, rowsMatch_no_change hrows, Bool.false_eq_true, if_false]
        left; trivial
      · left; rfl
    · simp only [h2, Bool.false_eq_true, if_false]
      by_cases h3 : (n == "execute") = true
      · simp only [h3, if_true, hforce, hscan]
        have : Quiet (if s.wbeMarks.contains t.id = true then Raised.wouldBeExecuted else Raised.skippedUnchanged) := by
          split
          · right; right; left; rfl
          · right; right; right; rfl
        exact ⟨Or.inr this, fun _ => this⟩
      · simp only [h3, Bool.false_eq_true, if_false]
        refine ⟨Or.inl (by trivial), fun h => ?_⟩
        subst h; simp at h3

theorem quiet_ne_none {r : Raised} (h : Quiet r) : r ≠ .none := by
  rcases h with h | h | h | h <;> (subst h; intro h'; cases h')

theorem setupChain_rowsMatch (P : Project) (g : G) (cfg : Cfg) (s : Sess) (t : TaskSpec)
    (hforce : cfg.force = false) (hrows : RowsMatch P g s.w t.id) :
    ∀ names : List String, "execute" ∈ names → Quiet (setupChain P g cfg s t names)
  | [], h => by cases h
  | n :: ns, h => by
    obtain ⟨h1, h2⟩ := setupImpl_rowsMatch P g cfg s t hforce hrows n
    unfold setupChain
    rcases h1 with h1 | h1
    · rw [h1]
      simp only
      rcases List.mem_cons.1 h with rfl | h
      · exact absurd h1 (quiet_ne_none (h2 rfl))
      · exact setupChain_rowsMatch P g cfg s t hforce hrows ns h
    · have hne := quiet_ne_none h1
      split
      · rename_i heq; exact absurd heq hne
      · exact h1

/-- A quiet setup result leaves world and body log as they were. -/
theorem protocol_quiet (F : BodyFn) (P : Project) (g : G) (cfg : Cfg) (s : Sess) (t : TaskSpec)
    (hq : Quiet (setupChain P g cfg s t Generated.setupOrder)) :
    (protocol F P g cfg s t).w = s.w ∧ (protocol F P g cfg s t).log = s.log := by
  unfold protocol runPhases
  have hne := quiet_ne_none hq
  rcases hq with h | h | h | h <;> (rw [h]; simp [processReport])

/-! ## what a protocol can change -/

theorem recordStates_spec (P : Project) (g : G) (cfg : Cfg) (w : World) (t : Nat) :
    (recordStates P g cfg w t).1.fs = w.fs ∧
    (∀ k : Nat × Nat, k.1 ≠ tv t → lookup (recordStates P g cfg w t).1.db k = lookup w.db k) := by
  unfold recordStates
  split
  · exact ⟨rfl, fun _ _ => rfl⟩
  · obtain ⟨h1, h2, _⟩ := updateStates_spec P g t (neighbours g t) w _ _ rfl
    exact ⟨h1, fun k hk => h2 k (fun v _ heq => hk (by rw [heq]))⟩

/-- World after the three phases: either untouched or the file system after the body. -/
theorem runPhases_w (F : BodyFn) (P : Project) (g : G) (cfg : Cfg) (s : Sess) (t : TaskSpec) :
    (runPhases F P g cfg s t).2.w.db = s.w.db ∧
    ((runPhases F P g cfg s t).2.w.fs = s.w.fs ∨
     (runPhases F P g cfg s t).2.w.fs = (runBody F t s.w.fs).1) := by
  unfold runPhases
  split
  · split
    · exact ⟨rfl, Or.inl rfl⟩
    · simp only
      split
      · exact ⟨rfl, Or.inr rfl⟩
      · split <;> exact ⟨rfl, Or.inr rfl⟩
  · exact ⟨rfl, Or.inl rfl⟩

theorem processReport_w (P : Project) (g : G) (cfg : Cfg) (s : Sess) (t : TaskSpec) (r : Raised) :
    (processReport P g cfg s t r).w = s.w ∨
    (processReport P g cfg s t r).w = (recordStates P g cfg s.w t.id).1 := by
  unfold processReport
  cases r
  all_goals first
    | exact Or.inl rfl
    | exact Or.inr rfl
    | (simp only []; split <;> exact Or.inr rfl)

/-- **Frame (files).** A protocol changes no file other than the task's own products, and never
removes a file. -/
theorem protocol_fs_frame (F : BodyFn) (P : Project) (g : G) (cfg : Cfg) (s : Sess) (t : TaskSpec)
    (q : Nat) (hq : q ∉ t.prods) : lookup (protocol F P g cfg s t).w.fs q = lookup s.w.fs q := by
  unfold protocol
  have h1 := runPhases_w F P g cfg s t
  have h2 := processReport_w P g cfg (runPhases F P g cfg s t).2 t (runPhases F P g cfg s t).1
  have hfs : (processReport P g cfg (runPhases F P g cfg s t).2 t (runPhases F P g cfg s t).1).w.fs =
      (runPhases F P g cfg s t).2.w.fs := by
    rcases h2 with h2 | h2
    · rw [h2]
    · rw [h2]; exact (recordStates_spec P g cfg _ t.id).1
  simp only [hfs]
  rcases h1.2 with h | h
  · rw [h]
  · rw [h]; exact runBody_frame F t _ q hq

theorem protocol_fs_keeps (F : BodyFn) (P : Project) (g : G) (cfg : Cfg) (s : Sess) (t : TaskSpec)
    (q : Nat) (hq : (lookup s.w.fs q).isSome = true) :
    (lookup (protocol F P g cfg s t).w.fs q).isSome = true := by
  unfold protocol
  have h1 := runPhases_w F P g cfg s t
  have h2 := processReport_w P g cfg (runPhases F P g cfg s t).2 t (runPhases F P g cfg s t).1
  have hfs : (processReport P g cfg (runPhases F P g cfg s t).2 t (runPhases F P g cfg s t).1).w.fs =
      (runPhases F P g cfg s t).2.w.fs := by
    rcases h2 with h2 | h2
    · rw [h2]
    · rw [h2]; exact (recordStates_spec P g cfg _ t.id).1
  simp only [hfs]
  rcases h1.2 with h | h
  · rw [h]; exact hq
  · rw [h]; exact runBody_keeps F t _ q hq

/-- **Frame (rows).** A protocol writes no row of another task. -/
theorem protocol_db_frame (F : BodyFn) (P : Project) (g : G) (cfg : Cfg) (s : Sess) (t : TaskSpec)
    (k : Nat × Nat) (hk : k.1 ≠ tv t.id) : lookup (protocol F P g cfg s t).w.db k = lookup s.w.db k := by
  unfold protocol
  have h1 := runPhases_w F P g cfg s t
  have h2 := processReport_w P g cfg (runPhases F P g cfg s t).2 t (runPhases F P g cfg s t).1
  rcases h2 with h2 | h2
  · rw [h2, h1.1]
  · rw [h2, (recordStates_spec P g cfg _ t.id).2 k hk, h1.1]

/-! ## reports -/

/-- The outcome `pytask_execute_task_process_report` files for what the phases raised. -/
def outcomeOf : Raised → Outcome
  | .none => .success | .skippedUnchanged => .skipUnchanged | .skipped => .skip
  | .ancestorFailed => .skipPrevFailed | .persisted => .persistence
  | .wouldBeExecuted => .wouldBeExecuted | .error => .fail

theorem runPhases_reports (F : BodyFn) (P : Project) (g : G) (cfg : Cfg) (s : Sess) (t : TaskSpec) :
    (runPhases F P g cfg s t).2.reports = s.reports := by
  unfold runPhases
  split
  · split
    · rfl
    · simp only; split
      · rfl
      · split <;> rfl
  · rfl

theorem processReport_reports (P : Project) (g : G) (cfg : Cfg) (s : Sess) (t : TaskSpec) (r : Raised) :
    (processReport P g cfg s t r).reports = s.reports ++ [(t.id, outcomeOf r)] ∨
    (r = .none ∧ (processReport P g cfg s t r).reports = s.reports ∧
      (processReport P g cfg s t r).crashed = true) := by
  cases r
  case none =>
    unfold processReport
    simp only [outcomeOf]
    split
    · exact Or.inl rfl
    · exact Or.inr ⟨by trivial, rfl, rfl⟩
  all_goals exact Or.inl rfl

/-- A protocol files exactly one report, for its own task, unless `update_states` raised. -/
theorem protocol_reports (F : BodyFn) (P : Project) (g : G) (cfg : Cfg) (s : Sess) (t : TaskSpec) :
    (protocol F P g cfg s t).reports = s.reports ++ [(t.id, outcomeOf (runPhases F P g cfg s t).1)] ∨
    ((runPhases F P g cfg s t).1 = .none ∧ (protocol F P g cfg s t).reports = s.reports ∧
      (protocol F P g cfg s t).crashed = true) := by
  unfold protocol
  have h := processReport_reports P g cfg (runPhases F P g cfg s t).2 t (runPhases F P g cfg s t).1
  rw [runPhases_reports] at h
  exact h

theorem runPhases_raised (F : BodyFn) (P : Project) (g : G) (cfg : Cfg) (s : Sess) (t : TaskSpec) :
    (runPhases F P g cfg s t).1 = setupChain P g cfg s t Generated.setupOrder ∨
    (setupChain P g cfg s t Generated.setupOrder = .none ∧
      ((runPhases F P g cfg s t).1 = .wouldBeExecuted ∧ cfg.dry = true ∨
       (runPhases F P g cfg s t).1 = .error ∨
       (runPhases F P g cfg s t).1 = .none)) := by
  unfold runPhases
  split
  · rename_i h
    right
    refine ⟨h, ?_⟩
    split
    · rename_i hd; exact Or.inl ⟨rfl, hd⟩
    · simp only; split
      · exact Or.inr (Or.inl rfl)
      · split
        · exact Or.inr (Or.inl rfl)
        · exact Or.inr (Or.inr rfl)
  · left; rfl

theorem setupImpl_unchanged (P : Project) (g : G) (cfg : Cfg) (s : Sess) (t : TaskSpec) (n : String)
    (h : setupImpl P g cfg s t n = .skippedUnchanged) :
    scan P g s.w t.id cfg.force (neighbours g t.id) = .unchanged := by
  unfold setupImpl at h
  split at h
  · repeat' split at h
    all_goals cases h
  · split at h
    · split at h
      · simp only at h
        repeat' split at h
        all_goals cases h
      · cases h
    · split at h
      · split at h
        · cases h
        · split at h
          all_goals first
            | assumption
            | cases h
      · cases h

theorem setupChain_unchanged (P : Project) (g : G) (cfg : Cfg) (s : Sess) (t : TaskSpec) :
    ∀ names, setupChain P g cfg s t names = .skippedUnchanged →
      scan P g s.w t.id cfg.force (neighbours g t.id) = .unchanged
  | [], h => by cases h
  | n :: ns, h => by
    unfold setupChain at h
    split at h
    · exact setupChain_unchanged P g cfg s t ns h
    · exact setupImpl_unchanged P g cfg s t n h

/-- A task is reported "unchanged" only if the build was not forced and every neighbour exists with
a matching row at the moment of the task's setup. -/
theorem protocol_unchanged_sound (F : BodyFn) (P : Project) (g : G) (cfg : Cfg) (s : Sess) (t : TaskSpec)
    (h : (t.id, Outcome.skipUnchanged) ∈ (protocol F P g cfg s t).reports)
    (hnew : (t.id, Outcome.skipUnchanged) ∉ s.reports) :
    cfg.force = false ∧ RowsMatch P g s.w t.id := by
  have hraised : (runPhases F P g cfg s t).1 = .skippedUnchanged := by
    rcases protocol_reports F P g cfg s t with hr | ⟨_, hr, _⟩
    · rw [hr] at h
      rcases List.mem_append.1 h with h | h
      · exact absurd h hnew
      · simp only [List.mem_singleton, Prod.mk.injEq, true_and] at h
        cases hx : (runPhases F P g cfg s t).1 <;> simp [hx, outcomeOf] at h ⊢
    · rw [hr] at h; exact absurd h hnew
  have hchain : setupChain P g cfg s t Generated.setupOrder = .skippedUnchanged := by
    rcases runPhases_raised F P g cfg s t with h1 | ⟨_, h1 | h1 | h1⟩
    · rw [← h1]; exact hraised
    · rw [hraised] at h1; cases h1.1
    · rw [hraised] at h1; cases h1
    · rw [hraised] at h1; cases h1
  have := (scan_unchanged_iff P g s.w t.id _ _).1 (setupChain_unchanged P g cfg s t _ hchain)
  exact this

end Engine
end Pytask
