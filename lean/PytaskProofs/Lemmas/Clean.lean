import PytaskModel.Clean
/-! Helper lemmas for M8 (`pytask clean`): induction over the file tree, `mkNode` / `listNode`, removal, `pmatch` on
literal patterns. -/
namespace Pytask.Clean

/-! ### induction over `FTree` -/

theorem FTree.ind {P : FTree → Prop} (hf : ∀ n, P (.file n))
    (hd : ∀ n cs, (∀ c ∈ cs, P c) → P (.dir n cs)) (t : FTree) : P t :=
  @FTree.rec (fun t => P t) (fun cs => ∀ c ∈ cs, P c) hf (fun n cs ih => hd n cs ih)
    (fun _ h => by cases h)
    (fun c cs hc hcs x hx => by
      rcases List.mem_cons.1 hx with h | h
      · exact h ▸ hc
      · exact hcs x h) t

/-- Names of the entries of a directory are unique, recursively (a real file system). -/
inductive WF : FTree → Prop
  | file (n : Name) : WF (.file n)
  | dir (n : Name) (cs : List FTree) : (cs.map FTree.name).Nodup → (∀ c ∈ cs, WF c) → WF (.dir n cs)

theorem WF.children {t : FTree} (h : WF t) : ∀ c ∈ t.children, WF c := by
  cases h with
  | file n => intro c hc; cases hc
  | dir n cs _ hc => exact hc

theorem WF.nodup {t : FTree} (h : WF t) : (t.children.map FTree.name).Nodup := by
  cases h with
  | file n => exact List.nodup_nil
  | dir n cs hn _ => exact hn

mutual
/-- Executable form of `WF`. -/
def wfB : FTree → Bool
  | .file _ => true
  | .dir _ cs => decide ((cs.map FTree.name).Nodup) && wfBs cs
def wfBs : List FTree → Bool
  | [] => true
  | c :: cs => wfB c && wfBs cs
end

theorem wfBs_all (cs : List FTree) : wfBs cs = cs.all wfB := by
  induction cs with
  | nil => simp [wfBs]
  | cons c cs ih => simp [wfBs, ih]

theorem wfB_sound (t : FTree) : wfB t = true → WF t := by
  induction t using FTree.ind with
  | hf n => intro _; exact WF.file n
  | hd n cs ih =>
    intro h
    simp only [wfB, wfBs_all, Bool.and_eq_true, decide_eq_true_eq, List.all_eq_true] at h
    exact WF.dir n cs h.1 (fun c hc => ih c hc (h.2 c hc))

/-! ### `findChild`, `subtree` -/

theorem findChild_some {n : Name} {cs : List FTree} {c : FTree} (h : findChild n cs = some c) :
    c ∈ cs ∧ c.name = n := by
  induction cs with
  | nil => cases h
  | cons x xs ih =>
    unfold findChild at h
    split at h
    · cases h; exact ⟨List.mem_cons_self, by assumption⟩
    · exact ⟨List.mem_cons_of_mem _ (ih h).1, (ih h).2⟩

theorem findChild_of_mem {cs : List FTree} (hn : (cs.map FTree.name).Nodup) {c : FTree} (hc : c ∈ cs) :
    findChild c.name cs = some c := by
  induction cs with
  | nil => cases hc
  | cons x xs ih =>
    rw [List.map_cons, List.nodup_cons] at hn
    unfold findChild
    rcases List.mem_cons.1 hc with h | h
    · subst h; simp
    · have : x.name ≠ c.name := by
        intro e; exact hn.1 (e ▸ List.mem_map_of_mem h)
      simp [this, ih hn.2 h]

theorem subtree_nil (t : FTree) : subtree t [] = some t := by unfold subtree; rfl

theorem subtree_cons (t : FTree) (n : Name) (rest : Path) :
    subtree t (n :: rest) = (findChild n t.children).bind (subtree · rest) := by
  rw [subtree]; cases findChild n t.children <;> rfl

theorem subtree_append (t : FTree) (a b : Path) :
    subtree t (a ++ b) = (subtree t a).bind (subtree · b) := by
  induction a generalizing t with
  | nil => simp [subtree_nil]
  | cons n rest ih =>
    rw [List.cons_append, subtree_cons, subtree_cons]
    cases findChild n t.children with
    | none => rfl
    | some c => simp [ih]

theorem subtree_file_cons (n x : Name) (rest : Path) : subtree (.file n) (x :: rest) = none := by
  rw [subtree_cons]; rfl

/-- A prefix of an existing path exists and, when strict, is a directory. -/
theorem subtree_prefix_isDir {t s : FTree} {a b : Path} (h : subtree t (a ++ b) = some s) (hb : b ≠ []) :
    ∃ u, subtree t a = some u ∧ u.isDir = true := by
  rw [subtree_append] at h
  cases hu : subtree t a with
  | none => rw [hu] at h; cases h
  | some u =>
    rw [hu] at h
    refine ⟨u, rfl, ?_⟩
    cases b with
    | nil => exact absurd rfl hb
    | cons x rest =>
      cases u with
      | file n => simp [subtree_file_cons] at h
      | dir n cs => rfl

/-! ### `mkNode`, `listNode` -/

theorem mkNodes_eq_map (known excl : Path → Bool) (parent : Path) (cs : List FTree) :
    mkNodes known excl parent cs = cs.map fun c => mkNode known excl (parent ++ [c.name]) c := by
  induction cs with
  | nil => simp [mkNodes]
  | cons c cs ih => simp [mkNodes, ih]

theorem listNodes_eq_flatMap (d : Bool) (ns : List Node) : listNodes d ns = ns.flatMap (listNode d) := by
  induction ns with
  | nil => simp [listNodes]
  | cons n ns ih => simp [listNodes, ih]

theorem mkNode_file (known excl : Path → Bool) (path : Path) (n : Name) :
    mkNode known excl path (.file n) = .mk path [] false true (!(known path || excl path)) := by
  simp [mkNode]

theorem mkNode_dir (known excl : Path → Bool) (path : Path) (n : Name) (cs : List FTree) :
    mkNode known excl path (.dir n cs) =
      .mk path (if excl path then [] else mkNodes known excl path cs) true false
        ((if excl path then [] else mkNodes known excl path cs).all Node.isUnknown && !excl path) := by
  simp [mkNode]

theorem listNode_mk (d : Bool) (p : Path) (sub : List Node) (isDir isFile unk : Bool) :
    listNode d (.mk p sub isDir isFile unk) =
      if unk && (isFile || (isDir && d)) then [p] else listNodes d sub := by
  simp [listNode]

/-- Everything at or below an unknown node is not excluded, and every file there is not known. -/
theorem unknown_all (known excl : Path → Bool) (t : FTree) :
    ∀ path, (mkNode known excl path t).isUnknown = true →
      ∀ rel s, subtree t rel = some s →
        excl (path ++ rel) = false ∧ (s.isDir = false → known (path ++ rel) = false) := by
  induction t using FTree.ind with
  | hf n =>
    intro path hu rel s hs
    cases rel with
    | nil =>
      rw [subtree_nil] at hs; cases hs
      simp [mkNode_file, Node.isUnknown] at hu
      simp [hu.1, hu.2]
    | cons x rest => simp [subtree_file_cons] at hs
  | hd n cs ih =>
    intro path hu rel s hs
    rw [mkNode_dir] at hu
    simp only [Node.isUnknown, Bool.and_eq_true, Bool.not_eq_true'] at hu
    obtain ⟨hall, hex⟩ := hu
    cases rel with
    | nil =>
      rw [subtree_nil] at hs; cases hs
      simp [hex, FTree.isDir]
    | cons x rest =>
      rw [subtree_cons] at hs
      cases hc : findChild x (FTree.dir n cs).children with
      | none => rw [hc] at hs; cases hs
      | some c =>
        rw [hc] at hs
        obtain ⟨hmem, hname⟩ := findChild_some hc
        simp only [hex, Bool.false_eq_true, ↓reduceIte, mkNodes_eq_map, List.all_map, List.all_eq_true] at hall
        have := ih c hmem (path ++ [c.name]) (hall c hmem) rest s hs
        subst hname
        simpa using this

/-- What a listed path is: reached from `path` through directories none of which is excluded; a file that is
neither known nor excluded, or — only with `--directories` — an unknown directory. -/
theorem listNode_spec (known excl : Path → Bool) (d : Bool) (t : FTree) :
    WF t → ∀ path p, p ∈ listNode d (mkNode known excl path t) →
      ∃ rel s, p = path ++ rel ∧ subtree t rel = some s ∧
        (∀ k, excl (path ++ rel.take k) = false) ∧
        (s.isDir = false → known p = false) ∧
        (s.isDir = true → d = true ∧ (mkNode known excl p s).isUnknown = true) := by
  induction t using FTree.ind with
  | hf n =>
    intro _ path p hp
    rw [mkNode_file, listNode_mk] at hp
    by_cases hu : (known path || excl path) = true
    · simp [hu, listNodes] at hp
    · simp only [Bool.not_eq_true] at hu
      simp only [hu, Bool.not_false, Bool.true_or, Bool.and_self, ↓reduceIte, List.mem_singleton] at hp
      subst hp
      simp only [Bool.or_eq_false_iff] at hu
      refine ⟨[], .file n, by simp, subtree_nil _, ?_, ?_, ?_⟩
      · intro k; simp [hu.2]
      · intro _; exact hu.1
      · intro h; cases h
  | hd n cs ih =>
    intro hwf path p hp
    rw [mkNode_dir, listNode_mk] at hp
    by_cases hex : excl path = true
    · simp [hex, listNodes] at hp
    · simp only [Bool.not_eq_true] at hex
      simp only [hex, Bool.false_eq_true, ↓reduceIte, Bool.not_false, Bool.and_true, Bool.false_or,
        Bool.true_and] at hp
      by_cases hcond : ((mkNodes known excl path cs).all Node.isUnknown && d) = true
      · rw [if_pos hcond] at hp
        simp only [List.mem_singleton] at hp
        subst hp
        simp only [Bool.and_eq_true] at hcond
        refine ⟨[], .dir n cs, by simp, subtree_nil _, ?_, ?_, ?_⟩
        · intro k; simp [hex]
        · intro h; cases h
        · intro _
          refine ⟨hcond.2, ?_⟩
          rw [mkNode_dir]; simp [Node.isUnknown, hcond.1, hex]
      · rw [if_neg hcond] at hp
        simp only [listNodes_eq_flatMap, mkNodes_eq_map, List.mem_flatMap, List.mem_map] at hp
        obtain ⟨_, ⟨c, hc, rfl⟩, hpc⟩ := hp
        obtain ⟨rel, s, hpe, hsub, hpre, hfile, hdir⟩ := ih c hc (hwf.children c hc) (path ++ [c.name]) p hpc
        refine ⟨c.name :: rel, s, by simp [hpe], ?_, ?_, hfile, hdir⟩
        · rw [subtree_cons]
          have := findChild_of_mem hwf.nodup hc
          simp only [FTree.children] at this ⊢
          simp [this, hsub]
        · intro k
          cases k with
          | zero => simp [hex]
          | succ k => simpa using hpre k

theorem listNode_missing (d : Bool) (path : Path) : listNode d (.mk path [] false false false) = [] := by
  simp [listNode, listNodes]

/-! ### the listing of the command -/

theorem WF_subtree {fs t : FTree} (h : WF fs) (r : Path) (hr : subtree fs r = some t) : WF t := by
  induction r generalizing fs with
  | nil => rw [subtree_nil] at hr; cases hr; exact h
  | cons x rest ih =>
    rw [subtree_cons] at hr
    cases hc : findChild x fs.children with
    | none => rw [hc] at hr; cases hr
    | some c =>
      rw [hc] at hr
      exact ih (h.children c (findChild_some hc).1) hr

/-- `listNode_spec` for the paths given to the command. -/
theorem findAllUnknown_spec {fs : FTree} (hwf : WF fs) (known excl : Path → Bool) (roots : List Path) (d : Bool)
    {p : Path} (hp : p ∈ findAllUnknown fs known excl roots d) :
    ∃ r ∈ roots, ∃ rel s, p = r ++ rel ∧ subtree fs p = some s ∧
      (∀ k, excl (r ++ rel.take k) = false) ∧
      (s.isDir = false → known p = false) ∧
      (s.isDir = true → d = true ∧ (mkNode known excl p s).isUnknown = true) := by
  simp only [findAllUnknown, List.mem_flatMap] at hp
  obtain ⟨r, hr, hp⟩ := hp
  unfold mkNodeAt at hp
  cases ht : subtree fs r with
  | none => rw [ht] at hp; simp [listNode_missing] at hp
  | some t =>
    rw [ht] at hp
    obtain ⟨rel, s, hpe, hsub, hpre, hfile, hdir⟩ := listNode_spec known excl d t (WF_subtree hwf r ht) r p hp
    refine ⟨r, hr, rel, s, hpe, ?_, hpre, hfile, hdir⟩
    rw [hpe, subtree_append, ht]; exact hsub

/-- Whatever exists at or below a listed path is not excluded, and if it is a file it is not known. -/
theorem covered_safe {fs : FTree} (hwf : WF fs) (known excl : Path → Bool) (roots : List Path) (d : Bool)
    {p q : Path} (hp : p ∈ findAllUnknown fs known excl roots d) (hpq : p <+: q) {sq : FTree}
    (hq : subtree fs q = some sq) : excl q = false ∧ (sq.isDir = false → known q = false) := by
  obtain ⟨r, _, rel, s, hpe, hsub, hpre, hfile, hdir⟩ := findAllUnknown_spec hwf known excl roots d hp
  obtain ⟨rel2, rfl⟩ := hpq
  by_cases h2 : rel2 = []
  · subst h2
    simp only [List.append_nil] at hq ⊢
    rw [hsub] at hq; cases hq
    refine ⟨?_, hfile⟩
    have := hpre rel.length
    simpa [← hpe] using this
  · obtain ⟨u, hu, hud⟩ := subtree_prefix_isDir hq h2
    rw [hsub] at hu; cases hu
    have hq' : subtree s rel2 = some sq := by
      rw [subtree_append, hsub] at hq; exact hq
    exact unknown_all known excl s p (hdir hud).2 rel2 sq hq'

/-! ### removal -/

/-- What is at `q`: nothing, a file (`false`) or a directory (`true`). -/
def kindAt (t : FTree) (q : Path) : Option Bool := (subtree t q).map FTree.isDir

theorem removeIn_single (cs : List FTree) (y : Name) :
    removeIn cs [y] = cs.filter fun c => !decide (c.name = y) := by
  induction cs with
  | nil => simp [removeIn]
  | cons c cs ih =>
    by_cases h : c.name = y <;> simp [removeIn, h, ih]

theorem removeIn_deep (cs : List FTree) (y z : Name) (rest : Path) :
    removeIn cs (y :: z :: rest) = cs.map fun c => if c.name = y then removeAt c (z :: rest) else c := by
  induction cs with
  | nil => simp [removeIn]
  | cons c cs ih => simp [removeIn, ih]

theorem removeAt_name (t : FTree) (rel : Path) : (removeAt t rel).name = t.name := by
  cases t <;> simp [removeAt, FTree.name]

theorem removeAt_isDir (t : FTree) (rel : Path) : (removeAt t rel).isDir = t.isDir := by
  cases t <;> simp [removeAt, FTree.isDir]

theorem findChild_filter (x y : Name) (cs : List FTree) :
    findChild x (cs.filter fun c => !decide (c.name = y)) = if x = y then none else findChild x cs := by
  induction cs with
  | nil => simp [findChild]
  | cons c cs ih =>
    by_cases hy : c.name = y
    · by_cases hx : x = y
      · subst hx; simpa [hy] using ih
      · have h1 : ¬ c.name = x := fun e => hx (e ▸ hy)
        have h2 : ¬ y = x := fun e => hx e.symm
        simp only [hx, ↓reduceIte] at ih
        simp [hy, ih, hx, findChild, h2]
    · by_cases hx : c.name = x
      · have : ¬ x = y := fun e => hy (hx ▸ e)
        simp [findChild, hx, this]
      · simp [hy, findChild, hx, ih]

theorem findChild_map (x : Name) (f : FTree → FTree) (hf : ∀ c, (f c).name = c.name) (cs : List FTree) :
    findChild x (cs.map f) = (findChild x cs).map f := by
  induction cs with
  | nil => simp [findChild]
  | cons c cs ih =>
    by_cases hx : c.name = x <;> simp [findChild, hf, hx, ih]

theorem kindAt_nil (t : FTree) : kindAt t [] = some t.isDir := by simp [kindAt, subtree_nil]

theorem kindAt_removeAt (q : Path) : ∀ (t : FTree) (rel : Path), rel ≠ [] →
    kindAt (removeAt t rel) q = if rel <+: q then none else kindAt t q := by
  induction q with
  | nil =>
    intro t rel hrel
    have : ¬ rel <+: [] := by simpa using hrel
    simp [kindAt_nil, removeAt_isDir, this]
  | cons x q ih =>
    intro t rel hrel
    cases t with
    | file n => simp [removeAt, kindAt, subtree_file_cons]
    | dir n cs =>
      cases rel with
      | nil => exact absurd rfl hrel
      | cons y rel' =>
        cases rel' with
        | nil =>
          simp only [removeAt, kindAt, subtree_cons, FTree.children, removeIn_single, findChild_filter]
          by_cases hxy : x = y
          · subst hxy; simp
          · have : ¬ y = x := fun e => hxy e.symm
            simp [hxy, this]
        | cons z rest =>
          simp only [removeAt, kindAt, subtree_cons, FTree.children, removeIn_deep]
          rw [findChild_map x _ (by intro c; split <;> simp [removeAt_name])]
          cases hc : findChild x cs with
          | none => simp
          | some c =>
            have hname := (findChild_some hc).2
            by_cases hxy : x = y
            · subst hxy
              have := ih c (z :: rest) (by simp)
              simp only [kindAt] at this
              simp [hname, this]
            · have h1 : ¬ c.name = y := fun e => hxy (hname ▸ e)
              have h2 : ¬ y = x := fun e => hxy e.symm
              simp [h1, h2]

theorem kindAt_foldl_removeAt (L : List Path) (hL : ∀ p ∈ L, p ≠ []) (t : FTree) (q : Path) :
    kindAt (L.foldl removeAt t) q = if ∃ p ∈ L, p <+: q then none else kindAt t q := by
  induction L generalizing t with
  | nil => simp
  | cons p ps ih =>
    rw [List.foldl_cons, ih (fun x hx => hL x (List.mem_cons_of_mem _ hx)), kindAt_removeAt q t p (hL p List.mem_cons_self)]
    by_cases h1 : ∃ x ∈ ps, x <+: q
    · have : ∃ x ∈ p :: ps, x <+: q := by
        obtain ⟨x, hx, hq⟩ := h1; exact ⟨x, List.mem_cons_of_mem _ hx, hq⟩
      simp [h1]
    · by_cases h2 : p <+: q
      · have : ∃ x ∈ p :: ps, x <+: q := ⟨p, List.mem_cons_self, h2⟩
        simp [h1, h2]
      · have : ¬ ∃ x ∈ p :: ps, x <+: q := by
          rintro ⟨x, hx, hq⟩
          rcases List.mem_cons.1 hx with e | e
          · exact h2 (e ▸ hq)
          · exact h1 ⟨x, e, hq⟩
        simp [h1, h2]

/-! ### the command loop -/

/-- The paths the loop removes: everything in force mode, the confirmed ones in interactive mode. -/
def removedBy (mode : Mode) (yes : Path → Bool) (L : List Path) : List Path :=
  match mode with
  | .dryRun => []
  | .force => L
  | .interactive => L.filter yes

theorem cleanLoop_fs (mode : Mode) (quiet : Bool) (yes : Path → Bool) (L : List Path) (fs : FTree) :
    (cleanLoop mode quiet yes L fs).2 = (removedBy mode yes L).foldl removeAt fs := by
  induction L generalizing fs with
  | nil => cases mode <;> rfl
  | cons p ps ih =>
    cases mode with
    | dryRun => simpa [cleanLoop, removedBy] using ih fs
    | force => simpa [cleanLoop, removedBy] using ih (removeAt fs p)
    | interactive =>
      by_cases hy : yes p = true
      · simpa [cleanLoop, removedBy, hy] using ih (removeAt fs p)
      · simpa [cleanLoop, removedBy, hy] using ih fs

theorem cleanLoop_dry_events (quiet : Bool) (yes : Path → Bool) (L : List Path) (fs : FTree) :
    (cleanLoop .dryRun quiet yes L fs).1 = L.map .would := by
  induction L with
  | nil => rfl
  | cons p ps ih => simp [cleanLoop, ih]

theorem cleanLoop_force_events (yes : Path → Bool) (L : List Path) (fs : FTree) :
    (cleanLoop .force false yes L fs).1 = L.map .removed := by
  induction L generalizing fs with
  | nil => rfl
  | cons p ps ih => simp [cleanLoop, ih]

/-! ### `pmatch` on literal patterns -/

/-- A character without a meaning in `fnmatch` patterns and different from the separator. -/
def PlainChar (c : Char) : Prop := c ≠ '*' ∧ c ≠ '?' ∧ c ≠ '[' ∧ c ≠ sep

/-- A path component that `PurePosixPath(pattern)` keeps and `fnmatch.translate` reads literally. -/
def PlainName (n : Name) : Prop := n ≠ [] ∧ n ≠ ['.'] ∧ ∀ c ∈ n, PlainChar c

instance (c : Char) : Decidable (PlainChar c) := by unfold PlainChar; infer_instance
instance (n : Name) : Decidable (PlainName n) := by unfold PlainName; infer_instance

theorem plainName_cacheDir : PlainName Generated.cleanCacheDir.toList := by decide

/-- A component of a real path: non-empty, without separator. -/
def CompName (n : Name) : Prop := n ≠ [] ∧ ∀ c ∈ n, c ≠ sep

def lit1 (c : Char) : RItem := .one (.lit c)

theorem tokenize_literal (s : List Char) (hs : ∀ c ∈ s, c ≠ '*' ∧ c ≠ '?' ∧ c ≠ '[') :
    ∀ fuel, s.length ≤ fuel → tokenize fuel s false = s.map fun c => some (.lit c) := by
  induction s with
  | nil => intro fuel _; cases fuel <;> simp [tokenize]
  | cons c cs ih =>
    intro fuel hf
    cases fuel with
    | zero => simp at hf
    | succ f =>
      obtain ⟨h1, h2, h3⟩ := hs c List.mem_cons_self
      have := ih (fun x hx => hs x (List.mem_cons_of_mem _ hx)) f (by simpa using hf)
      simp [tokenize, h1, h2, h3, this]

theorem takeFixed_map_some (l : List CM) : takeFixed (l.map some) = (l, []) := by
  induction l with
  | nil => simp [takeFixed]
  | cons m ms ih => simp [takeFixed, ih]

theorem translate_literal (s : List Char) (hs : ∀ c ∈ s, c ≠ '*' ∧ c ≠ '?' ∧ c ≠ '[') :
    translate s = s.map lit1 := by
  have key : tokenize (s.length + 1) s false = (s.map CM.lit).map some := by
    rw [tokenize_literal s hs _ (Nat.le_succ _)]; simp
  simp only [translate, key, takeFixed_map_some]
  simp [groupStars, lit1]

theorem matchItems_literal (l : List Char) (rest : List RItem) (s : List Char) :
    matchItems (l.map lit1 ++ rest) (l ++ s) = matchItems rest s := by
  induction l with
  | nil => simp
  | cons c cs ih => simp [lit1, matchItems, CM.test] at ih ⊢; exact ih

theorem tryFrom_isEmpty (s : List Char) (hs : ∀ c ∈ s, c ≠ sep) : tryFrom (fun x => x.isEmpty) s = true := by
  induction s with
  | nil => simp [tryFrom]
  | cons c cs ih =>
    have := ih (fun x hx => hs x (List.mem_cons_of_mem _ hx))
    have hc := hs c List.mem_cons_self
    simp [tryFrom, this, hc]

theorem matchItems_plus (x : Name) (hx : CompName x) : matchItems [.plus] x = true := by
  obtain ⟨hne, hs⟩ := hx
  cases x with
  | nil => exact absurd rfl hne
  | cons c cs =>
    have := tryFrom_isEmpty cs (fun y hy => hs y (List.mem_cons_of_mem _ hy))
    have hc := hs c List.mem_cons_self
    simp [matchItems, this, hc]

theorem splitSlash_ne_nil (s : List Char) : splitSlash s ≠ [] := by
  cases s with
  | nil => simp [splitSlash]
  | cons c cs =>
    unfold splitSlash
    split
    · simp
    · split <;> simp

theorem splitSlash_append (c : Name) (hc : ∀ x ∈ c, x ≠ sep) (R : List Char) (h : Name) (t : List Name)
    (hR : splitSlash R = h :: t) : splitSlash (c ++ R) = (c ++ h) :: t := by
  induction c with
  | nil => simpa using hR
  | cons a c ih =>
    have ha : ¬ a = sep := hc a List.mem_cons_self
    have := ih (fun x hx => hc x (List.mem_cons_of_mem _ hx))
    simp [splitSlash, ha, this]

theorem splitSlash_pathStr (comps : List Name) (hc : ∀ n ∈ comps, ∀ x ∈ n, x ≠ sep) :
    splitSlash (comps.flatMap fun c => sep :: c) = [] :: comps := by
  induction comps with
  | nil => simp [splitSlash]
  | cons c cs ih =>
    have h1 := ih (fun n hn => hc n (List.mem_cons_of_mem _ hn))
    have h2 := splitSlash_append c (hc c List.mem_cons_self) _ _ _ h1
    simp [List.flatMap_cons, splitSlash, h2]

theorem pathStr_ne_nil (p : Path) (hp : p ≠ []) : pathStr p = p.flatMap fun c => sep :: c := by
  cases p with
  | nil => exact absurd rfl hp
  | cons a b => rfl

theorem parsePattern_asPosix (comps : List Name) (hne : comps ≠ [])
    (hc : ∀ n ∈ comps, n ≠ [] ∧ n ≠ ['.'] ∧ ∀ x ∈ n, x ≠ sep) :
    parsePattern (asPosix comps) = (true, comps) := by
  unfold parsePattern asPosix
  rw [pathStr_ne_nil comps hne, splitSlash_pathStr comps (fun n hn => (hc n hn).2.2)]
  congr 1
  · cases comps with
    | nil => exact absurd rfl hne
    | cons a b => simp
  · rw [List.filter_cons]
    simp only [List.isEmpty_nil, Bool.not_true, Bool.false_and, Bool.false_eq_true, ↓reduceIte]
    apply List.filter_eq_self.2
    intro n hn
    obtain ⟨h1, h2, _⟩ := hc n hn
    simp [h1, h2]

theorem compileComps_literal_star (pre : List Name) (hp : ∀ n ∈ pre, PlainName n) :
    compileComps (pre ++ [['*']]) = (pre.flatMap fun c => (c ++ [sep]).map lit1) ++ [.plus] := by
  induction pre with
  | nil => simp [compileComps]
  | cons c cs ih =>
    have hih := ih (fun n hn => hp n (List.mem_cons_of_mem _ hn))
    obtain ⟨hne, _, hpl⟩ := hp c List.mem_cons_self
    have hstar : ¬ c = ['*'] := by
      intro e; subst e
      exact (hpl '*' (by simp)).1 rfl
    have htr : translate (c ++ [sep]) = (c ++ [sep]).map lit1 := by
      apply translate_literal
      intro x hx
      rcases List.mem_append.1 hx with h | h
      · exact ⟨(hpl x h).1, (hpl x h).2.1, (hpl x h).2.2.1⟩
      · simp only [List.mem_singleton] at h; subst h; decide
    cases hcs : cs ++ [['*']] with
    | nil => simp at hcs
    | cons a b =>
      rw [List.cons_append, hcs, compileComps]
      · rw [← hcs, hih]
        simp [hstar, htr]
      · simp

theorem flatMap_rotate (cs : List Name) :
    sep :: (cs.flatMap fun c => c ++ [sep]) = (cs.flatMap fun c => sep :: c) ++ [sep] := by
  induction cs with
  | nil => simp
  | cons c cs ih =>
    simp only [List.flatMap_cons, List.append_assoc, List.cons_append, List.nil_append]
    rw [← ih]

/-- `PurePosixPath("<dir>/<x>").match("<dir>/*")` is true when the components of `dir` have no meaning as a pattern. -/
theorem pmatch_dir_star (dir : Path) (hdir : ∀ n ∈ dir, PlainName n) (x : Name) (hx : CompName x) :
    pmatch (dir ++ [x]) (asPosix (dir ++ [['*']])) = true := by
  have hcomps : ∀ n ∈ dir ++ [['*']], n ≠ [] ∧ n ≠ ['.'] ∧ ∀ y ∈ n, y ≠ sep := by
    intro n hn
    rcases List.mem_append.1 hn with h | h
    · obtain ⟨h1, h2, h3⟩ := hdir n h
      exact ⟨h1, h2, fun y hy => (h3 y hy).2.2.2⟩
    · simp only [List.mem_singleton] at h; subst h
      refine ⟨by simp, by decide, ?_⟩
      intro y hy; simp only [List.mem_singleton] at hy; subst hy; decide
  unfold pmatch
  rw [parsePattern_asPosix _ (by simp) hcomps]
  simp only [↓reduceIte, compile]
  rw [compileComps_literal_star dir hdir, pathStr_ne_nil _ (by simp)]
  have h1 : ([RItem.one (CM.lit sep)] ++ ((dir.flatMap fun c => (c ++ [sep]).map lit1) ++ [RItem.plus]))
      = ((dir.flatMap fun c => sep :: c) ++ [sep]).map lit1 ++ [RItem.plus] := by
    rw [← flatMap_rotate]
    simp [lit1, List.map_flatMap]
  rw [h1]
  have h2 : ((dir ++ [x]).flatMap fun c => sep :: c) = ((dir.flatMap fun c => sep :: c) ++ [sep]) ++ x := by simp
  rw [h2, matchItems_literal]
  exact matchItems_plus x hx

/-! ### the project root -/

theorem stopAt_two (fs : FTree) (hs : Path → Bool) (d : Path) (a b : String) :
    stopAt fs hs d [(a, "section"), (b, "exists")] =
      match subtree fs (d ++ [a.toList]) with
      | some _ => if hs (d ++ [a.toList]) then some (d, some (d ++ [a.toList]))
                  else (match subtree fs (d ++ [b.toList]) with | some _ => some (d, none) | none => none)
      | none => (match subtree fs (d ++ [b.toList]) with | some _ => some (d, none) | none => none) := by
  have e1 : ("exists" == "section") = false := by decide
  have e2 : ("section" == "section") = true := by decide
  have e3 : ("exists" == "exists") = true := by decide
  simp only [stopAt, stopRule, e1, e2, e3]
  cases subtree fs (d ++ [a.toList]) <;> cases subtree fs (d ++ [b.toList]) <;> simp
  all_goals (cases hs (d ++ [a.toList]) <;> simp)

theorem stopAt_rules (fs : FTree) (hs : Path → Bool) (d : Path) :
    stopAt fs hs d Generated.rootStopRules = stopAt fs hs d [("pyproject.toml", "section"), (".git", "exists")] := rfl

end Pytask.Clean
