import PytaskModel.DagGen
import PytaskProofs.Lemmas.Graph
/-!
Refinement lemmas: the interpreters of `DagGen.lean`, run on the data extracted from dag.py and mark/__init__.py
(`Generated.Dag.*`), compute `Engine.baseGraph` / `modifyDag` / `sharedProduct` / `deselected` / `createDag`.
Every proof unfolds the generated terms.
-/
set_option linter.unusedSimpArgs false
namespace Pytask
namespace DagGen
open Engine Generated.Dag

/-! ### graph helpers -/

theorem addNode_of_mem {g : G} {v : Nat} (h : v ∈ g.nodes) : g.addNode v = g := by
  unfold G.addNode
  have : g.nodes.contains v = true := by simpa using h
  simp only [this, if_true]

theorem addNode_idem (g : G) (v : Nat) : (g.addNode v).addNode v = g.addNode v :=
  addNode_of_mem (G.mem_addNode_nodes.2 (Or.inr rfl))

theorem addNode_addEdge_left (g : G) (a b : Nat) : (g.addNode a).addEdge a b = g.addEdge a b := by
  unfold G.addEdge
  simp only [addNode_idem]

theorem addNode_addEdge_right {g : G} {a : Nat} (b : Nat) (h : a ∈ g.nodes) : (g.addNode b).addEdge a b = g.addEdge a b := by
  unfold G.addEdge
  have h1 : (g.addNode b).addNode a = g.addNode b := addNode_of_mem (G.mem_addNode_nodes.2 (Or.inl h))
  have h2 : g.addNode a = g := addNode_of_mem h
  simp only [h1, h2, addNode_idem]

theorem foldl_addEdge_mem_nodes {α} (f h : α → Nat) : ∀ (l : List α) (g : G) (x : Nat), x ∈ g.nodes →
    x ∈ (l.foldl (fun g a => g.addEdge (f a) (h a)) g).nodes
  | [], _, _, hx => hx
  | a :: l, g, x, hx => foldl_addEdge_mem_nodes f h l _ x (G.mem_addEdge_nodes.2 (Or.inl hx))

/-! ### _create_dag_from_tasks -/

theorem deps_fold_eq (t : TaskSpec) : ∀ (ds : List Nat) (g : G),
    ds.foldl (fun g d => ((g.addNode (nv d)).addEdge (nv d) (tv t.id))) g = ds.foldl (fun g d => g.addEdge (nv d) (tv t.id)) g
  | [], _ => rfl
  | d :: ds, g => by
    simp only [List.foldl_cons, addNode_addEdge_left]
    first | done | exact deps_fold_eq t ds _

theorem prods_fold_eq (t : TaskSpec) : ∀ (ps : List Nat) (g : G), tv t.id ∈ g.nodes →
    ps.foldl (fun g p => ((g.addNode (nv p)).addEdge (tv t.id) (nv p))) g = ps.foldl (fun g p => g.addEdge (tv t.id) (nv p)) g
  | [], _, _ => rfl
  | p :: ps, g, h => by
    simp only [List.foldl_cons, addNode_addEdge_right (nv p) h]
    exact prods_fold_eq t ps _ (G.mem_addEdge_nodes.2 (Or.inl h))

theorem createTask_eq (t : TaskSpec) (g : G) :
    createSteps.foldl (createStep (fun _ => none) t) g =
      t.prods.foldl (fun g p => g.addEdge (tv t.id) (nv p)) (t.deps.foldl (fun g d => g.addEdge (nv d) (tv t.id)) (g.addNode (tv t.id))) := by
  simp only [createSteps, List.foldl_cons, List.foldl_nil, createStep, nodeOp]
  have hid : ∀ (l : List Nat) (g : G), l.foldl (fun g _ => g) g = g := by
    intro l; induction l with
    | nil => intro g; rfl
    | cons a l ih => intro g; simp [ih]
  rw [hid, deps_fold_eq]
  apply prods_fold_eq
  exact foldl_addEdge_mem_nodes (fun d => nv d) (fun _ => tv t.id) _ _ _ (G.mem_addNode_nodes.2 (Or.inr rfl))

theorem baseGraphGen_eq (P : Project) : baseGraphGen (fun _ => none) P = baseGraph P := by
  unfold baseGraphGen baseGraph
  congr 1
  funext g t
  exact createTask_eq t g

/-! ### _modify_dag -/

theorem foldl_filter_skip {β} (p : Nat → Bool) (f : β → Nat → β) : ∀ (l : List Nat) (b : β),
    (l.filter (fun o => !p o)).foldl f b = l.foldl (fun b o => if p o then b else f b o) b
  | [], _ => rfl
  | o :: l, b => by
    cases h : p o <;> simp [List.filter_cons, h, foldl_filter_skip p f l]

theorem foldl_skip_none {β} (p : Nat → Bool) (f : β → Nat → β) : ∀ (l : List Nat) (b : β), (∀ o ∈ l, p o = false) →
    l.foldl f b = l.foldl (fun b o => if p o then b else f b o) b
  | [], _, _ => rfl
  | o :: l, b, h => by
    have ho : p o = false := h o (by simp)
    simp only [List.foldl_cons, ho, Bool.false_eq_true, if_false]
    exact foldl_skip_none p f l _ (fun x hx => h x (by simp [hx]))

theorem foldl_congr_mem {α β} (f g : β → α → β) : ∀ (l : List α) (b : β), (∀ a ∈ l, ∀ b, f b a = g b a) →
    l.foldl f b = l.foldl g b
  | [], _, _ => rfl
  | a :: l, b, h => by
    simp only [List.foldl_cons, h a (by simp)]
    exact foldl_congr_mem f g l _ (fun x hx => h x (by simp [hx]))

/-- The `after` branches, interpreted, are the model's `_modify_dag` — for the list branch (which does not discard the
task's own signature) provided no task names itself in its list, which a list of task *functions* cannot do. -/
theorem modifyDagGen_eq (kindOf : Nat → AKind) (P : Project) (g : G)
    (h : ∀ t ∈ P.tasks, kindOf t.id = .list → t.id ∉ t.after) : modifyDagGen kindOf P g = modifyDag P g := by
  unfold modifyDagGen modifyDag
  apply foldl_congr_mem
  intro t ht g
  cases hk : kindOf t.id
  · have hn := h t ht hk
    simp only [modifyBranches, List.find?, hk, decide_true, Bool.false_eq_true, if_false, viaOf]
    exact foldl_skip_none (fun o => o == t.id) _ _ _ (fun o ho => by
      simp only [beq_eq_false_iff_ne, ne_eq]; rintro rfl; exact hn ho)
  · simp only [modifyBranches, List.find?, hk, viaOf]
    have key := foldl_filter_skip (fun o => o == t.id)
      (fun g o => (g.succs (tv o)).foldl (fun g s => g.addEdge s (tv t.id)) g) t.after g
    simpa using key

/-! ### _check_if_tasks_have_the_same_products, the selection -/

theorem sharedProductGen_eq (g : G) : sharedProductGen g = sharedProduct g := by
  simp [sharedProductGen, sharedProduct, productKey, productCmp, productBound, hasKey, cmpNat]

theorem deselectedGen_eq (P : Project) (g : G) (cfg : Cfg) : deselectedGen P g cfg = deselected P g cfg := by
  unfold deselectedGen deselected
  cases hk : cfg.selK <;> cases hm : cfg.selM <;>
    simp [selectArms, selOf, hk, hm, remaining, selectClosures, closureOf, selClosure]

/-! ### create_dag_from_session -/

theorem createDagGen_eq (kindOf : Nat → AKind) (P : Project) (cfg : Cfg)
    (h : ∀ t ∈ P.tasks, kindOf t.id = .list → t.id ∉ t.after) : createDagGen kindOf P cfg = createDag P cfg := by
  unfold createDagGen createDag
  simp only [flow, flowReturn, Generated.dagPipeline, runFlow, stepGen, createDag.go]
  simp [upd, getG, cyclesWholeGraph, modifyInPlace, selectMark, baseGraphGen_eq, sharedProductGen_eq, deselectedGen_eq,
    modifyDagGen_eq kindOf P _ h]
  by_cases h1 : (baseGraph P).hasCycle = true <;> simp [h1, upd]
  by_cases h2 : sharedProduct (baseGraph P) = true <;> simp [h2, upd]
  by_cases h3 : (modifyDag P (baseGraph P)).hasCycle = true <;> simp [h3, upd]

/-! ### the PythonNode-wrapper edge (outside the static model, for arbitrary `wrap`) -/

theorem foldl_edges_mono {α} (f : G → α → G) (e : Nat × Nat) (hmono : ∀ g a, e ∈ g.edges → e ∈ (f g a).edges) :
    ∀ (l : List α) (g : G), e ∈ g.edges → e ∈ (l.foldl f g).edges
  | [], _, h => h
  | a :: l, g, h => foldl_edges_mono f e hmono l _ (hmono g a h)

theorem foldl_edges_has {α} (f : G → α → G) (e : Nat × Nat) (hmono : ∀ g a, e ∈ g.edges → e ∈ (f g a).edges) :
    ∀ (l : List α) (g : G) (a : α), a ∈ l → (∀ g, e ∈ (f g a).edges) → e ∈ (l.foldl f g).edges
  | [], _, _, h, _ => by cases h
  | b :: l, g, a, h, ha => by
    rcases List.mem_cons.1 h with rfl | h
    · exact foldl_edges_mono f e hmono l _ (ha g)
    · exact foldl_edges_has f e hmono l _ a h ha

theorem nodeOp_mono (wrap : Nat → Option Nat) (t : TaskSpec) (d : Nat) (e : Nat × Nat) (g : G) (op : NodeOp)
    (h : e ∈ g.edges) : e ∈ (nodeOp wrap t d g op).edges := by
  cases op <;> simp only [nodeOp]
  · simpa using h
  · exact G.mem_addEdge_edges.2 (Or.inl h)
  · exact G.mem_addEdge_edges.2 (Or.inl h)
  · cases wrap d with
    | none => exact h
    | some d' => exact G.mem_addEdge_edges.2 (Or.inl h)

theorem createStep_mono (wrap : Nat → Option Nat) (t : TaskSpec) (e : Nat × Nat) (g : G) (st : CStep)
    (h : e ∈ g.edges) : e ∈ (createStep wrap t g st).edges := by
  cases st <;> simp only [createStep]
  · simpa using h
  · exact foldl_edges_mono _ e (fun g d hg => foldl_edges_mono _ e (fun g op => nodeOp_mono wrap t d e g op) _ _ hg) _ _ h
  · exact foldl_edges_mono _ e (fun g d hg => foldl_edges_mono _ e (fun g op => nodeOp_mono wrap t d e g op) _ _ hg) _ _ h

/-- Whatever nodes are wrappers: for a dependency `d` of a task that wraps the node `d'`, the graph has the edge `d' → d`. -/
theorem baseGraphGen_wrapper_edge (wrap : Nat → Option Nat) (P : Project) {t : TaskSpec} {d d' : Nat}
    (ht : t ∈ P.tasks) (hd : d ∈ t.deps) (hw : wrap d = some d') : (nv d', nv d) ∈ (baseGraphGen wrap P).edges := by
  unfold baseGraphGen
  apply foldl_edges_has _ _ (fun g t he => foldl_edges_mono _ _ (fun g st => createStep_mono wrap t _ g st) _ _ he) _ _ t ht
  intro g
  have hstep : ∃ ops, CStep.forDeps ops ∈ createSteps ∧ NodeOp.wrapperEdge ∈ ops := by
    simp [createSteps]
  obtain ⟨ops, hs, hop⟩ := hstep
  apply foldl_edges_has _ _ (fun g st => createStep_mono wrap t _ g st) _ _ _ hs
  intro g
  simp only [createStep]
  apply foldl_edges_has _ _ (fun g d hg => foldl_edges_mono _ _ (fun g op => nodeOp_mono wrap t d _ g op) _ _ hg) _ _ d hd
  intro g
  apply foldl_edges_has _ _ (fun g op => nodeOp_mono wrap t d _ g op) _ _ _ hop
  intro g
  simp only [nodeOp, hw]
  exact G.mem_addEdge_edges.2 (Or.inr rfl)

end DagGen
end Pytask
