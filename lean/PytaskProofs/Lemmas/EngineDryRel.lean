import PytaskProofs.Lemmas.EngineDryInv
/-! Dry-run lemmas, part 4: the setup chain for the generated hook order; summary (`Rel`) of what a stretch of the
build loop does; decomposition of a build at the pick of a task. -/
namespace Pytask
namespace EngineDry
open Engine G Sorter

/-! ### the setup chain -/

/-- `skipping.pytask_execute_task_setup` -/
def skipRes (s : Sess) (t : TaskSpec) : Raised :=
  if t.skip || s.skipMarks.contains t.id then .skipped
  else if t.skipif then .skipped
  else if s.failMarks.contains t.id then .ancestorFailed
  else .none

/-- `persist.pytask_execute_task_setup` (after the repair of finding F20: not for a task carrying `would_be_executed`) -/
def persistRes (P : Project) (g : G) (wbe : List Nat) (w : World) (t : TaskSpec) : Raised :=
  if t.persist && !wbe.contains t.id then
    if ((neighbours g t.id).map (stateOf P w)).all (·.isSome) then
      if ((neighbours g t.id).zip ((neighbours g t.id).map (stateOf P w))).any (fun (v, st) => hasChanged w t.id v st)
      then .persisted else .none
    else .none
  else .none

/-- `execute.pytask_execute_task_setup` -/
def execRes (P : Project) (g : G) (force : Bool) (wbe : List Nat) (w : World) (t : TaskSpec) : Raised :=
  if wbe.contains t.id then .wouldBeExecuted
  else match scan P g w t.id force (neighbours g t.id) with
    | .missing => .error
    | .changed => .none
    | .unchanged => .skippedUnchanged

theorem setupChain_eq (P : Project) (g : G) (cfg : Cfg) (s : Sess) (t : TaskSpec) :
    setupChain P g cfg s t Generated.setupOrder =
      match skipRes s t with
      | .none => (match persistRes P g s.wbeMarks s.w t with
                  | .none => execRes P g cfg.force s.wbeMarks s.w t
                  | r => r)
      | r => r := by
  have h0 : setupImpl P g cfg s t "provisional" = .none := by simp [setupImpl]
  have h1 : setupImpl P g cfg s t "skipping" = skipRes s t := by simp [setupImpl, skipRes]
  have h2 : setupImpl P g cfg s t "persist" = persistRes P g s.wbeMarks s.w t := by simp [setupImpl, persistRes]
  have h3 : setupImpl P g cfg s t "execute" = execRes P g cfg.force s.wbeMarks s.w t := by
    simp [setupImpl, execRes] <;> rfl
  simp only [Generated.setupOrder, setupChain, h0, h1, h2, h3]
  cases skipRes s t <;> simp only [] <;> cases persistRes P g s.wbeMarks s.w t <;> simp only [] <;>
    cases execRes P g cfg.force s.wbeMarks s.w t <;> rfl

theorem skipRes_range (s : Sess) (t : TaskSpec) :
    skipRes s t = .skipped ∨ skipRes s t = .ancestorFailed ∨ skipRes s t = .none := by
  unfold skipRes; split; exact Or.inl rfl; split; exact Or.inl rfl; split; exact Or.inr (Or.inl rfl); exact Or.inr (Or.inr rfl)

theorem persistRes_range (P : Project) (g : G) (wbe : List Nat) (w : World) (t : TaskSpec) :
    persistRes P g wbe w t = .persisted ∨ persistRes P g wbe w t = .none := by
  unfold persistRes; split
  · split
    · split; exact Or.inl rfl; exact Or.inr rfl
    · exact Or.inr rfl
  · exact Or.inr rfl

theorem execRes_range (P : Project) (g : G) (force : Bool) (wbe : List Nat) (w : World) (t : TaskSpec) :
    execRes P g force wbe w t = .wouldBeExecuted ∨ execRes P g force wbe w t = .error ∨
    execRes P g force wbe w t = .none ∨ execRes P g force wbe w t = .skippedUnchanged := by
  unfold execRes; split
  · exact Or.inl rfl
  · split
    · exact Or.inr (Or.inl rfl)
    · exact Or.inr (Or.inr (Or.inl rfl))
    · exact Or.inr (Or.inr (Or.inr rfl))

/-- The result of the chain, read off the three implementations. -/
theorem setupChain_cases (P : Project) (g : G) (cfg : Cfg) (s : Sess) (t : TaskSpec) :
    (skipRes s t ≠ .none ∧ setupChain P g cfg s t Generated.setupOrder = skipRes s t) ∨
    (skipRes s t = .none ∧ persistRes P g s.wbeMarks s.w t = .persisted ∧ setupChain P g cfg s t Generated.setupOrder = .persisted) ∨
    (skipRes s t = .none ∧ persistRes P g s.wbeMarks s.w t = .none ∧
      setupChain P g cfg s t Generated.setupOrder = execRes P g cfg.force s.wbeMarks s.w t) := by
  rw [setupChain_eq]
  rcases skipRes_range s t with h | h | h
  · left; rw [h]; exact ⟨(by intro h'; cases h'), rfl⟩
  · left; rw [h]; exact ⟨(by intro h'; cases h'), rfl⟩
  · right
    rw [h]
    rcases persistRes_range P g s.wbeMarks s.w t with h2 | h2
    · left; rw [h2]; exact ⟨rfl, rfl, rfl⟩
    · right; rw [h2]; exact ⟨rfl, rfl, rfl⟩

/-! ### summary of a stretch of the build loop -/

/-- What the build loop did while processing `picks`: `ex` = the reports it appended, `l` = the bodies it invoked. -/
structure Rel (P : Project) (g : G) (s s' : Sess) (picks : List Nat) (ex : List (Nat × Outcome)) (l : List Nat) : Prop where
  reports : s'.reports = s.reports ++ ex
  log : s'.log = s.log ++ l
  exIds : ∀ e, e ∈ ex → e.1 ∈ picks
  logIds : ∀ a, a ∈ l → a ∈ picks
  skipM : s'.skipMarks = s.skipMarks ++ marksOf g .skip ex
  failM : s'.failMarks = s.failMarks ++ marksOf g .fail ex
  wbeM : s'.wbeMarks = s.wbeMarks ++ marksOf g .wouldBeExecuted ex
  fsChg : ∀ n, lookup s'.w.fs n ≠ lookup s.w.fs n → ∃ b spec, b ∈ l ∧ Project.find? P b = some spec ∧ n ∈ spec.prods
  fsMono : ∀ n, (lookup s.w.fs n).isSome = true → (lookup s'.w.fs n).isSome = true
  dbChg : ∀ k, lookup s'.w.db k ≠ lookup s.w.db k → ∃ b, b ∈ picks ∧ k.1 = tv b
  prevFailed : ∀ a, (a, Outcome.skipPrevFailed) ∈ ex → a ∈ s.failMarks ∨ ∃ a', (a', Outcome.fail) ∈ ex ∧ a ∈ taskDesc g a'

theorem Rel.refl (P : Project) (g : G) (s : Sess) : Rel P g s s [] [] [] :=
  ⟨by simp, by simp, by simp, by simp, by simp, by simp, by simp, fun n h => absurd rfl h, fun n h => h,
   fun k h => absurd rfl h, by simp⟩

theorem Rel.trans {P : Project} {g : G} {s s1 s2 : Sess} {p1 p2 : List Nat} {ex1 ex2 : List (Nat × Outcome)} {l1 l2 : List Nat}
    (h1 : Rel P g s s1 p1 ex1 l1) (h2 : Rel P g s1 s2 p2 ex2 l2) : Rel P g s s2 (p1 ++ p2) (ex1 ++ ex2) (l1 ++ l2) := by
  constructor
  · rw [h2.reports, h1.reports, List.append_assoc]
  · rw [h2.log, h1.log, List.append_assoc]
  · intro e he
    rcases List.mem_append.1 he with he | he
    · exact List.mem_append.2 (Or.inl (h1.exIds e he))
    · exact List.mem_append.2 (Or.inr (h2.exIds e he))
  · intro a ha
    rcases List.mem_append.1 ha with ha | ha
    · exact List.mem_append.2 (Or.inl (h1.logIds a ha))
    · exact List.mem_append.2 (Or.inr (h2.logIds a ha))
  · rw [h2.skipM, h1.skipM, marksOf_append, List.append_assoc]
  · rw [h2.failM, h1.failM, marksOf_append, List.append_assoc]
  · rw [h2.wbeM, h1.wbeM, marksOf_append, List.append_assoc]
  · intro n hn
    by_cases e : lookup s2.w.fs n = lookup s1.w.fs n
    · rw [e] at hn
      obtain ⟨b, spec, hb, hf, hp⟩ := h1.fsChg n hn
      exact ⟨b, spec, List.mem_append.2 (Or.inl hb), hf, hp⟩
    · obtain ⟨b, spec, hb, hf, hp⟩ := h2.fsChg n e
      exact ⟨b, spec, List.mem_append.2 (Or.inr hb), hf, hp⟩
  · intro n hn
    exact h2.fsMono n (h1.fsMono n hn)
  · intro k hk
    by_cases e : lookup s2.w.db k = lookup s1.w.db k
    · rw [e] at hk
      obtain ⟨b, hb, hk'⟩ := h1.dbChg k hk
      exact ⟨b, List.mem_append.2 (Or.inl hb), hk'⟩
    · obtain ⟨b, hb, hk'⟩ := h2.dbChg k e
      exact ⟨b, List.mem_append.2 (Or.inr hb), hk'⟩
  · intro a ha
    rcases List.mem_append.1 ha with ha | ha
    · rcases h1.prevFailed a ha with h | ⟨a', h, hd⟩
      · exact Or.inl h
      · exact Or.inr ⟨a', List.mem_append.2 (Or.inl h), hd⟩
    · rcases h2.prevFailed a ha with h | ⟨a', h, hd⟩
      · rw [h1.failM] at h
        rcases List.mem_append.1 h with h | h
        · exact Or.inl h
        · obtain ⟨a', h, hd⟩ := mem_marksOf.1 h
          exact Or.inr ⟨a', List.mem_append.2 (Or.inl h), hd⟩
      · exact Or.inr ⟨a', List.mem_append.2 (Or.inr h), hd⟩

/-- One task protocol. `r` is what the setup chain raised. -/
theorem protocol_rel (F : BodyFn) (P : Project) (g : G) (cfg : Cfg) (s : Sess) (spec : TaskSpec) (t : Nat)
    (hfind : Project.find? P t = some spec) :
    ∃ ex l, Rel P g s (protocol F P g cfg s spec) [t] ex l ∧
      (setupChain P g cfg s spec Generated.setupOrder ≠ .none →
        ex = [(t, repOf (setupChain P g cfg s spec Generated.setupOrder))] ∧ l = []) ∧
      (setupChain P g cfg s spec Generated.setupOrder = .none → cfg.dry = true → ex = [(t, .wouldBeExecuted)] ∧ l = []) ∧
      (setupChain P g cfg s spec Generated.setupOrder = .none → cfg.dry = false →
        (l = [] ∨ l = [t]) ∧ (ex = [] ∨ ex = [(t, .fail)] ∨ ex = [(t, .success)])) := by
  have hid : spec.id = t := find?_id hfind
  obtain ⟨p1, p2, p3, p4, p5, p6, l, p7, p8, p9, p10, p11, p12, p13⟩ := runPhases_spec F P g cfg s spec
  obtain ⟨q1, q2, q3, ex, q4, q5, q6, q7, q8, q9⟩ :=
    processReport_spec P g cfg (runPhases F P g cfg s spec).2 spec (runPhases F P g cfg s spec).1
  have hprot : protocol F P g cfg s spec =
      processReport P g cfg (runPhases F P g cfg s spec).2 spec (runPhases F P g cfg s spec).1 := rfl
  rw [hid] at p8 p9 p10 q3 q8 q9
  -- what the report list looks like
  have hex : (setupChain P g cfg s spec Generated.setupOrder ≠ .none →
        ex = [(t, repOf (setupChain P g cfg s spec Generated.setupOrder))]) ∧
      (setupChain P g cfg s spec Generated.setupOrder = .none → cfg.dry = true → ex = [(t, .wouldBeExecuted)]) ∧
      (setupChain P g cfg s spec Generated.setupOrder = .none → cfg.dry = false →
        (ex = [] ∨ ex = [(t, .fail)] ∨ ex = [(t, .success)])) := by
    refine ⟨?_, ?_, ?_⟩
    · intro hne
      have := p11 hne
      rw [this] at q8
      exact q8 hne
    · intro hn hd
      have := p12 hn hd
      rw [this] at q8
      exact q8 (by intro h; cases h)
    · intro hn hd
      rcases p13 hn hd with h | h
      · rw [h] at q8
        exact Or.inr (Or.inl (q8 (by intro h; cases h)))
      · rcases q9 h with h | h
        · exact Or.inr (Or.inr h)
        · exact Or.inl h
  have hl : (setupChain P g cfg s spec Generated.setupOrder ≠ .none → l = []) ∧
      (setupChain P g cfg s spec Generated.setupOrder = .none → cfg.dry = true → l = []) := by
    refine ⟨?_, ?_⟩
    · intro hne
      rcases p8 with h | h
      · exact h
      · exact absurd (p9 h).1 hne
    · intro _ hd
      rcases p8 with h | h
      · exact h
      · have := (p9 h).2; rw [hd] at this; cases this
  refine ⟨ex, l, ?_, fun hne => ⟨hex.1 hne, hl.1 hne⟩, fun hn hd => ⟨hex.2.1 hn hd, hl.2 hn hd⟩,
    fun hn hd => ⟨p8, hex.2.2 hn hd⟩⟩
  have hexid : ∀ e, e ∈ ex → e.1 = t := by
    intro e he
    by_cases hne : setupChain P g cfg s spec Generated.setupOrder = .none
    · by_cases hd : cfg.dry = true
      · rw [hex.2.1 hne hd] at he; simp at he; rw [he]
      · have hd' : cfg.dry = false := by simpa using hd
        rcases hex.2.2 hne hd' with h | h | h <;> rw [h] at he <;> simp at he <;> rw [he]
    · rw [hex.1 hne] at he; simp at he; rw [he]
  constructor
  · rw [hprot, q4, p4]
  · rw [hprot, q1, p7]
  · intro e he; simp [hexid e he]
  · intro a ha
    rcases p8 with h | h <;> rw [h] at ha <;> simp at ha
    simp [ha]
  · rw [hprot, q5, p1]
  · rw [hprot, q6, p2]
  · rw [hprot, q7, p3]
  · intro n hn
    rw [hprot, q2] at hn
    obtain ⟨hl', hp⟩ := p10 n hn
    exact ⟨t, spec, by rw [hl']; simp, hfind, hp⟩
  · intro n hn
    rw [hprot, q2]
    exact p6 n hn
  · intro k hk
    rw [hprot] at hk
    rw [← p5] at hk
    exact ⟨t, by simp, q3 k hk⟩
  · intro a ha
    left
    have hat := hexid _ ha
    simp only at hat
    subst hat
    -- the report is SKIP_PREVIOUS_FAILED only if the setup chain raised SkippedAncestorFailed
    have hr : setupChain P g cfg s spec Generated.setupOrder = .ancestorFailed := by
      by_cases hne : setupChain P g cfg s spec Generated.setupOrder = .none
      · by_cases hd : cfg.dry = true
        · rw [hex.2.1 hne hd] at ha; simp at ha
        · have hd' : cfg.dry = false := by simpa using hd
          rcases hex.2.2 hne hd' with h | h | h <;> rw [h] at ha <;> simp at ha
      · rw [hex.1 hne] at ha
        simp at ha
        revert ha
        cases setupChain P g cfg s spec Generated.setupOrder <;> simp [repOf]
    rcases setupChain_cases P g cfg s spec with ⟨_, h⟩ | ⟨_, _, h⟩ | ⟨_, _, h⟩
    · rw [h] at hr
      unfold skipRes at hr
      split at hr
      · cases hr
      · split at hr
        · cases hr
        · split at hr
          · rename_i hc; rw [hid] at hc; simpa using hc
          · cases hr
    · rw [h] at hr; cases hr
    · rw [h] at hr
      rcases execRes_range P g cfg.force s.wbeMarks s.w spec with h' | h' | h' | h' <;> rw [h'] at hr <;> cases hr

end EngineDry
end Pytask
