import PytaskProofs.Lemmas.EngineState
/-!
# Facts about the build graph that `create_dag_from_session` accepts

`GraphOK P g`: the graph contains the declared dependency / product edges, task vertices point to
their own products only, predecessors of tasks are node vertices, every product has one producer,
and the producer of a predecessor of `t` is a task-ancestor of `t`.
-/
namespace Pytask
namespace Engine

/-! ## `G` primitives -/

theorem mem_preds {g : G} {a b : Nat} : a ∈ g.preds b ↔ (a, b) ∈ g.edges := by
  unfold G.preds
  simp only [List.mem_map, List.mem_filter, beq_iff_eq]
  constructor
  · rintro ⟨e, ⟨he, h2⟩, h1⟩
    have : e = (a, b) := by cases e; simp_all
    exact this ▸ he
  · intro h; exact ⟨(a, b), ⟨h, rfl⟩, rfl⟩

theorem mem_succs {g : G} {a b : Nat} : b ∈ g.succs a ↔ (a, b) ∈ g.edges := by
  unfold G.succs
  simp only [List.mem_map, List.mem_filter, beq_iff_eq]
  constructor
  · rintro ⟨e, ⟨he, h2⟩, h1⟩
    have : e = (a, b) := by cases e; simp_all
    exact this ▸ he
  · intro h; exact ⟨(a, b), ⟨h, rfl⟩, rfl⟩

@[simp] theorem addNode_edges (g : G) (v : Nat) : (g.addNode v).edges = g.edges := by
  unfold G.addNode; split <;> rfl

theorem mem_addNode_nodes {g : G} {v x : Nat} : x ∈ (g.addNode v).nodes ↔ x ∈ g.nodes ∨ x = v := by
  unfold G.addNode
  split
  · rename_i h
    constructor
    · exact Or.inl
    · rintro (h' | rfl)
      · exact h'
      · simpa using h
  · simp

theorem mem_addEdge_edges {g : G} {u v : Nat} {e : Nat × Nat} :
    e ∈ (g.addEdge u v).edges ↔ e ∈ g.edges ∨ e = (u, v) := by
  unfold G.addEdge
  simp only
  split
  · rename_i h
    simp only [addNode_edges, List.contains_iff_mem] at h ⊢
    constructor
    · exact Or.inl
    · rintro (h' | rfl)
      · exact h'
      · exact h
  · simp

theorem mem_addEdge_nodes {g : G} {u v x : Nat} :
    x ∈ (g.addEdge u v).nodes ↔ x ∈ g.nodes ∨ x = u ∨ x = v := by
  unfold G.addEdge
  simp only
  split <;> simp [mem_addNode_nodes, or_assoc]

/-- Folding `addEdge` over a list: the edges are the old ones plus the listed ones. -/
theorem mem_foldl_addEdge {α} (f : α → Nat × Nat) : ∀ (l : List α) (g : G) (e : Nat × Nat),
    e ∈ (l.foldl (fun g a => g.addEdge (f a).1 (f a).2) g).edges ↔ e ∈ g.edges ∨ ∃ a ∈ l, e = f a
  | [], g, e => by simp
  | a :: l, g, e => by
    simp only [List.foldl_cons, List.mem_cons, exists_eq_or_imp]
    rw [mem_foldl_addEdge f l, mem_addEdge_edges]
    simp [or_assoc]

theorem mem_foldl_addEdge_nodes {α} (f : α → Nat × Nat) : ∀ (l : List α) (g : G) (x : Nat),
    x ∈ (l.foldl (fun g a => g.addEdge (f a).1 (f a).2) g).nodes ↔
      x ∈ g.nodes ∨ ∃ a ∈ l, x = (f a).1 ∨ x = (f a).2
  | [], g, e => by simp
  | a :: l, g, e => by
    simp only [List.foldl_cons, List.mem_cons, exists_eq_or_imp]
    rw [mem_foldl_addEdge_nodes f l, mem_addEdge_nodes]
    simp [or_assoc]

/-! ## `_create_dag_from_tasks` -/

/-- One round of the outer loop of `baseGraph`. -/
def addTask (g : G) (t : TaskSpec) : G :=
  let g := g.addNode (tv t.id)
  let g := t.deps.foldl (fun g d => g.addEdge (nv d) (tv t.id)) g
  t.prods.foldl (fun g p => g.addEdge (tv t.id) (nv p)) g

theorem baseGraph_eq (P : Project) : baseGraph P = P.tasks.foldl addTask G.empty := rfl

theorem mem_addTask_edges (g : G) (t : TaskSpec) (e : Nat × Nat) :
    e ∈ (addTask g t).edges ↔ e ∈ g.edges ∨ (∃ d ∈ t.deps, e = (nv d, tv t.id)) ∨ (∃ p ∈ t.prods, e = (tv t.id, nv p)) := by
  unfold addTask
  simp only
  have h1 := mem_foldl_addEdge (fun p => (tv t.id, nv p)) t.prods
  have h2 := mem_foldl_addEdge (fun d => (nv d, tv t.id)) t.deps
  simp only at h1 h2
  rw [h1, h2, addNode_edges]
  simp [or_assoc]

theorem mem_addTask_nodes (g : G) (t : TaskSpec) (x : Nat) :
    x ∈ (addTask g t).nodes ↔ x ∈ g.nodes ∨ x = tv t.id ∨ (∃ d ∈ t.deps, x = nv d) ∨ (∃ p ∈ t.prods, x = nv p) := by
  unfold addTask
  simp only
  have h1 := mem_foldl_addEdge_nodes (fun p => (tv t.id, nv p)) t.prods
  have h2 := mem_foldl_addEdge_nodes (fun d => (nv d, tv t.id)) t.deps
  simp only at h1 h2
  rw [h1, h2, mem_addNode_nodes]
  constructor
  · rintro (((h | h) | ⟨d, hd, h | h⟩) | ⟨p, hp, h | h⟩)
    · exact Or.inl h
    · exact Or.inr (Or.inl h)
    · exact Or.inr (Or.inr (Or.inl ⟨d, hd, h⟩))
    · exact Or.inr (Or.inl h)
    · exact Or.inr (Or.inl h)
    · exact Or.inr (Or.inr (Or.inr ⟨p, hp, h⟩))
  · rintro (h | h | ⟨d, hd, h⟩ | ⟨p, hp, h⟩)
    · exact Or.inl (Or.inl (Or.inl h))
    · exact Or.inl (Or.inl (Or.inr h))
    · exact Or.inl (Or.inr ⟨d, hd, Or.inl h⟩)
    · exact Or.inr ⟨p, hp, Or.inr h⟩

theorem mem_foldl_addTask_edges : ∀ (l : List TaskSpec) (g : G) (e : Nat × Nat),
    e ∈ (l.foldl addTask g).edges ↔ e ∈ g.edges ∨ ∃ t ∈ l,
      (∃ d ∈ t.deps, e = (nv d, tv t.id)) ∨ (∃ p ∈ t.prods, e = (tv t.id, nv p))
  | [], g, e => by simp
  | t :: l, g, e => by
    simp only [List.foldl_cons, List.mem_cons, exists_eq_or_imp]
    rw [mem_foldl_addTask_edges l, mem_addTask_edges]
    simp [or_assoc]

theorem mem_foldl_addTask_nodes : ∀ (l : List TaskSpec) (g : G) (x : Nat),
    x ∈ (l.foldl addTask g).nodes ↔ x ∈ g.nodes ∨ ∃ t ∈ l,
      x = tv t.id ∨ (∃ d ∈ t.deps, x = nv d) ∨ (∃ p ∈ t.prods, x = nv p)
  | [], g, e => by simp
  | t :: l, g, e => by
    simp only [List.foldl_cons, List.mem_cons, exists_eq_or_imp]
    rw [mem_foldl_addTask_nodes l, mem_addTask_nodes]
    simp [or_assoc]

/-- Edges of `_create_dag_from_tasks`: dependency → task and task → product, nothing else. -/
theorem mem_baseGraph_edges (P : Project) (e : Nat × Nat) :
    e ∈ (baseGraph P).edges ↔ ∃ t ∈ P.tasks,
      (∃ d ∈ t.deps, e = (nv d, tv t.id)) ∨ (∃ p ∈ t.prods, e = (tv t.id, nv p)) := by
  rw [baseGraph_eq, mem_foldl_addTask_edges]; simp [G.empty]

theorem mem_baseGraph_nodes (P : Project) (x : Nat) :
    x ∈ (baseGraph P).nodes ↔ ∃ t ∈ P.tasks,
      x = tv t.id ∨ (∃ d ∈ t.deps, x = nv d) ∨ (∃ p ∈ t.prods, x = nv p) := by
  rw [baseGraph_eq, mem_foldl_addTask_nodes]; simp [G.empty]

/-! ## `_modify_dag` -/

/-- An `after` edge: from a product `s` of the target `o` (an edge `o → s` of the base graph) to `t`. -/
def AfterEdge (P : Project) (g0 : G) (e : Nat × Nat) : Prop :=
  ∃ t ∈ P.tasks, ∃ o ∈ t.after, o ≠ t.id ∧ (tv o, e.1) ∈ g0.edges ∧ e.2 = tv t.id

/-- Invariant of the `_modify_dag` loops relative to the graph `g0` they started from. -/
structure ModInv (P : Project) (g0 g : G) : Prop where
  sup : ∀ e ∈ g0.edges, e ∈ g.edges
  new : ∀ e ∈ g.edges, e ∈ g0.edges ∨ AfterEdge P g0 e
  nodes : ∀ x ∈ g0.nodes, x ∈ g.nodes

theorem modInv_succs {P : Project} {g0 g : G} (hb : ∀ e ∈ g0.edges, isTaskV e.1 = true → isTaskV e.2 = false)
    (h : ModInv P g0 g) (o s : Nat) : s ∈ g.succs (tv o) ↔ s ∈ g0.succs (tv o) := by
  rw [mem_succs, mem_succs]
  constructor
  · intro he
    rcases h.new _ he with h0 | ⟨t, _, o', _, _, hs, ht⟩
    · exact h0
    · -- the source of an after edge is a successor of a task vertex, hence a node vertex
      have := hb _ hs (by simp)
      simp at this
  · exact h.sup _

theorem modifyDag_inv (P : Project) (g0 : G)
    (hb : ∀ e ∈ g0.edges, isTaskV e.1 = true → isTaskV e.2 = false) :
    ModInv P g0 (modifyDag P g0) := by
  unfold modifyDag
  -- generalise the list of tasks still to be processed
  suffices H : ∀ (l : List TaskSpec) (g : G), (∀ t ∈ l, t ∈ P.tasks) → ModInv P g0 g →
      ModInv P g0 (l.foldl (fun g t => t.after.foldl (fun g o =>
        if o == t.id then g else (g.succs (tv o)).foldl (fun g s => g.addEdge s (tv t.id)) g) g) g) from
    H P.tasks g0 (fun _ h => h) ⟨fun _ h => h, fun _ h => Or.inl h, fun _ h => h⟩
  intro l
  induction l with
  | nil => intro g _ h; exact h
  | cons t l ih =>
    intro g hl hg
    simp only [List.foldl_cons]
    apply ih _ (fun x hx => hl x (by simp [hx]))
    have ht : t ∈ P.tasks := hl t (by simp)
    -- middle loop over `t.after`
    suffices H2 : ∀ (os : List Nat) (g : G), (∀ o ∈ os, o ∈ t.after) → ModInv P g0 g →
        ModInv P g0 (os.foldl (fun g o =>
          if o == t.id then g else (g.succs (tv o)).foldl (fun g s => g.addEdge s (tv t.id)) g) g) from
      H2 t.after g (fun _ h => h) hg
    intro os
    induction os with
    | nil => intro g _ h; exact h
    | cons o os ih2 =>
      intro g hos hg
      simp only [List.foldl_cons]
      apply ih2 _ (fun x hx => hos x (by simp [hx]))
      have ho : o ∈ t.after := hos o (by simp)
      split
      · exact hg
      · rename_i hne
        have hne' : o ≠ t.id := by simpa using hne
        -- inner loop over the successors of the target (taken from `g` at loop entry)
        suffices H3 : ∀ (ss : List Nat) (g' : G), (∀ s ∈ ss, (tv o, s) ∈ g0.edges) → ModInv P g0 g' →
            ModInv P g0 (ss.foldl (fun g s => g.addEdge s (tv t.id)) g') from
          H3 _ g (fun s hs => mem_succs.1 ((modInv_succs hb hg o s).1 hs)) hg
        intro ss
        induction ss with
        | nil => intro g' _ h; exact h
        | cons s ss ih3 =>
          intro g' hss hg'
          simp only [List.foldl_cons]
          apply ih3 _ (fun x hx => hss x (by simp [hx]))
          refine ⟨fun e he => mem_addEdge_edges.2 (Or.inl (hg'.sup e he)), ?_,
                  fun x hx => mem_addEdge_nodes.2 (Or.inl (hg'.nodes x hx))⟩
          intro e he
          rcases mem_addEdge_edges.1 he with he | rfl
          · exact hg'.new e he
          · exact Or.inr ⟨t, ht, o, ho, hne', hss s (by simp), rfl⟩

/-! ## reachability: two steps back are ancestors -/

theorem mem_union {a b : List Nat} {x : Nat} : x ∈ G.union a b ↔ x ∈ a ∨ x ∈ b := by
  unfold G.union
  induction b generalizing a with
  | nil => simp
  | cons y b ih =>
    simp only [List.foldl_cons, List.mem_cons]
    rw [ih]
    split
    · rename_i h
      have : y ∈ a := by simpa using h
      constructor
      · rintro (h | h)
        · exact Or.inl h
        · exact Or.inr (Or.inr h)
      · rintro (h | rfl | h)
        · exact Or.inl h
        · exact Or.inl this
        · exact Or.inr h
    · simp [or_assoc]

theorem subset_stepBack (g : G) (s : List Nat) {x : Nat} (h : x ∈ s) : x ∈ g.stepBack s :=
  mem_union.2 (Or.inl h)

theorem preds_stepBack (g : G) (s : List Nat) {x y : Nat} (h : x ∈ s) (hy : y ∈ g.preds x) :
    y ∈ g.stepBack s :=
  mem_union.2 (Or.inr (List.mem_flatMap.2 ⟨x, h, hy⟩))

theorem subset_iter_stepBack (g : G) : ∀ (n : Nat) (s : List Nat) {x : Nat}, x ∈ s →
    x ∈ G.iter g.stepBack n s
  | 0, _, _, h => h
  | n+1, s, _, h => subset_iter_stepBack g n _ (subset_stepBack g s h)

/-- `a → b → c` makes `a` a (raw) ancestor of `c`. -/
theorem two_steps_ancRaw {g : G} {a b c : Nat} (h1 : (a, b) ∈ g.edges) (h2 : (b, c) ∈ g.edges) :
    a ∈ g.ancRaw c := by
  unfold G.ancRaw
  have hb : b ∈ g.preds c := mem_preds.2 h2
  cases hn : g.edges.length with
  | zero => simp [List.length_eq_zero_iff] at hn; rw [hn] at h1; cases h1
  | succ n =>
    simp only [G.iter]
    exact subset_iter_stepBack g n _ (preds_stepBack g _ hb (mem_preds.2 h1))

/-! ## the accepted graph -/

/-- Well-formedness of a collected project (guaranteed by collection, C13, and by how nodes are
identified): task ids are unique, a task does not list the same product twice, module files are
not products. -/
structure WF (P : Project) : Prop where
  ids : ∀ t ∈ P.tasks, ∀ u ∈ P.tasks, t.id = u.id → t = u
  prodsNodup : ∀ t ∈ P.tasks, t.prods.Nodup
  srcNotProd : ∀ t ∈ P.tasks, ∀ u ∈ P.tasks, t.src ∉ u.prods

structure GraphOK (P : Project) (g : G) : Prop where
  taskNode : ∀ t ∈ P.tasks, tv t.id ∈ g.nodes
  deps : ∀ t ∈ P.tasks, ∀ d ∈ t.deps, nv d ∈ g.preds (tv t.id)
  prods : ∀ t ∈ P.tasks, ∀ p ∈ t.prods, nv p ∈ g.succs (tv t.id)
  succs : ∀ t ∈ P.tasks, ∀ v ∈ g.succs (tv t.id), ∃ p ∈ t.prods, v = nv p
  predsOdd : ∀ t v, v ∈ g.preds (tv t) → isTaskV v = false
  uniqueProducer : ∀ t ∈ P.tasks, ∀ u ∈ P.tasks, ∀ p, p ∈ t.prods → p ∈ u.prods → t = u
  noSelf : ∀ t ∈ P.tasks, ∀ d ∈ t.deps, d ∉ t.prods
  producerAnc : ∀ t ∈ P.tasks, ∀ u ∈ P.tasks, ∀ p ∈ u.prods, nv p ∈ g.preds (tv t.id) → u.id ∈ taskAnc g t.id

theorem find?_of_mem {P : Project} (hwf : WF P) {t : TaskSpec} (ht : t ∈ P.tasks) :
    Project.find? P t.id = some t := by
  unfold Project.find?
  cases h : P.tasks.find? (fun s => s.id == t.id) with
  | none =>
    have := List.find?_eq_none.1 h t ht
    simp at this
  | some u =>
    have hu := List.mem_of_find?_eq_some h
    have hid : u.id = t.id := by simpa using List.find?_some h
    rw [hwf.ids u hu t ht hid]

theorem length_le_one_eq {l : List Nat} (h : ¬ l.length > 1) {a b : Nat} (ha : a ∈ l) (hb : b ∈ l) : a = b := by
  match l, h with
  | [], _ => cases ha
  | [x], _ => simp at ha hb; rw [ha, hb]
  | x :: y :: l, h => simp at h

theorem createDag_ok {P : Project} {cfg : Cfg} {g : G} {marks : List Nat}
    (h : createDag P cfg = .ok (g, marks)) :
    g = modifyDag P (baseGraph P) ∧ sharedProduct (baseGraph P) = false ∧ g.hasCycle = false := by
  unfold createDag at h
  simp only [Generated.dagPipeline, createDag.go] at h
  simp only [show ("create" == "create") = true by decide, show ("cycles" == "create") = false by decide,
    show ("cycles" == "cycles") = true by decide, show ("products" == "create") = false by decide,
    show ("products" == "cycles") = false by decide, show ("products" == "products") = true by decide,
    show ("modify" == "create") = false by decide, show ("modify" == "cycles") = false by decide,
    show ("modify" == "products") = false by decide, show ("modify" == "modify") = true by decide,
    show ("select" == "create") = false by decide, show ("select" == "cycles") = false by decide,
    show ("select" == "products") = false by decide, show ("select" == "modify") = false by decide,
    show ("select" == "select") = true by decide, if_true, Bool.false_eq_true, if_false] at h
  split at h
  · cases h
  · split at h
    · cases h
    · split at h
      · cases h
      · rename_i h1 h2 h3
        simp only [Except.ok.injEq, Prod.mk.injEq] at h
        exact ⟨h.1.symm, by simpa using h2, by rw [← h.1]; simpa using h3⟩

theorem graphOK_of_createDag {P : Project} {cfg : Cfg} {g : G} {marks : List Nat} (hwf : WF P)
    (h : createDag P cfg = .ok (g, marks)) : GraphOK P g := by
  obtain ⟨rfl, hshared, hcyc⟩ := createDag_ok h
  have hb : ∀ e ∈ (baseGraph P).edges, isTaskV e.1 = true → isTaskV e.2 = false := by
    intro e he h1
    obtain ⟨t, _, ⟨d, _, rfl⟩ | ⟨p, _, rfl⟩⟩ := (mem_baseGraph_edges P e).1 he
    · simp at h1
    · simp
  have hinv := modifyDag_inv P (baseGraph P) hb
  have hsucc := modInv_succs hb hinv
  -- successors of a task vertex in the base graph are its products
  have hbsucc : ∀ t ∈ P.tasks, ∀ v, (tv t.id, v) ∈ (baseGraph P).edges → ∃ p ∈ t.prods, v = nv p := by
    intro t ht v hv
    obtain ⟨u, hu, ⟨d, _, he⟩ | ⟨p, hp, he⟩⟩ := (mem_baseGraph_edges P _).1 hv
    · exact absurd (Prod.mk.inj he).1 (tv_ne_nv _ _)
    · have hid : t.id = u.id := tv_inj' (Prod.mk.inj he).1
      have := hwf.ids t ht u hu hid
      subst this
      exact ⟨p, hp, (Prod.mk.inj he).2⟩
  have huniq : ∀ t ∈ P.tasks, ∀ u ∈ P.tasks, ∀ p, p ∈ t.prods → p ∈ u.prods → t = u := by
    intro t ht u hu p hpt hpu
    have hnode : nv p ∈ (baseGraph P).nodes := (mem_baseGraph_nodes P _).2 ⟨t, ht, Or.inr (Or.inr ⟨p, hpt, rfl⟩)⟩
    unfold sharedProduct at hshared
    rw [List.any_eq_false] at hshared
    have := hshared _ hnode
    simp only [isTaskV_nv, Bool.not_false, Bool.true_and, decide_eq_true_eq] at this
    have e1 : tv t.id ∈ (baseGraph P).preds (nv p) :=
      mem_preds.2 ((mem_baseGraph_edges P _).2 ⟨t, ht, Or.inr ⟨p, hpt, rfl⟩⟩)
    have e2 : tv u.id ∈ (baseGraph P).preds (nv p) :=
      mem_preds.2 ((mem_baseGraph_edges P _).2 ⟨u, hu, Or.inr ⟨p, hpu, rfl⟩⟩)
    exact hwf.ids t ht u hu (tv_inj' (length_le_one_eq this e1 e2))
  -- no task consumes its own product: that would be a cycle, and the graph was accepted
  have hnoself : ∀ t ∈ P.tasks, ∀ d ∈ t.deps, d ∉ t.prods := by
    intro t ht d hd hp
    have e1 : (nv d, tv t.id) ∈ (modifyDag P (baseGraph P)).edges :=
      hinv.sup _ ((mem_baseGraph_edges P _).2 ⟨t, ht, Or.inl ⟨d, hd, rfl⟩⟩)
    have e2 : (tv t.id, nv d) ∈ (modifyDag P (baseGraph P)).edges :=
      hinv.sup _ ((mem_baseGraph_edges P _).2 ⟨t, ht, Or.inr ⟨d, hp, rfl⟩⟩)
    have hraw := two_steps_ancRaw e2 e1
    have hnode : tv t.id ∈ (modifyDag P (baseGraph P)).nodes :=
      hinv.nodes _ ((mem_baseGraph_nodes P _).2 ⟨t, ht, Or.inl rfl⟩)
    have : (modifyDag P (baseGraph P)).hasCycle = true := by
      unfold G.hasCycle
      exact List.any_eq_true.2 ⟨tv t.id, hnode, by simpa using hraw⟩
    rw [hcyc] at this; cases this
  refine ⟨?_, ?_, ?_, ?_, ?_, huniq, hnoself, ?_⟩
  · intro t ht
    exact hinv.nodes _ ((mem_baseGraph_nodes P _).2 ⟨t, ht, Or.inl rfl⟩)
  · intro t ht d hd
    exact mem_preds.2 (hinv.sup _ ((mem_baseGraph_edges P _).2 ⟨t, ht, Or.inl ⟨d, hd, rfl⟩⟩))
  · intro t ht p hp
    exact mem_succs.2 (hinv.sup _ ((mem_baseGraph_edges P _).2 ⟨t, ht, Or.inr ⟨p, hp, rfl⟩⟩))
  · intro t ht v hv
    exact hbsucc t ht v (mem_succs.1 ((hsucc t.id v).1 hv))
  · intro t v hv
    rcases hinv.new _ (mem_preds.1 hv) with h0 | ⟨t', _, o, _, _, hs, _⟩
    · obtain ⟨u, _, ⟨d, _, he⟩ | ⟨p, _, he⟩⟩ := (mem_baseGraph_edges P _).1 h0
      · rw [(Prod.mk.inj he).1]; simp
      · exact absurd (Prod.mk.inj he).2 (tv_ne_nv _ _)
    · exact hb _ hs (by simp)
  · intro t ht u hu p hp hpred
    -- `tv u → nv p → tv t` in the final graph
    have e1 : (tv u.id, nv p) ∈ (modifyDag P (baseGraph P)).edges :=
      hinv.sup _ ((mem_baseGraph_edges P _).2 ⟨u, hu, Or.inr ⟨p, hp, rfl⟩⟩)
    have e2 := mem_preds.1 hpred
    have hraw := two_steps_ancRaw e1 e2
    -- `u ≠ t`: otherwise `t` would consume its own product or be `after` itself
    have hne : u.id ≠ t.id := by
      intro hid
      have hut := hwf.ids u hu t ht hid
      subst hut
      rcases hinv.new _ e2 with h0 | ⟨t', ht', o, ho, hne, hs, htid⟩
      · obtain ⟨x, hx, ⟨d, hd, he⟩ | ⟨q, _, he⟩⟩ := (mem_baseGraph_edges P _).1 h0
        · have hxu := hwf.ids x hx u hu (tv_inj' (Prod.mk.inj he).2).symm
          subst hxu
          have : p = d := nv_inj (Prod.mk.inj he).1
          subst this
          exact hnoself x hx p hd hp
        · exact absurd (Prod.mk.inj he).1.symm (tv_ne_nv _ _)
      · -- after edge: `nv p` is a product of the target `o ≠ t`, so `p` has two producers
        simp only at hs htid
        have htt : t' = u := hwf.ids t' ht' u hu (tv_inj' htid).symm
        subst htt
        obtain ⟨x, hx, ⟨d, _, he⟩ | ⟨q, hq, he⟩⟩ := (mem_baseGraph_edges P _).1 hs
        · exact absurd (Prod.mk.inj he).1 (tv_ne_nv _ _)
        · have hox : o = x.id := tv_inj' (Prod.mk.inj he).1
          have hpq : p = q := nv_inj (Prod.mk.inj he).2
          subst hpq
          have := huniq x hx t' ht' p hq hp
          subst this
          exact hne hox
    unfold taskAnc G.anc
    simp only [List.mem_map, List.mem_filter, bne_iff_ne, ne_eq]
    exact ⟨tv u.id, ⟨⟨hraw, fun h => hne (tv_inj' h)⟩, by simp⟩, by simp⟩

end Engine
end Pytask
