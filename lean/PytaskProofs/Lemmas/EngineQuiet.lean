import PytaskProofs.Lemmas.EnginePersist
import PytaskProofs.Lemmas.EngineAll
/-!
Frame lemmas for C17 ("quiet afterwards" at build level): a task writes only its own products, the
only tasks that can write a neighbour of `t` are `t` itself and its task-ancestors (unique
producers, from `create_dag` having accepted the graph), hence the states `t` sees are untouched by
every other task — and by an ancestor that does not execute. Plus: where `skip_ancestor_failed` /
`would_be_executed` marks come from.
-/
namespace Pytask
namespace Engine
open Sorter

/-! ## files: a body writes its own products only -/

theorem find_filter_ne_fs (m : FS) (k k' : Nat) (h : k' ≠ k) :
    (m.filter (fun e => !(e.1 == k))).find? (fun e => e.1 == k') = m.find? (fun e => e.1 == k') := by
  induction m with
  | nil => rfl
  | cons e m ih =>
    by_cases h1 : e.1 = k
    · have hb : (e.1 == k) = true := by simpa using h1
      have h2 : (e.1 == k') = false := by simpa using fun e' => h (e'.symm.trans h1)
      simp only [List.filter_cons, hb, Bool.not_true, Bool.false_eq_true, if_false, List.find?_cons, h2, ih]
    · have hb : (e.1 == k) = false := by simpa using h1
      by_cases h2 : e.1 = k'
      · have hb2 : (e.1 == k') = true := by simpa using h2
        simp only [List.filter_cons, hb, Bool.not_false, if_true, List.find?_cons, hb2]
      · have hb2 : (e.1 == k') = false := by simpa using h2
        simp only [List.filter_cons, hb, Bool.not_false, if_true, List.find?_cons, hb2, ih]

theorem lookup_insert_fs_ne (m : FS) {k k' : Nat} (v : Nat) (h : k' ≠ k) : lookup (insert m k v) k' = lookup m k' := by
  unfold insert lookup
  have hb : (k == k') = false := by simpa using fun e => h e.symm
  simp only [List.find?_cons, hb]
  rw [find_filter_ne_fs m k k' h]

theorem foldl_write_frame (q : Nat) (val : Nat → Nat) (sk : Option Nat) : ∀ (l : List (Nat × Nat)) (fs : FS),
    (∀ e ∈ l, e.1 ≠ q) →
    lookup (l.foldl (fun fs (x : Nat × Nat) => if some x.2 == sk then fs else insert fs x.1 (val x.2)) fs) q = lookup fs q
  | [], _, _ => rfl
  | e :: l, fs, h => by
    simp only [List.foldl_cons]
    rw [foldl_write_frame q val sk l _ (fun e' he' => h e' (by simp [he']))]
    split
    · rfl
    · exact lookup_insert_fs_ne fs _ (fun e' => h e (by simp) e'.symm)

theorem mem_zipIdx_fst' {α} : ∀ (l : List α) (n : Nat) (e : α × Nat), e ∈ l.zipIdx n → e.1 ∈ l
  | [], _, _, h => by simp at h
  | x :: xs, n, e, h => by
    simp only [List.zipIdx_cons, List.mem_cons] at h
    rcases h with rfl | h
    · simp
    · exact List.mem_cons_of_mem _ (mem_zipIdx_fst' xs (n + 1) e h)

theorem runBody_frame' (F : BodyFn) (t : TaskSpec) (fs : FS) (q : Nat) (hq : q ∉ t.prods) :
    lookup (runBody F t fs).1 q = lookup fs q := by
  have key : ∀ sk, lookup ((t.prods.zipIdx).foldl (fun acc (x : Nat × Nat) => if some x.2 == sk then acc else
      insert acc x.1 (F t.id x.2 (lookup fs t.src) (t.deps.map (lookup fs)))) fs) q = lookup fs q := by
    intro sk
    exact foldl_write_frame q (fun i => F t.id i (lookup fs t.src) (t.deps.map (lookup fs))) sk _ fs
      (fun e he => fun e' => hq (e' ▸ mem_zipIdx_fst' _ _ e he))
  unfold runBody
  simp only []
  split
  · rfl
  · cases t.beh <;> simp only [] <;> first | rfl | exact key _

variable {F : BodyFn} {P : Project} {g : G} {cfg : Cfg}

theorem runPhases_fs_frame (s : Sess) (t : TaskSpec) (q : Nat) (hq : q ∉ t.prods) :
    lookup (runPhases F P g cfg s t).2.w.fs q = lookup s.w.fs q := by
  unfold runPhases
  split
  · split
    · rfl
    · simp only []
      split <;> (try split) <;> exact runBody_frame' F t s.w.fs q hq
  · rfl

theorem append_singleton_ne {α} (l : List α) (a : α) : l ++ [a] ≠ l := by
  intro h
  have := congrArg List.length h
  simp at this

theorem runPhases_run_exact (s : Sess) (t : TaskSpec)
    (hn : setupChain P g cfg s t Generated.setupOrder = .none) (hd : cfg.dry = false) :
    (runPhases F P g cfg s t).2.log = (if behInvokes t.beh then s.log ++ [t.id] else s.log) ∧
    (runPhases F P g cfg s t).2.w.fs = (runBody F t s.w.fs).1 := by
  unfold runPhases
  rw [hn]
  simp only [hd, Bool.false_eq_true, if_false]
  split <;> (try split) <;> exact ⟨rfl, rfl⟩

theorem runPhases_fs_nolog (s : Sess) (t : TaskSpec) (h : (runPhases F P g cfg s t).2.log = s.log) :
    (runPhases F P g cfg s t).2.w.fs = s.w.fs := by
  by_cases hn : setupChain P g cfg s t Generated.setupOrder = .none
  · cases hd : cfg.dry
    · obtain ⟨e1, e2⟩ := runPhases_run_exact (F := F) s t hn hd
      rw [e2]
      rw [e1] at h
      have hl : t.beh = .loadFails := by
        cases hbeh : t.beh <;> simp [hbeh, behInvokes] at h ⊢ <;> exact absurd h (append_singleton_ne _ _)
      unfold runBody
      rw [hl]
      simp only []
      split <;> rfl
    · unfold runPhases
      rw [hn]
      simp [hd]
  · rw [runPhases_of_raise rfl hn]

theorem processReport_fs' (s : Sess) (t : TaskSpec) (r : Raised) : (processReport P g cfg s t r).w.fs = s.w.fs := by
  cases r <;> simp only [processReport] <;> (try split) <;> first | rfl | exact recordStates_fs

theorem protocol_fs_frame' (s : Sess) (t : TaskSpec) (q : Nat) (hq : q ∉ t.prods) :
    lookup (protocol F P g cfg s t).w.fs q = lookup s.w.fs q := by
  unfold protocol
  simp only []
  rw [processReport_fs']
  exact runPhases_fs_frame s t q hq

theorem protocol_fs_nolog (s : Sess) (t : TaskSpec) (h : (protocol F P g cfg s t).log = s.log) :
    (protocol F P g cfg s t).w.fs = s.w.fs := by
  unfold protocol at h ⊢
  simp only [processReport_log] at h
  simp only []
  rw [processReport_fs']
  exact runPhases_fs_nolog s t h

/-! ## unique producers: who can write a neighbour of `t` -/

theorem mem_addEdge_edges_cases {g : G} {a b : Nat} {e : Nat × Nat} (h : e ∈ (g.addEdge a b).edges) :
    e ∈ g.edges ∨ e = (a, b) := by
  unfold G.addEdge at h
  simp only [] at h
  split at h
  · rw [addNode_edges, addNode_edges] at h; exact .inl h
  · simp only [List.mem_append, addNode_edges, List.mem_singleton] at h
    exact h

theorem foldl_edges_cases {α} (f : G → α → G) (Q : Nat × Nat → Prop)
    (hf : ∀ g x e, e ∈ (f g x).edges → e ∈ g.edges ∨ Q e) :
    ∀ (l : List α) (g : G) (e : Nat × Nat), e ∈ (l.foldl f g).edges → e ∈ g.edges ∨ Q e
  | [], _, _, h => .inl h
  | x :: xs, g, e, h => by
    rcases foldl_edges_cases f Q hf xs (f g x) e h with h | h
    · exact hf g x e h
    · exact .inr h

/-- `_modify_dag` only adds edges that end in a task. -/
theorem modifyDag_edge_cases (P : Project) (g : G) (e : Nat × Nat) (h : e ∈ (modifyDag P g).edges) :
    e ∈ g.edges ∨ isTaskV e.2 = true := by
  rw [modifyDag_eq] at h
  refine foldl_edges_cases _ (fun e => isTaskV e.2 = true) ?_ _ _ _ h
  intro g t e h
  refine foldl_edges_cases _ (fun e => isTaskV e.2 = true) ?_ _ _ _ h
  intro g o e h
  unfold afterStep at h
  split at h
  · exact .inl h
  · refine foldl_edges_cases _ (fun e => isTaskV e.2 = true) ?_ _ _ _ h
    intro g s e h
    rcases mem_addEdge_edges_cases h with h | rfl
    · exact .inl h
    · exact .inr (isTaskV_tv _)

def EdgesIn (g : G) : Prop := ∀ e ∈ g.edges, e.2 ∈ g.nodes

theorem edgesIn_addNode {g : G} (h : EdgesIn g) (v : Nat) : EdgesIn (g.addNode v) := by
  intro e he
  rw [addNode_edges] at he
  exact mem_addNode_mono _ (h e he)

theorem edgesIn_addEdge {g : G} (h : EdgesIn g) (a b : Nat) : EdgesIn (g.addEdge a b) := by
  intro e he
  rcases mem_addEdge_edges_cases he with he | rfl
  · exact mem_addEdge_mono _ _ (h e he)
  · unfold G.addEdge
    simp only []
    split <;> exact mem_addNode_self _ _

theorem foldl_inv {α} (f : G → α → G) (Q : G → Prop) (hf : ∀ g x, Q g → Q (f g x)) :
    ∀ (l : List α) (g : G), Q g → Q (l.foldl f g)
  | [], _, h => h
  | x :: xs, g, h => foldl_inv f Q hf xs (f g x) (hf g x h)

theorem edgesIn_baseGraph (P : Project) : EdgesIn (baseGraph P) := by
  rw [baseGraph_eq]
  refine foldl_inv _ EdgesIn ?_ _ _ (by intro e he; cases he)
  intro g t h
  unfold baseStep
  simp only []
  refine foldl_inv _ EdgesIn (fun g p h => edgesIn_addEdge h _ _) _ _ ?_
  refine foldl_inv _ EdgesIn (fun g p h => edgesIn_addEdge h _ _) _ _ ?_
  exact edgesIn_addNode h _

theorem createDag_noshared {P : Project} {cfg : Cfg} {g : G} {marks : List Nat}
    (h : createDag P cfg = .ok (g, marks)) : sharedProduct (baseGraph P) = false := by
  simp only [createDag, Generated.dagPipeline, createDag.go] at h
  simp at h
  split at h
  · cases h
  split at h
  · cases h
  rename_i hs
  simpa using hs

theorem unique_pred {g : G} (hs : sharedProduct g = false) {v a b : Nat} (hv : v ∈ g.nodes) (hnt : isTaskV v = false)
    (ha : (a, v) ∈ g.edges) (hb : (b, v) ∈ g.edges) : a = b := by
  unfold sharedProduct at hs
  have := (List.any_eq_false.1 hs) v hv
  simp only [hnt, Bool.not_false, Bool.true_and, decide_eq_true_eq] at this
  have ha' := G.mem_preds.2 ha
  have hb' := G.mem_preds.2 hb
  generalize g.preds v = l at this ha' hb'
  match l, this, ha', hb' with
  | [x], _, ha', hb' =>
    simp at ha' hb'
    rw [ha', hb']
  | x :: y :: r, h, _, _ => simp at h

theorem nv_of_not_isTaskV {v : Nat} (h : isTaskV v = false) : nv (v / 2) = v := by
  unfold isTaskV at h; unfold nv
  have : v % 2 ≠ 0 := by simpa using h
  omega

theorem isTaskV_nv' (n : Nat) : isTaskV (nv n) = false := by unfold isTaskV nv; simp

theorem find?_mem' {P : Project} {t : Nat} {spec : TaskSpec} (h : Project.find? P t = some spec) : spec ∈ P.tasks := by
  unfold Project.find? at h
  exact List.mem_of_find?_eq_some h

/-- The only tasks that can write a node next to `t` are `t` itself and its task-ancestors: a
product has a unique producer (`create_dag` rejected shared products), and the producer of a
dependency — or of an `after` target's product — precedes `t` in the graph. -/
theorem writer_of_neighbour {marks : List Nat} (hd : createDag P cfg = .ok (g, marks)) {x : TaskSpec}
    (hx : x ∈ P.tasks) {t q : Nat} (hq : q ∈ x.prods) (hv : nv q ∈ neighbours g t) :
    x.id = t ∨ x.id ∈ taskAnc g t := by
  have hg := (createDag_ok hd).1
  have e0 := baseGraph_prod_edge hx hq
  have e1 : (tv x.id, nv q) ∈ g.edges := by rw [hg]; exact modifyDag_edges_mono P _ _ e0
  unfold neighbours at hv
  simp only [List.mem_append, List.mem_singleton] at hv
  rcases hv with (hv | hv) | hv
  · have e2 := G.mem_preds.1 hv
    by_cases e : x.id = t
    · exact .inl e
    · exact .inr (mem_taskAnc.2 ⟨.cons e1 (.single e2), e⟩)
  · exfalso
    have := isTaskV_nv' q
    rw [hv, isTaskV_tv] at this
    cases this
  · have e2 := G.mem_succs.1 hv
    rw [hg] at e2
    rcases modifyDag_edge_cases P _ _ e2 with e2 | e2
    · have hn := edgesIn_baseGraph P _ e2
      left
      exact tv_injective (unique_pred (createDag_noshared hd) hn (isTaskV_nv' q) e0 e2)
    · simp only [isTaskV_nv'] at e2
      cases e2

/-- No task writes the source file of a task. -/
def SrcSafe (P : Project) : Prop := ∀ y ∈ P.tasks, ∀ x ∈ P.tasks, y.src ∉ x.prods

/-- The protocol of a task other than `t` leaves every state that `t` looks at untouched, unless
that task is an ancestor of `t` that executes. -/
theorem protocol_nbr_frame {marks : List Nat} (hd : createDag P cfg = .ok (g, marks)) (hsrc : SrcSafe P)
    (s : Sess) {x : TaskSpec} (hx : x ∈ P.tasks) {t : Nat} (hne : x.id ≠ t)
    (h : x.id ∉ taskAnc g t ∨ (protocol F P g cfg s x).log = s.log) :
    ∀ v ∈ neighbours g t, stateOf P (protocol F P g cfg s x).w v = stateOf P s.w v := by
  intro v hv
  by_cases hl : (protocol F P g cfg s x).log = s.log
  · exact stateOf_fs (protocol_fs_nolog s x hl) v
  · have hna : x.id ∉ taskAnc g t := h.resolve_right hl
    unfold stateOf
    by_cases htv : isTaskV v = true
    · simp only [htv, if_true]
      cases hf : Project.find? P (v / 2) with
      | none => rfl
      | some y =>
        simp only []
        exact protocol_fs_frame' s x y.src (hsrc y (find?_mem' hf) x hx)
    · have htv' : isTaskV v = false := by simpa using htv
      simp only [htv', Bool.false_eq_true, if_false]
      apply protocol_fs_frame' s x
      intro hq
      rcases writer_of_neighbour hd hx hq (by rw [nv_of_not_isTaskV htv']; exact hv) with e | e
      · exact hne e
      · exact hna e

theorem Steps.nbr_frame {marks : List Nat} (hd : createDag P cfg = .ok (g, marks)) (hsrc : SrcSafe P)
    {picks : List Nat} {s s' : Sess} (h : Steps F P g cfg s picks s') {t : Nat} (ht : t ∉ picks)
    (hanc : ∀ u ∈ picks, u ∈ taskAnc g t → u ∉ s'.log) :
    ∀ v ∈ neighbours g t, stateOf P s'.w v = stateOf P s.w v := by
  induction h with
  | nil => exact fun _ _ => rfl
  | @cons s u spec ts s' hf hs ih =>
    intro v hv
    have hid := find?_id hf
    rw [ih (fun h => ht (List.mem_cons_of_mem _ h)) (fun a ha => hanc a (List.mem_cons_of_mem _ ha)) v hv]
    apply protocol_nbr_frame hd hsrc s (find?_mem' hf) (fun e => ht (by rw [← e, hid]; exact List.mem_cons_self)) _ v hv
    by_cases ha : spec.id ∈ taskAnc g t
    · right
      have hnl : u ∉ s'.log := hanc u List.mem_cons_self (hid ▸ ha)
      rcases protocol_log F P g cfg s spec with hl | hl
      · exact hl
      · exfalso
        exact hnl (hs.log_mono u (by rw [hl, hid]; simp))
    · exact .inl ha

/-! ## where `skip_ancestor_failed` and `would_be_executed` marks come from -/

def MarksOrigin (g : G) (s : Sess) : Prop :=
  (∀ x ∈ s.failMarks, ∃ a, (a, Outcome.fail) ∈ s.reports ∧ x ∈ taskDesc g a) ∧
  (∀ x ∈ s.wbeMarks, ∃ a, (a, Outcome.wouldBeExecuted) ∈ s.reports ∧ x ∈ taskDesc g a)

theorem processReport_marksOrigin (s : Sess) (t : TaskSpec) (r : Raised) (h : MarksOrigin g s) :
    MarksOrigin g (processReport P g cfg s t r) := by
  obtain ⟨h1, h2⟩ := h
  have up1 : ∀ (o : Outcome) x, x ∈ s.failMarks → ∃ a, (a, Outcome.fail) ∈ s.reports ++ [(t.id, o)] ∧ x ∈ taskDesc g a :=
    fun o x hx => by obtain ⟨a, ha, hd⟩ := h1 x hx; exact ⟨a, by simp [ha], hd⟩
  have up2 : ∀ (o : Outcome) x, x ∈ s.wbeMarks → ∃ a, (a, Outcome.wouldBeExecuted) ∈ s.reports ++ [(t.id, o)] ∧ x ∈ taskDesc g a :=
    fun o x hx => by obtain ⟨a, ha, hd⟩ := h2 x hx; exact ⟨a, by simp [ha], hd⟩
  cases r <;> simp only [processReport, MarksOrigin]
  case none =>
    by_cases hok : (recordStates P g cfg s.w t.id).2 = true
    · simp only [hok, if_true]; exact ⟨up1 _, up2 _⟩
    · simp only [hok]; exact ⟨h1, h2⟩
  case error =>
    refine ⟨fun x hx => ?_, up2 _⟩
    simp only [markAll, List.mem_append] at hx
    rcases hx with hx | hx
    · exact up1 _ x hx
    · exact ⟨t.id, by simp, hx⟩
  case wouldBeExecuted =>
    refine ⟨up1 _, fun x hx => ?_⟩
    simp only [markAll, List.mem_append] at hx
    rcases hx with hx | hx
    · exact up2 _ x hx
    · exact ⟨t.id, by simp, hx⟩
  all_goals exact ⟨up1 _, up2 _⟩

theorem protocol_marksOrigin (s : Sess) (t : TaskSpec) (h : MarksOrigin g s) :
    MarksOrigin g (protocol F P g cfg s t) := by
  obtain ⟨_, f2, f3, f4, _⟩ := runPhases_fields F P g cfg s t
  apply processReport_marksOrigin
  unfold MarksOrigin
  rw [f2, f3, f4]
  exact h

theorem Steps.marksOrigin {picks : List Nat} {s s' : Sess} (h : Steps F P g cfg s picks s') (h0 : MarksOrigin g s) :
    MarksOrigin g s' := by
  induction h with
  | nil => exact h0
  | cons _ _ ih => exact ih (protocol_marksOrigin _ _ h0)

/-- A task reported PERSISTENCE was persisted: no skip mark, no failed ancestor, and the persist
implementation raised. -/
theorem protocol_persistence_report {s : Sess} {t : TaskSpec}
    (h : (t.id, Outcome.persistence) ∈ (protocol F P g cfg s t).reports) (hn : (t.id, Outcome.persistence) ∉ s.reports) :
    (¬ SkipCond s t ∧ t.id ∉ s.failMarks) ∧ PersistCond P g s t := by
  obtain ⟨_, _, _, f4, _⟩ := runPhases_fields F P g cfg s t
  apply runPhases_persisted_iff.1
  have h' : (t.id, Outcome.persistence) ∈ (processReport P g cfg (runPhases F P g cfg s t).2 t (runPhases F P g cfg s t).1).reports := h
  rcases processReport_reports P g cfg (runPhases F P g cfg s t).2 t (runPhases F P g cfg s t).1 with e | ⟨_, e⟩
  · rw [e, f4] at h'
    simp only [List.mem_append, List.mem_singleton, Prod.mk.injEq, true_and] at h'
    rcases h' with h' | h'
    · exact absurd h' hn
    · revert h'
      cases (runPhases F P g cfg s t).1 <;> simp [outcomeOf]
  · rw [e, f4] at h'
    exact absurd h' hn

end Engine
end Pytask
