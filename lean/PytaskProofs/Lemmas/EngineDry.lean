import PytaskModel.Engine
import PytaskProofs.Lemmas.EngineOrder
/-! Dry-run lemmas for the build loop of M6 (property C10), part 1: a dry run changes nothing. -/
namespace Pytask
namespace EngineDry
open Engine Sorter

/-- `update_states_in_database` returns at once in a dry-run (fix 8d652c5). -/
theorem recordStates_dry (P : Project) (g : G) (cfg : Cfg) (w : World) (t : Nat) (hd : cfg.dry = true) :
    recordStates P g cfg w t = (w, true) := by
  simp [recordStates, hd]

/-- In a dry-run the three phases leave the session untouched: `pytask_execute_task` raises
`WouldBeExecuted` before the task function is called. -/
theorem runPhases_dry (F : BodyFn) (P : Project) (g : G) (cfg : Cfg) (s : Sess) (t : TaskSpec)
    (hd : cfg.dry = true) : (runPhases F P g cfg s t).2 = s := by
  unfold runPhases
  split
  · simp [hd]
  · rfl

/-- In a dry-run the outcome of the phases is never "ran to completion". -/
theorem runPhases_dry_ne_none (F : BodyFn) (P : Project) (g : G) (cfg : Cfg) (s : Sess) (t : TaskSpec)
    (hd : cfg.dry = true) : (runPhases F P g cfg s t).1 ≠ Raised.none := by
  unfold runPhases
  split
  · simp [hd]
  · rename_i r hr; intro h; exact hr (by simpa using h)

theorem processReport_dry_w (P : Project) (g : G) (cfg : Cfg) (s : Sess) (t : TaskSpec) (r : Raised)
    (hd : cfg.dry = true) : (processReport P g cfg s t r).w = s.w := by
  unfold processReport
  cases r <;> simp only [recordStates_dry P g cfg s.w t.id hd] <;> rfl

theorem processReport_dry_crashed (P : Project) (g : G) (cfg : Cfg) (s : Sess) (t : TaskSpec) (r : Raised)
    (hd : cfg.dry = true) : (processReport P g cfg s t r).crashed = s.crashed ∨ (processReport P g cfg s t r).crashed = false := by
  unfold processReport
  cases r <;> simp only [recordStates_dry P g cfg s.w t.id hd] <;> simp

theorem protocol_dry (F : BodyFn) (P : Project) (g : G) (cfg : Cfg) (s : Sess) (t : TaskSpec)
    (hd : cfg.dry = true) : (protocol F P g cfg s t).w = s.w ∧ (protocol F P g cfg s t).log = s.log := by
  unfold protocol
  simp only [processReport_log, processReport_dry_w P g cfg _ t _ hd, runPhases_dry F P g cfg s t hd, and_self]

theorem buildLoop_dry (F : BodyFn) (P : Project) (g : G) (cfg : Cfg) (hd : cfg.dry = true) :
    ∀ (picks : List Nat) (so : Sorter) (s : Sess) (so' : Sorter) (s' : Sess),
      buildLoop F P g cfg so s picks = .ok (so', s') → s'.w = s.w ∧ s'.log = s.log
  | [], so, s, so', s', hb => by
    simp only [buildLoop, Except.ok.injEq, Prod.mk.injEq] at hb
    obtain ⟨_, rfl⟩ := hb
    exact ⟨rfl, rfl⟩
  | t :: ts, so, s, so', s', hb => by
    unfold buildLoop at hb
    split at hb
    · cases hb
    split at hb
    · cases hb
    split at hb
    · cases hb
    rename_i spec _
    obtain ⟨h1, h2⟩ := buildLoop_dry F P g cfg hd ts _ _ so' s' hb
    obtain ⟨p1, p2⟩ := protocol_dry F P g cfg s spec hd
    exact ⟨h1.trans p1, h2.trans p2⟩

/-- Case analysis of a `build` that returned: either the DAG / the sorter was rejected (nothing ran), or the build loop ran. -/
theorem build_cases (F : BodyFn) (P : Project) (cfg : Cfg) (w : World) (picks : List Nat) (r : Result)
    (hb : build F P cfg w picks = .ok r) :
    (((∃ e, createDag P cfg = .error e) ∨
        (∃ g marks e, createDag P cfg = .ok (g, marks) ∧ fromDag g isTaskV (prioFn P) = .error e)) ∧
      r.w = w ∧ r.log = [] ∧ r.reports = []) ∨
    ∃ g marks so so' s, createDag P cfg = .ok (g, marks) ∧ fromDag g isTaskV (prioFn P) = .ok so ∧
      buildLoop F P g cfg so { w := w, skipMarks := marks } picks = .ok (so', s) ∧
      r.reports = s.reports ∧ r.log = s.log ∧ r.w = s.w ∧
      r.complete = (s.stop || s.crashed || !so'.isActive) := by
  unfold build at hb
  split at hb
  · rename_i e he
    cases hb; exact Or.inl ⟨Or.inl ⟨e, he⟩, rfl, rfl, rfl⟩
  · rename_i g marks hdag
    split at hb
    · rename_i e he
      cases hb; exact Or.inl ⟨Or.inr ⟨g, marks, e, hdag, he⟩, rfl, rfl, rfl⟩
    · rename_i so hso
      simp only [] at hb
      generalize hl : buildLoop F P g cfg so { w := w, skipMarks := marks } picks = res at hb
      match res, hb with
      | .error e, hb => cases hb
      | .ok (so', s), hb =>
        cases hb
        exact Or.inr ⟨g, marks, so, so', s, hdag, hso, hl, rfl, rfl, rfl, rfl⟩

/-- A dry-run build: the resulting world is the initial world and no body was invoked. -/
theorem build_dry (F : BodyFn) (P : Project) (cfg : Cfg) (w : World) (picks : List Nat) (r : Result)
    (hd : cfg.dry = true) (hb : build F P cfg w picks = .ok r) : r.w = w ∧ r.log = [] := by
  rcases build_cases F P cfg w picks r hb with ⟨_, h1, h2, _⟩ | ⟨g, marks, so, so', s, _, _, hl, _, h2, h3, _⟩
  · exact ⟨h1, h2⟩
  · obtain ⟨a, b⟩ := buildLoop_dry F P g cfg hd picks _ _ so' s hl
    exact ⟨h3.trans a, h2.trans b⟩

end EngineDry
end Pytask
