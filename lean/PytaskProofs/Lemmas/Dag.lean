import PytaskModel.Engine
import PytaskProofs.Lemmas.Graph
import Mathlib.Logic.Relation
/-!
# The task graph of M6 against the declarations it is built from (used by C09)

**Spec level** (no graph construction involved): `SpecEdge P` relates the vertices `Vtx.task id` / `Vtx.node id`
through the three declared relations — *depends on*, *produces*, *after*. `IllFormed P` = a closed chain
of such declarations, or two tasks with different ids declaring one product.

**Code level**: `CodeEdge P` is the same relation except that an `after` declaration only counts when the
named task has at least one product — that is what `_modify_dag` implements (finding F1).

**Link**: `createDag_error_iff : (∃ e, createDag P cfg = .error e) ↔ CodeIllFormed P`, for every project.
-/
namespace Pytask
namespace Engine
open G Relation

/-! ### spec-level definitions -/

inductive Vtx
  | task (id : Nat)
  | node (id : Nat)
deriving DecidableEq, Repr

/-- One declared relation between a task and a node, or between two tasks. Direction = "must come before".
A task naming itself in `after` is no relation (an `after` expression may match the declaring task; the code
discards it: `signatures.discard(task_signature)`); an `after` naming an id that no task has can never lie on a
closed chain, so no existence condition is needed. -/
inductive SpecEdge (P : Project) : Vtx → Vtx → Prop
  | dep {t : TaskSpec} {d : Nat} : t ∈ P.tasks → d ∈ t.deps → SpecEdge P (.node d) (.task t.id)
  | prod {t : TaskSpec} {p : Nat} : t ∈ P.tasks → p ∈ t.prods → SpecEdge P (.task t.id) (.node p)
  | after {t : TaskSpec} {o : Nat} : t ∈ P.tasks → o ∈ t.after → o ≠ t.id → SpecEdge P (.task o) (.task t.id)

/-- The named task exists and declares at least one product. -/
def HasProduct (P : Project) (o : Nat) : Prop := ∃ u ∈ P.tasks, u.id = o ∧ u.prods ≠ []

/-- What the code implements: `after` is routed through the products of the named task. -/
inductive CodeEdge (P : Project) : Vtx → Vtx → Prop
  | dep {t : TaskSpec} {d : Nat} : t ∈ P.tasks → d ∈ t.deps → CodeEdge P (.node d) (.task t.id)
  | prod {t : TaskSpec} {p : Nat} : t ∈ P.tasks → p ∈ t.prods → CodeEdge P (.task t.id) (.node p)
  | after {t : TaskSpec} {o : Nat} : t ∈ P.tasks → o ∈ t.after → o ≠ t.id → HasProduct P o →
      CodeEdge P (.task o) (.task t.id)

def SpecCycle (P : Project) : Prop := ∃ v, TransGen (SpecEdge P) v v
def CodeCycle (P : Project) : Prop := ∃ v, TransGen (CodeEdge P) v v

/-- Two tasks (different ids) declare the same product node. -/
def SharedProduct (P : Project) : Prop :=
  ∃ t1 ∈ P.tasks, ∃ t2 ∈ P.tasks, t1.id ≠ t2.id ∧ ∃ n, n ∈ t1.prods ∧ n ∈ t2.prods

/-- **Ill-formed task graph** (property C09), on the declarations only. -/
def IllFormed (P : Project) : Prop := SpecCycle P ∨ SharedProduct P

/-- Ill-formedness as far as the current code sees it. -/
def CodeIllFormed (P : Project) : Prop := CodeCycle P ∨ SharedProduct P

/-- Every `after` declaration names a task that has a product (outside the F1 class). -/
def AfterTargetsHaveProducts (P : Project) : Prop :=
  ∀ t ∈ P.tasks, ∀ o ∈ t.after, o ≠ t.id → HasProduct P o

instance (P : Project) (o : Nat) : Decidable (HasProduct P o) := by
  unfold HasProduct; infer_instance

instance (P : Project) : Decidable (AfterTargetsHaveProducts P) := by
  unfold AfterTargetsHaveProducts; infer_instance

theorem CodeEdge.spec {P : Project} {a b : Vtx} (h : CodeEdge P a b) : SpecEdge P a b := by
  cases h with
  | dep h1 h2 => exact .dep h1 h2
  | prod h1 h2 => exact .prod h1 h2
  | after h1 h2 h3 _ => exact .after h1 h2 h3

theorem SpecEdge.code {P : Project} (hall : AfterTargetsHaveProducts P) {a b : Vtx} (h : SpecEdge P a b) :
    CodeEdge P a b := by
  cases h with
  | dep h1 h2 => exact .dep h1 h2
  | prod h1 h2 => exact .prod h1 h2
  | after h1 h2 h3 => exact .after h1 h2 h3 (hall _ h1 _ h2 h3)

theorem transGen_imp {α} {r p : α → α → Prop} (h : ∀ a b, r a b → p a b) {a b : α} (hab : TransGen r a b) :
    TransGen p a b := by
  induction hab with
  | single h1 => exact TransGen.single (h _ _ h1)
  | tail _ h1 ih => exact TransGen.tail ih (h _ _ h1)

theorem CodeCycle.spec {P : Project} (h : CodeCycle P) : SpecCycle P := by
  obtain ⟨v, hv⟩ := h
  exact ⟨v, transGen_imp (fun _ _ => CodeEdge.spec) hv⟩

theorem SpecCycle.code {P : Project} (hall : AfterTargetsHaveProducts P) (h : SpecCycle P) : CodeCycle P := by
  obtain ⟨v, hv⟩ := h
  exact ⟨v, transGen_imp (fun _ _ => SpecEdge.code hall) hv⟩

theorem CodeIllFormed.spec {P : Project} (h : CodeIllFormed P) : IllFormed P :=
  h.imp CodeCycle.spec id

theorem illFormed_iff_code {P : Project} (hall : AfterTargetsHaveProducts P) : IllFormed P ↔ CodeIllFormed P :=
  ⟨fun h => h.imp (SpecCycle.code hall) id, CodeIllFormed.spec⟩

/-! ### vertex encoding -/

def enc : Vtx → Nat
  | .task t => tv t
  | .node n => nv n

def dec (v : Nat) : Vtx := if isTaskV v then .task (v / 2) else .node (v / 2)

@[simp] theorem isTaskV_tv (t : Nat) : isTaskV (tv t) = true := by simp [isTaskV, tv]
@[simp] theorem isTaskV_nv (n : Nat) : isTaskV (nv n) = false := by
  simp only [isTaskV, nv, beq_eq_false_iff_ne, ne_eq]; omega
@[simp] theorem dec_tv (t : Nat) : dec (tv t) = .task t := by
  have : tv t / 2 = t := by unfold tv; omega
  simp only [dec, isTaskV_tv, if_true, this]
@[simp] theorem dec_nv (n : Nat) : dec (nv n) = .node n := by
  have : nv n / 2 = n := by unfold nv; omega
  simp only [dec, isTaskV_nv, this, Bool.false_eq_true, if_false]
theorem tv_ne_nv (t n : Nat) : tv t ≠ nv n := by unfold tv nv; omega
theorem tv_inj' {a b : Nat} (h : tv a = tv b) : a = b := by unfold tv at h; omega
theorem nv_inj {a b : Nat} (h : nv a = nv b) : a = b := by unfold nv at h; omega
theorem tv_or_nv (v : Nat) : (∃ t, v = tv t) ∨ (∃ n, v = nv n) := by
  unfold tv nv
  rcases Nat.mod_two_eq_zero_or_one v with h | h
  · exact Or.inl ⟨v / 2, by omega⟩
  · exact Or.inr ⟨v / 2, by omega⟩

theorem or_shuffle3 {A B C D E : Prop} : ((A ∨ B ∨ C) ∨ D ∨ E) ↔ A ∨ (B ∨ D) ∨ (C ∨ E) := by tauto
theorem or_shuffle2 {A B C : Prop} : ((A ∨ B) ∨ C) ↔ A ∨ B ∨ C := by tauto

/-! ### `_create_dag_from_tasks` -/

def baseStep (g : G) (t : TaskSpec) : G :=
  let g := g.addNode (tv t.id)
  let g := t.deps.foldl (fun g d => g.addEdge (nv d) (tv t.id)) g
  t.prods.foldl (fun g p => g.addEdge (tv t.id) (nv p)) g

theorem baseGraph_eq (P : Project) : baseGraph P = P.tasks.foldl baseStep G.empty := rfl

theorem mem_baseStep_edges {g : G} {t : TaskSpec} {e : Nat × Nat} :
    e ∈ (baseStep g t).edges ↔
      e ∈ g.edges ∨ (∃ d ∈ t.deps, e = (nv d, tv t.id)) ∨ (∃ p ∈ t.prods, e = (tv t.id, nv p)) := by
  unfold baseStep
  simp only []
  have h1 := mem_foldl_addEdge_edges (fun _ => tv t.id) nv (e := e) t.prods
    (t.deps.foldl (fun g d => g.addEdge (nv d) (tv t.id)) (g.addNode (tv t.id)))
  have h2 := mem_foldl_addEdge_edges nv (fun _ => tv t.id) (e := e) t.deps (g.addNode (tv t.id))
  rw [h1, h2, addNode_edges]
  exact or_shuffle2

theorem baseStep_wf {g : G} (wf : WF g) (t : TaskSpec) : WF (baseStep g t) := by
  unfold baseStep
  simp only []
  exact WF.foldl_addEdge (fun _ => tv t.id) nv _ _ (WF.foldl_addEdge nv (fun _ => tv t.id) _ _ (wf.addNode _))

theorem baseStep_nodup {g : G} (hn : g.edges.Nodup) (t : TaskSpec) : (baseStep g t).edges.Nodup := by
  unfold baseStep
  simp only []
  exact foldl_addEdge_nodup (fun _ => tv t.id) nv _ _
    (foldl_addEdge_nodup nv (fun _ => tv t.id) _ _ (by simpa using hn))

theorem mem_foldl_baseStep_edges {e : Nat × Nat} :
    ∀ (ts : List TaskSpec) (g : G), e ∈ (ts.foldl baseStep g).edges ↔
      e ∈ g.edges ∨ (∃ t ∈ ts, ∃ d ∈ t.deps, e = (nv d, tv t.id)) ∨ (∃ t ∈ ts, ∃ p ∈ t.prods, e = (tv t.id, nv p))
  | [], g => by simp
  | t :: ts, g => by
    simp only [List.foldl_cons]
    rw [mem_foldl_baseStep_edges ts, mem_baseStep_edges]
    simp only [List.mem_cons, exists_eq_or_imp]
    exact or_shuffle3

theorem foldl_baseStep_wf : ∀ (ts : List TaskSpec) (g : G), WF g → WF (ts.foldl baseStep g)
  | [], _, wf => wf
  | t :: ts, _, wf => foldl_baseStep_wf ts _ (baseStep_wf wf t)

theorem foldl_baseStep_nodup : ∀ (ts : List TaskSpec) (g : G), g.edges.Nodup → (ts.foldl baseStep g).edges.Nodup
  | [], _, hn => hn
  | t :: ts, _, hn => foldl_baseStep_nodup ts _ (baseStep_nodup hn t)

/-- The edges of the graph `_create_dag_from_tasks` builds: one per declared dependency and product. -/
theorem mem_baseGraph_edges {P : Project} {e : Nat × Nat} :
    e ∈ (baseGraph P).edges ↔
      (∃ t ∈ P.tasks, ∃ d ∈ t.deps, e = (nv d, tv t.id)) ∨ (∃ t ∈ P.tasks, ∃ p ∈ t.prods, e = (tv t.id, nv p)) := by
  rw [baseGraph_eq, mem_foldl_baseStep_edges]
  simp [G.empty]

theorem baseGraph_wf (P : Project) : WF (baseGraph P) := foldl_baseStep_wf _ _ WF.empty
theorem baseGraph_nodup (P : Project) : (baseGraph P).edges.Nodup :=
  foldl_baseStep_nodup _ _ (by simp [G.empty])

/-- In the base graph every edge leaving a task vertex ends in a node vertex. -/
theorem baseGraph_task_src {P : Project} {e : Nat × Nat} (he : e ∈ (baseGraph P).edges)
    (h : isTaskV e.1 = true) : ∃ t ∈ P.tasks, ∃ p ∈ t.prods, e = (tv t.id, nv p) := by
  rcases mem_baseGraph_edges.1 he with ⟨t, _, d, _, rfl⟩ | h'
  · simp at h
  · exact h'

/-! ### `_modify_dag` -/

def pairStep (tid : Nat) (g : G) (o : Nat) : G :=
  if o == tid then g else (g.succs (tv o)).foldl (fun g s => g.addEdge s (tv tid)) g

def modStep (g : G) (t : TaskSpec) : G := t.after.foldl (pairStep t.id) g

theorem modifyDag_eq (P : Project) (g : G) : modifyDag P g = P.tasks.foldl modStep g := rfl

theorem mem_pairStep_edges {tid o : Nat} {g : G} {e : Nat × Nat} :
    e ∈ (pairStep tid g o).edges ↔ e ∈ g.edges ∨ (o ≠ tid ∧ (tv o, e.1) ∈ g.edges ∧ e.2 = tv tid) := by
  unfold pairStep
  by_cases h : o = tid
  · simp [h]
  · have hb : (o == tid) = false := by simpa using h
    simp only [hb, Bool.false_eq_true, if_false]
    have := mem_foldl_addEdge_edges (fun s => s) (fun _ => tv tid) (e := e) (g.succs (tv o)) g
    rw [this]
    constructor
    · rintro (h1 | ⟨s, hs, rfl⟩)
      · exact Or.inl h1
      · exact Or.inr ⟨h, mem_succs.1 hs, rfl⟩
    · rintro (h1 | ⟨_, h2, h3⟩)
      · exact Or.inl h1
      · exact Or.inr ⟨e.1, mem_succs.2 h2, by rw [← h3]⟩

theorem pairStep_wf {g : G} (wf : WF g) (tid o : Nat) : WF (pairStep tid g o) := by
  unfold pairStep
  split
  · exact wf
  · exact WF.foldl_addEdge (fun s => s) (fun _ => tv tid) _ _ wf

theorem modStep_wf : ∀ (as : List Nat) (tid : Nat) (g : G), WF g → WF (as.foldl (pairStep tid) g)
  | [], _, _, wf => wf
  | a :: as, tid, _, wf => modStep_wf as tid _ (pairStep_wf wf tid a)

theorem foldl_modStep_wf : ∀ (ts : List TaskSpec) (g : G), WF g → WF (ts.foldl modStep g)
  | [], _, wf => wf
  | t :: ts, _, wf => foldl_modStep_wf ts _ (modStep_wf t.after t.id _ wf)

theorem modifyDag_wf (P : Project) {g : G} (wf : WF g) : WF (modifyDag P g) := foldl_modStep_wf _ _ wf

/-- `g` extends `g0` only by edges from node vertices to task vertices. -/
def Fz (g0 g : G) : Prop :=
  (∀ e ∈ g0.edges, e ∈ g.edges) ∧ (∀ e ∈ g.edges, e ∈ g0.edges ∨ (isTaskV e.1 = false ∧ isTaskV e.2 = true))

/-- Edges of `g0` that leave a task vertex end in a node vertex. -/
def TaskToNode (g0 : G) : Prop := ∀ e ∈ g0.edges, isTaskV e.1 = true → isTaskV e.2 = false

theorem Fz.task_src {g0 g : G} (h : Fz g0 g) {o x : Nat} : (tv o, x) ∈ g.edges ↔ (tv o, x) ∈ g0.edges := by
  constructor
  · intro hx
    rcases h.2 _ hx with h0 | ⟨h1, _⟩
    · exact h0
    · simp at h1
  · exact h.1 _

theorem pairStep_fz {g0 g : G} (h0 : TaskToNode g0) (h : Fz g0 g) (tid o : Nat) : Fz g0 (pairStep tid g o) := by
  refine ⟨fun e he => mem_pairStep_edges.2 (Or.inl (h.1 e he)), ?_⟩
  intro e he
  rcases mem_pairStep_edges.1 he with he | ⟨_, h2, h3⟩
  · exact h.2 e he
  · have := h0 _ (h.task_src.1 h2) (by simp)
    exact Or.inr ⟨this, by rw [h3]; simp⟩

theorem mem_foldl_pairStep_edges {g0 : G} (h0 : TaskToNode g0) {tid : Nat} {e : Nat × Nat} :
    ∀ (as : List Nat) (g : G), Fz g0 g →
      Fz g0 (as.foldl (pairStep tid) g) ∧
      (e ∈ (as.foldl (pairStep tid) g).edges ↔
        e ∈ g.edges ∨ ∃ o ∈ as, o ≠ tid ∧ (tv o, e.1) ∈ g0.edges ∧ e.2 = tv tid)
  | [], g, h => ⟨h, by simp⟩
  | a :: as, g, h => by
    simp only [List.foldl_cons]
    obtain ⟨ih1, ih2⟩ := mem_foldl_pairStep_edges h0 (tid := tid) (e := e) as _ (pairStep_fz h0 h tid a)
    refine ⟨ih1, ?_⟩
    rw [ih2, mem_pairStep_edges, h.task_src]
    simp only [List.mem_cons, exists_eq_or_imp]
    tauto

theorem mem_foldl_modStep_edges {g0 : G} (h0 : TaskToNode g0) {e : Nat × Nat} :
    ∀ (ts : List TaskSpec) (g : G), Fz g0 g →
      Fz g0 (ts.foldl modStep g) ∧
      (e ∈ (ts.foldl modStep g).edges ↔
        e ∈ g.edges ∨ ∃ t ∈ ts, ∃ o ∈ t.after, o ≠ t.id ∧ (tv o, e.1) ∈ g0.edges ∧ e.2 = tv t.id)
  | [], g, h => ⟨h, by simp⟩
  | t :: ts, g, h => by
    simp only [List.foldl_cons]
    obtain ⟨s1, s2⟩ := mem_foldl_pairStep_edges h0 (tid := t.id) (e := e) t.after g h
    obtain ⟨ih1, ih2⟩ := mem_foldl_modStep_edges h0 (e := e) ts (modStep g t) s1
    refine ⟨ih1, ?_⟩
    rw [ih2]
    unfold modStep
    rw [s2]
    simp only [List.mem_cons, exists_eq_or_imp]
    exact or_shuffle2

theorem baseGraph_taskToNode (P : Project) : TaskToNode (baseGraph P) := by
  intro e he h
  obtain ⟨t, _, p, _, rfl⟩ := baseGraph_task_src he h
  simp

/-- The graph `create_dag_from_session` hands to the scheduler: the base graph after `_modify_dag`. -/
def finalGraph (P : Project) : G := modifyDag P (baseGraph P)

/-- The edges `_modify_dag` adds: for `t` declared `after` `o`, one edge from every *product* of `o` to `t`. -/
theorem mem_finalGraph_edges {P : Project} {e : Nat × Nat} :
    e ∈ (finalGraph P).edges ↔
      e ∈ (baseGraph P).edges ∨
      ∃ t ∈ P.tasks, ∃ o ∈ t.after, o ≠ t.id ∧ (tv o, e.1) ∈ (baseGraph P).edges ∧ e.2 = tv t.id := by
  unfold finalGraph
  rw [modifyDag_eq]
  exact (mem_foldl_modStep_edges (baseGraph_taskToNode P) P.tasks (baseGraph P)
    ⟨fun _ h => h, fun _ h => Or.inl h⟩).2

theorem finalGraph_wf (P : Project) : WF (finalGraph P) := modifyDag_wf P (baseGraph_wf P)

/-- Classification of the edges of the final graph in terms of the declarations. -/
theorem finalGraph_edge_cases {P : Project} {x y : Nat} (h : (x, y) ∈ (finalGraph P).edges) :
    (∃ t ∈ P.tasks, ∃ d ∈ t.deps, x = nv d ∧ y = tv t.id) ∨
    (∃ t ∈ P.tasks, ∃ p ∈ t.prods, x = tv t.id ∧ y = nv p) ∨
    (∃ t ∈ P.tasks, ∃ o ∈ t.after, o ≠ t.id ∧ ∃ u ∈ P.tasks, ∃ p ∈ u.prods, u.id = o ∧ x = nv p ∧ y = tv t.id) := by
  rcases mem_finalGraph_edges.1 h with hb | ⟨t, ht, o, ho, hne, hsrc, hy⟩
  · rcases mem_baseGraph_edges.1 hb with ⟨t, ht, d, hd, he⟩ | ⟨t, ht, p, hp, he⟩
    · cases he; exact Or.inl ⟨t, ht, d, hd, rfl, rfl⟩
    · cases he; exact Or.inr (Or.inl ⟨t, ht, p, hp, rfl, rfl⟩)
  · obtain ⟨u, hu, p, hp, he⟩ := baseGraph_task_src hsrc (by simp)
    simp only [Prod.mk.injEq] at he
    exact Or.inr (Or.inr ⟨t, ht, o, ho, hne, u, hu, p, hp, (tv_inj' he.1).symm, he.2, hy⟩)

/-! ### code-level relation ⟶ walks of the final graph -/

theorem CodeEdge.reach {P : Project} {a b : Vtx} (h : CodeEdge P a b) : Reach (finalGraph P) (enc a) (enc b) := by
  cases h with
  | dep ht hd =>
    exact Reach.edge (mem_finalGraph_edges.2 (Or.inl (mem_baseGraph_edges.2 (Or.inl ⟨_, ht, _, hd, rfl⟩))))
  | prod ht hp =>
    exact Reach.edge (mem_finalGraph_edges.2 (Or.inl (mem_baseGraph_edges.2 (Or.inr ⟨_, ht, _, hp, rfl⟩))))
  | @after t o ht ho hne hp =>
    obtain ⟨u, hu, hid, hprods⟩ := hp
    obtain ⟨p, hp⟩ := List.exists_mem_of_ne_nil _ hprods
    have e1 : (tv o, nv p) ∈ (baseGraph P).edges :=
      mem_baseGraph_edges.2 (Or.inr ⟨u, hu, p, hp, by rw [hid]⟩)
    have e2 : (nv p, tv t.id) ∈ (finalGraph P).edges :=
      mem_finalGraph_edges.2 (Or.inr ⟨t, ht, o, ho, hne, e1, rfl⟩)
    exact Reach.step (mem_finalGraph_edges.2 (Or.inl e1)) (Reach.edge e2)

theorem transGen_reach {P : Project} {a b : Vtx} (h : TransGen (CodeEdge P) a b) :
    Reach (finalGraph P) (enc a) (enc b) := by
  induction h with
  | single h => exact h.reach
  | tail _ h ih => exact ih.trans h.reach

/-! ### walks of the final graph ⟶ code-level relation (when no product is shared) -/

theorem reach_code {P : Project} (hns : ¬ SharedProduct P) {a b : Nat} (h : Reach (finalGraph P) a b) :
    (∀ i, a = tv i → TransGen (CodeEdge P) (.task i) (dec b)) ∧
    (∀ p, a = nv p → ∀ u ∈ P.tasks, p ∈ u.prods → TransGen (CodeEdge P) (.task u.id) (dec b)) := by
  induction h with
  | @edge a b he =>
    rcases finalGraph_edge_cases he with ⟨t, ht, d, hd, rfl, rfl⟩ | ⟨t, ht, p, hp, rfl, rfl⟩ |
      ⟨t, ht, o, ho, hne, u0, hu0, p0, hp0, hid, rfl, rfl⟩
    · refine ⟨fun i hi => absurd hi.symm (tv_ne_nv _ _), ?_⟩
      intro p hp u hu hpu
      cases nv_inj hp
      rw [dec_tv]
      exact TransGen.tail (TransGen.single (.prod hu hpu)) (.dep ht hd)
    · refine ⟨?_, fun q hq => absurd hq (tv_ne_nv _ _)⟩
      intro i hi
      cases tv_inj' hi
      rw [dec_nv]
      exact TransGen.single (.prod ht hp)
    · refine ⟨fun i hi => absurd hi.symm (tv_ne_nv _ _), ?_⟩
      intro p hp u hu hpu
      cases nv_inj hp
      rw [dec_tv]
      have hsame : u.id = u0.id := by
        by_contra hne'
        exact hns ⟨u, hu, u0, hu0, hne', _, hpu, hp0⟩
      rw [hsame, hid]
      exact TransGen.single (.after ht ho hne ⟨u0, hu0, hid, List.ne_nil_of_mem hp0⟩)
  | @step a w b he _ ih =>
    rcases finalGraph_edge_cases he with ⟨t, ht, d, hd, rfl, rfl⟩ | ⟨t, ht, p, hp, rfl, rfl⟩ |
      ⟨t, ht, o, ho, hne, u0, hu0, p0, hp0, hid, rfl, rfl⟩
    · refine ⟨fun i hi => absurd hi.symm (tv_ne_nv _ _), ?_⟩
      intro p hp u hu hpu
      cases nv_inj hp
      exact TransGen.trans (TransGen.tail (TransGen.single (.prod hu hpu)) (.dep ht hd)) (ih.1 _ rfl)
    · refine ⟨?_, fun q hq => absurd hq (tv_ne_nv _ _)⟩
      intro i hi
      cases tv_inj' hi
      exact ih.2 _ rfl t ht hp
    · refine ⟨fun i hi => absurd hi.symm (tv_ne_nv _ _), ?_⟩
      intro p hp u hu hpu
      cases nv_inj hp
      have hsame : u.id = u0.id := by
        by_contra hne'
        exact hns ⟨u, hu, u0, hu0, hne', _, hpu, hp0⟩
      rw [hsame, hid]
      exact TransGen.trans (TransGen.single (.after ht ho hne ⟨u0, hu0, hid, List.ne_nil_of_mem hp0⟩)) (ih.1 _ rfl)

/-- A closed walk in the final graph is a closed chain of (code-level) declarations, unless a product is shared. -/
theorem finalGraph_cycle_code {P : Project} (hns : ¬ SharedProduct P) {v : Nat} (h : Reach (finalGraph P) v v) :
    CodeCycle P := by
  rcases tv_or_nv v with ⟨i, rfl⟩ | ⟨n, rfl⟩
  · have := (reach_code hns h).1 i rfl
    rw [dec_tv] at this
    exact ⟨_, this⟩
  · rcases h.tail_cases with he | ⟨w, hw, he⟩
    · rcases finalGraph_edge_cases he with ⟨t, _, d, _, _, h2⟩ | ⟨t, _, p, _, h1, _⟩ | ⟨t, _, o, _, _, u0, _, p0, _, _, _, h2⟩
      · exact absurd h2.symm (tv_ne_nv _ _)
      · exact absurd h1.symm (tv_ne_nv _ _)
      · exact absurd h2.symm (tv_ne_nv _ _)
    · rcases finalGraph_edge_cases he with ⟨t, _, d, _, _, h2⟩ | ⟨t, ht, p, hp, rfl, _⟩ | ⟨t, _, o, _, _, u0, _, p0, _, _, _, h2⟩
      · exact absurd h2.symm (tv_ne_nv _ _)
      · have hc : Reach (finalGraph P) (tv t.id) (tv t.id) := Reach.step he hw
        have := (reach_code hns hc).1 _ rfl
        rw [dec_tv] at this
        exact ⟨_, this⟩
      · exact absurd h2.symm (tv_ne_nv _ _)

theorem finalGraph_hasCycle_of_code {P : Project} (h : CodeCycle P) : (finalGraph P).hasCycle = true := by
  obtain ⟨v, hv⟩ := h
  exact (hasCycle_true_iff_wf (finalGraph_wf P)).2 ⟨_, transGen_reach hv⟩

theorem baseGraph_sub_final {P : Project} : ∀ e ∈ (baseGraph P).edges, e ∈ (finalGraph P).edges :=
  fun _ he => mem_finalGraph_edges.2 (Or.inl he)

/-! ### `_check_if_tasks_have_the_same_products` -/

theorem two_of_nodup_length : ∀ {l : List Nat}, l.Nodup → 1 < l.length → ∃ a b, a ∈ l ∧ b ∈ l ∧ a ≠ b
  | [], _, h => by simp at h
  | [_], _, h => by simp at h
  | a :: b :: _, hn, _ => by
    refine ⟨a, b, by simp, by simp, ?_⟩
    intro hab
    rw [hab] at hn
    simp at hn

theorem length_of_two : ∀ {l : List Nat} {a b : Nat}, a ∈ l → b ∈ l → a ≠ b → 1 < l.length
  | [], _, _, ha, _, _ => by cases ha
  | [x], a, b, ha, hb, hab => by
    simp only [List.mem_singleton] at ha hb
    exact absurd (ha.trans hb.symm) hab
  | _ :: _ :: _, _, _, _, _, _ => by simp

theorem preds_nodup {g : G} (hn : g.edges.Nodup) (v : Nat) : (g.preds v).Nodup := by
  unfold preds
  refine List.Nodup.map_on ?_ (hn.filter _)
  intro a ha b hb hab
  simp only [List.mem_filter, beq_iff_eq] at ha hb
  exact Prod.ext hab (ha.2.trans hb.2.symm)

/-- The product check fires exactly when two tasks with different ids declare one product. -/
theorem sharedProduct_baseGraph_iff {P : Project} : sharedProduct (baseGraph P) = true ↔ SharedProduct P := by
  unfold sharedProduct
  simp only [List.any_eq_true, Bool.and_eq_true, Bool.not_eq_true', decide_eq_true_eq]
  constructor
  · rintro ⟨v, _, hodd, hlen⟩
    obtain ⟨a, b, ha, hb, hab⟩ := two_of_nodup_length (preds_nodup (baseGraph_nodup P) v) hlen
    have ea := mem_preds.1 ha
    have eb := mem_preds.1 hb
    rcases mem_baseGraph_edges.1 ea with ⟨t, _, d, _, he⟩ | ⟨t1, ht1, p1, hp1, he1⟩
    · simp only [Prod.mk.injEq] at he
      rw [he.2] at hodd; simp at hodd
    rcases mem_baseGraph_edges.1 eb with ⟨t, _, d, _, he⟩ | ⟨t2, ht2, p2, hp2, he2⟩
    · simp only [Prod.mk.injEq] at he
      rw [he.2] at hodd; simp at hodd
    simp only [Prod.mk.injEq] at he1 he2
    have hp : p1 = p2 := nv_inj (he1.2.symm.trans he2.2)
    refine ⟨t1, ht1, t2, ht2, ?_, p1, hp1, hp ▸ hp2⟩
    intro hid
    apply hab
    rw [he1.1, he2.1, hid]
  · rintro ⟨t1, ht1, t2, ht2, hne, n, h1, h2⟩
    have e1 : (tv t1.id, nv n) ∈ (baseGraph P).edges := mem_baseGraph_edges.2 (Or.inr ⟨t1, ht1, n, h1, rfl⟩)
    have e2 : (tv t2.id, nv n) ∈ (baseGraph P).edges := mem_baseGraph_edges.2 (Or.inr ⟨t2, ht2, n, h2, rfl⟩)
    refine ⟨nv n, (baseGraph_wf P _ e1).2, by simp, ?_⟩
    exact length_of_two (mem_preds.2 e1) (mem_preds.2 e2) (fun h => hne (tv_inj' h))

/-! ### `create_dag_from_session` -/

/-- `createDag` with the pipeline order read from the source (`Generated.dagPipeline`) unfolded. -/
theorem createDag_eq (P : Project) (cfg : Cfg) :
    createDag P cfg =
      if (baseGraph P).hasCycle then .error .cycle
      else if sharedProduct (baseGraph P) then .error .sharedProduct
      else if (finalGraph P).hasCycle then .error .cycle
      else .ok (finalGraph P, deselected P (finalGraph P) cfg) := by
  unfold createDag finalGraph
  simp only [Generated.dagPipeline, createDag.go]
  simp only [show ("create" == "create") = true by decide, show ("cycles" == "create") = false by decide,
    show ("cycles" == "cycles") = true by decide, show ("products" == "create") = false by decide,
    show ("products" == "cycles") = false by decide, show ("products" == "products") = true by decide,
    show ("modify" == "create") = false by decide, show ("modify" == "cycles") = false by decide,
    show ("modify" == "products") = false by decide, show ("modify" == "modify") = true by decide,
    show ("select" == "create") = false by decide, show ("select" == "cycles") = false by decide,
    show ("select" == "products") = false by decide, show ("select" == "modify") = false by decide,
    show ("select" == "select") = true by decide, if_true, Bool.false_eq_true, if_false, List.nil_append]

/-- **What the code rejects, exactly**: `create_dag` raises iff the declarations contain a closed chain
(with `after` counted only towards tasks that have products) or a product declared by two tasks. -/
theorem createDag_error_iff (P : Project) (cfg : Cfg) :
    (∃ e, createDag P cfg = .error e) ↔ CodeIllFormed P := by
  rw [createDag_eq]
  constructor
  · intro h
    by_cases hs : SharedProduct P
    · exact Or.inr hs
    · left
      have hfin : (finalGraph P).hasCycle = true := by
        by_contra hf
        have hf' : (finalGraph P).hasCycle = false := by simpa using hf
        have hb : (baseGraph P).hasCycle = false := by
          rw [hasCycle_false_iff_wf (baseGraph_wf P)]
          intro v hv
          exact (hasCycle_false_iff_wf (finalGraph_wf P)).1 hf' v (hv.mono baseGraph_sub_final)
        have hsp : sharedProduct (baseGraph P) = false := by
          rw [← Bool.not_eq_true, sharedProduct_baseGraph_iff]; exact hs
        rw [hb, hsp, hf'] at h
        obtain ⟨e, he⟩ := h
        simp at he
      obtain ⟨v, hv⟩ := (hasCycle_true_iff_wf (finalGraph_wf P)).1 hfin
      exact finalGraph_cycle_code hs hv
  · rintro (hc | hs)
    · have := finalGraph_hasCycle_of_code hc
      by_cases h1 : (baseGraph P).hasCycle = true <;> by_cases h2 : sharedProduct (baseGraph P) = true <;>
        simp [h1, h2, this]
    · have := sharedProduct_baseGraph_iff.2 hs
      by_cases h1 : (baseGraph P).hasCycle = true <;> simp [h1, this]

/-- When `createDag` succeeds its graph is the final graph and is acyclic. -/
theorem createDag_ok {P : Project} {cfg : Cfg} {g : G} {m : List Nat} (h : createDag P cfg = .ok (g, m)) :
    g = finalGraph P ∧ g.hasCycle = false := by
  rw [createDag_eq] at h
  split at h
  · cases h
  split at h
  · cases h
  split at h
  · cases h
  · rename_i hf
    simp only [Except.ok.injEq, Prod.mk.injEq] at h
    exact ⟨h.1.symm, by rw [← h.1]; simpa using hf⟩

/-! ### exit codes (read from the source through `Generated.exitCodes` / `Generated.buildLadder`) -/

theorem ladderCode_dag : ladderCode "ResolvingDependenciesError" = 4 := by decide
theorem ladderCode_exception : ladderCode "Exception" = 1 := by decide
theorem ladderCode_execution : ladderCode "ExecutionError" = 1 := by decide
theorem exitCode_ok : exitCode "OK" = 0 := by decide
theorem exitCode_dag : exitCode "DAG_FAILED" = 4 := by decide

end Engine
end Pytask
