import PytaskModel.Graph
/-!
Reachability lemmas for M1: the bounded frontier expansions `ancRaw` / `descRaw` compute exactly
"there is a path of ≥ 1 edge", hence `a ∈ anc g d ↔ d ∈ desc g a` (used by the failure-containment
proofs: the tasks marked by `descending_tasks` are exactly those that have the failed task as an
ancestor in the sorter). Core Lean only.
-/
namespace Pytask
namespace G

/-- `Conn g u v`: a path of at least one edge from `u` to `v`. -/
inductive Conn (g : G) : Nat → Nat → Prop
  | edge {u v} : (u, v) ∈ g.edges → Conn g u v
  | tail {u w v} : Conn g u w → (w, v) ∈ g.edges → Conn g u v

theorem Conn.head {g : G} {u w v : Nat} (h : (u, w) ∈ g.edges) (c : Conn g w v) : Conn g u v := by
  induction c with
  | edge e => exact Conn.tail (Conn.edge h) e
  | tail _ e ih => exact Conn.tail ih e

theorem mem_union {a b : List Nat} {x : Nat} : x ∈ union a b ↔ x ∈ a ∨ x ∈ b := by
  unfold union
  induction b generalizing a with
  | nil => simp
  | cons y ys ih =>
    simp only [List.foldl_cons]
    rw [ih]
    by_cases hy : y ∈ a
    · have hc : a.contains y = true := by simpa using hy
      simp only [hc, if_true, List.mem_cons]
      constructor
      · rintro (h | h)
        · exact Or.inl h
        · exact Or.inr (Or.inr h)
      · rintro (h | h | h)
        · exact Or.inl h
        · exact Or.inl (h ▸ hy)
        · exact Or.inr h
    · have hc : a.contains y = false := by simpa using hy
      simp only [hc, List.mem_append, List.mem_cons, List.mem_singleton]
      constructor
      · rintro (h | h)
        · rcases (by simpa using h : x ∈ a ∨ x = y) with h | h
          · exact Or.inl h
          · exact Or.inr (Or.inl h)
        · exact Or.inr (Or.inr h)
      · rintro (h | h | h)
        · exact Or.inl (by simp [h])
        · exact Or.inl (by simp [h])
        · exact Or.inr h

theorem mem_succs {g : G} {u v : Nat} : v ∈ g.succs u ↔ (u, v) ∈ g.edges := by
  unfold succs
  simp only [List.mem_map, List.mem_filter, beq_iff_eq]
  constructor
  · rintro ⟨e, ⟨he, h1⟩, h2⟩
    cases e; simp_all
  · intro h; exact ⟨(u, v), ⟨h, rfl⟩, rfl⟩

theorem mem_preds {g : G} {u v : Nat} : u ∈ g.preds v ↔ (u, v) ∈ g.edges := by
  unfold preds
  simp only [List.mem_map, List.mem_filter, beq_iff_eq]
  constructor
  · rintro ⟨e, ⟨he, h1⟩, h2⟩
    cases e; simp_all
  · intro h; exact ⟨(u, v), ⟨h, rfl⟩, rfl⟩

theorem mem_stepFwd {g : G} {s : List Nat} {x : Nat} :
    x ∈ g.stepFwd s ↔ x ∈ s ∨ ∃ u ∈ s, (u, x) ∈ g.edges := by
  unfold stepFwd
  rw [mem_union]
  simp only [List.mem_flatMap, mem_succs]

theorem mem_stepBack {g : G} {s : List Nat} {x : Nat} :
    x ∈ g.stepBack s ↔ x ∈ s ∨ ∃ v ∈ s, (x, v) ∈ g.edges := by
  unfold stepBack
  rw [mem_union]
  simp only [List.mem_flatMap, mem_preds]

/-- A membership set closed under successors. -/
def ClosedF (g : G) (s : List Nat) : Prop := ∀ u ∈ s, ∀ v, (u, v) ∈ g.edges → v ∈ s
def ClosedB (g : G) (s : List Nat) : Prop := ∀ v ∈ s, ∀ u, (u, v) ∈ g.edges → u ∈ s

/-- number of edges whose target (resp. source) is not yet in the set -/
def missF (g : G) (s : List Nat) : Nat := (g.edges.filter (fun e => !s.contains e.2)).length
def missB (g : G) (s : List Nat) : Nat := (g.edges.filter (fun e => !s.contains e.1)).length

theorem filter_length_lt {α} (l : List α) (p q : α → Bool) (himp : ∀ x, q x = true → p x = true)
    (x : α) (hx : x ∈ l) (hp : p x = true) (hq : q x = false) :
    (l.filter q).length < (l.filter p).length := by
  induction l with
  | nil => cases hx
  | cons y ys ih =>
    have hle : ∀ (zs : List α), (zs.filter q).length ≤ (zs.filter p).length := by
      intro zs
      induction zs with
      | nil => simp
      | cons z zs ihz =>
        simp only [List.filter_cons]
        by_cases hqz : q z = true
        · simp [hqz, himp z hqz, ihz]
        · by_cases hpz : p z = true
          · simp [hqz, hpz]; omega
          · simp [hqz, hpz, ihz]
    rcases List.mem_cons.1 hx with rfl | hx
    · simp only [List.filter_cons, hp, hq, if_true, List.length_cons]
      have := hle ys
      simp; omega
    · have := ih hx
      simp only [List.filter_cons]
      by_cases hqy : q y = true
      · simp [hqy, himp y hqy]; omega
      · by_cases hpy : p y = true
        · simp [hqy, hpy]; omega
        · simp [hqy, hpy]; omega

theorem closedF_of_miss0 {g : G} {s : List Nat} (h : missF g s = 0) : ClosedF g s := by
  intro u _ v he
  unfold missF at h
  have := List.length_eq_zero_iff.1 h
  have hf := List.filter_eq_nil_iff.1 this (u, v) he
  simpa using hf

theorem closedB_of_miss0 {g : G} {s : List Nat} (h : missB g s = 0) : ClosedB g s := by
  intro v _ u he
  unfold missB at h
  have := List.length_eq_zero_iff.1 h
  have hf := List.filter_eq_nil_iff.1 this (u, v) he
  simpa using hf

theorem closedF_step {g : G} {s : List Nat} (h : ClosedF g s) : ClosedF g (g.stepFwd s) := by
  have hsame : ∀ x, x ∈ g.stepFwd s ↔ x ∈ s := by
    intro x; rw [mem_stepFwd]
    constructor
    · rintro (h1 | ⟨u, hu, he⟩); exact h1; exact h u hu x he
    · exact Or.inl
  intro u hu v he
  exact (hsame v).2 (h u ((hsame u).1 hu) v he)

theorem closedB_step {g : G} {s : List Nat} (h : ClosedB g s) : ClosedB g (g.stepBack s) := by
  have hsame : ∀ x, x ∈ g.stepBack s ↔ x ∈ s := by
    intro x; rw [mem_stepBack]
    constructor
    · rintro (h1 | ⟨u, hu, he⟩); exact h1; exact h u hu x he
    · exact Or.inl
  intro u hu v he
  exact (hsame v).2 (h u ((hsame u).1 hu) v he)

theorem closedF_iter {g : G} : ∀ (n : Nat) (s : List Nat), ClosedF g s → ClosedF g (iter g.stepFwd n s)
  | 0, _, h => h
  | n+1, s, h => closedF_iter n _ (closedF_step h)

theorem closedB_iter {g : G} : ∀ (n : Nat) (s : List Nat), ClosedB g s → ClosedB g (iter g.stepBack n s)
  | 0, _, h => h
  | n+1, s, h => closedB_iter n _ (closedB_step h)

theorem iterF_closed {g : G} : ∀ (n : Nat) (s : List Nat), missF g s ≤ n → ClosedF g (iter g.stepFwd n s)
  | 0, s, h => closedF_of_miss0 (Nat.le_zero.1 h)
  | n+1, s, h => by
    by_cases hc : ClosedF g s
    · exact closedF_iter (n+1) s hc
    · show ClosedF g (iter g.stepFwd n (g.stepFwd s))
      apply iterF_closed n
      -- some edge leaves the set: it is counted in `missF g s` but not in `missF g (stepFwd s)`
      have : ∃ u v, u ∈ s ∧ (u, v) ∈ g.edges ∧ v ∉ s := by
        unfold ClosedF at hc
        apply Classical.byContradiction
        intro hcon
        apply hc
        intro u hu v he
        apply Classical.byContradiction
        intro hv
        exact hcon ⟨u, v, hu, he, hv⟩
      obtain ⟨u, v, hu, he, hv⟩ := this
      have hlt : missF g (g.stepFwd s) < missF g s := by
        unfold missF
        apply filter_length_lt g.edges _ _ _ (u, v) he
        · simpa using hv
        · have : v ∈ g.stepFwd s := mem_stepFwd.2 (Or.inr ⟨u, hu, he⟩)
          simpa using this
        · intro e hq
          have hq' : e.2 ∉ g.stepFwd s := by simpa using hq
          have : e.2 ∉ s := fun hin => hq' (mem_stepFwd.2 (Or.inl hin))
          simpa using this
      omega

theorem iterB_closed {g : G} : ∀ (n : Nat) (s : List Nat), missB g s ≤ n → ClosedB g (iter g.stepBack n s)
  | 0, s, h => closedB_of_miss0 (Nat.le_zero.1 h)
  | n+1, s, h => by
    by_cases hc : ClosedB g s
    · exact closedB_iter (n+1) s hc
    · show ClosedB g (iter g.stepBack n (g.stepBack s))
      apply iterB_closed n
      have : ∃ u v, v ∈ s ∧ (u, v) ∈ g.edges ∧ u ∉ s := by
        unfold ClosedB at hc
        apply Classical.byContradiction
        intro hcon
        apply hc
        intro v hv u he
        apply Classical.byContradiction
        intro hu
        exact hcon ⟨u, v, hv, he, hu⟩
      obtain ⟨u, v, hv, he, hu⟩ := this
      have hlt : missB g (g.stepBack s) < missB g s := by
        unfold missB
        apply filter_length_lt g.edges _ _ _ (u, v) he
        · simpa using hu
        · have : u ∈ g.stepBack s := mem_stepBack.2 (Or.inr ⟨v, hv, he⟩)
          simpa using this
        · intro e hq
          have hq' : e.1 ∉ g.stepBack s := by simpa using hq
          have : e.1 ∉ s := fun hin => hq' (mem_stepBack.2 (Or.inl hin))
          simpa using this
      omega

theorem iterF_mono {g : G} : ∀ (n : Nat) (s : List Nat) (x : Nat), x ∈ s → x ∈ iter g.stepFwd n s
  | 0, _, _, h => h
  | n+1, s, x, h => iterF_mono n _ x (mem_stepFwd.2 (Or.inl h))

theorem iterB_mono {g : G} : ∀ (n : Nat) (s : List Nat) (x : Nat), x ∈ s → x ∈ iter g.stepBack n s
  | 0, _, _, h => h
  | n+1, s, x, h => iterB_mono n _ x (mem_stepBack.2 (Or.inl h))

theorem iterF_sound {g : G} (a : Nat) : ∀ (n : Nat) (s : List Nat), (∀ x ∈ s, Conn g a x) →
    ∀ x ∈ iter g.stepFwd n s, Conn g a x
  | 0, _, h => h
  | n+1, s, h => by
    apply iterF_sound a n
    intro x hx
    rcases mem_stepFwd.1 hx with h1 | ⟨u, hu, he⟩
    · exact h x h1
    · exact Conn.tail (h u hu) he

theorem iterB_sound {g : G} (d : Nat) : ∀ (n : Nat) (s : List Nat), (∀ x ∈ s, Conn g x d) →
    ∀ x ∈ iter g.stepBack n s, Conn g x d
  | 0, _, h => h
  | n+1, s, h => by
    apply iterB_sound d n
    intro x hx
    rcases mem_stepBack.1 hx with h1 | ⟨u, hu, he⟩
    · exact h x h1
    · exact Conn.head he (h u hu)

theorem missF_le (g : G) (s : List Nat) : missF g s ≤ g.edges.length := List.length_filter_le _ _
theorem missB_le (g : G) (s : List Nat) : missB g s ≤ g.edges.length := List.length_filter_le _ _

/-- `descRaw` is exactly reachability by ≥ 1 edge. -/
theorem mem_descRaw {g : G} {a x : Nat} : x ∈ g.descRaw a ↔ Conn g a x := by
  unfold descRaw
  constructor
  · exact iterF_sound a _ _ (fun y hy => Conn.edge (mem_succs.1 hy)) x
  · intro c
    have hcl := iterF_closed (g := g) g.edges.length (g.succs a) (missF_le _ _)
    induction c with
    | edge e => exact iterF_mono _ _ _ (mem_succs.2 e)
    | tail _ e ih => exact hcl _ ih _ e

theorem closedB_conn {g : G} {S : List Nat} (hcl : ClosedB g S) {u w : Nat} (c : Conn g u w) :
    w ∈ S → u ∈ S := by
  induction c with
  | edge e => intro hw; exact hcl _ hw _ e
  | tail _ e ih => intro hw; exact ih (hcl _ hw _ e)

/-- `ancRaw` is exactly reachability by ≥ 1 edge. -/
theorem mem_ancRaw {g : G} {d x : Nat} : x ∈ g.ancRaw d ↔ Conn g x d := by
  unfold ancRaw
  constructor
  · exact iterB_sound d _ _ (fun y hy => Conn.edge (mem_preds.1 hy)) x
  · intro c
    have hcl := iterB_closed (g := g) g.edges.length (g.preds d) (missB_le _ _)
    cases c with
    | edge e => exact iterB_mono _ _ _ (mem_preds.2 e)
    | tail c' e => exact closedB_conn hcl c' (iterB_mono _ _ _ (mem_preds.2 e))

/-- Duality used by failure containment: `nx.descendants` and `nx.ancestors` are converse relations. -/
theorem mem_desc_iff_mem_anc {g : G} {a d : Nat} : d ∈ g.desc a ↔ a ∈ g.anc d := by
  unfold desc anc
  simp only [List.mem_filter, mem_descRaw, mem_ancRaw, bne_iff_ne, ne_eq]
  constructor
  · rintro ⟨c, h⟩; exact ⟨c, fun e => h e.symm⟩
  · rintro ⟨c, h⟩; exact ⟨c, fun e => h e.symm⟩

end G
end Pytask
