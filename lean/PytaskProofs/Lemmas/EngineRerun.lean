import PytaskProofs.Lemmas.EngineReport
/-!
Lemmas for "a task that needed to run and failed still needs to run in the next build" (C04_rerun):
which file a neighbour's state is read from, files are only rewritten by tasks whose body ran and
that declare them as products, and `SkippedUnchanged` needs every neighbour unchanged.
-/
namespace Pytask
namespace Engine
open Sorter

variable {F : BodyFn} {P : Project} {g : G} {cfg : Cfg}

/-- The file whose content is the state of vertex `v`: the node's file, or the task's module. -/
def fileOf (P : Project) (v : Nat) : Option Nat :=
  if isTaskV v then (Project.find? P (v / 2)).map (·.src) else some (v / 2)

theorem stateOf_eq_fileOf (w : World) (v : Nat) : stateOf P w v = (fileOf P v).bind (lookup w.fs) := by
  unfold stateOf fileOf
  split
  · cases Project.find? P (v / 2) <;> rfl
  · rfl

theorem stateOf_congr_file {w w' : World} {v : Nat} (h : ∀ n, fileOf P v = some n → lookup w'.fs n = lookup w.fs n) :
    stateOf P w' v = stateOf P w v := by
  rw [stateOf_eq_fileOf, stateOf_eq_fileOf]
  cases hf : fileOf P v with
  | none => rfl
  | some n => simp [h n hf]

theorem foldl_insert_frame {α} (f : FS → α → FS) (q : Nat) (hf : ∀ fs a, lookup (f fs a) q = lookup fs q) :
    ∀ (l : List α) (fs : FS), lookup (l.foldl f fs) q = lookup fs q
  | [], _ => rfl
  | a :: l, fs => by rw [List.foldl_cons, foldl_insert_frame f q hf l, hf]

theorem mem_of_mem_zipIdx {l : List Nat} {x : Nat × Nat} : ∀ {k : Nat}, x ∈ l.zipIdx k → x.1 ∈ l := by
  induction l with
  | nil => intro k h; simp at h
  | cons a l ih =>
    intro k h
    simp only [List.zipIdx_cons, List.mem_cons] at h
    rcases h with rfl | h
    · simp
    · exact List.mem_cons_of_mem _ (ih h)

theorem foldl_write_frame (t : TaskSpec) (q : Nat) (hq : q ∉ t.prods) (val : Nat → Nat) (skipIdx : Option Nat) :
    ∀ (l : List (Nat × Nat)) (fs : FS), (∀ x ∈ l, x.1 ∈ t.prods) →
      lookup (l.foldl (fun fs (x : Nat × Nat) => if some x.2 == skipIdx then fs else insert fs x.1 (val x.2)) fs) q = lookup fs q
  | [], _, _ => rfl
  | a :: l, fs, hl => by
    rw [List.foldl_cons, foldl_write_frame t q hq val skipIdx l _ (fun x hx => hl x (by simp [hx]))]
    split
    · rfl
    · apply lookup_insert_ne
      intro h; exact hq (h ▸ hl a (by simp))

/-- The body writes its declared products only. -/
theorem runBody_frame_q (t : TaskSpec) (fs : FS) (q : Nat) (hq : q ∉ t.prods) :
    lookup (runBody F t fs).1 q = lookup fs q := by
  unfold runBody
  simp only []
  split
  · rfl
  · cases t.beh <;> dsimp only <;>
      first | rfl | exact foldl_write_frame t q hq (fun i => F t.id i (lookup fs t.src) (List.map (lookup fs) t.deps)) _ _ _
                      (fun x hx => mem_of_mem_zipIdx hx)

theorem runBody_noinvoke (t : TaskSpec) (fs : FS) (h : behInvokes t.beh = false) : (runBody F t fs).1 = fs := by
  unfold runBody
  simp only []
  split
  · rfl
  · cases hb : t.beh <;> simp_all [behInvokes]

/-- Shape of `runPhases` once setup let the task through in a real (non-dry) build. -/
theorem runPhases_ran (s : Sess) (t : TaskSpec) (hsc : setupChain P g cfg s t Generated.setupOrder = .none)
    (hd : cfg.dry = false) :
    (runPhases F P g cfg s t).2.log = (if behInvokes t.beh then s.log ++ [t.id] else s.log) ∧
    (runPhases F P g cfg s t).2.w.fs = (runBody F t s.w.fs).1 := by
  unfold runPhases
  simp only [hsc, hd, Bool.false_eq_true, if_false]
  by_cases hr : (runBody F t s.w.fs).2 = true
  · simp [hr]
  · by_cases hp : (t.prods.any (fun p => (lookup (runBody F t s.w.fs).1 p).isNone)) = true
    · simp [hr, hp]
    · simp [hr, hp]

theorem runPhases_idle (s : Sess) (t : TaskSpec)
    (h : setupChain P g cfg s t Generated.setupOrder ≠ .none ∨ cfg.dry = true) : (runPhases F P g cfg s t).2 = s := by
  unfold runPhases
  cases hsc : setupChain P g cfg s t Generated.setupOrder <;> simp only []
  rcases h with h | h
  · exact absurd hsc h
  · simp [h]

/-- A file changes during a protocol only if the body ran (is logged) and the file is a product of the task. -/
theorem protocol_fs_change (s : Sess) (t : TaskSpec) (q : Nat)
    (h : lookup (protocol F P g cfg s t).w.fs q ≠ lookup s.w.fs q) :
    q ∈ t.prods ∧ (protocol F P g cfg s t).log = s.log ++ [t.id] := by
  have hfs : (protocol F P g cfg s t).w.fs = (runPhases F P g cfg s t).2.w.fs := by unfold protocol; rw [processReport_fs]
  rw [hfs] at h
  rw [protocol_log_eq]
  by_cases hrun : setupChain P g cfg s t Generated.setupOrder = .none ∧ cfg.dry = false
  · obtain ⟨hl, hf⟩ := runPhases_ran (F := F) s t hrun.1 hrun.2
    rw [hf] at h
    rw [hl]
    cases hb : behInvokes t.beh
    · rw [runBody_noinvoke t _ hb] at h; exact absurd rfl h
    · refine ⟨?_, by simp⟩
      apply Classical.byContradiction
      intro hq
      exact h (runBody_frame_q t _ q hq)
  · have : (runPhases F P g cfg s t).2 = s := by
      apply runPhases_idle
      by_cases h1 : setupChain P g cfg s t Generated.setupOrder = .none
      · right
        cases hd : cfg.dry
        · exact absurd ⟨h1, hd⟩ hrun
        · rfl
      · exact Or.inl h1
    rw [this] at h; exact absurd rfl h

theorem Run.fs_frame {so : Sorter} {s : Sess} {picks : List Nat} {so' : Sorter} {s' : Sess}
    (h : Run F P g cfg so s picks so' s') (q : Nat)
    (hq : ∀ x ∈ picks, ∀ spec, Project.find? P x = some spec → x ∈ s'.log → q ∉ spec.prods) :
    lookup s'.w.fs q = lookup s.w.fs q := by
  induction h with
  | nil => rfl
  | @cons so s t spec ts so' s' h1 h2 h3 h4 h5 htail ih =>
    rw [ih (fun x hx sp hf hl => hq x (by simp [hx]) sp hf hl)]
    apply Classical.byContradiction
    intro hne
    obtain ⟨hp, hl⟩ := protocol_fs_change s spec q hne
    have : t ∈ s'.log := by
      apply htail.log_prefix.subset
      rw [hl, find?_id h5]; simp
    exact hq t (by simp) spec h5 this hp

/-- `SkippedUnchanged` needs every neighbour unchanged w.r.t. its recorded row. -/
theorem scan_unchanged_nochange (w : World) (t : Nat) : ∀ (vs : List Nat) (needs : Bool),
    scan P g w t needs vs = .unchanged → needs = false ∧ ∀ v ∈ vs, hasChanged w t v (stateOf P w v) = false
  | [], needs, h => by
    unfold scan at h
    cases needs <;> simp_all
  | v :: vs, needs, h => by
    cases needs
    · unfold scan at h
      simp only [Bool.false_and, Bool.false_eq_true, if_false] at h
      split at h
      · cases h
      · have ih := scan_unchanged_nochange w t vs _ h
        refine ⟨rfl, ?_⟩
        intro u hu
        rcases List.mem_cons.1 hu with rfl | hu
        · exact ih.1
        · exact ih.2 u hu
    · exact absurd h (scan_true_ne_unchanged w t _)

/-- Without `force`, "changed" comes from some neighbour that differs from its row (or has none). -/
theorem scan_changed_witness (w : World) (t : Nat) : ∀ (vs : List Nat),
    scan P g w t false vs = .changed → ∃ v ∈ vs, hasChanged w t v (stateOf P w v) = true
  | [], h => by simp [scan] at h
  | v :: vs, h => by
    unfold scan at h
    simp only [Bool.false_and, Bool.false_eq_true, if_false] at h
    split at h
    · cases h
    · cases hc : hasChanged w t v (stateOf P w v)
      · rw [hc] at h
        obtain ⟨u, hu, hx⟩ := scan_changed_witness w t vs h
        exact ⟨u, by simp [hu], hx⟩
      · exact ⟨v, by simp, hc⟩

theorem hasChanged_congr {w w' : World} {t v : Nat} {st st' : Option Nat}
    (hrow : lookup w'.db (tv t, v) = lookup w.db (tv t, v)) (hst : st' = st) :
    hasChanged w' t v st' = hasChanged w t v st := by
  unfold hasChanged; rw [hrow, hst]

end Engine
end Pytask
