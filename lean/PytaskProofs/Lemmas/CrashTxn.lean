import PytaskProofs.Lemmas.CrashEach
import PytaskProofs.Lemmas.EngineNoCrash
/-!
# The transactional step lists (current code) against the per-row step lists

* every world a kill can leave under "one transaction per task" is a world a kill can leave under "one commit per row"
  (`protocol_prefix_txn`, `loop_prefix_txn`, `crashAt_txn`), so the prefix theorems of `CrashEach.lean` transfer;
* with one transaction per task the database is row-consistent at EVERY kill point (`rc_loop_prefix_txn`) — this is where
  `Generated.rowsSingleTransaction = true` is used: if the translator reports per-row commits again, `gen_txn` fails.
-/
namespace Pytask
namespace Engine

/-- extracted from `database_utils.py`: all rows of a task are committed in one transaction -/
theorem gen_txn : Generated.rowsSingleTransaction = true := rfl

theorem rowSteps_txn (P : Project) (w : World) (t : Nat) (vs : List Nat) : rowSteps P w t vs = rowStepsTxn P w t vs := by
  unfold rowSteps; rw [gen_txn]; rfl

theorem rowPairs_each (P : Project) (w : World) (t : Nat) : ∀ (vs : List Nat) (rs : List (Nat × Nat)),
    rowPairs P w vs = some rs → rowStepsEach P w t vs = rs.map (fun r => Step.row t r.1 r.2)
  | [], rs, h => by
    simp only [rowPairs, Option.some.injEq] at h
    subst h; rfl
  | v :: vs, rs, h => by
    unfold rowPairs at h
    unfold rowStepsEach
    cases hst : stateOf P w v with
    | none => simp [hst] at h
    | some x =>
      simp only [hst] at h ⊢
      cases hrp : rowPairs P w vs with
      | none => simp [hrp] at h
      | some rs' =>
        simp only [hrp, Option.map_some, Option.some.injEq] at h
        subst h
        simp [rowPairs_each P w t vs rs' hrp]

theorem rowPairs_of_ok (P : Project) (g : G) (t : Nat) : ∀ (vs : List Nat) (w : World),
    (updateStates P g w t vs).2 = true → ∃ rs, rowPairs P w vs = some rs
  | [], _, _ => ⟨[], rfl⟩
  | v :: vs, w, h => by
    unfold updateStates at h
    unfold rowPairs
    cases hst : stateOf P w v with
    | none => simp [hst] at h
    | some x =>
      simp only [hst] at h ⊢
      obtain ⟨rs, hrs⟩ := rowPairs_of_ok P g t vs _ h
      have : rowPairs P w vs = some rs := by
        have e : ∀ (us : List Nat) (d : DB), rowPairs P { w with db := d } us = rowPairs P w us := by
          intro us d
          induction us with
          | nil => rfl
          | cons u us ih => simp only [rowPairs, stateOf_db, ih]
        rw [← e vs]; exact hrs
      exact ⟨(v, x) :: rs, by simp [this]⟩

theorem ok_of_rowPairs (P : Project) (g : G) (t : Nat) : ∀ (vs : List Nat) (w : World) (rs : List (Nat × Nat)),
    rowPairs P w vs = some rs → (updateStates P g w t vs).2 = true
  | [], _, _, _ => rfl
  | v :: vs, w, rs, h => by
    unfold rowPairs at h
    unfold updateStates
    cases hst : stateOf P w v with
    | none => simp [hst] at h
    | some x =>
      simp only [hst] at h ⊢
      cases hrp : rowPairs P w vs with
      | none => simp [hrp] at h
      | some rs' =>
        apply ok_of_rowPairs P g t vs _ rs'
        have e : ∀ (us : List Nat) (d : DB), rowPairs P { w with db := d } us = rowPairs P w us := by
          intro us d
          induction us with
          | nil => rfl
          | cons u us ih => simp only [rowPairs, stateOf_db, ih]
        rw [e]; exact hrp

theorem applyStep_rows (w : World) (t : Nat) (rs : List (Nat × Nat)) :
    applyStep w (.rows t rs) = applySteps w (rs.map (fun r => Step.row t r.1 r.2)) := by
  induction rs generalizing w with
  | nil => rfl
  | cons r rs ih =>
    simp only [List.map_cons, applySteps_cons]
    rw [← ih]
    simp [applyStep, applyRows]

/-- the row steps of a report, transactional vs per-row: nothing, or one step that equals the whole per-row list -/
theorem reportSteps_cases (P : Project) (g : G) (cfg : Cfg) (s : Sess) (t : TaskSpec) (r : Raised) :
    reportSteps P g cfg s t r = [] ∨
    ∃ rs, reportSteps P g cfg s t r = [.rows t.id rs] ∧
      reportStepsEach P g cfg s t r = rs.map (fun x => Step.row t.id x.1 x.2) := by
  unfold reportSteps reportStepsEach
  by_cases hc : (recordsOn r && !cfg.dry) = true
  · simp only [hc, if_true, rowSteps_txn]
    unfold rowStepsTxn
    cases hrp : rowPairs P s.w (neighboursBy Generated.neighbourOrder g t.id) with
    | none => exact Or.inl rfl
    | some rs => exact Or.inr ⟨rs, rfl, rowPairs_each P s.w t.id _ rs hrp⟩
  · simp only [hc, if_false, Bool.false_eq_true]
    exact Or.inl trivial

theorem take_singleton {α} (n : Nat) (x : α) : [x].take n = [] ∨ [x].take n = [x] := by
  cases n <;> simp

/-- every world a kill inside one protocol can leave under the transactional code is one the per-row code can leave -/
theorem protocol_prefix_txn (F : BodyFn) (P : Project) (g : G) (cfg : Cfg) (s : Sess) (t : TaskSpec) (j : Nat) :
    ∃ j', j' ≤ (protocolStepsEach F P g cfg s t).length ∧
      applySteps s.w ((protocolSteps F P g cfg s t).take j) = applySteps s.w ((protocolStepsEach F P g cfg s t).take j') := by
  unfold protocolSteps protocolStepsEach
  simp only []
  by_cases hj : j ≤ (phaseSteps F P g cfg s t).length
  · refine ⟨j, by simp; omega, ?_⟩
    rw [List.take_append_of_le_length hj, List.take_append_of_le_length hj]
  · rw [List.take_append, List.take_of_length_le (by omega)]
    rcases reportSteps_cases P g cfg (runPhases F P g cfg s t).2 t (runPhases F P g cfg s t).1 with h | ⟨rs, h1, h2⟩
    · refine ⟨(phaseSteps F P g cfg s t).length, by simp, ?_⟩
      rw [h, List.take_nil, List.append_nil, List.take_append_of_le_length (Nat.le_refl _), List.take_length]
    · rw [h1]
      rcases take_singleton (j - (phaseSteps F P g cfg s t).length) (Step.rows t.id rs) with h3 | h3
      · refine ⟨(phaseSteps F P g cfg s t).length, by simp, ?_⟩
        rw [h3, List.append_nil, List.take_append_of_le_length (Nat.le_refl _), List.take_length]
      · refine ⟨(phaseSteps F P g cfg s t ++ reportStepsEach P g cfg (runPhases F P g cfg s t).2 t (runPhases F P g cfg s t).1).length,
          Nat.le_refl _, ?_⟩
        rw [h3, List.take_length, applySteps_append, applySteps_append, h2]
        simp only [applySteps_cons, applySteps_nil]
        exact applyStep_rows _ _ _


/-- if the protocol did not die in `update_states_in_database`, the transactional steps compute its world -/
theorem applySteps_protocol_txn (F : BodyFn) (P : Project) (g : G) (cfg : Cfg) (s : Sess) (t : TaskSpec)
    (hc : (protocol F P g cfg s t).crashed = false) :
    applySteps s.w (protocolSteps F P g cfg s t) = (protocol F P g cfg s t).w := by
  rw [← applySteps_protocol]
  unfold protocolSteps protocolStepsEach
  simp only []
  rw [applySteps_append, applySteps_append]
  rcases reportSteps_cases P g cfg (runPhases F P g cfg s t).2 t (runPhases F P g cfg s t).1 with h | ⟨rs, h1, h2⟩
  · -- nothing committed by the transactional code: then the per-row code commits nothing either, or the protocol crashed
    rw [h]
    unfold reportSteps at h
    unfold reportStepsEach
    by_cases hrec : (recordsOn (runPhases F P g cfg s t).1 && !cfg.dry) = true
    · exfalso
      simp only [hrec, if_true, rowSteps_txn] at h
      unfold rowStepsTxn at h
      cases hrp : rowPairs P (runPhases F P g cfg s t).2.w (neighboursBy Generated.neighbourOrder g t.id) with
      | some rs => simp [hrp] at h
      | none =>
        -- no state for some neighbour: `updateStates` fails, so the protocol is marked crashed
        have hnot : (updateStates P g (runPhases F P g cfg s t).2.w t.id (neighbours g t.id)).2 = false := by
          cases hok : (updateStates P g (runPhases F P g cfg s t).2.w t.id (neighbours g t.id)).2
          · rfl
          · obtain ⟨rs, hrs⟩ := rowPairs_of_ok P g t.id _ _ hok
            rw [neighboursBy_eq] at hrp
            rw [hrp] at hrs; cases hrs
        have hdry : cfg.dry = false := by
          cases hd : cfg.dry
          · rfl
          · simp [hd] at hrec
        unfold protocol at hc
        simp only [] at hc
        cases hr : (runPhases F P g cfg s t).1 <;> simp only [hr, recordsOn] at hrec <;>
          simp [hr, processReport, recordStates, hdry, hnot] at hc hrec
    · simp only [hrec, if_false, Bool.false_eq_true]
  · rw [h1, h2]
    simp only [applySteps_cons, applySteps_nil]
    exact applyStep_rows _ _ _

theorem loopSteps_crashed_txn (F : BodyFn) (P : Project) (g : G) (cfg : Cfg) (so : Sorter) (s : Sess) (picks : List Nat)
    (h : s.crashed = true) : loopSteps F P g cfg so s picks = [] := by
  cases picks with
  | nil => rfl
  | cons t ts => unfold loopSteps; simp [h]

theorem take_le_append {α} (a b : List α) (j : Nat) (h : j ≤ a.length) : (a ++ b).take j = a.take j :=
  List.take_append_of_le_length h

/-- every world a kill can leave under the transactional code is one the per-row code can leave (build loop) -/
theorem loop_prefix_txn (F : BodyFn) (P : Project) (g : G) (cfg : Cfg) :
    ∀ (picks : List Nat) (so : Sorter) (s : Sess) (k : Nat),
      ∃ k', applySteps s.w ((loopSteps F P g cfg so s picks).take k) =
            applySteps s.w ((loopStepsEach F P g cfg so s picks).take k')
  | [], so, s, k => ⟨0, by simp [loopSteps, loopStepsEach]⟩
  | t :: ts, so, s, k => by
    unfold loopSteps loopStepsEach
    split
    · exact ⟨0, by simp⟩
    split
    · exact ⟨0, by simp⟩
    split
    · exact ⟨0, by simp⟩
    rename_i spec hfind
    by_cases hk : k ≤ (protocolSteps F P g cfg s spec).length
    · obtain ⟨j', hj', he⟩ := protocol_prefix_txn F P g cfg s spec k
      exact ⟨j', by rw [take_le_append _ _ _ hk, take_le_append _ _ _ hj']; exact he⟩
    · cases hc : (protocol F P g cfg s spec).crashed
      · -- the protocol completed: both step lists lead to its world; continue with the rest
        obtain ⟨k'', he⟩ := loop_prefix_txn F P g cfg ts ((so.take [tv t]).finish [tv t]) (protocol F P g cfg s spec)
          (k - (protocolSteps F P g cfg s spec).length)
        refine ⟨(protocolStepsEach F P g cfg s spec).length + k'', ?_⟩
        have e1 : (protocolSteps F P g cfg s spec).take k = protocolSteps F P g cfg s spec :=
          List.take_of_length_le (by omega)
        have e2 : (protocolStepsEach F P g cfg s spec).take ((protocolStepsEach F P g cfg s spec).length + k'') =
            protocolStepsEach F P g cfg s spec := List.take_of_length_le (by omega)
        have e3 : (protocolStepsEach F P g cfg s spec).length + k'' - (protocolStepsEach F P g cfg s spec).length = k'' := by omega
        rw [List.take_append, e1, applySteps_append, applySteps_protocol_txn F P g cfg s spec hc,
          List.take_append, e2, e3, applySteps_append, applySteps_protocol]
        exact he
      · -- the protocol died in `update_states_in_database`: nothing follows
        rw [loopSteps_crashed_txn _ _ _ _ _ _ _ hc, loopSteps_crashed _ _ _ _ _ _ _ hc, List.append_nil, List.append_nil]
        obtain ⟨j', _, he⟩ := protocol_prefix_txn F P g cfg s spec k
        exact ⟨j', he⟩

theorem crashAt_txn (F : BodyFn) (P : Project) (cfg : Cfg) (w : World) (picks : List Nat) (k : Nat) :
    ∃ k', crashAt F P cfg w picks k = crashAtEach F P cfg w picks k' := by
  unfold crashAt crashAtEach buildSteps buildStepsEach
  cases hdag : createDag P cfg with
  | error e => exact ⟨0, by simp⟩
  | ok gm =>
    obtain ⟨g, marks⟩ := gm
    simp only []
    cases hso : Sorter.fromDag g isTaskV (prioFn P) with
    | error e => exact ⟨0, by simp⟩
    | ok so => exact loop_prefix_txn F P g cfg picks so { w := w, skipMarks := marks } k


/-! ### one transaction per task: the database is row-consistent at every kill point -/

theorem rc_updateStates {F : BodyFn} {P : Project} {g : G} (hwf : WF P g) (w1 : World) (spec : TaskSpec)
    (hspec : spec ∈ P.tasks) (hrc : RC F P g w1.db) (hfresh : Fresh F w1 spec)
    (hok : (updateStates P g w1 spec.id (neighbours g spec.id)).2 = true) :
    RC F P g (updateStates P g w1 spec.id (neighbours g spec.id)).1.db := by
  obtain ⟨hrows, _⟩ := cr_updateStates_ok P g spec.id (neighbours g spec.id) w1 hok
  intro u hu
  by_cases heq : u = spec
  · subst heq
    intro _ pi hpi
    have row_eq : ∀ v ∈ neighbours g u.id,
        lookup (updateStates P g w1 u.id (neighbours g u.id)).1.db (tv u.id, v) = stateOf P w1 v := by
      intro v hv
      obtain ⟨x, h1, h2⟩ := hrows v hv
      rw [h1, h2]
    rw [row_eq _ (hwf.prods u hu _ (mem_prods_of_mem_zipIdx hpi)), cr_stateOf_nv, hfresh pi hpi,
      row_eq _ (tv_mem_neighbours g u.id), stateOf_tv P _ u.id u (hwf.find u hu)]
    congr 2
    apply List.map_congr_left
    intro d hd
    rw [row_eq _ (hwf.deps u hu d hd), cr_stateOf_nv]
  · have hid : u.id ≠ spec.id := fun hid => heq (wf_id_inj hwf hu hspec hid)
    exact RowsConsistent.congr (fun x => updateStates_other _ _ _ _ _ _ _ hid) (hrc u hu)

theorem recordsOn_cases (r : Raised) (h : recordsOn r = true) : r = .none ∨ r = .persisted := by
  cases r <;> simp [recordsOn] at h ⊢

theorem rc_protocol_prefix_txn {F : BodyFn} {P : Project} {g : G} (hwf : WF P g) (cfg : Cfg) (s : Sess) (spec : TaskSpec)
    (hspec : spec ∈ P.tasks) (hrc : RC F P g s.w.db) (j : Nat) :
    RC F P g (applySteps s.w ((protocolSteps F P g cfg s spec).take j)).db := by
  unfold protocolSteps
  simp only []
  have hph := phaseSteps_onlyWrites F P g cfg s spec
  by_cases hj : j ≤ (phaseSteps F P g cfg s spec).length
  · rw [List.take_append_of_le_length hj, applySteps_onlyWrites_db (hph.take j)]
    exact hrc
  · rw [List.take_append, List.take_of_length_le (by omega), applySteps_append, applySteps_phases]
    have hdb := runPhases_db F P g cfg s spec
    have hrc1 : RC F P g (runPhases F P g cfg s spec).2.w.db := by rw [hdb]; exact hrc
    unfold reportSteps
    by_cases hrec : (recordsOn (runPhases F P g cfg s spec).1 && !cfg.dry) = true
    · simp only [hrec, if_true, rowSteps_txn, neighboursBy_eq]
      unfold rowStepsTxn
      cases hrp : rowPairs P (runPhases F P g cfg s spec).2.w (neighbours g spec.id) with
      | none => simpa using hrc1
      | some rs =>
        simp only []
        rcases take_singleton (j - (phaseSteps F P g cfg s spec).length) (Step.rows spec.id rs) with h3 | h3
        · rw [h3]; simpa using hrc1
        · rw [h3]
          simp only [applySteps_cons, applySteps_nil]
          have hr : (runPhases F P g cfg s spec).1 = .none := by
            have h1 : recordsOn (runPhases F P g cfg s spec).1 = true := by
              cases h : recordsOn (runPhases F P g cfg s spec).1
              · simp [h] at hrec
              · rfl
            rcases recordsOn_cases _ h1 with h | h
            · exact h
            · exact absurd h (runPhases_ne_persisted F P g cfg s spec (hwf.noPersist spec hspec))
          have hfresh := runPhases_none_fresh F P g cfg s spec (hwf.nodup spec hspec) (hwf.disj spec hspec)
            (hwf.honest spec hspec) hr
          have hok := ok_of_rowPairs P g spec.id _ _ rs hrp
          rw [applyStep_rows, ← rowPairs_each P _ spec.id _ rs hrp, applySteps_rows P g]
          exact rc_updateStates hwf _ spec hspec hrc1 hfresh hok
    · simp only [hrec, if_false, Bool.false_eq_true, List.take_nil, applySteps_nil]
      exact hrc1

/-- With one transaction per task, the database is row-consistent after every prefix of the atomic updates of a build loop. -/
theorem rc_loop_prefix_txn {F : BodyFn} {P : Project} {g : G} (hwf : WF P g) (cfg : Cfg) :
    ∀ (picks : List Nat) (so : Sorter) (s : Sess), RC F P g s.w.db → ∀ k,
      RC F P g (applySteps s.w ((loopSteps F P g cfg so s picks).take k)).db
  | [], so, s, hrc, k => by simpa [loopSteps] using hrc
  | t :: ts, so, s, hrc, k => by
    unfold loopSteps
    split
    · simpa using hrc
    split
    · simpa using hrc
    split
    · simpa using hrc
    rename_i spec hfind
    have hspec := mem_of_find? hfind
    by_cases hk : k ≤ (protocolSteps F P g cfg s spec).length
    · rw [List.take_append_of_le_length hk]
      exact rc_protocol_prefix_txn hwf cfg s spec hspec hrc k
    · cases hc : (protocol F P g cfg s spec).crashed
      · have e1 : (protocolSteps F P g cfg s spec).take k = protocolSteps F P g cfg s spec :=
          List.take_of_length_le (by omega)
        rw [List.take_append, e1, applySteps_append, applySteps_protocol_txn F P g cfg s spec hc]
        rcases rc_protocol hwf cfg s spec hspec hrc with h | h
        · rw [hc] at h; cases h
        · exact rc_loop_prefix_txn hwf cfg ts _ _ h _
      · rw [loopSteps_crashed_txn _ _ _ _ _ _ _ hc, List.append_nil]
        exact rc_protocol_prefix_txn hwf cfg s spec hspec hrc k

/-- … and so at every kill point of a build. -/
theorem rc_crashAt {F : BodyFn} {P : Project} {cfg : Cfg} {g : G} {marks : List Nat} (hdag : createDag P cfg = .ok (g, marks))
    (hwf : WF P g) (w : World) (hrc : RC F P g w.db) (picks : List Nat) (k : Nat) :
    RC F P g (crashAt F P cfg w picks k).db := by
  unfold crashAt buildSteps
  simp only [hdag]
  cases hso : Sorter.fromDag g isTaskV (prioFn P) with
  | error e => simpa using hrc
  | ok so => exact rc_loop_prefix_txn hwf cfg picks so { w := w, skipMarks := marks } hrc k


/-! ### refinement of `Engine.build` by the transactional step list -/

theorem applySteps_loop_txn (F : BodyFn) (P : Project) (g : G) (cfg : Cfg) :
    ∀ (picks : List Nat) (so : Sorter) (s : Sess) (so' : Sorter) (s' : Sess),
      buildLoop F P g cfg so s picks = .ok (so', s') → s'.crashed = false →
      applySteps s.w (loopSteps F P g cfg so s picks) = s'.w
  | [], so, s, so', s', h, _ => by
    simp only [buildLoop, Except.ok.injEq, Prod.mk.injEq] at h
    obtain ⟨_, rfl⟩ := h
    rfl
  | t :: ts, so, s, so', s', h, hcr => by
    unfold buildLoop at h
    unfold loopSteps
    split at h
    · cases h
    rename_i h1
    split at h
    · cases h
    rename_i h2
    rw [if_neg h1, if_neg h2]
    split at h
    · cases h
    rename_i spec hfind
    have hc : (protocol F P g cfg s spec).crashed = false := by
      cases hc : (protocol F P g cfg s spec).crashed
      · rfl
      · exfalso
        cases ts with
        | nil =>
          simp only [buildLoop, Except.ok.injEq, Prod.mk.injEq] at h
          obtain ⟨_, rfl⟩ := h
          rw [hc] at hcr; cases hcr
        | cons u us => unfold buildLoop at h; simp [hc] at h
    simp only [hfind]
    rw [applySteps_append, applySteps_protocol_txn F P g cfg s spec hc]
    exact applySteps_loop_txn F P g cfg ts _ _ so' s' h hcr

/-! ### convergence of a recovery build started in a row-consistent world -/

theorem converge_rc_loop (F : BodyFn) (P : Project) (g : G) (cfg' cfg0 : Cfg) (marks0 : List Nat)
    (hs : WFSpec P) (hdag : createDag P cfg0 = .ok (g, marks0))
    (so0 : Sorter) (hso : Sorter.fromDag g isTaskV (prioFn P) = .ok so0)
    (s2 : Sess) (hrc : RC F P g s2.w.db) (picks2 : List Nat) (so3 : Sorter) (s3 : Sess)
    (hloop2 : buildLoop F P g cfg' so0 s2 picks2 = .ok (so3, s3)) (hgood2 : ∀ rep ∈ s3.reports, GoodOutcome rep.2)
    (hcr : s3.crashed = false) (hall : ∀ t ∈ P.tasks, t.id ∈ picks2) :
    (∀ t ∈ P.tasks, Fresh F s3.w t) ∧ (∀ t ∈ P.tasks, RowsMatch P g s3.w t.id) ∧
    (∀ (cfg'' : Cfg) (so4 so5 : Sorter) (s4 s5 : Sess) (picks : List Nat), cfg''.force = false → s4.w = s3.w →
        buildLoop F P g cfg'' so4 s4 picks = .ok (so5, s5) → s5.log = s4.log ∧ s5.w = s4.w) := by
  have hwf := wf_of_createDag hdag hs
  have hbip := hbip_of_createDag hdag
  have q3 := q_loop hwf (wf2_of_spec hs) cfg' picks2 so0 s2 so3 s3 (fun _ => False) (Q.of_rc hrc) hloop2 hgood2
    (dataOrdered_of_loop F hdag hs so0 so3 s2 s3 picks2 hso hloop2)
  have hfresh := q3.allFresh (fun t ht => Or.inr (hall t ht))
  have hrows : ∀ t ∈ P.tasks, RowsMatch P g s3.w t.id := by
    have := rowsMatch_loop hwf hbip cfg' picks2 so0 s2 so3 s3 [] (fun _ h => by cases h) hloop2 hgood2 hcr
      (frameOrdered_of_loop F hdag hs so0 so3 s2 s3 picks2 hso hloop2)
    intro t ht
    exact this t.id (by simpa using hall t ht)
  refine ⟨hfresh, hrows, ?_⟩
  intro cfg'' so4 so5 s4 s5 picks hforce hw4 hloop
  exact quiet_loop hwf cfg'' hforce picks so4 s4 so5 s5 (by rw [hw4]; exact hrows) hloop

end Engine
end Pytask
