import PytaskModel.SorterGen
/-!
Refinement lemmas: the interpreters of `SorterGen.lean`, run on the data extracted from `dag_utils.py`
(`Generated.Srt.*`), compute the hand-written definitions of `Sorter.lean`. Every proof unfolds the generated terms.
-/
set_option linter.unusedSimpArgs false
namespace Pytask
namespace SorterGen
open Sorter Generated.Srt

theorem fromDagGen_eq (full : G) (isTask : Nat → Bool) (prio : Nat → Int) :
    fromDagGen full isTask prio = Sorter.fromDag full isTask prio := by
  simp [fromDagGen, Sorter.fromDag, Generated.Srt.fromDag, checkDagRaisesOnCycle, relOf]

theorem indeg_zero (s : Sorter) (v : Nat) : (indeg s v == 0) = s.indeg0 v := by
  unfold indeg Sorter.indeg0
  induction s.edges with
  | nil => simp
  | cons e es ih =>
    by_cases h : e.2 = v
    · simp [List.filter_cons, h]
    · have h' : (e.2 == v) = false := by simpa using h
      have h2 : (e.2 != v) = true := by simpa using h
      simp only [List.filter_cons, h', List.all_cons, h2, Bool.true_and]
      exact ih

theorem availGen_eq (s : Sorter) : availGen s = s.avail := by
  unfold availGen Sorter.avail
  congr 1
  funext v
  have := indeg_zero s v
  simp only [readyDegree, readyMinus, inSet, List.all_cons, List.all_nil, Bool.and_true] at this ⊢
  rw [this]

theorem readyWithGen_eq (s : Sorter) (enum : List Nat) (n : Nat) : readyWithGen s enum n = s.readyWith enum n := by
  simp [readyWithGen, Sorter.readyWith, sortReversed, sliceLast, Generated.readySortReversed, Generated.readySliceLast]

theorem takeGen_eq (s : Sorter) (b : List Nat) : takeGen s b = s.take b := by
  simp [takeGen, Sorter.take, takeUpdates, addTo]

theorem finishGen_eq (s : Sorter) (xs : List Nat) : finishGen s xs = s.finish xs := by
  simp [finishGen, Sorter.finish, doneOps, doneStep]

theorem isActiveGen_eq (s : Sorter) : isActiveGen s = s.isActive := by
  simp [isActiveGen, Sorter.isActive, isActiveByNodes]

theorem fromDagAndSorterGen_eq (full : G) (isTask : Nat → Bool) (prio : Nat → Int) (old : Sorter) :
    fromDagAndSorterGen full isTask prio old = Sorter.fromDagAndSorter full isTask prio old := by
  unfold fromDagAndSorterGen Sorter.fromDagAndSorter
  simp only [recreateOps, fromDagGen_eq]
  cases Sorter.fromDag full isTask prio with
  | error e => rfl
  | ok s => simp [recStep, finishGen_eq]

/-- `get_ready(n)`: `ValueError` for `n < 1`, otherwise the model's sorted slice and `take`. -/
theorem getReadyGen_eq (s : Sorter) (enum : List Nat) (n : Int) :
    getReadyGen s enum n =
      if n < 1 then .error .badN else .ok (s.readyWith enum n.toNat, s.take (s.readyWith enum n.toNat)) := by
  simp [getReadyGen, readyMinN, readyWithGen_eq, takeGen_eq]

theorem prioOfGen_eq (tf tl : Bool) :
    prioOfGen (fun m => if m == "try_first" then tf else if m == "try_last" then tl else false) = Sorter.prioOf tf tl := by
  cases tf <;> cases tl <;>
    simp [prioOfGen, Sorter.prioOf, prioIndex, prioMarks, prioTable, Generated.priorityTable]

theorem prioFnGen_eq (P : Project) (v : Nat) : prioFnGen P v = Engine.prioFn P v := by
  unfold prioFnGen Engine.prioFn
  cases Engine.Project.find? P (v / 2) <;> simp [Generated.Srt.prioDefault]

end SorterGen
end Pytask
