import PytaskModel.Collect
/-! Helper lemmas for M9a (collection). Property statements live in `Properties/C13.lean`. -/
namespace Pytask
namespace Collect

/-! ### The walk -/

mutual
/-- `p` is a file of the tree `t` (located in directory `pre`) that can be reached from `t` through
directories none of which is ignored, and is not ignored itself. -/
def reachT (ign : Path → Bool) (pre : Path) : Tree → Path → Prop
  | .file n, p => ign (pre ++ [n]) = false ∧ p = pre ++ [n]
  | .dir n cs, p => ign (pre ++ [n]) = false ∧ reachTs ign (pre ++ [n]) cs p
def reachTs (ign : Path → Bool) (pre : Path) : List Tree → Path → Prop
  | [], _ => False
  | t :: ts, p => reachT ign pre t p ∨ reachTs ign pre ts p
end

mutual
theorem walkT_spec (ign : Path → Bool) (pre : Path) (t : Tree) (acc : List Path) (h : acc.Nodup) :
    (walkT ign pre t acc).Nodup ∧ ∀ p, p ∈ walkT ign pre t acc ↔ (p ∈ acc ∨ reachT ign pre t p) := by
  cases t with
  | file n =>
    unfold walkT
    by_cases hi : ign (pre ++ [n]) = true
    · simp [hi, h, reachT]
    · have hi' : ign (pre ++ [n]) = false := by simpa using hi
      by_cases hc : acc.contains (pre ++ [n]) = true
      · simp only [hi', hc, reachT]
        refine ⟨by simpa using h, ?_⟩
        intro p
        constructor
        · intro hp; exact Or.inl hp
        · rintro (hp | ⟨_, rfl⟩)
          · exact hp
          · simpa using hc
      · have hc' : (pre ++ [n]) ∉ acc := by simpa using hc
        simp only [hi', hc, reachT]
        refine ⟨?_, ?_⟩
        · simp only [Bool.false_eq_true, ↓reduceIte]
          exact List.nodup_append.2 ⟨h, by simp, by
            intro a ha b hb
            simp at hb
            subst hb
            intro hab; subst hab; exact hc' ha⟩
        · intro p
          simp
  | dir n cs =>
    unfold walkT
    by_cases hi : ign (pre ++ [n]) = true
    · simp [hi, h, reachT]
    · have hi' : ign (pre ++ [n]) = false := by simpa using hi
      have := walkTs_spec ign (pre ++ [n]) cs acc h
      simp only [hi', reachT]
      simpa using this
theorem walkTs_spec (ign : Path → Bool) (pre : Path) (ts : List Tree) (acc : List Path) (h : acc.Nodup) :
    (walkTs ign pre ts acc).Nodup ∧ ∀ p, p ∈ walkTs ign pre ts acc ↔ (p ∈ acc ∨ reachTs ign pre ts p) := by
  cases ts with
  | nil => unfold walkTs; simp [reachTs, h]
  | cons t rest =>
    unfold walkTs
    have h1 := walkT_spec ign pre t acc h
    have h2 := walkTs_spec ign pre rest (walkT ign pre t acc) h1.1
    refine ⟨h2.1, ?_⟩
    intro p
    rw [h2.2 p, h1.2 p]
    simp only [reachTs]
    constructor
    · rintro ((h | h) | h)
      · exact Or.inl h
      · exact Or.inr (Or.inl h)
      · exact Or.inr (Or.inr h)
    · rintro (h | h | h)
      · exact Or.inl (Or.inl h)
      · exact Or.inl (Or.inr h)
      · exact Or.inr h
end

/-- the files reachable from one configured path. -/
def reachFrom (fs : FS) (ign : Path → Bool) (root : Path) (p : Path) : Prop :=
  ∃ t, fs.lookup root = some t ∧ reachT ign root.dropLast t p

theorem walkPath_spec (fs : FS) (ign : Path → Bool) (acc : List Path) (r : Path) (h : acc.Nodup) :
    (walkPath fs ign acc r).Nodup ∧ ∀ p, p ∈ walkPath fs ign acc r ↔ (p ∈ acc ∨ reachFrom fs ign r p) := by
  unfold walkPath reachFrom
  cases hl : fs.lookup r with
  | none => simp [h]
  | some t =>
    have := walkT_spec ign r.dropLast t acc h
    simpa using this

theorem foldl_walkPath_spec (fs : FS) (ign : Path → Bool) (paths : List Path) (acc : List Path) (h : acc.Nodup) :
    (paths.foldl (walkPath fs ign) acc).Nodup ∧
      ∀ p, p ∈ paths.foldl (walkPath fs ign) acc ↔ (p ∈ acc ∨ ∃ r ∈ paths, reachFrom fs ign r p) := by
  induction paths generalizing acc with
  | nil => simp [h]
  | cons r rest ih =>
    have h1 := walkPath_spec fs ign acc r h
    have h2 := ih (walkPath fs ign acc r) h1.1
    refine ⟨h2.1, ?_⟩
    intro p
    simp only [List.foldl_cons]
    rw [h2.2 p, h1.2 p]
    constructor
    · rintro ((h | h) | ⟨r', hr', h⟩)
      · exact Or.inl h
      · exact Or.inr ⟨r, by simp, h⟩
      · exact Or.inr ⟨r', by simp [hr'], h⟩
    · rintro (h | ⟨r', hr', h⟩)
      · exact Or.inl (Or.inl h)
      · rcases List.mem_cons.1 hr' with rfl | hr'
        · exact Or.inl (Or.inr h)
        · exact Or.inr ⟨r', hr', h⟩

/-! ### Shortest unique names -/

theorem length_lastN {α : Type} (n : Nat) (l : List α) : (lastN n l).length = min n l.length := by
  simp [lastN]; omega

theorem lastN_of_le {α : Type} (n : Nat) (l : List α) (h : l.length ≤ n) : lastN n l = l := by
  have : l.length - n = 0 := by omega
  simp [lastN, this]

/-- a name fixed in a later round (more components) cannot equal a name fixed earlier, unless the
two already clashed in the earlier round. -/
theorem shortOf_ne_later (k k0 : TKey) (n0 n : Nat) (hn : n0 < n) (h : shortOf n0 k ≠ shortOf n0 k0) :
    shortOf n k ≠ shortOf n0 k0 := by
  intro heq
  unfold shortOf at h heq
  have h1 := (Prod.mk.injEq _ _ _ _).mp heq
  by_cases hl : ("/" :: k.1).length ≤ n0
  · apply h
    rw [lastN_of_le n0 _ hl]
    rw [lastN_of_le n _ (by omega)] at heq
    exact heq
  · have := congrArg List.length h1.1
    rw [length_lastN, length_lastN] at this
    omega

theorem full_ne_shortOf (k k0 : TKey) (n0 : Nat) (h : shortOf n0 k ≠ shortOf n0 k0) :
    (("/" :: k.1, k.2) : TKey) ≠ shortOf n0 k0 := by
  intro heq
  unfold shortOf at h heq
  have h1 := (Prod.mk.injEq _ _ _ _).mp heq
  by_cases hl : ("/" :: k.1).length ≤ n0
  · apply h
    rw [lastN_of_le n0 _ hl]
    exact heq
  · have := congrArg List.length h1.1
    rw [length_lastN] at this
    omega

theorem count_one_inj {α β : Type} [BEq β] [LawfulBEq β] (f : α → β) :
    ∀ (l : List α) (a b : α), a ∈ l → b ∈ l → (l.map f).count (f a) = 1 → f b = f a → a = b := by
  intro l
  induction l with
  | nil => intro a b ha; simp at ha
  | cons x xs ih =>
    intro a b ha hb hc hf
    simp only [List.map_cons, List.count_cons] at hc
    rcases List.mem_cons.1 ha with rfl | ha'
    · rcases List.mem_cons.1 hb with rfl | hb'
      · rfl
      · have h0 : (xs.map f).count (f a) = 0 := by simpa using hc
        have : f b ∈ xs.map f := List.mem_map.2 ⟨b, hb', rfl⟩
        rw [hf] at this
        have := List.count_pos_iff.2 this
        omega
    · have hpos : 0 < (xs.map f).count (f a) := List.count_pos_iff.2 (List.mem_map.2 ⟨a, ha', rfl⟩)
      rcases List.mem_cons.1 hb with rfl | hb'
      · simp [hf] at hc
        omega
      · by_cases hx : f x = f a
        · simp [hx] at hc
          omega
        · have hx' : (f x == f a) = false := by simpa using hx
          simp only [hx'] at hc
          exact ih a b ha' hb' (by simpa using hc) hf

structure SInv (st : List (TKey × TKey) × List TKey) (N : Nat) : Prop where
  fixed : ∀ e ∈ st.1, ∃ n, n < N ∧ e.2 = shortOf n e.1 ∧ ∀ k' ∈ st.2, shortOf n k' ≠ e.2
  inj : ∀ e1 ∈ st.1, ∀ e2 ∈ st.1, e1.1 ≠ e2.1 → e1.2 ≠ e2.2
  apart : ∀ e ∈ st.1, e.1 ∉ st.2

theorem uniqueAt_inj (n : Nat) (rem : List TKey) (k k' : TKey) (hk : k ∈ rem) (hk' : k' ∈ rem)
    (hu : uniqueAt n rem k = true) (h : shortOf n k' = shortOf n k) : k = k' := by
  unfold uniqueAt at hu
  exact count_one_inj (shortOf n) rem k k' hk hk' (by simpa using hu) h

theorem roundStep_inv (st : List (TKey × TKey) × List TKey) (N n : Nat) (hN : N ≤ n) (h : SInv st N) :
    SInv (roundStep st n) (n + 1) := by
  unfold roundStep
  constructor
  · intro e he
    rcases List.mem_append.1 he with he | he
    · obtain ⟨n0, hn0, hs, hrem⟩ := h.fixed e he
      exact ⟨n0, by omega, hs, fun k' hk' => hrem k' (List.mem_filter.1 hk').1⟩
    · obtain ⟨k, hk, rfl⟩ := List.mem_map.1 he
      have hk' := List.mem_filter.1 hk
      refine ⟨n, by omega, rfl, ?_⟩
      intro k' hk2 heq
      have hk2' := List.mem_filter.1 hk2
      have := uniqueAt_inj n st.2 k k' hk'.1 hk2'.1 hk'.2 heq
      subst this
      simp [hk'.2] at hk2'
  · intro e1 h1 e2 h2 hne
    rcases List.mem_append.1 h1 with h1 | h1 <;> rcases List.mem_append.1 h2 with h2 | h2
    · exact h.inj e1 h1 e2 h2 hne
    · obtain ⟨k, hk, rfl⟩ := List.mem_map.1 h2
      obtain ⟨n0, hn0, hs, hrem⟩ := h.fixed e1 h1
      have hk' := List.mem_filter.1 hk
      have := shortOf_ne_later k e1.1 n0 n (by omega) (by rw [← hs]; exact hrem k hk'.1)
      intro heq
      apply this
      simp only at heq
      rw [← heq, hs]
    · obtain ⟨k, hk, rfl⟩ := List.mem_map.1 h1
      obtain ⟨n0, hn0, hs, hrem⟩ := h.fixed e2 h2
      have hk' := List.mem_filter.1 hk
      have := shortOf_ne_later k e2.1 n0 n (by omega) (by rw [← hs]; exact hrem k hk'.1)
      intro heq
      apply this
      simp only at heq
      rw [heq, hs]
    · obtain ⟨k1, hk1, rfl⟩ := List.mem_map.1 h1
      obtain ⟨k2, hk2, rfl⟩ := List.mem_map.1 h2
      have hk1' := List.mem_filter.1 hk1
      have hk2' := List.mem_filter.1 hk2
      intro heq
      exact hne (uniqueAt_inj n st.2 k1 k2 hk1'.1 hk2'.1 hk1'.2 heq.symm)
  · intro e he
    rcases List.mem_append.1 he with he | he
    · intro hmem
      exact h.apart e he (List.mem_filter.1 hmem).1
    · obtain ⟨k, hk, rfl⟩ := List.mem_map.1 he
      have hk' := List.mem_filter.1 hk
      intro hmem
      have := (List.mem_filter.1 hmem).2
      simp [hk'.2] at this

theorem foldl_roundStep_inv (len : Nat) : ∀ (s : Nat) (st : List (TKey × TKey) × List TKey) (N : Nat), N ≤ s → SInv st N →
    SInv ((List.range' s len).foldl roundStep st) (s + len) := by
  induction len with
  | zero => intro s st N hN h; simpa using ⟨fun e he => by
      obtain ⟨n, hn, r⟩ := h.fixed e he; exact ⟨n, by omega, r⟩, h.inj, h.apart⟩
  | succ m ih =>
    intro s st N hN h
    rw [List.range'_succ, List.foldl_cons]
    have := ih (s + 1) (roundStep st s) (s + 1) (Nat.le_refl _) (roundStep_inv st N s hN h)
    rw [show s + (m + 1) = s + 1 + m by omega]
    exact this

theorem roundStep_keys (st : List (TKey × TKey) × List TKey) (n : Nat) (k : TKey) :
    (k ∈ (roundStep st n).1.map Prod.fst ∨ k ∈ (roundStep st n).2) ↔ (k ∈ st.1.map Prod.fst ∨ k ∈ st.2) := by
  unfold roundStep
  simp only [List.map_append, List.map_map, List.mem_append, List.mem_map, List.mem_filter, Function.comp]
  constructor
  · rintro ((h | ⟨a, ⟨ha, _⟩, rfl⟩) | ⟨h, _⟩)
    · exact Or.inl h
    · exact Or.inr ha
    · exact Or.inr h
  · rintro (h | h)
    · exact Or.inl (Or.inl h)
    · by_cases hu : uniqueAt n st.2 k = true
      · exact Or.inl (Or.inr ⟨k, ⟨h, hu⟩, rfl⟩)
      · exact Or.inr ⟨h, by simpa using hu⟩

theorem foldl_roundStep_keys (ns : List Nat) : ∀ (st : List (TKey × TKey) × List TKey) (k : TKey),
    (k ∈ (ns.foldl roundStep st).1.map Prod.fst ∨ k ∈ (ns.foldl roundStep st).2) ↔ (k ∈ st.1.map Prod.fst ∨ k ∈ st.2) := by
  induction ns with
  | nil => intro st k; simp
  | cons n rest ih => intro st k; rw [List.foldl_cons, ih, roundStep_keys]

theorem mem_dedupK (l : List TKey) (k : TKey) : k ∈ dedupK l ↔ k ∈ l := by
  induction l with
  | nil => simp [dedupK]
  | cons x xs ih =>
    simp only [dedupK, List.mem_cons, List.mem_filter, ih]
    constructor
    · rintro (h | ⟨h, _⟩)
      · exact Or.inl h
      · exact Or.inr h
    · rintro (h | h)
      · exact Or.inl h
      · by_cases hx : k = x
        · exact Or.inl hx
        · exact Or.inr ⟨h, by simpa using hx⟩

end Collect
end Pytask
