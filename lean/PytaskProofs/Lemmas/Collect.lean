import PytaskModel.Collect
/-! Helper lemmas for M9a (collection). Property statements live in `Properties/C13.lean`. -/
namespace Pytask
namespace Collect

/-! ### The walk -/

mutual
/-- `p` is a file of the tree `t` (located in directory `pre`) that can be reached from `t` through
directories none of which is ignored, and is not ignored itself. -/
def reachT (ign : Path → Bool) (pre : Path) : Tree → Path → Prop
  | .file n, p => ign (pre ++ [n]) = false ∧ p = pre ++ [n]
  | .dir n cs, p => ign (pre ++ [n]) = false ∧ reachTs ign (pre ++ [n]) cs p
def reachTs (ign : Path → Bool) (pre : Path) : List Tree → Path → Prop
  | [], _ => False
  | t :: ts, p => reachT ign pre t p ∨ reachTs ign pre ts p
end

mutual
theorem walkT_spec (ign : Path → Bool) (pre : Path) (t : Tree) (acc : List Path) (h : acc.Nodup) :
    (walkT ign pre t acc).Nodup ∧ ∀ p, p ∈ walkT ign pre t acc ↔ (p ∈ acc ∨ reachT ign pre t p) := by
  cases t with
  | file n =>
    unfold walkT
    by_cases hi : ign (pre ++ [n]) = true
    · simp [hi, h, reachT]
    · have hi' : ign (pre ++ [n]) = false := by simpa using hi
      by_cases hc : acc.contains (pre ++ [n]) = true
      · simp only [hi', hc, reachT]
        refine ⟨by simpa using h, ?_⟩
        intro p
        constructor
        · intro hp; exact Or.inl hp
        · rintro (hp | ⟨_, rfl⟩)
          · exact hp
          · simpa using hc
      · have hc' : (pre ++ [n]) ∉ acc := by simpa using hc
        simp only [hi', hc, reachT]
        refine ⟨?_, ?_⟩
        · simp only [Bool.false_eq_true, ↓reduceIte]
          exact List.nodup_append.2 ⟨h, by simp, by
            intro a ha b hb
            simp at hb
            subst hb
            intro hab; subst hab; exact hc' ha⟩
        · intro p
          simp
  | dir n cs =>
    unfold walkT
    by_cases hi : ign (pre ++ [n]) = true
    · simp [hi, h, reachT]
    · have hi' : ign (pre ++ [n]) = false := by simpa using hi
      have := walkTs_spec ign (pre ++ [n]) cs acc h
      simp only [hi', reachT]
      simpa using this
theorem walkTs_spec (ign : Path → Bool) (pre : Path) (ts : List Tree) (acc : List Path) (h : acc.Nodup) :
    (walkTs ign pre ts acc).Nodup ∧ ∀ p, p ∈ walkTs ign pre ts acc ↔ (p ∈ acc ∨ reachTs ign pre ts p) := by
  cases ts with
  | nil => unfold walkTs; simp [reachTs, h]
  | cons t rest =>
    unfold walkTs
    have h1 := walkT_spec ign pre t acc h
    have h2 := walkTs_spec ign pre rest (walkT ign pre t acc) h1.1
    refine ⟨h2.1, ?_⟩
    intro p
    rw [h2.2 p, h1.2 p]
    simp only [reachTs]
    constructor
    · rintro ((h | h) | h)
      · exact Or.inl h
      · exact Or.inr (Or.inl h)
      · exact Or.inr (Or.inr h)
    · rintro (h | h | h)
      · exact Or.inl (Or.inl h)
      · exact Or.inl (Or.inr h)
      · exact Or.inr h
end

/-- the files reachable from one configured path. -/
def reachFrom (fs : FS) (ign : Path → Bool) (root : Path) (p : Path) : Prop :=
  ∃ t, fs.lookup root = some t ∧ reachT ign root.dropLast t p

theorem walkPath_spec (fs : FS) (ign : Path → Bool) (acc : List Path) (r : Path) (h : acc.Nodup) :
    (walkPath fs ign acc r).Nodup ∧ ∀ p, p ∈ walkPath fs ign acc r ↔ (p ∈ acc ∨ reachFrom fs ign r p) := by
  unfold walkPath reachFrom
  cases hl : fs.lookup r with
  | none => simp [h]
  | some t =>
    have := walkT_spec ign r.dropLast t acc h
    simpa using this

theorem foldl_walkPath_spec (fs : FS) (ign : Path → Bool) (paths : List Path) (acc : List Path) (h : acc.Nodup) :
    (paths.foldl (walkPath fs ign) acc).Nodup ∧
      ∀ p, p ∈ paths.foldl (walkPath fs ign) acc ↔ (p ∈ acc ∨ ∃ r ∈ paths, reachFrom fs ign r p) := by
  induction paths generalizing acc with
  | nil => simp [h]
  | cons r rest ih =>
    have h1 := walkPath_spec fs ign acc r h
    have h2 := ih (walkPath fs ign acc r) h1.1
    refine ⟨h2.1, ?_⟩
    intro p
    simp only [List.foldl_cons]
    rw [h2.2 p, h1.2 p]
    constructor
    · rintro ((h | h) | ⟨r', hr', h⟩)
      · exact Or.inl h
      · exact Or.inr ⟨r, by simp, h⟩
      · exact Or.inr ⟨r', by simp [hr'], h⟩
    · rintro (h | ⟨r', hr', h⟩)
      · exact Or.inl (Or.inl h)
      · rcases List.mem_cons.1 hr' with rfl | hr'
        · exact Or.inl (Or.inr h)
        · exact Or.inr ⟨r', hr', h⟩

/-! ### Shortest unique names -/

theorem length_lastN {α : Type} (n : Nat) (l : List α) : (lastN n l).length = min n l.length := by
  simp [lastN]; omega

theorem lastN_of_le {α : Type} (n : Nat) (l : List α) (h : l.length ≤ n) : lastN n l = l := by
  have : l.length - n = 0 := by omega
  simp [lastN, this]

/-- a name fixed in a later round (more components) cannot equal a name fixed earlier, unless the
two already clashed in the earlier round. -/
theorem shortOf_ne_later (k k0 : TKey) (n0 n : Nat) (hn : n0 < n) (h : shortOf n0 k ≠ shortOf n0 k0) :
    shortOf n k ≠ shortOf n0 k0 := by
  intro heq
  unfold shortOf at h heq
  have h1 := (Prod.mk.injEq _ _ _ _).mp heq
  by_cases hl : ("/" :: k.1).length ≤ n0
  · apply h
    rw [lastN_of_le n0 _ hl]
    rw [lastN_of_le n _ (by omega)] at heq
    exact heq
  · have := congrArg List.length h1.1
    rw [length_lastN, length_lastN] at this
    omega

theorem full_ne_shortOf (k k0 : TKey) (n0 : Nat) (h : shortOf n0 k ≠ shortOf n0 k0) :
    (("/" :: k.1, k.2) : TKey) ≠ shortOf n0 k0 := by
  intro heq
  unfold shortOf at h heq
  have h1 := (Prod.mk.injEq _ _ _ _).mp heq
  by_cases hl : ("/" :: k.1).length ≤ n0
  · apply h
    rw [lastN_of_le n0 _ hl]
    exact heq
  · have := congrArg List.length h1.1
    rw [length_lastN] at this
    omega

theorem count_one_inj {α β : Type} [BEq β] [LawfulBEq β] (f : α → β) :
    ∀ (l : List α) (a b : α), a ∈ l → b ∈ l → (l.map f).count (f a) = 1 → f b = f a → a = b := by
  intro l
  induction l with
  | nil => intro a b ha; simp at ha
  | cons x xs ih =>
    intro a b ha hb hc hf
    simp only [List.map_cons, List.count_cons] at hc
    rcases List.mem_cons.1 ha with rfl | ha'
    · rcases List.mem_cons.1 hb with rfl | hb'
      · rfl
      · have h0 : (xs.map f).count (f a) = 0 := by simpa using hc
        have : f b ∈ xs.map f := List.mem_map.2 ⟨b, hb', rfl⟩
        rw [hf] at this
        have := List.count_pos_iff.2 this
        omega
    · have hpos : 0 < (xs.map f).count (f a) := List.count_pos_iff.2 (List.mem_map.2 ⟨a, ha', rfl⟩)
      rcases List.mem_cons.1 hb with rfl | hb'
      · simp [hf] at hc
        omega
      · by_cases hx : f x = f a
        · simp [hx] at hc
          omega
        · have hx' : (f x == f a) = false := by simpa using hx
          simp only [hx'] at hc
          exact ih a b ha' hb' (by simpa using hc) hf

structure SInv (st : List (TKey × TKey) × List TKey) (N : Nat) : Prop where
  fixed : ∀ e ∈ st.1, ∃ n, n < N ∧ e.2 = shortOf n e.1 ∧ ∀ k' ∈ st.2, shortOf n k' ≠ e.2
  inj : ∀ e1 ∈ st.1, ∀ e2 ∈ st.1, e1.1 ≠ e2.1 → e1.2 ≠ e2.2
  apart : ∀ e ∈ st.1, e.1 ∉ st.2

theorem uniqueAt_inj (n : Nat) (rem : List TKey) (k k' : TKey) (hk : k ∈ rem) (hk' : k' ∈ rem)
    (hu : uniqueAt n rem k = true) (h : shortOf n k' = shortOf n k) : k = k' := by
  unfold uniqueAt at hu
  exact count_one_inj (shortOf n) rem k k' hk hk' (by simpa using hu) h

theorem roundStep_inv (st : List (TKey × TKey) × List TKey) (N n : Nat) (hN : N ≤ n) (h : SInv st N) :
    SInv (roundStep st n) (n + 1) := by
  unfold roundStep
  constructor
  · intro e he
    rcases List.mem_append.1 he with he | he
    · obtain ⟨n0, hn0, hs, hrem⟩ := h.fixed e he
      exact ⟨n0, by omega, hs, fun k' hk' => hrem k' (List.mem_filter.1 hk').1⟩
    · obtain ⟨k, hk, rfl⟩ := List.mem_map.1 he
      have hk' := List.mem_filter.1 hk
      refine ⟨n, by omega, rfl, ?_⟩
      intro k' hk2 heq
      have hk2' := List.mem_filter.1 hk2
      have := uniqueAt_inj n st.2 k k' hk'.1 hk2'.1 hk'.2 heq
      subst this
      simp [hk'.2] at hk2'
  · intro e1 h1 e2 h2 hne
    rcases List.mem_append.1 h1 with h1 | h1 <;> rcases List.mem_append.1 h2 with h2 | h2
    · exact h.inj e1 h1 e2 h2 hne
    · obtain ⟨k, hk, rfl⟩ := List.mem_map.1 h2
      obtain ⟨n0, hn0, hs, hrem⟩ := h.fixed e1 h1
      have hk' := List.mem_filter.1 hk
      have := shortOf_ne_later k e1.1 n0 n (by omega) (by rw [← hs]; exact hrem k hk'.1)
      intro heq
      apply this
      simp only at heq
      rw [← heq, hs]
    · obtain ⟨k, hk, rfl⟩ := List.mem_map.1 h1
      obtain ⟨n0, hn0, hs, hrem⟩ := h.fixed e2 h2
      have hk' := List.mem_filter.1 hk
      have := shortOf_ne_later k e2.1 n0 n (by omega) (by rw [← hs]; exact hrem k hk'.1)
      intro heq
      apply this
      simp only at heq
      rw [heq, hs]
    · obtain ⟨k1, hk1, rfl⟩ := List.mem_map.1 h1
      obtain ⟨k2, hk2, rfl⟩ := List.mem_map.1 h2
      have hk1' := List.mem_filter.1 hk1
      have hk2' := List.mem_filter.1 hk2
      intro heq
      exact hne (uniqueAt_inj n st.2 k1 k2 hk1'.1 hk2'.1 hk1'.2 heq.symm)
  · intro e he
    rcases List.mem_append.1 he with he | he
    · intro hmem
      exact h.apart e he (List.mem_filter.1 hmem).1
    · obtain ⟨k, hk, rfl⟩ := List.mem_map.1 he
      have hk' := List.mem_filter.1 hk
      intro hmem
      have := (List.mem_filter.1 hmem).2
      simp [hk'.2] at this

theorem foldl_roundStep_inv (len : Nat) : ∀ (s : Nat) (st : List (TKey × TKey) × List TKey) (N : Nat), N ≤ s → SInv st N →
    SInv ((List.range' s len).foldl roundStep st) (s + len) := by
  induction len with
  | zero => intro s st N hN h; simpa using ⟨fun e he => by
      obtain ⟨n, hn, r⟩ := h.fixed e he; exact ⟨n, by omega, r⟩, h.inj, h.apart⟩
  | succ m ih =>
    intro s st N hN h
    rw [List.range'_succ, List.foldl_cons]
    have := ih (s + 1) (roundStep st s) (s + 1) (Nat.le_refl _) (roundStep_inv st N s hN h)
    rw [show s + (m + 1) = s + 1 + m by omega]
    exact this

theorem roundStep_keys (st : List (TKey × TKey) × List TKey) (n : Nat) (k : TKey) :
    (k ∈ (roundStep st n).1.map Prod.fst ∨ k ∈ (roundStep st n).2) ↔ (k ∈ st.1.map Prod.fst ∨ k ∈ st.2) := by
  unfold roundStep
  simp only [List.map_append, List.map_map, List.mem_append, List.mem_map, List.mem_filter, Function.comp]
  constructor
  · rintro ((h | ⟨a, ⟨ha, _⟩, rfl⟩) | ⟨h, _⟩)
    · exact Or.inl h
    · exact Or.inr ha
    · exact Or.inr h
  · rintro (h | h)
    · exact Or.inl (Or.inl h)
    · by_cases hu : uniqueAt n st.2 k = true
      · exact Or.inl (Or.inr ⟨k, ⟨h, hu⟩, rfl⟩)
      · exact Or.inr ⟨h, by simpa using hu⟩

theorem foldl_roundStep_keys (ns : List Nat) : ∀ (st : List (TKey × TKey) × List TKey) (k : TKey),
    (k ∈ (ns.foldl roundStep st).1.map Prod.fst ∨ k ∈ (ns.foldl roundStep st).2) ↔ (k ∈ st.1.map Prod.fst ∨ k ∈ st.2) := by
  induction ns with
  | nil => intro st k; simp
  | cons n rest ih => intro st k; rw [List.foldl_cons, ih, roundStep_keys]

theorem mem_dedupK (l : List TKey) (k : TKey) : k ∈ dedupK l ↔ k ∈ l := by
  induction l with
  | nil => simp [dedupK]
  | cons x xs ih =>
    simp only [dedupK, List.mem_cons, List.mem_filter, ih]
    constructor
    · rintro (h | ⟨h, _⟩)
      · exact Or.inl h
      · exact Or.inr h
    · rintro (h | h)
      · exact Or.inl h
      · by_cases hx : k = x
        · exact Or.inl hx
        · exact Or.inr ⟨h, by simpa using hx⟩

/-! ### Dictionaries, generated ids -/

theorem dictSet_keys (d : Dict) (k : String) (v : ObjId) :
    (dictSet d k v).map Prod.fst = if k ∈ d.map Prod.fst then d.map Prod.fst else d.map Prod.fst ++ [k] := by
  unfold dictSet
  by_cases h : d.any (fun e => e.1 == k) = true
  · have hk : k ∈ d.map Prod.fst := by
      obtain ⟨e, he, hek⟩ := List.any_eq_true.1 h
      exact List.mem_map.2 ⟨e, he, by simpa using hek⟩
    simp only [h, ↓reduceIte, hk, List.map_map]
    apply List.map_congr_left
    intro e _
    by_cases hek : e.1 = k
    · simp [hek]
    · simp [hek]
  · have hk : k ∉ d.map Prod.fst := by
      intro hk
      obtain ⟨e, he, rfl⟩ := List.mem_map.1 hk
      exact h (List.any_eq_true.2 ⟨e, he, by simp⟩)
    simp [h, hk]

theorem dictSet_fresh (d : Dict) (k : String) (v : ObjId) (hk : k ∉ d.map Prod.fst) : dictSet d k v = d ++ [(k, v)] := by
  unfold dictSet
  have : d.any (fun e => e.1 == k) = false := by
    apply Bool.eq_false_iff.2
    intro h
    obtain ⟨e, he, hek⟩ := List.any_eq_true.1 h
    exact hk (List.mem_map.2 ⟨e, he, by simpa using hek⟩)
  simp [this]

theorem dictSet_nodup (d : Dict) (k : String) (v : ObjId) (h : (d.map Prod.fst).Nodup) :
    ((dictSet d k v).map Prod.fst).Nodup := by
  rw [dictSet_keys]
  by_cases hk : k ∈ d.map Prod.fst
  · simp [hk, h]
  · simp only [hk, ↓reduceIte]
    exact List.nodup_append.2 ⟨h, by simp, by
      intro a ha b hb
      simp at hb; subst hb
      intro hab; subst hab; exact hk ha⟩

theorem dictSet_vals (d : Dict) (k : String) (v : ObjId) (e : String × ObjId) (he : e ∈ dictSet d k v) :
    e ∈ d ∨ e = (k, v) := by
  unfold dictSet at he
  by_cases h : d.any (fun e => e.1 == k) = true
  · simp only [h, ↓reduceIte] at he
    obtain ⟨a, ha, rfl⟩ := List.mem_map.1 he
    by_cases hak : (a.1 == k) = true
    · simp [hak]
    · simp [hak, ha]
  · simp only [h] at he
    rcases List.mem_append.1 he with he | he
    · exact Or.inl he
    · exact Or.inr (by simpa using he)

theorem dictUpdate_nodup (c : Dict) : ∀ (d : Dict), (d.map Prod.fst).Nodup → ((dictUpdate d c).map Prod.fst).Nodup := by
  unfold dictUpdate
  induction c with
  | nil => intro d h; simpa using h
  | cons e rest ih => intro d h; rw [List.foldl_cons]; exact ih _ (dictSet_nodup d e.1 e.2 h)

theorem dictUpdate_vals (c : Dict) : ∀ (d : Dict) (e : String × ObjId), e ∈ dictUpdate d c → e ∈ d ∨ e ∈ c := by
  unfold dictUpdate
  induction c with
  | nil => intro d e h; exact Or.inl (by simpa using h)
  | cons x rest ih =>
    intro d e h
    rw [List.foldl_cons] at h
    rcases ih _ e h with h | h
    · rcases dictSet_vals d x.1 x.2 e h with h | h
      · exact Or.inl h
      · exact Or.inr (by rw [h]; simp)
    · exact Or.inr (List.mem_cons_of_mem _ h)

theorem dictUpdate_fresh (c : Dict) : ∀ (d : Dict), (c.map Prod.fst).Nodup → (∀ k ∈ c.map Prod.fst, k ∉ d.map Prod.fst) →
    dictUpdate d c = d ++ c := by
  unfold dictUpdate
  induction c with
  | nil => intro d _ _; simp
  | cons x rest ih =>
    intro d hn hd
    rw [List.foldl_cons]
    have hx : x.1 ∉ d.map Prod.fst := hd x.1 (by simp)
    rw [dictSet_fresh d x.1 x.2 hx]
    have hn' : x.1 ∉ rest.map Prod.fst ∧ (rest.map Prod.fst).Nodup := by
      rw [List.map_cons] at hn; exact List.nodup_cons.1 hn
    rw [ih (d ++ [(x.1, x.2)]) hn'.2 (by
      intro k hk
      simp only [List.map_append, List.map_cons, List.map_nil, List.mem_append, List.mem_singleton, not_or]
      refine ⟨hd k (by simp [hk]), ?_⟩
      intro hkx; subst hkx; exact hn'.1 hk)]
    simp

/-- what `genLoop` returns: the accumulator extended by one entry per selected function, with pairwise
different ids. -/
theorem genLoop_some (w : World) (ps : List String) : ∀ (sel : List (String × ObjId)) (i : Nat) (out r : Dict),
    genLoop w ps i sel out = some r → (out.map Prod.fst).Nodup →
    (r.map Prod.fst).Nodup ∧ ∃ ext : Dict, r = out ++ ext ∧ ext.map Prod.snd = sel.map Prod.snd := by
  intro sel
  induction sel with
  | nil => intro i out r h hn; simp [genLoop] at h; subst h; exact ⟨hn, [], by simp, rfl⟩
  | cons x rest ih =>
    intro i out r h hn
    obtain ⟨name, o⟩ := x
    unfold genLoop at h
    by_cases hk : out.any (fun e => e.1 == taskId w ps name i o) = true
    · simp [hk] at h
    · simp only [hk] at h
      have hfresh : taskId w ps name i o ∉ out.map Prod.fst := by
        intro hm
        obtain ⟨e, he, hek⟩ := List.mem_map.1 hm
        exact hk (List.any_eq_true.2 ⟨e, he, by simp [hek]⟩)
      have hn' : ((out ++ [(taskId w ps name i o, o)]).map Prod.fst).Nodup := by
        simp only [List.map_append, List.map_cons, List.map_nil]
        exact List.nodup_append.2 ⟨hn, by simp, by
          intro a ha b hb
          simp at hb; subst hb
          intro hab; subst hab; exact hfresh ha⟩
      obtain ⟨h1, ext, h2, h3⟩ := ih (i + 1) _ r (by simpa using h) hn'
      exact ⟨h1, (taskId w ps name i o, o) :: ext, by simp [h2], by simp [h3]⟩

/-- two functions of one repeated name that stringify to the same id make `_generate_ids_for_tasks` raise. -/
theorem genLoop_none_of_mem (w : World) (ps : List String) : ∀ (sel : List (String × ObjId)) (i : Nat) (out : Dict) (j : Nat) (x : String × ObjId),
    sel[j]? = some x → taskId w ps x.1 (i + j) x.2 ∈ out.map Prod.fst → genLoop w ps i sel out = none := by
  intro sel
  induction sel with
  | nil => intro i out j x h; simp at h
  | cons y rest ih =>
    intro i out j x h hm
    obtain ⟨name, o⟩ := y
    unfold genLoop
    by_cases hk : out.any (fun e => e.1 == taskId w ps name i o) = true
    · simp [hk]
    · simp only [hk]
      cases j with
      | zero =>
        simp at h; subst h
        exfalso; apply hk
        obtain ⟨e, he, hek⟩ := List.mem_map.1 hm
        exact List.any_eq_true.2 ⟨e, he, by simpa using hek⟩
      | succ j' =>
        simp at h
        have := ih (i + 1) (out ++ [(taskId w ps name i o, o)]) j' x h (by
          have : i + 1 + j' = i + (j' + 1) := by omega
          rw [this]; simp only [List.map_append, List.mem_append]; exact Or.inl hm)
        simpa using this

theorem genLoop_none_of_dup (w : World) (ps : List String) : ∀ (sel : List (String × ObjId)) (i : Nat) (out : Dict) (a b : Nat) (x y : String × ObjId),
    a < b → sel[a]? = some x → sel[b]? = some y → taskId w ps x.1 (i + a) x.2 = taskId w ps y.1 (i + b) y.2 →
    genLoop w ps i sel out = none := by
  intro sel
  induction sel with
  | nil => intro i out a b x y _ h; simp at h
  | cons z rest ih =>
    intro i out a b x y hab ha hb heq
    obtain ⟨name, o⟩ := z
    unfold genLoop
    by_cases hk : out.any (fun e => e.1 == taskId w ps name i o) = true
    · simp [hk]
    · simp only [hk]
      cases b with
      | zero => omega
      | succ b' =>
        simp at hb
        cases a with
        | zero =>
          simp at ha; subst ha
          have := genLoop_none_of_mem w ps rest (i + 1) (out ++ [(taskId w ps name i o, o)]) b' y hb (by
            have : i + 1 + b' = i + (b' + 1) := by omega
            rw [this, ← heq]; simp)
          simpa using this
        | succ a' =>
          simp at ha
          have := ih (i + 1) (out ++ [(taskId w ps name i o, o)]) a' b' x y (by omega) ha hb (by
            have e1 : i + 1 + a' = i + (a' + 1) := by omega
            have e2 : i + 1 + b' = i + (b' + 1) := by omega
            rw [e1, e2]; exact heq)
          simpa using this

theorem mem_dedup (l : List String) (k : String) : k ∈ dedup l ↔ k ∈ l := by
  induction l with
  | nil => simp [dedup]
  | cons x xs ih =>
    simp only [dedup, List.mem_cons, List.mem_filter, ih]
    constructor
    · rintro (h | ⟨h, _⟩)
      · exact Or.inl h
      · exact Or.inr h
    · rintro (h | h)
      · exact Or.inl h
      · by_cases hx : k = x
        · exact Or.inl hx
        · exact Or.inr ⟨h, by simpa using hx⟩

theorem nodup_dedup (l : List String) : (dedup l).Nodup := by
  induction l with
  | nil => simp [dedup]
  | cons x xs ih =>
    simp only [dedup]
    refine List.nodup_cons.2 ⟨?_, List.Nodup.sublist List.filter_sublist ih⟩
    intro h
    have := (List.mem_filter.1 h).2
    simp at this

/-- the contribution of one name: distinct keys, one entry per function carrying that name. -/
theorem contribution_spec (w : World) (parsed : List (String × ObjId)) (name : String) (c : Dict)
    (h : contribution w parsed name = some c) :
    (c.map Prod.fst).Nodup ∧ c.map Prod.snd = (parsed.filter (fun e => e.1 == name)).map Prod.snd := by
  unfold contribution at h
  by_cases h2 : 2 ≤ (parsed.filter (fun e => e.1 == name)).length
  · simp only [h2, decide_true, ↓reduceIte] at h
    unfold generateIds at h
    obtain ⟨h1, ext, h3, h4⟩ := genLoop_some w _ _ 0 [] c h (by simp)
    simp at h3; subst h3
    exact ⟨h1, h4⟩
  · simp only [h2, decide_false, Bool.false_eq_true, ↓reduceIte] at h
    generalize hsel : parsed.filter (fun e => e.1 == name) = sel at h h2
    match sel, h with
    | [], h => simp at h; subst h; simp
    | [(n, o)], h => simp at h; subst h; simp
    | _ :: _ :: _, _ => simp at h2

theorem foldl_parseStep_none (w : World) (parsed : List (String × ObjId)) (ns : List String) :
    ns.foldl (parseStep w parsed) none = none := by
  induction ns with
  | nil => rfl
  | cons n rest ih => simpa [parseStep] using ih

theorem clashes_false (d c : Dict) (h : clashes d c = false) : ∀ k ∈ c.map Prod.fst, k ∉ d.map Prod.fst := by
  intro k hk hkd
  obtain ⟨e, he, rfl⟩ := List.mem_map.1 hk
  obtain ⟨x, hx, hxe⟩ := List.mem_map.1 hkd
  have : clashes d c = true := by
    unfold clashes
    exact List.any_eq_true.2 ⟨e, he, List.any_eq_true.2 ⟨x, hx, by simp [hxe]⟩⟩
  rw [h] at this; exact Bool.noConfusion this

theorem clashes_true (d c : Dict) (k : String) (hk : k ∈ c.map Prod.fst) (hkd : k ∈ d.map Prod.fst) : clashes d c = true := by
  obtain ⟨e, he, rfl⟩ := List.mem_map.1 hk
  obtain ⟨x, hx, hxe⟩ := List.mem_map.1 hkd
  unfold clashes
  exact List.any_eq_true.2 ⟨e, he, List.any_eq_true.2 ⟨x, hx, by simp [hxe]⟩⟩

/-- one successful step of the (fixed) loop: the contribution exists, none of its keys was present, and the
dictionary is extended by it. -/
theorem parseStep_some (w : World) (parsed : List (String × ObjId)) (d0 d1 : Dict) (n : String)
    (h : parseStep w parsed (some d0) n = some d1) :
    ∃ c, contribution w parsed n = some c ∧ (∀ k ∈ c.map Prod.fst, k ∉ d0.map Prod.fst) ∧ d1 = d0 ++ c := by
  unfold parseStep at h
  cases hc : contribution w parsed n with
  | none => simp [hc] at h
  | some c =>
    simp only [hc, Generated.parseClashCheck, Bool.true_and] at h
    cases hcl : clashes d0 c with
    | true => simp [hcl] at h
    | false =>
      simp only [hcl, Bool.false_eq_true, ↓reduceIte, Option.some.injEq] at h
      have hf := clashes_false d0 c hcl
      refine ⟨c, rfl, hf, ?_⟩
      rw [← h, dictUpdate_fresh c d0 (contribution_spec w parsed n c hc).1 hf]

theorem foldl_parseStep_cons (w : World) (parsed : List (String × ObjId)) (n : String) (rest : List String) (d0 d : Dict)
    (h : (n :: rest).foldl (parseStep w parsed) (some d0) = some d) :
    ∃ d1, parseStep w parsed (some d0) n = some d1 ∧ rest.foldl (parseStep w parsed) (some d1) = some d := by
  rw [List.foldl_cons] at h
  cases hs : parseStep w parsed (some d0) n with
  | none => rw [hs, foldl_parseStep_none] at h; cases h
  | some d1 => exact ⟨d1, rfl, by rw [hs] at h; exact h⟩

/-- soundness of the fold: keys stay distinct, values are old values or registered functions. -/
theorem foldl_parseStep_sound (w : World) (parsed : List (String × ObjId)) : ∀ (ns : List String) (d0 d : Dict),
    ns.foldl (parseStep w parsed) (some d0) = some d → (d0.map Prod.fst).Nodup →
    (d.map Prod.fst).Nodup ∧ ∀ e ∈ d, e ∈ d0 ∨ e.2 ∈ parsed.map Prod.snd := by
  intro ns
  induction ns with
  | nil => intro d0 d h hn; simp at h; subst h; exact ⟨hn, fun e he => Or.inl he⟩
  | cons n rest ih =>
    intro d0 d h hn
    obtain ⟨d1, hs, hr⟩ := foldl_parseStep_cons w parsed n rest d0 d h
    obtain ⟨c, hc, hf, rfl⟩ := parseStep_some w parsed d0 d1 n hs
    have hcs := contribution_spec w parsed n c hc
    have hn1 : ((d0 ++ c).map Prod.fst).Nodup := by
      rw [List.map_append]
      exact List.nodup_append.2 ⟨hn, hcs.1, by
        intro a ha b hb hab; subst hab; exact hf a hb ha⟩
    obtain ⟨h1, h2⟩ := ih _ d hr hn1
    refine ⟨h1, fun e he => ?_⟩
    rcases h2 e he with h3 | h3
    · rcases List.mem_append.1 h3 with h4 | h4
      · exact Or.inl h4
      · right
        have hm : e.2 ∈ c.map Prod.snd := List.mem_map.2 ⟨e, h4, rfl⟩
        rw [hcs.2] at hm
        obtain ⟨x, hx, hxe⟩ := List.mem_map.1 hm
        exact List.mem_map.2 ⟨x, (List.mem_filter.1 hx).1, hxe⟩
    · exact Or.inr h3

/-- completeness of the (fixed) fold: nothing that was entered is ever overwritten. -/
theorem foldl_parseStep_complete (w : World) (parsed : List (String × ObjId)) : ∀ (ns : List String) (d0 d : Dict),
    ns.foldl (parseStep w parsed) (some d0) = some d →
    (∀ e ∈ d0, e ∈ d) ∧ ∀ n ∈ ns, ∃ c, contribution w parsed n = some c ∧ ∀ e ∈ c, e ∈ d := by
  intro ns
  induction ns with
  | nil => intro d0 d h; simp at h; subst h; exact ⟨fun e he => he, by simp⟩
  | cons n rest ih =>
    intro d0 d h
    obtain ⟨d1, hs, hr⟩ := foldl_parseStep_cons w parsed n rest d0 d h
    obtain ⟨c, hc, _, rfl⟩ := parseStep_some w parsed d0 d1 n hs
    obtain ⟨h1, h2⟩ := ih _ d hr
    refine ⟨fun e he => h1 e (List.mem_append.2 (Or.inl he)), ?_⟩
    intro n' hn'
    rcases List.mem_cons.1 hn' with rfl | hn'
    · exact ⟨c, hc, fun e he => h1 e (List.mem_append.2 (Or.inr he))⟩
    · exact h2 n' hn'

/-- a key that is already present makes the fold fail as soon as a later name contributes it. -/
theorem foldl_parseStep_none_of_key (w : World) (parsed : List (String × ObjId)) (n : String) (c : Dict) (k : String)
    (hc : contribution w parsed n = some c) (hk : k ∈ c.map Prod.fst) : ∀ (ns : List String) (d0 : Dict), n ∈ ns →
    k ∈ d0.map Prod.fst → ns.foldl (parseStep w parsed) (some d0) = none := by
  intro ns
  induction ns with
  | nil => intro d0 h; simp at h
  | cons x rest ih =>
    intro d0 hn hkd
    rw [List.foldl_cons]
    cases hs : parseStep w parsed (some d0) x with
    | none => exact foldl_parseStep_none w parsed rest
    | some d1 =>
      obtain ⟨cx, hcx, hf, rfl⟩ := parseStep_some w parsed d0 d1 x hs
      rcases List.mem_cons.1 hn with rfl | hn'
      · rw [hc] at hcx; cases hcx
        exact absurd hkd (hf k hk)
      · exact ih _ hn' (by rw [List.map_append]; exact List.mem_append.2 (Or.inl hkd))

/-- **the repair of F8a in the model**: two different names whose contributions share a key make the fold fail,
in whatever order the names are visited. -/
theorem foldl_parseStep_none_of_clash (w : World) (parsed : List (String × ObjId)) (n1 n2 : String) (c1 c2 : Dict) (k : String)
    (hne : n1 ≠ n2) (hc1 : contribution w parsed n1 = some c1) (hc2 : contribution w parsed n2 = some c2)
    (hk1 : k ∈ c1.map Prod.fst) (hk2 : k ∈ c2.map Prod.fst) : ∀ (ns : List String) (d0 : Dict), n1 ∈ ns → n2 ∈ ns →
    ns.foldl (parseStep w parsed) (some d0) = none := by
  intro ns
  induction ns with
  | nil => intro d0 h; simp at h
  | cons x rest ih =>
    intro d0 h1 h2
    rw [List.foldl_cons]
    cases hs : parseStep w parsed (some d0) x with
    | none => exact foldl_parseStep_none w parsed rest
    | some d1 =>
      obtain ⟨cx, hcx, _, rfl⟩ := parseStep_some w parsed d0 d1 x hs
      rcases List.mem_cons.1 h1 with rfl | h1'
      · rw [hc1] at hcx; cases hcx
        rcases List.mem_cons.1 h2 with h2' | h2'
        · exact absurd h2'.symm hne
        · exact foldl_parseStep_none_of_key w parsed n2 c2 k hc2 hk2 rest _ h2'
            (by rw [List.map_append]; exact List.mem_append.2 (Or.inr hk1))
      · rcases List.mem_cons.1 h2 with rfl | h2'
        · rw [hc2] at hcx; cases hcx
          exact foldl_parseStep_none_of_key w parsed n1 c1 k hc1 hk1 rest _ h1'
            (by rw [List.map_append]; exact List.mem_append.2 (Or.inr hk2))
        · exact ih _ h1' h2'

theorem foldl_parseStep_none_of_mem (w : World) (parsed : List (String × ObjId)) (n : String)
    (hc : contribution w parsed n = none) : ∀ (ns : List String) (acc : Option Dict), n ∈ ns →
    ns.foldl (parseStep w parsed) acc = none := by
  intro ns
  induction ns with
  | nil => intro acc h; simp at h
  | cons x rest ih =>
    intro acc h
    rw [List.foldl_cons]
    rcases List.mem_cons.1 h with rfl | h
    · have : parseStep w parsed acc n = none := by
        cases acc with
        | none => rfl
        | some d => simp [parseStep, hc]
      rw [this, foldl_parseStep_none]
    · exact ih _ h

theorem regGet_regAppend (r : List (Path × List ObjId)) (k : Path) (o : ObjId) : o ∈ regGet (regAppend r k o) k := by
  induction r with
  | nil => simp [regGet, regAppend, List.lookup]
  | cons x xs ih =>
    by_cases hx : x.1 = k
    · simp [regGet, regAppend, List.lookup, hx]
    · have hx1 : (x.1 == k) = false := beq_eq_false_iff_ne.2 hx
      have hx2 : (k == x.1) = false := beq_eq_false_iff_ne.2 (fun h => hx h.symm)
      unfold regGet regAppend at ih ⊢
      cases ha : xs.any (fun e => e.1 == k) with
      | true =>
        simp only [ha, ↓reduceIte] at ih
        simp only [List.any_cons, hx1, ha, Bool.false_or, ↓reduceIte, List.map_cons, Bool.false_eq_true, List.lookup, hx2]
        exact ih
      | false =>
        simp only [ha, Bool.false_eq_true, ↓reduceIte] at ih
        simp only [List.any_cons, hx1, ha, Bool.or_self, Bool.false_eq_true, ↓reduceIte, List.cons_append, List.lookup, hx2]
        exact ih

theorem snd_inj_of_nodup (l : List (String × ObjId)) (h : (l.map Prod.snd).Nodup) :
    ∀ e1 ∈ l, ∀ e2 ∈ l, e1.2 = e2.2 → e1 = e2 := by
  induction l with
  | nil => intro e1 h1; simp at h1
  | cons x xs ih =>
    have hn : x.2 ∉ xs.map Prod.snd ∧ (xs.map Prod.snd).Nodup := by
      rw [List.map_cons] at h; exact List.nodup_cons.1 h
    intro e1 h1 e2 h2 heq
    rcases List.mem_cons.1 h1 with h1' | h1'
    · rcases List.mem_cons.1 h2 with h2' | h2'
      · rw [h1', h2']
      · exact absurd (List.mem_map.2 ⟨e2, h2', by rw [← heq, h1']⟩) hn.1
    · rcases List.mem_cons.1 h2 with h2' | h2'
      · exact absurd (List.mem_map.2 ⟨e1, h1', by rw [heq, h2']⟩) hn.1
      · exact ih hn.2 e1 h1' e2 h2' heq

/-- values of the fold when the registered functions are pairwise different objects: every function object
occurs at most once among the values. -/
theorem foldl_parseStep_vals (w : World) (parsed : List (String × ObjId)) (hp : (parsed.map Prod.snd).Nodup) :
    ∀ (ns : List String) (d0 d : Dict),
    ns.foldl (parseStep w parsed) (some d0) = some d → ns.Nodup →
    (d0.map Prod.snd).Nodup →
    (∀ n ∈ ns, ∀ c, contribution w parsed n = some c → ∀ o ∈ c.map Prod.snd, o ∉ d0.map Prod.snd) →
    (d.map Prod.snd).Nodup := by
  intro ns
  induction ns with
  | nil => intro d0 d h _ hv _; simp at h; subst h; exact hv
  | cons n rest ih =>
    intro d0 d h hnd hv hdis
    have hnd' := List.nodup_cons.1 hnd
    obtain ⟨d1, hs, hr⟩ := foldl_parseStep_cons w parsed n rest d0 d h
    obtain ⟨c, hc, _, rfl⟩ := parseStep_some w parsed d0 d1 n hs
    have hcs := contribution_spec w parsed n c hc
    have hcv : (c.map Prod.snd).Nodup := by
      rw [hcs.2]
      exact List.Nodup.sublist (List.Sublist.map _ List.filter_sublist) hp
    apply ih (d0 ++ c) d hr hnd'.2
    · simp only [List.map_append]
      exact List.nodup_append.2 ⟨hv, hcv, by
        intro a ha b hb hab
        subst hab
        exact hdis n (by simp) c hc a hb ha⟩
    · intro n' hn' c' hc' o ho
      simp only [List.map_append, List.mem_append, not_or]
      refine ⟨hdis n' (by simp [hn']) c' hc' o ho, ?_⟩
      intro hoc
      have hne : n' ≠ n := by intro he; subst he; exact hnd'.1 hn'
      rw [hcs.2] at hoc
      rw [(contribution_spec w parsed n' c' hc').2] at ho
      obtain ⟨e1, he1, h1⟩ := List.mem_map.1 hoc
      obtain ⟨e2, he2, h2⟩ := List.mem_map.1 ho
      have he1' := List.mem_filter.1 he1
      have he2' := List.mem_filter.1 he2
      have := snd_inj_of_nodup parsed hp e1 he1'.1 e2 he2'.1 (by rw [h1, h2])
      subst this
      have a1 : e1.1 = n := by simpa using he1'.2
      have a2 : e1.1 = n' := by simpa using he2'.2
      exact hne (a2.symm.trans a1)

/-! ### Keys of the reports of one file -/

def Report.key : Report → Option TKey
  | .succ p b _ => some (p, b)
  | .fail => none

theorem nsFinal_sub (ns : Namespace) : ∀ e ∈ nsFinal ns, e ∈ ns := by
  induction ns with
  | nil => simp [nsFinal]
  | cons x rest ih =>
    obtain ⟨n, o⟩ := x
    intro e he
    unfold nsFinal at he
    by_cases h : rest.any (fun e => e.1 == n) = true
    · simp only [h, ↓reduceIte] at he; exact List.mem_cons_of_mem _ (ih e he)
    · simp only [h] at he
      rcases List.mem_cons.1 he with rfl | he
      · simp
      · exact List.mem_cons_of_mem _ (ih e he)

theorem nsFinal_keys_nodup (ns : Namespace) : ((nsFinal ns).map Prod.fst).Nodup := by
  induction ns with
  | nil => simp [nsFinal]
  | cons x rest ih =>
    obtain ⟨n, o⟩ := x
    unfold nsFinal
    by_cases h : rest.any (fun e => e.1 == n) = true
    · simpa [h] using ih
    · simp only [h, Bool.false_eq_true, ↓reduceIte, List.map_cons]
      refine List.nodup_cons.2 ⟨?_, ih⟩
      intro hm
      obtain ⟨e, he, hen⟩ := List.mem_map.1 hm
      exact h (List.any_eq_true.2 ⟨e, nsFinal_sub rest e he, by simp [hen]⟩)

theorem prefix_keys (w : World) (path : Path) : ∀ (l : Namespace), (l.map Prod.fst).Nodup →
    ((l.filterMap (prefixMember w path)).filterMap Report.key).Nodup ∧
    ∀ k ∈ (l.filterMap (prefixMember w path)).filterMap Report.key, k.1 = path ∧ k.2 ∈ l.map Prod.fst := by
  intro l
  induction l with
  | nil => intro _; simp
  | cons x rest ih =>
    intro hn
    have hn' : x.1 ∉ rest.map Prod.fst ∧ (rest.map Prod.fst).Nodup := by
      rw [List.map_cons] at hn; exact List.nodup_cons.1 hn
    obtain ⟨h1, h2⟩ := ih hn'.2
    cases hm : prefixMember w path x with
    | none =>
      simp only [List.filterMap_cons, hm]
      exact ⟨h1, fun k hk => ⟨(h2 k hk).1, List.mem_cons_of_mem _ (h2 k hk).2⟩⟩
    | some r =>
      have hr : r = Report.succ path x.1 (match x.2 with | .fn id => id | .value => (0, 0)) ∨ True := Or.inr trivial
      unfold prefixMember at hm
      cases hx : x.2 with
      | value => simp [hx] at hm
      | fn id =>
        simp only [hx] at hm
        by_cases hc : (!isMarked w id && isTaskName x.1) = true
        · simp only [hc, ↓reduceIte, Option.some.injEq] at hm
          subst hm
          simp only [List.filterMap_cons, prefixMember, hx, hc, ↓reduceIte, Report.key]
          refine ⟨List.nodup_cons.2 ⟨?_, h1⟩, ?_⟩
          · intro hk
            have := (h2 _ hk).2
            exact hn'.1 this
          · intro k hk
            rcases List.mem_cons.1 hk with rfl | hk
            · simp
            · exact ⟨(h2 k hk).1, List.mem_cons_of_mem _ (h2 k hk).2⟩
        · simp [hc] at hm

theorem dict_keys_pair (path : Path) : ∀ (d : Dict), (d.map Prod.fst).Nodup →
    (d.map (fun e => ((path, e.1) : TKey))).Nodup := by
  intro d
  induction d with
  | nil => intro _; simp
  | cons x rest ih =>
    intro hn
    have hn' : x.1 ∉ rest.map Prod.fst ∧ (rest.map Prod.fst).Nodup := by
      rw [List.map_cons] at hn; exact List.nodup_cons.1 hn
    simp only [List.map_cons]
    refine List.nodup_cons.2 ⟨?_, ih hn'.2⟩
    intro hm
    obtain ⟨e, he, heq⟩ := List.mem_map.1 hm
    simp only [Prod.mk.injEq, true_and] at heq
    exact hn'.1 (List.mem_map.2 ⟨e, he, heq⟩)

theorem filterMap_key_map (path : Path) (d : Dict) :
    (d.map (fun e => Report.succ path e.1 e.2)).filterMap Report.key = d.map (fun e => ((path, e.1) : TKey)) := by
  induction d with
  | nil => rfl
  | cons x xs ih => simp [Report.key, ih]

/-! ### The duplicate-signature pass -/

theorem failDupsLoop_keys : ∀ (rs : List Report) (seen : List TKey),
    ((failDupsLoop seen rs).filterMap Report.key).Nodup ∧ ∀ k ∈ (failDupsLoop seen rs).filterMap Report.key, k ∉ seen := by
  intro rs
  induction rs with
  | nil => intro seen; simp [failDupsLoop]
  | cons r rest ih =>
    intro seen
    cases r with
    | fail =>
      simp only [failDupsLoop, List.filterMap_cons, Report.key]
      exact ih seen
    | succ p b o =>
      obtain ⟨h1, h2⟩ := ih ((p, b) :: seen)
      simp only [failDupsLoop]
      by_cases hc : seen.contains (p, b) = true
      · simp only [hc, ↓reduceIte, List.filterMap_cons, Report.key]
        exact ⟨h1, fun k hk hks => h2 k hk (List.mem_cons_of_mem _ hks)⟩
      · simp only [hc, Bool.false_eq_true, ↓reduceIte, List.filterMap_cons, Report.key]
        refine ⟨List.nodup_cons.2 ⟨fun hm => h2 _ hm (by simp), h1⟩, ?_⟩
        intro k hk
        rcases List.mem_cons.1 hk with rfl | hk
        · simpa using hc
        · exact fun hks => h2 k hk (List.mem_cons_of_mem _ hks)

theorem failDupsLoop_fail : ∀ (rs : List Report) (seen : List TKey), Report.fail ∈ rs → Report.fail ∈ failDupsLoop seen rs := by
  intro rs
  induction rs with
  | nil => intro seen h; simp at h
  | cons r rest ih =>
    intro seen h
    cases r with
    | fail => simp [failDupsLoop]
    | succ p b o =>
      simp only [failDupsLoop]
      rcases List.mem_cons.1 h with h | h
      · cases h
      · exact List.mem_cons_of_mem _ (ih _ h)

/-- a successful report whose key was seen before becomes a failed report. -/
theorem failDupsLoop_dup : ∀ (rs : List Report) (seen : List TKey) (p : Path) (b : String) (o : ObjId),
    Report.succ p b o ∈ rs → (p, b) ∈ seen → Report.fail ∈ failDupsLoop seen rs := by
  intro rs
  induction rs with
  | nil => intro seen p b o h; simp at h
  | cons r rest ih =>
    intro seen p b o h hs
    cases r with
    | fail => simp [failDupsLoop]
    | succ p' b' o' =>
      simp only [failDupsLoop]
      rcases List.mem_cons.1 h with h | h
      · cases h
        have hc : seen.contains (p, b) = true := by simpa using hs
        simp only [hc, ↓reduceIte]
        exact List.mem_cons.2 (Or.inl rfl)
      · exact List.mem_cons_of_mem _ (ih _ p b o h (List.mem_cons_of_mem _ hs))

theorem failDups_two : ∀ (pre mid post : List Report) (seen : List TKey) (p : Path) (b : String) (o1 o2 : ObjId),
    Report.fail ∈ failDupsLoop seen (pre ++ Report.succ p b o1 :: mid ++ Report.succ p b o2 :: post) := by
  intro pre
  induction pre with
  | nil =>
    intro mid post seen p b o1 o2
    simp only [List.nil_append, List.cons_append, failDupsLoop]
    exact List.mem_cons_of_mem _ (failDupsLoop_dup _ _ p b o2 (by simp) (by simp))
  | cons r rest ih =>
    intro mid post seen p b o1 o2
    cases r with
    | fail => simp [failDupsLoop]
    | succ p' b' o' =>
      simp only [List.cons_append, failDupsLoop]
      exact List.mem_cons_of_mem _ (by simpa using ih mid post ((p', b') :: seen) p b o1 o2)

theorem filterMap_task_keys (w : World) (rs : List Report) :
    (rs.filterMap (Report.task? w)).map (fun t => ((t.path, t.base) : TKey)) = rs.filterMap Report.key := by
  induction rs with
  | nil => rfl
  | cons r rest ih =>
    cases r with
    | fail => simp only [List.filterMap_cons, Report.task?, Report.key]; exact ih
    | succ p b o => simp [Report.task?, Report.key, ih]

theorem failMixed_fail (w : World) (rs : List Report) (h : Report.fail ∈ rs) : Report.fail ∈ failMixed w rs := by
  unfold failMixed
  exact List.mem_map.2 ⟨Report.fail, h, rfl⟩

/-! ### Reports of a session -/

theorem foldl_collectStep_reports (env : Env) (enum : List String → List String) : ∀ (files : List Path) (st : World × List Report) (r : Report),
    r ∈ st.2 → r ∈ (files.foldl (collectStep env enum) st).2 := by
  intro files
  induction files with
  | nil => intro st r h; simpa using h
  | cons p rest ih =>
    intro st r h
    rw [List.foldl_cons]
    apply ih
    unfold collectStep
    exact List.mem_append.2 (Or.inl h)

theorem foldl_collectStep_split (env : Env) (enum : List String → List String) (pre post : List Path) (p : Path)
    (st : World × List Report) (r : Report)
    (h : r ∈ (collectFile env enum (pre.foldl (collectStep env enum) st).1 p).2) :
    r ∈ ((pre ++ p :: post).foldl (collectStep env enum) st).2 := by
  rw [List.foldl_append, List.foldl_cons]
  apply foldl_collectStep_reports
  unfold collectStep
  exact List.mem_append.2 (Or.inr h)

end Collect
end Pytask
