import PytaskProofs.Lemmas.Provisional
import PytaskProofs.Lemmas.Dag
/-! Walks in the session's graph and the `skip_ancestor_failed` marks below tasks that failed or were skipped because an
ancestor failed (M7). Uses the edge characterisation of `create_dag_from_session`'s graph from `Lemmas/Dag.lean`. -/
namespace Pytask
namespace Prov
open Engine Sorter

/-! ## Walks in the session's graph -/

theorem mem_taskDesc_iff {g : G} {x d : Nat} : d ∈ taskDesc g x ↔ G.Reach g (tv x) (tv d) ∧ d ≠ x := by
  unfold taskDesc
  simp only [List.mem_map, List.mem_filter, G.mem_desc_iff]
  constructor
  · rintro ⟨v, ⟨⟨hr, hne⟩, hv⟩, rfl⟩
    have hv' : v = tv (v / 2) := by unfold isTaskV at hv; unfold tv; simp at hv; omega
    refine ⟨by rw [← hv']; exact hr, fun e => hne ?_⟩
    rw [hv', e]
  · rintro ⟨hr, hne⟩
    refine ⟨tv d, ⟨⟨hr, fun e => hne (Prov.tv_inj' e)⟩, isTaskV_tv d⟩, by unfold tv; omega⟩

/-- The graph of a session (as `create_dag_from_session` returns it) has no closed walk. -/
theorem createDag_acyclic {P : Project} {g : G} {m : List Nat} (h : createDag P {} = .ok (g, m)) (v : Nat) : ¬ G.Reach g v v := by
  obtain ⟨rfl, hc⟩ := createDag_ok h
  exact (G.hasCycle_false_iff_wf (finalGraph_wf P)).1 hc v

theorem taskDesc_trans {P : Project} {g : G} {m : List Nat} (h : createDag P {} = .ok (g, m)) {x y d : Nat}
    (h1 : y ∈ taskDesc g x) (h2 : d ∈ taskDesc g y) : d ∈ taskDesc g x := by
  rw [mem_taskDesc_iff] at h1 h2 ⊢
  refine ⟨h1.1.trans h2.1, fun e => ?_⟩
  subst e
  exact createDag_acyclic h _ (h1.1.trans h2.1)

/-- Resolving the dependencies of one task (same id, same products, same `after`) only changes the edges that END in
that task: every other edge of the new graph was already an edge of the old one. -/
theorem edges_after_resolve (ts : List PTask) (Y y1 : PTask) (hY : Y ∈ ts) (hid : y1.id = Y.id)
    (hpr : y1.allProds = Y.allProds) (e : Nat × Nat)
    (he : e ∈ (finalGraph (toProject (setTask ts y1))).edges) (hne : e.2 ≠ tv Y.id) :
    e ∈ (finalGraph (toProject ts)).edges := by
  have memP : ∀ t, t ∈ (toProject (setTask ts y1)).tasks → t = toSpec y1 ∨ t ∈ (toProject ts).tasks := by
    intro t ht
    obtain ⟨u, hu, rfl⟩ := List.mem_map.1 ht
    rcases mem_setTask hu with h | h
    · exact Or.inl (by rw [h])
    · exact Or.inr (List.mem_map.2 ⟨u, h.1, rfl⟩)
  have hYP : toSpec Y ∈ (toProject ts).tasks := List.mem_map.2 ⟨Y, hY, rfl⟩
  -- product edges are the same
  have prodE : ∀ o n, (tv o, n) ∈ (baseGraph (toProject (setTask ts y1))).edges → (tv o, n) ∈ (baseGraph (toProject ts)).edges := by
    intro o n h
    rcases mem_baseGraph_edges.1 h with ⟨t, _, d, _, heq⟩ | ⟨t, ht, p, hp, heq⟩
    · simp only [Prod.mk.injEq] at heq
      exact absurd heq.1 (Engine.tv_ne_nv _ _)
    · rcases memP t ht with rfl | ht'
      · refine mem_baseGraph_edges.2 (Or.inr ⟨toSpec Y, hYP, p, ?_, ?_⟩)
        · show p ∈ Y.allProds; rw [← hpr]; exact hp
        · rw [heq]; show (tv y1.id, nv p) = (tv Y.id, nv p); rw [hid]
      · exact mem_baseGraph_edges.2 (Or.inr ⟨t, ht', p, hp, heq⟩)
  rcases mem_finalGraph_edges.1 he with hb | ⟨t, ht, o, ho, hot, hsrc, h2⟩
  · refine mem_finalGraph_edges.2 (Or.inl ?_)
    rcases mem_baseGraph_edges.1 hb with ⟨t, ht, d, hd, heq⟩ | ⟨t, ht, p, hp, heq⟩
    · rcases memP t ht with rfl | ht'
      · exfalso; apply hne; rw [heq]; show tv y1.id = tv Y.id; rw [hid]
      · exact mem_baseGraph_edges.2 (Or.inl ⟨t, ht', d, hd, heq⟩)
    · rw [heq] at hb ⊢; exact prodE _ _ hb
  · rcases memP t ht with rfl | ht'
    · exfalso; apply hne; rw [h2]; show tv y1.id = tv Y.id; rw [hid]
    · exact mem_finalGraph_edges.2 (Or.inr ⟨t, ht', o, ho, hot, prodE _ _ hsrc, h2⟩)

/-- A walk that starts in `z` in an acyclic graph never enters `z`: it survives in any graph that keeps all edges not
ending in `z`. -/
theorem reach_from_avoids {g1 g0 : G} {z : Nat} (hac : ¬ G.Reach g1 z z)
    (hsub : ∀ e ∈ g1.edges, e.2 ≠ z → e ∈ g0.edges) {b : Nat} (h : G.Reach g1 z b) : G.Reach g0 z b := by
  have key : ∀ c, G.Reach g1 z c → G.Reach g0 z c ∧ G.Reach g1 z c := by
    intro c hc
    refine G.Reach.tail_induction (M := fun c => G.Reach g0 z c ∧ G.Reach g1 z c) ?_ ?_ hc
    · intro b c hb hbc
      have hcz : c ≠ z := fun e => hac (by rw [e] at hbc; exact hb.2.snoc hbc)
      exact ⟨hb.1.snoc (hsub _ hbc hcz), hb.2.snoc hbc⟩
    · intro b hzb
      have hbz : b ≠ z := fun e => hac (by rw [e] at hzb; exact G.Reach.edge hzb)
      exact ⟨G.Reach.edge (hsub _ hzb hbz), G.Reach.edge hzb⟩
  exact (key b h).1

/-! ## Marks below a set of roots -/

/-- Every task of `C` has been reported FAIL or SKIP_PREVIOUS_FAILED. -/
def BadReported (C : List Nat) (s : Sess) : Prop :=
  ∀ x ∈ C, (x, Outcome.fail) ∈ s.reports ∨ (x, Outcome.skipPrevFailed) ∈ s.reports

/-- Everything below a task of `C` in the current graph carries a `skip_ancestor_failed` mark. -/
def BelowRoots (C : List Nat) (s : Sess) : Prop :=
  s.stop = false → ∀ x ∈ C, ∀ d ∈ taskDesc s.g x, failMarked s d = true

theorem mem_renewMarks {roots : List Outcome} {g : G} {s : Sess} {d : Nat} (h : d ∈ s.renewed) : d ∈ renewMarks roots g s := by
  unfold renewMarks; exact List.mem_append.2 (Or.inl h)

theorem recreate_marked_mono (x : Sess) (t d : Nat) (h : failMarked x d = true) : failMarked (recreate x t) d = true := by
  unfold failMarked at h ⊢
  rw [(recreate_frame x t).2.2.2.2.1]
  simp only [Bool.or_eq_true, List.contains_iff_mem] at h ⊢
  rcases h with h | h
  · exact Or.inl h
  · right
    unfold recreate
    split
    · exact h
    · split
      · exact mem_renewMarks h
      · exact mem_renewMarks h

/-- `recreate_dag` renews the marks below every task already reported FAIL or SKIP_PREVIOUS_FAILED — from scratch. -/
theorem recreate_belowRoots (C : List Nat) (x : Sess) (t : Nat) (hb : BadReported C x) : BelowRoots C (recreate x t) := by
  unfold recreate
  cases hc : createDag (toProject x.tasks) {} with
  | error e => intro hs; simp at hs
  | ok gm =>
    obtain ⟨g, m⟩ := gm
    simp only []
    cases hs : Sorter.fromDagAndSorter g isTaskV prio0 x.so with
    | error e => intro hs; simp at hs
    | ok so =>
      intro _ f hfC d hd
      simp only [] at hd
      unfold failMarked renewFailMarks renewMarks
      simp only []
      simp
      by_cases h1 : d ∈ x.failMarks
      · exact Or.inl h1
      · by_cases h2 : d ∈ x.renewed
        · exact Or.inr (Or.inl h2)
        · refine Or.inr (Or.inr ⟨?_, h1, h2⟩)
          rcases hb f hfC with hf | hf
          · exact ⟨f, ⟨Outcome.fail, hf, Or.inl rfl⟩, hd⟩
          · exact ⟨f, ⟨Outcome.skipPrevFailed, hf, Or.inr rfl⟩, hd⟩

theorem BadReported.of_append {C : List Nat} {s s' : Sess} {l : List (Nat × Outcome)} (h : s'.reports = s.reports ++ l)
    (hb : BadReported C s) : BadReported C s' := fun x hx => by
  rcases hb x hx with h1 | h1
  · exact Or.inl (by rw [h]; exact List.mem_append.2 (Or.inl h1))
  · exact Or.inr (by rw [h]; exact List.mem_append.2 (Or.inl h1))

theorem Marks.belowRoots {t : Nat} {s s' : Sess} (h : Marks t s s') (C : List Nat) (hb : BadReported C s) :
    BadReported C s' ∧ (BelowRoots C s → BelowRoots C s') ∧ (∀ d, failMarked s d = true → failMarked s' d = true) := by
  induction h with
  | refl => exact ⟨hb, id, fun _ h => h⟩
  | other s' s'' _ e1 e2 e3 e4 e5 ih =>
    obtain ⟨b1, b2, b3⟩ := ih
    refine ⟨fun x hx => by rw [e2]; exact b1 x hx, fun hr hs f hf d hd => ?_, fun d hd => ?_⟩
    · have := b2 hr (by rw [← e5]; exact hs) f hf d (by rw [← e1]; exact hd)
      unfold failMarked at this ⊢; rw [e3, e4]; exact this
    · have := b3 d hd
      unfold failMarked at this ⊢; rw [e3, e4]; exact this
  | re s' x _ e1 e2 e3 e4 e5 ih =>
    obtain ⟨b1, _, b3⟩ := ih
    have hbx : BadReported C x := fun y hy => by rw [e2]; exact b1 y hy
    obtain ⟨_, ⟨l2, r2, _⟩, _, _⟩ := recreate_marks_spec x t
    refine ⟨BadReported.of_append r2 hbx, fun _ => recreate_belowRoots C x t hbx, fun d hd => ?_⟩
    apply recreate_marked_mono
    have := b3 d hd
    unfold failMarked at this ⊢; rw [e3, e4]; exact this

theorem reportChain_belowRoots (s : Sess) (t : Nat) (r : Raised) (C : List Nat) (hb : BadReported C s) :
    BadReported C (reportChain t r Generated.processReportOrder s) ∧
    (BelowRoots C s → BelowRoots C (reportChain t r Generated.processReportOrder s)) ∧
    (∀ d, failMarked s d = true → failMarked (reportChain t r Generated.processReportOrder s) d = true) := by
  have key : ∀ s' : Sess, (∃ l, s'.reports = s.reports ++ l) → (∀ d, d ∈ s.failMarks → d ∈ s'.failMarks) → s'.renewed = s.renewed →
      s'.g = s.g → s'.stop = s.stop →
      BadReported C s' ∧ (BelowRoots C s → BelowRoots C s') ∧ (∀ d, failMarked s d = true → failMarked s' d = true) := by
    intro s' ⟨l, e1⟩ e2 e3 e4 e5
    have hmono : ∀ d, failMarked s d = true → failMarked s' d = true := by
      intro d hd
      unfold failMarked at hd ⊢
      simp only [Bool.or_eq_true, List.contains_iff_mem] at hd ⊢
      rcases hd with h | h
      · exact Or.inl (e2 d h)
      · exact Or.inr (by rw [e3]; exact h)
    exact ⟨BadReported.of_append e1 hb, fun hr hs f hf d hd => hmono d (hr (by rw [← e5]; exact hs) f hf d (by rw [← e4]; exact hd)), hmono⟩
  rw [reportChain_eval]
  cases r with
  | none =>
    simp only []
    split
    · exact key _ ⟨_, rfl⟩ (fun _ h => h) rfl rfl rfl
    · split
      · exact key _ ⟨_, rfl⟩ (fun _ h => h) rfl rfl rfl
      · exact key _ ⟨[], by simp⟩ (fun _ h => h) rfl rfl rfl
  | skippedUnchanged => exact key _ ⟨_, rfl⟩ (fun _ h => h) rfl rfl rfl
  | ancestorFailed => exact key _ ⟨_, rfl⟩ (fun _ h => h) rfl rfl rfl
  | skipped => exact key _ ⟨_, rfl⟩ (fun _ h => List.mem_append.2 (Or.inl h)) rfl rfl rfl
  | persisted => exact key _ ⟨_, rfl⟩ (fun _ h => List.mem_append.2 (Or.inl h)) rfl rfl rfl
  | wouldBeExecuted => exact key _ ⟨_, rfl⟩ (fun _ h => List.mem_append.2 (Or.inl h)) rfl rfl rfl
  | error => exact key _ ⟨_, rfl⟩ (fun _ h => List.mem_append.2 (Or.inl h)) rfl rfl rfl

theorem protocol_belowRoots (Y : YieldFn) (F : BodyFn) (s : Sess) (t : Nat) (C : List Nat) (hb : BadReported C s) :
    BadReported C (protocol Y F s t) ∧ (BelowRoots C s → BelowRoots C (protocol Y F s t)) := by
  unfold protocol
  obtain ⟨a1, a2, _⟩ := (runPhases_marks Y F s t).belowRoots C hb
  obtain ⟨b1, b2, _⟩ := reportChain_belowRoots (runPhases Y F s t).1 t (runPhases Y F s t).2 C a1
  exact ⟨b1, fun h => b2 (a2 h)⟩

/-- Once everything below the roots `C` is marked, it stays so for the rest of the build (also for tasks created or linked later:
every re-creation of the DAG renews the marks below all of `C`). -/
theorem loop_belowRoots {Y : YieldFn} {F : BodyFn} (C : List Nat) : ∀ (picks : List Nat) (s s' : Sess), loop Y F s picks = .ok s' →
    BadReported C s → BelowRoots C s → BadReported C s' ∧ BelowRoots C s'
  | [], s, s', h, hb, hr => by simp only [loop, Except.ok.injEq] at h; subst h; exact ⟨hb, hr⟩
  | t :: ts, s, s', h, hb, hr => by
    obtain ⟨_, _, _, _, h5⟩ := loop_cons h
    have hp := protocol_belowRoots Y F { s with so := s.so.take [tv t] } t C hb
    exact loop_belowRoots C ts _ s' h5 hp.1 (hp.2 hr)

theorem setupProvisional_tasks_cases (s : Sess) (t : Nat) :
    (setupProvisional s t).tasks = s.tasks ∨
    ∃ tk, findTask s.tasks t = some tk ∧ (setupProvisional s t).tasks = setTask s.tasks (resolvedDeps s.w.fs tk) := by
  cases hf : findTask s.tasks t with
  | none => left; unfold setupProvisional; rw [hf]
  | some tk =>
    by_cases hu : unresolved tk.pdeps = true
    · right; exact ⟨tk, rfl, setupProvisional_tasks s t tk hf hu⟩
    · left
      unfold setupProvisional
      rw [hf]
      simp only [hu, Bool.false_eq_true, if_false]
      split
      · exact (recreate_frame _ t).1
      · rfl

theorem resolvedDeps_same (fs : FS) (tk : PTask) :
    (resolvedDeps fs tk).id = tk.id ∧ (resolvedDeps fs tk).allProds = tk.allProds ∧ (resolvedDeps fs tk).after = tk.after := by
  unfold resolvedDeps; split <;> exact ⟨rfl, rfl, rfl⟩

/-- A task that lies below a root `x` (reported FAIL / SKIP_PREVIOUS_FAILED, everything below it marked) when it is handed out
is skipped — and afterwards everything below *it* is marked as well, although the resolution of its own pattern dependencies may
have cut its connection to `x` in the re-created graph. -/
theorem skipped_marks_below (Y : YieldFn) (F : BodyFn) (sa : Sess) (y : Nat) (Yr : PTask) (m0 m1 : List Nat)
    (hd0 : createDag (toProject sa.tasks) {} = .ok (sa.g, m0)) (hf : findTask sa.tasks y = some Yr)
    (hre : (setupProvisional sa y).stop = false)
    (hd1 : createDag (toProject (setupProvisional sa y).tasks) {} = .ok ((setupProvisional sa y).g, m1))
    (x : Nat) (hx : BadReported [x] sa) (hbx : BelowRoots [x] sa) (hlink : y ∈ taskDesc sa.g x) :
    protocol Y F sa y = addReport (setupProvisional sa y) y Outcome.skipPrevFailed ∧
    BelowRoots [y] (setupProvisional sa y) := by
  have hm := setupProvisional_marks sa y
  have hstop : sa.stop = false := by
    cases h : sa.stop with
    | false => rfl
    | true => have := hm.invariants.2.2.1 h; rw [this] at hre; cases hre
  obtain ⟨_, _, hmono⟩ := hm.belowRoots [x] hx
  have hmy : failMarked sa y = true := hbx hstop x (by simp) y hlink
  have hmy1 : failMarked (setupProvisional sa y) y = true := hmono y hmy
  refine ⟨?_, ?_⟩
  · unfold protocol runPhases
    rw [setupChain_eval]
    simp only [hmy1, if_true]
    rw [reportChain_eval]
  · intro _ y' hy' d hd
    have : y' = y := by simpa using hy'
    subst this
    apply hmono
    apply hbx hstop x (by simp)
    refine taskDesc_trans hd0 hlink ?_
    obtain ⟨hg0, _⟩ := createDag_ok hd0
    obtain ⟨hg1, _⟩ := createDag_ok hd1
    rcases setupProvisional_tasks_cases sa y' with ht | ⟨tk, htk, ht⟩
    · rw [ht] at hg1
      have : (setupProvisional sa y').g = sa.g := by rw [hg1, hg0]
      rw [this] at hd; exact hd
    · rw [hf] at htk
      have htk' : tk = Yr := (Option.some.inj htk).symm
      subst htk'
      rw [ht] at hg1
      rw [mem_taskDesc_iff] at hd ⊢
      refine ⟨?_, hd.2⟩
      have hsame := resolvedDeps_same sa.w.fs tk
      have hidy : tk.id = y' := findTask_id hf
      have hac : ¬ G.Reach (setupProvisional sa y').g (tv y') (tv y') := createDag_acyclic hd1 _
      refine reach_from_avoids hac (fun e he hne => ?_) hd.1
      rw [hg1] at he
      rw [hg0]
      exact edges_after_resolve sa.tasks tk (resolvedDeps sa.w.fs tk) (findTask_mem hf) hsame.1 hsame.2.1 e he (by rw [hidy]; exact hne)

end Prov
end Pytask
