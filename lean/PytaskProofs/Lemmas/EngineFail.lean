import PytaskModel.Engine
import PytaskProofs.Lemmas.Sorter
import PytaskProofs.Lemmas.EngineOrder
import PytaskProofs.Lemmas.GraphReach
import PytaskProofs.Lemmas.EngineProtocol
/-!
Failure-containment and report lemmas for the build loop of M6 (used by C04 and C08).

`Run` is the relational form of `buildLoop` (one constructor per accepted pick); `PickAt` names the
session in which the protocol of one particular pick started. The `*_origin` lemmas say where a
report / log entry / fail mark of the final session came from.
-/
namespace Pytask
namespace Engine
open Sorter

/-- The sorter after `get_ready()[0] = t` and `done(t)`. -/
def next (so : Sorter) (t : Nat) : Sorter := (so.take [tv t]).finish [tv t]

/-- Relational form of `buildLoop`: the loop accepts `picks` from `(so, s)` and ends in `(so', s')`. -/
inductive Run (F : BodyFn) (P : Project) (g : G) (cfg : Cfg) : Sorter → Sess → List Nat → Sorter → Sess → Prop
  | nil (so : Sorter) (s : Sess) : Run F P g cfg so s [] so s
  | cons {so : Sorter} {s : Sess} {t : Nat} {spec : TaskSpec} {ts : List Nat} {so' : Sorter} {s' : Sess} :
      s.stop = false → s.crashed = false → so.isActive = true →
      Sorter.legalBatchB so 1 [tv t] = true → Project.find? P t = some spec →
      Run F P g cfg (next so t) (protocol F P g cfg s spec) ts so' s' →
      Run F P g cfg so s (t :: ts) so' s'

variable {F : BodyFn} {P : Project} {g : G} {cfg : Cfg}

theorem buildLoop_cons_eq {so : Sorter} {s : Sess} {t : Nat} {spec : TaskSpec} (ts : List Nat)
    (h1 : s.stop = false) (h2 : s.crashed = false) (h3 : so.isActive = true)
    (h4 : Sorter.legalBatchB so 1 [tv t] = true) (h5 : Project.find? P t = some spec) :
    buildLoop F P g cfg so s (t :: ts) = buildLoop F P g cfg (next so t) (protocol F P g cfg s spec) ts := by
  rw [buildLoop]
  simp [h1, h2, h3, h4, h5, next]

theorem run_of_buildLoop : ∀ (picks : List Nat) (so : Sorter) (s : Sess) (so' : Sorter) (s' : Sess),
    buildLoop F P g cfg so s picks = .ok (so', s') → Run F P g cfg so s picks so' s'
  | [], so, s, so', s', h => by
    simp only [buildLoop, Except.ok.injEq, Prod.mk.injEq] at h
    obtain ⟨rfl, rfl⟩ := h
    exact Run.nil _ _
  | t :: ts, so, s, so', s', h => by
    unfold buildLoop at h
    split at h
    · cases h
    rename_i hc
    split at h
    · cases h
    rename_i hl
    split at h
    · cases h
    rename_i spec hf
    simp only [Bool.or_eq_true, Bool.not_eq_true', not_or, Bool.not_eq_true, Bool.not_eq_false] at hc
    have hl' : Sorter.legalBatchB so 1 [tv t] = true := by simpa using hl
    exact Run.cons hc.1.1 hc.1.2 hc.2 hl' hf (run_of_buildLoop ts _ _ _ _ h)

theorem buildLoop_of_run {so : Sorter} {s : Sess} {picks : List Nat} {so' : Sorter} {s' : Sess}
    (h : Run F P g cfg so s picks so' s') : buildLoop F P g cfg so s picks = .ok (so', s') := by
  induction h with
  | nil so s => simp [buildLoop]
  | cons h1 h2 h3 h4 h5 _ ih => rw [buildLoop_cons_eq _ h1 h2 h3 h4 h5]; exact ih

theorem Run.det {so : Sorter} {s : Sess} {picks : List Nat} {so1 so2 : Sorter} {s1 s2 : Sess}
    (h1 : Run F P g cfg so s picks so1 s1) (h2 : Run F P g cfg so s picks so2 s2) : so1 = so2 ∧ s1 = s2 := by
  have e1 := buildLoop_of_run h1
  have e2 := buildLoop_of_run h2
  rw [e1] at e2
  simp only [Except.ok.injEq, Prod.mk.injEq] at e2
  exact e2

theorem Run.append {so : Sorter} {s : Sess} {pre post : List Nat} {so1 so' : Sorter} {s1 s' : Sess}
    (h1 : Run F P g cfg so s pre so1 s1) (h2 : Run F P g cfg so1 s1 post so' s') :
    Run F P g cfg so s (pre ++ post) so' s' := by
  induction h1 with
  | nil so s => simpa using h2
  | cons a b c d e _ ih => exact Run.cons a b c d e (ih h2)

theorem Run.split : ∀ (pre : List Nat) {so : Sorter} {s : Sess} {post : List Nat} {so' : Sorter} {s' : Sess},
    Run F P g cfg so s (pre ++ post) so' s' →
    ∃ so1 s1, Run F P g cfg so s pre so1 s1 ∧ Run F P g cfg so1 s1 post so' s'
  | [], so, s, _, _, _, h => ⟨so, s, Run.nil _ _, by simpa using h⟩
  | p :: pre, _, _, _, _, _, h => by
    cases h with
    | cons a b c d e h' =>
      obtain ⟨so1, s1, r1, r2⟩ := Run.split pre h'
      exact ⟨so1, s1, Run.cons a b c d e r1, r2⟩

/-- `x` was picked after `pre`, in session `s1`, with spec `spec`; `post` followed. -/
structure PickAt (F : BodyFn) (P : Project) (g : G) (cfg : Cfg) (so : Sorter) (s : Sess) (picks : List Nat)
    (so' : Sorter) (s' : Sess) (x : Nat) (pre post : List Nat) (so1 : Sorter) (s1 : Sess) (spec : TaskSpec) : Prop where
  hp : picks = pre ++ x :: post
  hpre : Run F P g cfg so s pre so1 s1
  hstop : s1.stop = false
  hcr : s1.crashed = false
  hfind : Project.find? P x = some spec
  hpost : Run F P g cfg (next so1 x) (protocol F P g cfg s1 spec) post so' s'
  hrest : Run F P g cfg so1 s1 (x :: post) so' s'

theorem PickAt.cons {so : Sorter} {s : Sess} {p : Nat} {spec0 : TaskSpec} {ts : List Nat} {so' : Sorter} {s' : Sess}
    {x : Nat} {pre post : List Nat} {so1 : Sorter} {s1 : Sess} {spec : TaskSpec}
    (h1 : s.stop = false) (h2 : s.crashed = false) (h3 : so.isActive = true)
    (h4 : Sorter.legalBatchB so 1 [tv p] = true) (h5 : Project.find? P p = some spec0)
    (h : PickAt F P g cfg (next so p) (protocol F P g cfg s spec0) ts so' s' x pre post so1 s1 spec) :
    PickAt F P g cfg so s (p :: ts) so' s' x (p :: pre) post so1 s1 spec :=
  ⟨by rw [h.hp]; rfl, Run.cons h1 h2 h3 h4 h5 h.hpre, h.hstop, h.hcr, h.hfind, h.hpost, h.hrest⟩

theorem pickAt_of_split {so : Sorter} {s : Sess} {pre post : List Nat} {x : Nat} {so' : Sorter} {s' : Sess}
    (h : Run F P g cfg so s (pre ++ x :: post) so' s') :
    ∃ so1 s1 spec, PickAt F P g cfg so s (pre ++ x :: post) so' s' x pre post so1 s1 spec := by
  obtain ⟨so1, s1, r1, r2⟩ := Run.split pre h
  cases r2 with
  | cons a b c d e h' => exact ⟨so1, s1, _, rfl, r1, a, b, e, h', Run.cons a b c d e h'⟩

theorem pickAt_of_mem {so : Sorter} {s : Sess} {picks : List Nat} {x : Nat} {so' : Sorter} {s' : Sess}
    (h : Run F P g cfg so s picks so' s') (hx : x ∈ picks) :
    ∃ pre post so1 s1 spec, PickAt F P g cfg so s picks so' s' x pre post so1 s1 spec := by
  obtain ⟨pre, post, rfl⟩ := List.append_of_mem hx
  obtain ⟨so1, s1, spec, hpa⟩ := pickAt_of_split h
  exact ⟨pre, post, so1, s1, spec, hpa⟩

/-- Generic origin lemma: a property of the final session that does not hold initially was
established by the protocol of some pick. -/
theorem Run.origin {φ : Sess → Prop} {ψ : Sess → TaskSpec → Prop}
    (hstep : ∀ s spec, φ (protocol F P g cfg s spec) → φ s ∨ ψ s spec)
    {so : Sorter} {s : Sess} {picks : List Nat} {so' : Sorter} {s' : Sess}
    (h : Run F P g cfg so s picks so' s') (hφ : φ s') :
    φ s ∨ ∃ x pre post so1 s1 spec, PickAt F P g cfg so s picks so' s' x pre post so1 s1 spec ∧ ψ s1 spec := by
  induction h with
  | nil so s => exact Or.inl hφ
  | @cons so s t spec ts so' s' h1 h2 h3 h4 h5 htail ih =>
    rcases ih hφ with h0 | ⟨x, pre, post, so1, s1, spec1, hpa, hψ⟩
    · rcases hstep _ _ h0 with h0 | h0
      · exact Or.inl h0
      · exact Or.inr ⟨t, [], ts, so, s, spec, ⟨rfl, Run.nil _ _, h1, h2, h5, htail, Run.cons h1 h2 h3 h4 h5 htail⟩, h0⟩
    · exact Or.inr ⟨x, t :: pre, post, so1, s1, spec1, PickAt.cons h1 h2 h3 h4 h5 hpa, hψ⟩

/-! ### one protocol: reports, marks, log -/

theorem protocol_reports (s : Sess) (spec : TaskSpec) :
    (protocol F P g cfg s spec).reports = s.reports ++ [(spec.id, outc (runPhases F P g cfg s spec).1)] ∨
    ((runPhases F P g cfg s spec).1 = .none ∧ (protocol F P g cfg s spec).reports = s.reports ∧
      (protocol F P g cfg s spec).crashed = true) := by
  unfold protocol
  have hf := (runPhases_frame (F := F) (P := P) (g := g) (cfg := cfg) s spec).2.2.2.2.2.2.2
  rcases processReport_reports (P := P) (g := g) (cfg := cfg) (runPhases F P g cfg s spec).2 spec (runPhases F P g cfg s spec).1 with h | h
  · left; rw [h.1, hf]
  · right; exact ⟨h.1, by rw [h.2.1, hf], h.2.2.1⟩

theorem protocol_failMarks (s : Sess) (spec : TaskSpec) :
    (protocol F P g cfg s spec).failMarks =
      if (runPhases F P g cfg s spec).1 = .error then s.failMarks ++ taskDesc g spec.id else s.failMarks := by
  unfold protocol
  rw [processReport_failMarks, (runPhases_frame (F := F) (P := P) (g := g) (cfg := cfg) s spec).2.2.1]

theorem protocol_failMarks_mono (s : Sess) (spec : TaskSpec) (m : Nat) (h : m ∈ s.failMarks) :
    m ∈ (protocol F P g cfg s spec).failMarks := by
  rw [protocol_failMarks]; split <;> simp [h]

theorem protocol_reports_prefix (s : Sess) (spec : TaskSpec) : s.reports <+: (protocol F P g cfg s spec).reports := by
  rcases protocol_reports (F := F) (P := P) (g := g) (cfg := cfg) s spec with h | h
  · rw [h]; exact List.prefix_append _ _
  · rw [h.2.1]; exact List.prefix_refl _

theorem protocol_log_eq (s : Sess) (spec : TaskSpec) :
    (protocol F P g cfg s spec).log = (runPhases F P g cfg s spec).2.log := by
  unfold protocol; simp

/-! ### monotonicity along a run -/

theorem Run.reports_prefix {so : Sorter} {s : Sess} {picks : List Nat} {so' : Sorter} {s' : Sess}
    (h : Run F P g cfg so s picks so' s') : s.reports <+: s'.reports := by
  induction h with
  | nil => exact List.prefix_refl _
  | cons _ _ _ _ _ _ ih => exact List.IsPrefix.trans (protocol_reports_prefix _ _) ih

theorem Run.failMarks_mono {so : Sorter} {s : Sess} {picks : List Nat} {so' : Sorter} {s' : Sess}
    (h : Run F P g cfg so s picks so' s') (m : Nat) (hm : m ∈ s.failMarks) : m ∈ s'.failMarks := by
  induction h with
  | nil => exact hm
  | cons _ _ _ _ _ _ ih => exact ih (protocol_failMarks_mono _ _ m hm)

/-- After a crash (or a stop) the loop accepts no further pick. -/
theorem Run.of_crashed {so : Sorter} {s : Sess} {picks : List Nat} {so' : Sorter} {s' : Sess}
    (h : Run F P g cfg so s picks so' s') (hc : s.crashed = true ∨ s.stop = true) : picks = [] ∧ s' = s := by
  cases h with
  | nil => exact ⟨rfl, rfl⟩
  | cons h1 h2 _ _ _ _ => rcases hc with hc | hc <;> simp_all

/-! ### where reports, log entries and fail marks come from -/

theorem PickAt.id_eq {so : Sorter} {s : Sess} {picks : List Nat} {so' : Sorter} {s' : Sess} {x : Nat}
    {pre post : List Nat} {so1 : Sorter} {s1 : Sess} {spec : TaskSpec}
    (h : PickAt F P g cfg so s picks so' s' x pre post so1 s1 spec) : spec.id = x := find?_id h.hfind

theorem report_origin {so : Sorter} {s : Sess} {picks : List Nat} {so' : Sorter} {s' : Sess}
    (h : Run F P g cfg so s picks so' s') (x : Nat) (o : Outcome) (hm : (x, o) ∈ s'.reports) :
    (x, o) ∈ s.reports ∨ ∃ pre post so1 s1 spec, PickAt F P g cfg so s picks so' s' x pre post so1 s1 spec ∧
      outc (runPhases F P g cfg s1 spec).1 = o := by
  have := Run.origin (F := F) (P := P) (g := g) (cfg := cfg) (φ := fun s => (x, o) ∈ s.reports)
    (ψ := fun s spec => spec.id = x ∧ outc (runPhases F P g cfg s spec).1 = o) (by
      intro s spec hφ
      rcases protocol_reports (F := F) (P := P) (g := g) (cfg := cfg) s spec with h | h
      · rw [h] at hφ
        rcases List.mem_append.1 hφ with h0 | h0
        · exact Or.inl h0
        · simp only [List.mem_singleton, Prod.mk.injEq] at h0
          exact Or.inr ⟨h0.1.symm, h0.2.symm⟩
      · rw [h.2.1] at hφ; exact Or.inl hφ) h hm
  rcases this with h0 | ⟨x', pre, post, so1, s1, spec, hpa, hid, ho⟩
  · exact Or.inl h0
  · have : x' = x := by rw [← hpa.id_eq, hid]
    subst this
    exact Or.inr ⟨pre, post, so1, s1, spec, hpa, ho⟩

theorem log_origin {so : Sorter} {s : Sess} {picks : List Nat} {so' : Sorter} {s' : Sess}
    (h : Run F P g cfg so s picks so' s') (x : Nat) (hm : x ∈ s'.log) :
    x ∈ s.log ∨ ∃ pre post so1 s1 spec, PickAt F P g cfg so s picks so' s' x pre post so1 s1 spec ∧
      (runPhases F P g cfg s1 spec).2.log = s1.log ++ [x] := by
  have := Run.origin (F := F) (P := P) (g := g) (cfg := cfg) (φ := fun s => x ∈ s.log)
    (ψ := fun s spec => spec.id = x ∧ (runPhases F P g cfg s spec).2.log = s.log ++ [x]) (by
      intro s spec hφ
      simp only [protocol_log_eq] at hφ
      rcases runPhases_log F P g cfg s spec with h | h
      · rw [h] at hφ; exact Or.inl hφ
      · rw [h] at hφ
        rcases List.mem_append.1 hφ with h0 | h0
        · exact Or.inl h0
        · simp only [List.mem_singleton] at h0
          exact Or.inr ⟨h0.symm, by rw [h, h0]⟩) h hm
  rcases this with h0 | ⟨x', pre, post, so1, s1, spec, hpa, hid, ho⟩
  · exact Or.inl h0
  · have : x' = x := by rw [← hpa.id_eq, hid]
    subst this
    exact Or.inr ⟨pre, post, so1, s1, spec, hpa, ho⟩

theorem failMark_origin {so : Sorter} {s : Sess} {picks : List Nat} {so' : Sorter} {s' : Sess}
    (h : Run F P g cfg so s picks so' s') (m : Nat) (hm : m ∈ s'.failMarks) :
    m ∈ s.failMarks ∨ ∃ f pre post so1 s1 spec, PickAt F P g cfg so s picks so' s' f pre post so1 s1 spec ∧
      (runPhases F P g cfg s1 spec).1 = .error ∧ m ∈ taskDesc g f := by
  have := Run.origin (F := F) (P := P) (g := g) (cfg := cfg) (φ := fun s => m ∈ s.failMarks)
    (ψ := fun s spec => (runPhases F P g cfg s spec).1 = .error ∧ m ∈ taskDesc g spec.id) (by
      intro s spec hφ
      simp only [protocol_failMarks] at hφ
      split at hφ
      · rename_i he
        rcases List.mem_append.1 hφ with h0 | h0
        · exact Or.inl h0
        · exact Or.inr ⟨he, h0⟩
      · exact Or.inl hφ) h hm
  rcases this with h0 | ⟨f, pre, post, so1, s1, spec, hpa, he, hd⟩
  · exact Or.inl h0
  · exact Or.inr ⟨f, pre, post, so1, s1, spec, hpa, he, by rw [← hpa.id_eq]; exact hd⟩

/-- The report appended at a pick is still there at the end. -/
theorem PickAt.report {so : Sorter} {s : Sess} {picks : List Nat} {so' : Sorter} {s' : Sess} {x : Nat}
    {pre post : List Nat} {so1 : Sorter} {s1 : Sess} {spec : TaskSpec}
    (h : PickAt F P g cfg so s picks so' s' x pre post so1 s1 spec) :
    (x, outc (runPhases F P g cfg s1 spec).1) ∈ s'.reports ∨
    ((runPhases F P g cfg s1 spec).1 = .none ∧ s'.crashed = true ∧ post = []) := by
  rcases protocol_reports (F := F) (P := P) (g := g) (cfg := cfg) s1 spec with hr | hr
  · left
    have hpre := h.hpost.reports_prefix
    apply hpre.subset
    rw [hr, h.id_eq]; simp
  · right
    obtain ⟨hp, hs⟩ := h.hpost.of_crashed (Or.inl hr.2.2)
    exact ⟨hr.1, by rw [hs]; exact hr.2.2, hp⟩

/-- The fail marks set at a pick are still there at the end. -/
theorem PickAt.marks {so : Sorter} {s : Sess} {picks : List Nat} {so' : Sorter} {s' : Sess} {x : Nat}
    {pre post : List Nat} {so1 : Sorter} {s1 : Sess} {spec : TaskSpec}
    (h : PickAt F P g cfg so s picks so' s' x pre post so1 s1 spec)
    (he : (runPhases F P g cfg s1 spec).1 = .error) (d : Nat) (hd : d ∈ taskDesc g x) : d ∈ s'.failMarks := by
  apply h.hpost.failMarks_mono
  rw [protocol_failMarks, if_pos he, h.id_eq]
  exact List.mem_append.2 (Or.inr hd)

/-! ### uniqueness of the position of a pick -/

theorem append_cons_unique {x : Nat} : ∀ {pre pre' post post' : List Nat},
    (pre ++ x :: post).Nodup → pre ++ x :: post = pre' ++ x :: post' → pre = pre' ∧ post = post'
  | [], [], _, _, _, h => by simpa using h
  | [], b :: pre', post, post', hn, h => by
    simp only [List.nil_append, List.cons_append, List.cons.injEq] at h
    obtain ⟨rfl, rfl⟩ := h
    simp at hn
  | a :: pre, [], post, post', hn, h => by
    simp only [List.nil_append, List.cons_append, List.cons.injEq] at h
    obtain ⟨rfl, rfl⟩ := h
    simp at hn
  | a :: pre, b :: pre', post, post', hn, h => by
    simp only [List.cons_append, List.cons.injEq] at h
    obtain ⟨rfl, h⟩ := h
    have hn' : (pre ++ x :: post).Nodup := (List.nodup_cons.1 (by simpa using hn)).2
    obtain ⟨rfl, rfl⟩ := append_cons_unique hn' h
    exact ⟨rfl, rfl⟩

theorem PickAt.unique {so : Sorter} {s : Sess} {picks : List Nat} {so' : Sorter} {s' : Sess} {x : Nat}
    {pre post pre' post' : List Nat} {so1 so2 : Sorter} {s1 s2 : Sess} {spec spec' : TaskSpec} (hn : picks.Nodup)
    (h : PickAt F P g cfg so s picks so' s' x pre post so1 s1 spec)
    (h' : PickAt F P g cfg so s picks so' s' x pre' post' so2 s2 spec') :
    pre = pre' ∧ post = post' ∧ so1 = so2 ∧ s1 = s2 ∧ spec = spec' := by
  have e := h.hp.symm.trans h'.hp
  obtain ⟨rfl, rfl⟩ := append_cons_unique (by rw [← h.hp]; exact hn) e
  obtain ⟨rfl, rfl⟩ := Run.det h.hpre h'.hpre
  have := h.hfind.symm.trans h'.hfind
  simp only [Option.some.injEq] at this
  exact ⟨rfl, rfl, rfl, rfl, this⟩

/-- A pick of a prefix run is the same pick of the whole run. -/
theorem PickAt.extend {so : Sorter} {s : Sess} {mid : List Nat} {som : Sorter} {sm : Sess} {x : Nat}
    {pre post : List Nat} {so1 : Sorter} {s1 : Sess} {spec : TaskSpec} {rest : List Nat} {so' : Sorter} {s' : Sess}
    (h : PickAt F P g cfg so s mid som sm x pre post so1 s1 spec) (hr : Run F P g cfg som sm rest so' s') :
    PickAt F P g cfg so s (mid ++ rest) so' s' x pre (post ++ rest) so1 s1 spec :=
  ⟨by rw [h.hp]; simp, h.hpre, h.hstop, h.hcr, h.hfind, h.hpost.append hr, h.hrest.append hr⟩

/-! ### order of picks (re-export of `buildLoop_order` for `Run`) -/

theorem tv_inj' {a b : Nat} (h : tv a = tv b) : a = b := by unfold tv at h; omega

theorem isTaskV_tv (t : Nat) : isTaskV (tv t) = true := by unfold isTaskV tv; simp

theorem taskV_eq {v : Nat} (h : isTaskV v = true) : v = tv (v / 2) := by
  unfold isTaskV at h; unfold tv
  have : v % 2 = 0 := by simpa using h
  omega

theorem mem_taskAnc {g : G} {a t : Nat} : a ∈ taskAnc g t ↔ tv a ∈ g.anc (tv t) := by
  unfold taskAnc
  simp only [List.mem_map, List.mem_filter]
  constructor
  · rintro ⟨v, ⟨hv, hT⟩, rfl⟩; rw [← taskV_eq hT]; exact hv
  · intro h; exact ⟨tv a, ⟨h, isTaskV_tv a⟩, by unfold tv; omega⟩

theorem mem_taskDesc {g : G} {d t : Nat} : d ∈ taskDesc g t ↔ tv d ∈ g.desc (tv t) := by
  unfold taskDesc
  simp only [List.mem_map, List.mem_filter]
  constructor
  · rintro ⟨v, ⟨hv, hT⟩, rfl⟩; rw [← taskV_eq hT]; exact hv
  · intro h; exact ⟨tv d, ⟨h, isTaskV_tv d⟩, by unfold tv; omega⟩

/-- `descending_tasks(f)` are exactly the tasks that have `f` among their task-ancestors. -/
theorem taskDesc_iff_taskAnc {g : G} {f d : Nat} : d ∈ taskDesc g f ↔ f ∈ taskAnc g d := by
  rw [mem_taskDesc, mem_taskAnc, G.mem_desc_iff_mem_anc]

theorem run_order {so : Sorter} {s : Sess} {picks : List Nat} {so' : Sorter} {s' : Sess}
    (hso : fromDag g isTaskV (prioFn P) = .ok so) (h : Run F P g cfg so s picks so' s') :
    picks.Nodup ∧ ∀ pre t post, picks = pre ++ t :: post → ∀ a ∈ taskAnc g t, a ∈ pre := by
  have hb := buildLoop_of_run h
  obtain ⟨hd0, hp0⟩ := fromDag_init hso
  have hr0 : Reach so.edges so [] := Reach.init so hd0 hp0
  obtain ⟨hr1, _, hord, _⟩ := buildLoop_order F P g cfg picks so.edges so s [] so' s' hr0 hd0 hb
  constructor
  · have hnd : (picks.map tv).Nodup := by simpa using (reach_inv hr1).hnodup
    have := List.pairwise_map.1 hnd
    exact this.imp (fun hne heq => hne (by rw [heq]))
  · intro pre t post hp a ha
    have hv := mem_taskAnc.1 ha
    have htn : tv t ∈ g.nodes ∧ isTaskV (tv t) = true := by
      have key := buildLoop_picked_node F P g cfg picks so s so' s' hb t (by rw [hp]; simp)
      rw [fromDag_nodes hso] at key
      simpa using key
    have hedge : (tv a, tv t) ∈ so.edges := (fromDag_edges hso (tv a) (tv t)).2 ⟨htn.1, htn.2, hv, isTaskV_tv a⟩
    have := hord pre t post hp (tv a) hedge
    simp only [List.nil_append, List.mem_map] at this
    obtain ⟨a', ha', hv'⟩ := this
    rw [← tv_inj' hv']; exact ha'

/-! ### containment -/

/-- If `f` was picked before `d` in the same run, the session in which `d`'s protocol starts lies
behind `f`'s protocol. -/
theorem pick_before {so : Sorter} {s : Sess} {picks : List Nat} {so' : Sorter} {s' : Sess} (hn : picks.Nodup)
    {f d : Nat} {pre post pre_d post_d : List Nat} {so1 so2 : Sorter} {s1 s2 : Sess} {spec spec_d : TaskSpec}
    (hf : PickAt F P g cfg so s picks so' s' f pre post so1 s1 spec)
    (hd : PickAt F P g cfg so s picks so' s' d pre_d post_d so2 s2 spec_d) (hmem : f ∈ pre_d) :
    ∃ B, Run F P g cfg (next so1 f) (protocol F P g cfg s1 spec) B so2 s2 := by
  obtain ⟨A, B, so_f, s_f, spec_f, hsub⟩ := pickAt_of_mem hd.hpre hmem
  have hrest := hd.hrest
  have hext := hsub.extend hrest
  rw [← hd.hp] at hext
  obtain ⟨_, _, rfl, rfl, rfl⟩ := hf.unique hn hext
  exact ⟨B, hsub.hpost⟩

/-- **Containment, core form.** In a run that starts without fail marks, reports and log: no
descendant of a task reported FAIL has a body-log entry. -/
theorem contain_core {so : Sorter} {s : Sess} {picks : List Nat} {so' : Sorter} {s' : Sess}
    (hso : fromDag g isTaskV (prioFn P) = .ok so) (h : Run F P g cfg so s picks so' s')
    (hr0 : s.reports = []) (hl0 : s.log = [])
    {f d : Nat} (hfail : (f, Outcome.fail) ∈ s'.reports) (hd : d ∈ taskDesc g f) : d ∉ s'.log := by
  intro hlog
  obtain ⟨hn, hord⟩ := run_order hso h
  rcases report_origin h f .fail hfail with h0 | ⟨pre, post, so1, s1, spec, hpf, ho⟩
  · rw [hr0] at h0; cases h0
  have he : (runPhases F P g cfg s1 spec).1 = .error := outc_inj (a := (runPhases F P g cfg s1 spec).1) (b := .error) ho
  rcases log_origin h d hlog with h0 | ⟨pre_d, post_d, so2, s2, spec_d, hpd, hlg⟩
  · rw [hl0] at h0; cases h0
  have hfa : f ∈ pre_d := hord pre_d d post_d hpd.hp f (taskDesc_iff_taskAnc.1 hd)
  obtain ⟨B, hB⟩ := pick_before hn hpf hpd hfa
  have hmark : d ∈ s2.failMarks := by
    apply hB.failMarks_mono
    rw [protocol_failMarks, if_pos he, hpf.id_eq]
    exact List.mem_append.2 (Or.inr hd)
  have hc : s2.failMarks.contains spec_d.id = true := by rw [hpd.id_eq]; simpa using hmark
  rcases runPhases_failMarked (F := F) (P := P) (g := g) (cfg := cfg) s2 spec_d hc with h1 | h1 <;>
    (rw [h1] at hlg; simp at hlg)

/-- A task carries a `skip_ancestor_failed` mark only if one of its task-ancestors was reported FAIL. -/
theorem failMark_sound {so : Sorter} {s : Sess} {picks : List Nat} {so' : Sorter} {s' : Sess}
    (h : Run F P g cfg so s picks so' s') (hm0 : s.failMarks = []) {m : Nat} (hm : m ∈ s'.failMarks) :
    ∃ f, f ∈ taskAnc g m ∧ (f, Outcome.fail) ∈ s'.reports := by
  rcases failMark_origin h m hm with h0 | ⟨f, pre, post, so1, s1, spec, hpa, he, hd⟩
  · rw [hm0] at h0; cases h0
  refine ⟨f, taskDesc_iff_taskAnc.1 hd, ?_⟩
  rcases hpa.report with hr | hr
  · rw [he] at hr; exact hr
  · rw [he] at hr; cases hr.1

/-! ### nothing recorded -/

theorem protocol_db_other (s : Sess) (spec : TaskSpec) (x : Nat) (hx : x ≠ spec.id) (n : Nat) :
    lookup (protocol F P g cfg s spec).w.db (tv x, n) = lookup s.w.db (tv x, n) := by
  unfold protocol
  rw [processReport_db_other _ _ _ x hx n, (runPhases_frame (F := F) (P := P) (g := g) (cfg := cfg) s spec).1]

/-- The protocol of a task that ends neither in SUCCESS nor in PERSISTENCE leaves the database untouched. -/
theorem protocol_db_norecord (s : Sess) (spec : TaskSpec) (h1 : (runPhases F P g cfg s spec).1 ≠ .none)
    (h2 : (runPhases F P g cfg s spec).1 ≠ .persisted) : (protocol F P g cfg s spec).w.db = s.w.db := by
  unfold protocol
  rw [processReport_w _ _ _ h1 h2, (runPhases_frame (F := F) (P := P) (g := g) (cfg := cfg) s spec).1]

theorem Run.db_other {so : Sorter} {s : Sess} {picks : List Nat} {so' : Sorter} {s' : Sess}
    (h : Run F P g cfg so s picks so' s') (x : Nat) (hx : x ∉ picks) (n : Nat) :
    lookup s'.w.db (tv x, n) = lookup s.w.db (tv x, n) := by
  induction h with
  | nil => rfl
  | cons _ _ _ _ hf _ ih =>
    simp only [List.mem_cons, not_or] at hx
    rw [ih hx.2]
    exact protocol_db_other _ _ x (by rw [find?_id hf]; exact hx.1) n

/-- **Nothing recorded, core form.** The database rows of a task that is reported with an outcome
other than SUCCESS / PERSISTENCE are, at the end of the run, what they were at its start. -/
theorem norecord_core {so : Sorter} {s : Sess} {picks : List Nat} {so' : Sorter} {s' : Sess}
    (hn : picks.Nodup) (h : Run F P g cfg so s picks so' s') (hr0 : s.reports = [])
    {t : Nat} {o : Outcome} (hrep : (t, o) ∈ s'.reports) (h1 : o ≠ .success) (h2 : o ≠ .persistence) (n : Nat) :
    lookup s'.w.db (tv t, n) = lookup s.w.db (tv t, n) := by
  rcases report_origin h t o hrep with h0 | ⟨pre, post, so1, s1, spec, hpa, ho⟩
  · rw [hr0] at h0; cases h0
  have hnd : (pre ++ t :: post).Nodup := by rw [← hpa.hp]; exact hn
  have hnpre : t ∉ pre := fun hm => by
    have := List.nodup_append.1 hnd
    exact this.2.2 t hm t (by simp) rfl
  have hnpost : t ∉ post := by
    have := (List.nodup_append.1 hnd).2.1
    exact (List.nodup_cons.1 this).1
  rw [hpa.hpost.db_other t hnpost n, protocol_db_norecord, hpa.hpre.db_other t hnpre n]
  · intro hc; rw [hc] at ho; exact h1 ho.symm
  · intro hc; rw [hc] at ho; exact h2 ho.symm

/-! ### failure limit -/

def failCount (rs : List (Nat × Outcome)) : Nat := (rs.filter (fun r => r.2 == Outcome.fail)).length

theorem failCount_append (a b : List (Nat × Outcome)) : failCount (a ++ b) = failCount a + failCount b := by
  simp [failCount]

/-- Invariant of the failure counter: it counts the FAIL reports, and while the stop flag is down
the limit has not been reached. -/
structure LimitInv (cfg : Cfg) (s : Sess) : Prop where
  count : s.nFailed = failCount s.reports
  below : ∀ n, cfg.maxFail = some n → s.stop = false → s.nFailed < n ∨ s.nFailed = 0

theorem protocol_limitInv (s : Sess) (spec : TaskSpec) (hi : LimitInv cfg s) :
    LimitInv cfg (protocol F P g cfg s spec) := by
  have hfr := runPhases_frame (F := F) (P := P) (g := g) (cfg := cfg) s spec
  have hnf : (protocol F P g cfg s spec).nFailed =
      if (runPhases F P g cfg s spec).1 = .error then s.nFailed + 1 else s.nFailed := by
    unfold protocol; rw [processReport_nFailed, hfr.2.2.2.2.1]
  have hst := processReport_stop (P := P) (g := g) (cfg := cfg) (runPhases F P g cfg s spec).2 spec (runPhases F P g cfg s spec).1
  rw [hfr.2.2.2.2.1, hfr.2.2.2.2.2.1] at hst
  change (protocol F P g cfg s spec).stop = _ at hst
  constructor
  · rw [hnf]
    rcases protocol_reports (F := F) (P := P) (g := g) (cfg := cfg) s spec with hr | hr
    · rw [hr, failCount_append, ← hi.count]
      by_cases he : (runPhases F P g cfg s spec).1 = .error
      · simp [he, failCount, outc]
      · have : outc (runPhases F P g cfg s spec).1 ≠ .fail := fun hc => he (outc_inj (b := .error) hc)
        simp [he, failCount, this]
    · rw [hr.2.1, ← hi.count, hr.1]; simp
  · intro n hn hs
    rw [hst, hn] at hs
    simp only [Bool.or_eq_false_iff, Bool.and_eq_false_iff, decide_eq_false_iff_not] at hs
    rw [hnf]
    by_cases he : (runPhases F P g cfg s spec).1 = .error
    · simp only [he, if_true]
      rcases hs.2 with h | h
      · exact absurd he h
      · left; omega
    · simp only [he, if_false]; exact hi.below n hn hs.1

theorem Run.limitInv {so : Sorter} {s : Sess} {picks : List Nat} {so' : Sorter} {s' : Sess}
    (h : Run F P g cfg so s picks so' s') (hi : LimitInv cfg s) : LimitInv cfg s' := by
  induction h with
  | nil => exact hi
  | cons _ _ _ _ _ _ ih => exact ih (protocol_limitInv _ _ hi)

/-! ### from `build` to `Run` -/

theorem Run.log_prefix {so : Sorter} {s : Sess} {picks : List Nat} {so' : Sorter} {s' : Sess}
    (h : Run F P g cfg so s picks so' s') : s.log <+: s'.log := by
  induction h with
  | nil => exact List.prefix_refl _
  | cons _ _ _ _ _ _ ih =>
    refine List.IsPrefix.trans ?_ ih
    rcases protocol_log F P g cfg _ _ with h | h <;> rw [h]
    · exact List.prefix_refl _
    · exact List.prefix_append _ _

/-- What `build` returns once the graph exists: either the sorter rejects the graph (nothing runs),
or the loop ran and the result fields are those of the final session. -/
theorem build_run {w : World} {picks : List Nat} {r : Result} {marks : List Nat}
    (hdag : createDag P cfg = .ok (g, marks)) (hb : build F P cfg w picks = .ok r) :
    (∃ so so' s', fromDag g isTaskV (prioFn P) = .ok so ∧
        Run F P g cfg so { w := w, skipMarks := marks } picks so' s' ∧
        r.reports = s'.reports ∧ r.log = s'.log ∧ r.w = s'.w ∧
        r.complete = (s'.stop || s'.crashed || !so'.isActive) ∧
        r.exit = (if s'.crashed then ladderCode "Exception"
                  else if s'.reports.any (fun r => r.2 == .fail) then ladderCode "ExecutionError" else exitCode "OK")) ∨
    (r.reports = [] ∧ r.log = [] ∧ r.w = w ∧ r.exit = ladderCode "Exception") := by
  unfold build at hb
  rw [hdag] at hb
  simp only [] at hb
  split at hb
  · right
    simp only [Except.ok.injEq] at hb
    subst hb
    exact ⟨rfl, rfl, rfl, rfl⟩
  · rename_i so hso
    split at hb
    · cases hb
    · rename_i so' s' hl
      left
      simp only [Except.ok.injEq] at hb
      subst hb
      exact ⟨so, so', s', hso, run_of_buildLoop _ _ _ _ _ hl, rfl, rfl, rfl, rfl, rfl⟩

end Engine
end Pytask
