import PytaskModel.Engine
import PytaskProofs.Lemmas.Sorter
import PytaskProofs.Lemmas.EngineOrder
import PytaskProofs.Lemmas.GraphReach
/-!
Failure-containment and report lemmas for the build loop of M6 (used by C04 and C08).

`Run` is the relational form of `buildLoop` (one constructor per accepted pick); `PickAt` names the
session in which the protocol of one particular pick started. The `*_origin` lemmas say where a
report / log entry / fail mark of the final session came from.
-/
namespace Pytask
namespace Engine
open Sorter

/-- The sorter after `get_ready()[0] = t` and `done(t)`. -/
def next (so : Sorter) (t : Nat) : Sorter := (so.take [tv t]).finish [tv t]

/-- Relational form of `buildLoop`: the loop accepts `picks` from `(so, s)` and ends in `(so', s')`. -/
inductive Run (F : BodyFn) (P : Project) (g : G) (cfg : Cfg) : Sorter → Sess → List Nat → Sorter → Sess → Prop
  | nil (so : Sorter) (s : Sess) : Run F P g cfg so s [] so s
  | cons {so : Sorter} {s : Sess} {t : Nat} {spec : TaskSpec} {ts : List Nat} {so' : Sorter} {s' : Sess} :
      s.stop = false → s.crashed = false → so.isActive = true →
      Sorter.legalBatchB so 1 [tv t] = true → Project.find? P t = some spec →
      Run F P g cfg (next so t) (protocol F P g cfg s spec) ts so' s' →
      Run F P g cfg so s (t :: ts) so' s'

variable {F : BodyFn} {P : Project} {g : G} {cfg : Cfg}

theorem buildLoop_cons_eq {so : Sorter} {s : Sess} {t : Nat} {spec : TaskSpec} (ts : List Nat)
    (h1 : s.stop = false) (h2 : s.crashed = false) (h3 : so.isActive = true)
    (h4 : Sorter.legalBatchB so 1 [tv t] = true) (h5 : Project.find? P t = some spec) :
    buildLoop F P g cfg so s (t :: ts) = buildLoop F P g cfg (next so t) (protocol F P g cfg s spec) ts := by
  rw [buildLoop]
  simp [h1, h2, h3, h4, h5, next]

theorem run_of_buildLoop : ∀ (picks : List Nat) (so : Sorter) (s : Sess) (so' : Sorter) (s' : Sess),
    buildLoop F P g cfg so s picks = .ok (so', s') → Run F P g cfg so s picks so' s'
  | [], so, s, so', s', h => by
    simp only [buildLoop, Except.ok.injEq, Prod.mk.injEq] at h
    obtain ⟨rfl, rfl⟩ := h
    exact Run.nil _ _
  | t :: ts, so, s, so', s', h => by
    unfold buildLoop at h
    split at h
    · cases h
    rename_i hc
    split at h
    · cases h
    rename_i hl
    split at h
    · cases h
    rename_i spec hf
    simp only [Bool.or_eq_true, Bool.not_eq_true', not_or, Bool.not_eq_true, Bool.not_eq_false] at hc
    have hl' : Sorter.legalBatchB so 1 [tv t] = true := by simpa using hl
    exact Run.cons hc.1.1 hc.1.2 hc.2 hl' hf (run_of_buildLoop ts _ _ _ _ h)

theorem buildLoop_of_run {so : Sorter} {s : Sess} {picks : List Nat} {so' : Sorter} {s' : Sess}
    (h : Run F P g cfg so s picks so' s') : buildLoop F P g cfg so s picks = .ok (so', s') := by
  induction h with
  | nil so s => simp [buildLoop]
  | cons h1 h2 h3 h4 h5 _ ih => rw [buildLoop_cons_eq _ h1 h2 h3 h4 h5]; exact ih

theorem Run.det {so : Sorter} {s : Sess} {picks : List Nat} {so1 so2 : Sorter} {s1 s2 : Sess}
    (h1 : Run F P g cfg so s picks so1 s1) (h2 : Run F P g cfg so s picks so2 s2) : so1 = so2 ∧ s1 = s2 := by
  have e1 := buildLoop_of_run h1
  have e2 := buildLoop_of_run h2
  rw [e1] at e2
  simp only [Except.ok.injEq, Prod.mk.injEq] at e2
  exact e2

theorem Run.append {so : Sorter} {s : Sess} {pre post : List Nat} {so1 so' : Sorter} {s1 s' : Sess}
    (h1 : Run F P g cfg so s pre so1 s1) (h2 : Run F P g cfg so1 s1 post so' s') :
    Run F P g cfg so s (pre ++ post) so' s' := by
  induction h1 with
  | nil so s => simpa using h2
  | cons a b c d e _ ih => exact Run.cons a b c d e (ih h2)

theorem Run.split : ∀ (pre : List Nat) {so : Sorter} {s : Sess} {post : List Nat} {so' : Sorter} {s' : Sess},
    Run F P g cfg so s (pre ++ post) so' s' →
    ∃ so1 s1, Run F P g cfg so s pre so1 s1 ∧ Run F P g cfg so1 s1 post so' s'
  | [], so, s, _, _, _, h => ⟨so, s, Run.nil _ _, by simpa using h⟩
  | p :: pre, _, _, _, _, _, h => by
    cases h with
    | cons a b c d e h' =>
      obtain ⟨so1, s1, r1, r2⟩ := Run.split pre h'
      exact ⟨so1, s1, Run.cons a b c d e r1, r2⟩

/-- `x` was picked after `pre`, in session `s1`, with spec `spec`; `post` followed. -/
structure PickAt (F : BodyFn) (P : Project) (g : G) (cfg : Cfg) (so : Sorter) (s : Sess) (picks : List Nat)
    (so' : Sorter) (s' : Sess) (x : Nat) (pre post : List Nat) (so1 : Sorter) (s1 : Sess) (spec : TaskSpec) : Prop where
  hp : picks = pre ++ x :: post
  hpre : Run F P g cfg so s pre so1 s1
  hstop : s1.stop = false
  hcr : s1.crashed = false
  hfind : Project.find? P x = some spec
  hpost : Run F P g cfg (next so1 x) (protocol F P g cfg s1 spec) post so' s'

theorem PickAt.cons {so : Sorter} {s : Sess} {p : Nat} {spec0 : TaskSpec} {ts : List Nat} {so' : Sorter} {s' : Sess}
    {x : Nat} {pre post : List Nat} {so1 : Sorter} {s1 : Sess} {spec : TaskSpec}
    (h1 : s.stop = false) (h2 : s.crashed = false) (h3 : so.isActive = true)
    (h4 : Sorter.legalBatchB so 1 [tv p] = true) (h5 : Project.find? P p = some spec0)
    (h : PickAt F P g cfg (next so p) (protocol F P g cfg s spec0) ts so' s' x pre post so1 s1 spec) :
    PickAt F P g cfg so s (p :: ts) so' s' x (p :: pre) post so1 s1 spec :=
  ⟨by rw [h.hp]; rfl, Run.cons h1 h2 h3 h4 h5 h.hpre, h.hstop, h.hcr, h.hfind, h.hpost⟩

theorem pickAt_of_split {so : Sorter} {s : Sess} {pre post : List Nat} {x : Nat} {so' : Sorter} {s' : Sess}
    (h : Run F P g cfg so s (pre ++ x :: post) so' s') :
    ∃ so1 s1 spec, PickAt F P g cfg so s (pre ++ x :: post) so' s' x pre post so1 s1 spec := by
  obtain ⟨so1, s1, r1, r2⟩ := Run.split pre h
  cases r2 with
  | cons a b c d e h' => exact ⟨so1, s1, _, rfl, r1, a, b, e, h'⟩

theorem pickAt_of_mem {so : Sorter} {s : Sess} {picks : List Nat} {x : Nat} {so' : Sorter} {s' : Sess}
    (h : Run F P g cfg so s picks so' s') (hx : x ∈ picks) :
    ∃ pre post so1 s1 spec, PickAt F P g cfg so s picks so' s' x pre post so1 s1 spec := by
  obtain ⟨pre, post, rfl⟩ := List.append_of_mem hx
  obtain ⟨so1, s1, spec, hpa⟩ := pickAt_of_split h
  exact ⟨pre, post, so1, s1, spec, hpa⟩

/-- Generic origin lemma: a property of the final session that does not hold initially was
established by the protocol of some pick. -/
theorem Run.origin {φ : Sess → Prop} {ψ : Sess → TaskSpec → Prop}
    (hstep : ∀ s spec, φ (protocol F P g cfg s spec) → φ s ∨ ψ s spec)
    {so : Sorter} {s : Sess} {picks : List Nat} {so' : Sorter} {s' : Sess}
    (h : Run F P g cfg so s picks so' s') (hφ : φ s') :
    φ s ∨ ∃ x pre post so1 s1 spec, PickAt F P g cfg so s picks so' s' x pre post so1 s1 spec ∧ ψ s1 spec := by
  induction h with
  | nil so s => exact Or.inl hφ
  | @cons so s t spec ts so' s' h1 h2 h3 h4 h5 htail ih =>
    rcases ih hφ with h0 | ⟨x, pre, post, so1, s1, spec1, hpa, hψ⟩
    · rcases hstep _ _ h0 with h0 | h0
      · exact Or.inl h0
      · exact Or.inr ⟨t, [], ts, so, s, spec, ⟨rfl, Run.nil _ _, h1, h2, h5, htail⟩, h0⟩
    · exact Or.inr ⟨x, t :: pre, post, so1, s1, spec1, PickAt.cons h1 h2 h3 h4 h5 hpa, hψ⟩

end Engine
end Pytask
