import PytaskModel.Engine
import PytaskProofs.Lemmas.Sorter
import PytaskProofs.Lemmas.EngineOrder
import PytaskProofs.Lemmas.GraphReach
import PytaskProofs.Lemmas.EngineProtocol
/-!
Failure-containment and report lemmas for the build loop of M6 (used by C04 and C08).

`Run` is the relational form of `buildLoop` (one constructor per accepted pick); `PickAt` names the
session in which the protocol of one particular pick started. The `*_origin` lemmas say where a
report / log entry / fail mark of the final session came from.
-/
namespace Pytask
namespace Engine
open Sorter

/-- The sorter after `get_ready()[0] = t` and `done(t)`. -/
def next (so : Sorter) (t : Nat) : Sorter := (so.take [tv t]).finish [tv t]

/-- Relational form of `buildLoop`: the loop accepts `picks` from `(so, s)` and ends in `(so', s')`. -/
inductive Run (F : BodyFn) (P : Project) (g : G) (cfg : Cfg) : Sorter → Sess → List Nat → Sorter → Sess → Prop
  | nil (so : Sorter) (s : Sess) : Run F P g cfg so s [] so s
  | cons {so : Sorter} {s : Sess} {t : Nat} {spec : TaskSpec} {ts : List Nat} {so' : Sorter} {s' : Sess} :
      s.stop = false → s.crashed = false → so.isActive = true →
      Sorter.legalBatchB so 1 [tv t] = true → Project.find? P t = some spec →
      Run F P g cfg (next so t) (protocol F P g cfg s spec) ts so' s' →
      Run F P g cfg so s (t :: ts) so' s'

variable {F : BodyFn} {P : Project} {g : G} {cfg : Cfg}

theorem buildLoop_cons_eq {so : Sorter} {s : Sess} {t : Nat} {spec : TaskSpec} (ts : List Nat)
    (h1 : s.stop = false) (h2 : s.crashed = false) (h3 : so.isActive = true)
    (h4 : Sorter.legalBatchB so 1 [tv t] = true) (h5 : Project.find? P t = some spec) :
    buildLoop F P g cfg so s (t :: ts) = buildLoop F P g cfg (next so t) (protocol F P g cfg s spec) ts := by
  rw [buildLoop]
  simp [h1, h2, h3, h4, h5, next]

theorem run_of_buildLoop : ∀ (picks : List Nat) (so : Sorter) (s : Sess) (so' : Sorter) (s' : Sess),
    buildLoop F P g cfg so s picks = .ok (so', s') → Run F P g cfg so s picks so' s'
  | [], so, s, so', s', h => by
    simp only [buildLoop, Except.ok.injEq, Prod.mk.injEq] at h
    obtain ⟨rfl, rfl⟩ := h
    exact Run.nil _ _
  | t :: ts, so, s, so', s', h => by
    unfold buildLoop at h
    split at h
    · cases h
    rename_i hc
    split at h
    · cases h
    rename_i hl
    split at h
    · cases h
    rename_i spec hf
    simp only [Bool.or_eq_true, Bool.not_eq_true', not_or, Bool.not_eq_true, Bool.not_eq_false] at hc
    have hl' : Sorter.legalBatchB so 1 [tv t] = true := by simpa using hl
    exact Run.cons hc.1.1 hc.1.2 hc.2 hl' hf (run_of_buildLoop ts _ _ _ _ h)

theorem buildLoop_of_run {so : Sorter} {s : Sess} {picks : List Nat} {so' : Sorter} {s' : Sess}
    (h : Run F P g cfg so s picks so' s') : buildLoop F P g cfg so s picks = .ok (so', s') := by
  induction h with
  | nil so s => simp [buildLoop]
  | cons h1 h2 h3 h4 h5 _ ih => rw [buildLoop_cons_eq _ h1 h2 h3 h4 h5]; exact ih

theorem Run.det {so : Sorter} {s : Sess} {picks : List Nat} {so1 so2 : Sorter} {s1 s2 : Sess}
    (h1 : Run F P g cfg so s picks so1 s1) (h2 : Run F P g cfg so s picks so2 s2) : so1 = so2 ∧ s1 = s2 := by
  have e1 := buildLoop_of_run h1
  have e2 := buildLoop_of_run h2
  rw [e1] at e2
  simp only [Except.ok.injEq, Prod.mk.injEq] at e2
  exact e2

theorem Run.append {so : Sorter} {s : Sess} {pre post : List Nat} {so1 so' : Sorter} {s1 s' : Sess}
    (h1 : Run F P g cfg so s pre so1 s1) (h2 : Run F P g cfg so1 s1 post so' s') :
    Run F P g cfg so s (pre ++ post) so' s' := by
  induction h1 with
  | nil so s => simpa using h2
  | cons a b c d e _ ih => exact Run.cons a b c d e (ih h2)

theorem Run.split : ∀ (pre : List Nat) {so : Sorter} {s : Sess} {post : List Nat} {so' : Sorter} {s' : Sess},
    Run F P g cfg so s (pre ++ post) so' s' →
    ∃ so1 s1, Run F P g cfg so s pre so1 s1 ∧ Run F P g cfg so1 s1 post so' s'
  | [], so, s, _, _, _, h => ⟨so, s, Run.nil _ _, by simpa using h⟩
  | p :: pre, _, _, _, _, _, h => by
    cases h with
    | cons a b c d e h' =>
      obtain ⟨so1, s1, r1, r2⟩ := Run.split pre h'
      exact ⟨so1, s1, Run.cons a b c d e r1, r2⟩

/-- `x` was picked after `pre`, in session `s1`, with spec `spec`; `post` followed. -/
structure PickAt (F : BodyFn) (P : Project) (g : G) (cfg : Cfg) (so : Sorter) (s : Sess) (picks : List Nat)
    (so' : Sorter) (s' : Sess) (x : Nat) (pre post : List Nat) (so1 : Sorter) (s1 : Sess) (spec : TaskSpec) : Prop where
  hp : picks = pre ++ x :: post
  hpre : Run F P g cfg so s pre so1 s1
  hstop : s1.stop = false
  hcr : s1.crashed = false
  hfind : Project.find? P x = some spec
  hpost : Run F P g cfg (next so1 x) (protocol F P g cfg s1 spec) post so' s'

theorem PickAt.cons {so : Sorter} {s : Sess} {p : Nat} {spec0 : TaskSpec} {ts : List Nat} {so' : Sorter} {s' : Sess}
    {x : Nat} {pre post : List Nat} {so1 : Sorter} {s1 : Sess} {spec : TaskSpec}
    (h1 : s.stop = false) (h2 : s.crashed = false) (h3 : so.isActive = true)
    (h4 : Sorter.legalBatchB so 1 [tv p] = true) (h5 : Project.find? P p = some spec0)
    (h : PickAt F P g cfg (next so p) (protocol F P g cfg s spec0) ts so' s' x pre post so1 s1 spec) :
    PickAt F P g cfg so s (p :: ts) so' s' x (p :: pre) post so1 s1 spec :=
  ⟨by rw [h.hp]; rfl, Run.cons h1 h2 h3 h4 h5 h.hpre, h.hstop, h.hcr, h.hfind, h.hpost⟩

theorem pickAt_of_split {so : Sorter} {s : Sess} {pre post : List Nat} {x : Nat} {so' : Sorter} {s' : Sess}
    (h : Run F P g cfg so s (pre ++ x :: post) so' s') :
    ∃ so1 s1 spec, PickAt F P g cfg so s (pre ++ x :: post) so' s' x pre post so1 s1 spec := by
  obtain ⟨so1, s1, r1, r2⟩ := Run.split pre h
  cases r2 with
  | cons a b c d e h' => exact ⟨so1, s1, _, rfl, r1, a, b, e, h'⟩

theorem pickAt_of_mem {so : Sorter} {s : Sess} {picks : List Nat} {x : Nat} {so' : Sorter} {s' : Sess}
    (h : Run F P g cfg so s picks so' s') (hx : x ∈ picks) :
    ∃ pre post so1 s1 spec, PickAt F P g cfg so s picks so' s' x pre post so1 s1 spec := by
  obtain ⟨pre, post, rfl⟩ := List.append_of_mem hx
  obtain ⟨so1, s1, spec, hpa⟩ := pickAt_of_split h
  exact ⟨pre, post, so1, s1, spec, hpa⟩

/-- Generic origin lemma: a property of the final session that does not hold initially was
established by the protocol of some pick. -/
theorem Run.origin {φ : Sess → Prop} {ψ : Sess → TaskSpec → Prop}
    (hstep : ∀ s spec, φ (protocol F P g cfg s spec) → φ s ∨ ψ s spec)
    {so : Sorter} {s : Sess} {picks : List Nat} {so' : Sorter} {s' : Sess}
    (h : Run F P g cfg so s picks so' s') (hφ : φ s') :
    φ s ∨ ∃ x pre post so1 s1 spec, PickAt F P g cfg so s picks so' s' x pre post so1 s1 spec ∧ ψ s1 spec := by
  induction h with
  | nil so s => exact Or.inl hφ
  | @cons so s t spec ts so' s' h1 h2 h3 h4 h5 htail ih =>
    rcases ih hφ with h0 | ⟨x, pre, post, so1, s1, spec1, hpa, hψ⟩
    · rcases hstep _ _ h0 with h0 | h0
      · exact Or.inl h0
      · exact Or.inr ⟨t, [], ts, so, s, spec, ⟨rfl, Run.nil _ _, h1, h2, h5, htail⟩, h0⟩
    · exact Or.inr ⟨x, t :: pre, post, so1, s1, spec1, PickAt.cons h1 h2 h3 h4 h5 hpa, hψ⟩

/-! ### one protocol: reports, marks, log -/

theorem protocol_reports (s : Sess) (spec : TaskSpec) :
    (protocol F P g cfg s spec).reports = s.reports ++ [(spec.id, outc (runPhases F P g cfg s spec).1)] ∨
    ((runPhases F P g cfg s spec).1 = .none ∧ (protocol F P g cfg s spec).reports = s.reports ∧
      (protocol F P g cfg s spec).crashed = true) := by
  unfold protocol
  have hf := (runPhases_frame (F := F) (P := P) (g := g) (cfg := cfg) s spec).2.2.2.2.2.2.2
  rcases processReport_reports (P := P) (g := g) (cfg := cfg) (runPhases F P g cfg s spec).2 spec (runPhases F P g cfg s spec).1 with h | h
  · left; rw [h.1, hf]
  · right; exact ⟨h.1, by rw [h.2.1, hf], h.2.2.1⟩

theorem protocol_failMarks (s : Sess) (spec : TaskSpec) :
    (protocol F P g cfg s spec).failMarks =
      if (runPhases F P g cfg s spec).1 = .error then s.failMarks ++ taskDesc g spec.id else s.failMarks := by
  unfold protocol
  rw [processReport_failMarks, (runPhases_frame (F := F) (P := P) (g := g) (cfg := cfg) s spec).2.2.1]

theorem protocol_failMarks_mono (s : Sess) (spec : TaskSpec) (m : Nat) (h : m ∈ s.failMarks) :
    m ∈ (protocol F P g cfg s spec).failMarks := by
  rw [protocol_failMarks]; split <;> simp [h]

theorem protocol_reports_prefix (s : Sess) (spec : TaskSpec) : s.reports <+: (protocol F P g cfg s spec).reports := by
  rcases protocol_reports (F := F) (P := P) (g := g) (cfg := cfg) s spec with h | h
  · rw [h]; exact List.prefix_append _ _
  · rw [h.2.1]; exact List.prefix_refl _

theorem protocol_log_eq (s : Sess) (spec : TaskSpec) :
    (protocol F P g cfg s spec).log = (runPhases F P g cfg s spec).2.log := by
  unfold protocol; simp

/-! ### monotonicity along a run -/

theorem Run.reports_prefix {so : Sorter} {s : Sess} {picks : List Nat} {so' : Sorter} {s' : Sess}
    (h : Run F P g cfg so s picks so' s') : s.reports <+: s'.reports := by
  induction h with
  | nil => exact List.prefix_refl _
  | cons _ _ _ _ _ _ ih => exact List.IsPrefix.trans (protocol_reports_prefix _ _) ih

theorem Run.failMarks_mono {so : Sorter} {s : Sess} {picks : List Nat} {so' : Sorter} {s' : Sess}
    (h : Run F P g cfg so s picks so' s') (m : Nat) (hm : m ∈ s.failMarks) : m ∈ s'.failMarks := by
  induction h with
  | nil => exact hm
  | cons _ _ _ _ _ _ ih => exact ih (protocol_failMarks_mono _ _ m hm)

/-- After a crash (or a stop) the loop accepts no further pick. -/
theorem Run.of_crashed {so : Sorter} {s : Sess} {picks : List Nat} {so' : Sorter} {s' : Sess}
    (h : Run F P g cfg so s picks so' s') (hc : s.crashed = true ∨ s.stop = true) : picks = [] ∧ s' = s := by
  cases h with
  | nil => exact ⟨rfl, rfl⟩
  | cons h1 h2 _ _ _ _ => rcases hc with hc | hc <;> simp_all

/-! ### where reports, log entries and fail marks come from -/

theorem PickAt.id_eq {so : Sorter} {s : Sess} {picks : List Nat} {so' : Sorter} {s' : Sess} {x : Nat}
    {pre post : List Nat} {so1 : Sorter} {s1 : Sess} {spec : TaskSpec}
    (h : PickAt F P g cfg so s picks so' s' x pre post so1 s1 spec) : spec.id = x := find?_id h.hfind

theorem report_origin {so : Sorter} {s : Sess} {picks : List Nat} {so' : Sorter} {s' : Sess}
    (h : Run F P g cfg so s picks so' s') (x : Nat) (o : Outcome) (hm : (x, o) ∈ s'.reports) :
    (x, o) ∈ s.reports ∨ ∃ pre post so1 s1 spec, PickAt F P g cfg so s picks so' s' x pre post so1 s1 spec ∧
      outc (runPhases F P g cfg s1 spec).1 = o := by
  have := Run.origin (F := F) (P := P) (g := g) (cfg := cfg) (φ := fun s => (x, o) ∈ s.reports)
    (ψ := fun s spec => spec.id = x ∧ outc (runPhases F P g cfg s spec).1 = o) (by
      intro s spec hφ
      rcases protocol_reports (F := F) (P := P) (g := g) (cfg := cfg) s spec with h | h
      · rw [h] at hφ
        rcases List.mem_append.1 hφ with h0 | h0
        · exact Or.inl h0
        · simp only [List.mem_singleton, Prod.mk.injEq] at h0
          exact Or.inr ⟨h0.1.symm, h0.2.symm⟩
      · rw [h.2.1] at hφ; exact Or.inl hφ) h hm
  rcases this with h0 | ⟨x', pre, post, so1, s1, spec, hpa, hid, ho⟩
  · exact Or.inl h0
  · have : x' = x := by rw [← hpa.id_eq, hid]
    subst this
    exact Or.inr ⟨pre, post, so1, s1, spec, hpa, ho⟩

theorem log_origin {so : Sorter} {s : Sess} {picks : List Nat} {so' : Sorter} {s' : Sess}
    (h : Run F P g cfg so s picks so' s') (x : Nat) (hm : x ∈ s'.log) :
    x ∈ s.log ∨ ∃ pre post so1 s1 spec, PickAt F P g cfg so s picks so' s' x pre post so1 s1 spec ∧
      (runPhases F P g cfg s1 spec).2.log = s1.log ++ [x] := by
  have := Run.origin (F := F) (P := P) (g := g) (cfg := cfg) (φ := fun s => x ∈ s.log)
    (ψ := fun s spec => spec.id = x ∧ (runPhases F P g cfg s spec).2.log = s.log ++ [x]) (by
      intro s spec hφ
      simp only [protocol_log_eq] at hφ
      rcases runPhases_log F P g cfg s spec with h | h
      · rw [h] at hφ; exact Or.inl hφ
      · rw [h] at hφ
        rcases List.mem_append.1 hφ with h0 | h0
        · exact Or.inl h0
        · simp only [List.mem_singleton] at h0
          exact Or.inr ⟨h0.symm, by rw [h, h0]⟩) h hm
  rcases this with h0 | ⟨x', pre, post, so1, s1, spec, hpa, hid, ho⟩
  · exact Or.inl h0
  · have : x' = x := by rw [← hpa.id_eq, hid]
    subst this
    exact Or.inr ⟨pre, post, so1, s1, spec, hpa, ho⟩

theorem failMark_origin {so : Sorter} {s : Sess} {picks : List Nat} {so' : Sorter} {s' : Sess}
    (h : Run F P g cfg so s picks so' s') (m : Nat) (hm : m ∈ s'.failMarks) :
    m ∈ s.failMarks ∨ ∃ f pre post so1 s1 spec, PickAt F P g cfg so s picks so' s' f pre post so1 s1 spec ∧
      (runPhases F P g cfg s1 spec).1 = .error ∧ m ∈ taskDesc g f := by
  have := Run.origin (F := F) (P := P) (g := g) (cfg := cfg) (φ := fun s => m ∈ s.failMarks)
    (ψ := fun s spec => (runPhases F P g cfg s spec).1 = .error ∧ m ∈ taskDesc g spec.id) (by
      intro s spec hφ
      simp only [protocol_failMarks] at hφ
      split at hφ
      · rename_i he
        rcases List.mem_append.1 hφ with h0 | h0
        · exact Or.inl h0
        · exact Or.inr ⟨he, h0⟩
      · exact Or.inl hφ) h hm
  rcases this with h0 | ⟨f, pre, post, so1, s1, spec, hpa, he, hd⟩
  · exact Or.inl h0
  · exact Or.inr ⟨f, pre, post, so1, s1, spec, hpa, he, by rw [← hpa.id_eq]; exact hd⟩

/-- The report appended at a pick is still there at the end. -/
theorem PickAt.report {so : Sorter} {s : Sess} {picks : List Nat} {so' : Sorter} {s' : Sess} {x : Nat}
    {pre post : List Nat} {so1 : Sorter} {s1 : Sess} {spec : TaskSpec}
    (h : PickAt F P g cfg so s picks so' s' x pre post so1 s1 spec) :
    (x, outc (runPhases F P g cfg s1 spec).1) ∈ s'.reports ∨
    ((runPhases F P g cfg s1 spec).1 = .none ∧ s'.crashed = true ∧ post = []) := by
  rcases protocol_reports (F := F) (P := P) (g := g) (cfg := cfg) s1 spec with hr | hr
  · left
    have hpre := h.hpost.reports_prefix
    apply hpre.subset
    rw [hr, h.id_eq]; simp
  · right
    obtain ⟨hp, hs⟩ := h.hpost.of_crashed (Or.inl hr.2.2)
    exact ⟨hr.1, by rw [hs]; exact hr.2.2, hp⟩

/-- The fail marks set at a pick are still there at the end. -/
theorem PickAt.marks {so : Sorter} {s : Sess} {picks : List Nat} {so' : Sorter} {s' : Sess} {x : Nat}
    {pre post : List Nat} {so1 : Sorter} {s1 : Sess} {spec : TaskSpec}
    (h : PickAt F P g cfg so s picks so' s' x pre post so1 s1 spec)
    (he : (runPhases F P g cfg s1 spec).1 = .error) (d : Nat) (hd : d ∈ taskDesc g x) : d ∈ s'.failMarks := by
  apply h.hpost.failMarks_mono
  rw [protocol_failMarks, if_pos he, h.id_eq]
  exact List.mem_append.2 (Or.inr hd)

/-! ### uniqueness of the position of a pick -/

theorem append_cons_unique {x : Nat} : ∀ {pre pre' post post' : List Nat},
    (pre ++ x :: post).Nodup → pre ++ x :: post = pre' ++ x :: post' → pre = pre' ∧ post = post'
  | [], [], _, _, _, h => by simpa using h
  | [], b :: pre', post, post', hn, h => by
    simp only [List.nil_append, List.cons_append, List.cons.injEq] at h
    obtain ⟨rfl, rfl⟩ := h
    simp at hn
  | a :: pre, [], post, post', hn, h => by
    simp only [List.nil_append, List.cons_append, List.cons.injEq] at h
    obtain ⟨rfl, rfl⟩ := h
    simp at hn
  | a :: pre, b :: pre', post, post', hn, h => by
    simp only [List.cons_append, List.cons.injEq] at h
    obtain ⟨rfl, h⟩ := h
    have hn' : (pre ++ x :: post).Nodup := (List.nodup_cons.1 (by simpa using hn)).2
    obtain ⟨rfl, rfl⟩ := append_cons_unique hn' h
    exact ⟨rfl, rfl⟩

theorem PickAt.unique {so : Sorter} {s : Sess} {picks : List Nat} {so' : Sorter} {s' : Sess} {x : Nat}
    {pre post pre' post' : List Nat} {so1 so2 : Sorter} {s1 s2 : Sess} {spec spec' : TaskSpec} (hn : picks.Nodup)
    (h : PickAt F P g cfg so s picks so' s' x pre post so1 s1 spec)
    (h' : PickAt F P g cfg so s picks so' s' x pre' post' so2 s2 spec') :
    pre = pre' ∧ post = post' ∧ so1 = so2 ∧ s1 = s2 ∧ spec = spec' := by
  have e := h.hp.symm.trans h'.hp
  obtain ⟨rfl, rfl⟩ := append_cons_unique (by rw [← h.hp]; exact hn) e
  obtain ⟨rfl, rfl⟩ := Run.det h.hpre h'.hpre
  have := h.hfind.symm.trans h'.hfind
  simp only [Option.some.injEq] at this
  exact ⟨rfl, rfl, rfl, rfl, this⟩

/-- A pick of a prefix run is the same pick of the whole run. -/
theorem PickAt.extend {so : Sorter} {s : Sess} {mid : List Nat} {som : Sorter} {sm : Sess} {x : Nat}
    {pre post : List Nat} {so1 : Sorter} {s1 : Sess} {spec : TaskSpec} {rest : List Nat} {so' : Sorter} {s' : Sess}
    (h : PickAt F P g cfg so s mid som sm x pre post so1 s1 spec) (hr : Run F P g cfg som sm rest so' s') :
    PickAt F P g cfg so s (mid ++ rest) so' s' x pre (post ++ rest) so1 s1 spec :=
  ⟨by rw [h.hp]; simp, h.hpre, h.hstop, h.hcr, h.hfind, h.hpost.append hr⟩

end Engine
end Pytask
